#!/bin/bash
# usage: ./check.sh <property id> [quick|thorough]
# Decides one property of /verif/properties.jsonl by static analysis of /repo's
# current working tree. Exit 0 = holds on everything analysed; exit 1 + VIOLATION
# line = a construct violating a rule of the property; exit 2 = the checker itself
# could not decide (unresolved anchor, type errors, internal error).
set -u
cd "$(dirname "$0")"
export GOFLAGS=-mod=mod GOPROXY=off GOSUMDB=off GOTOOLCHAIN=local GOWORK=off
unset GOROOT 2>/dev/null || true
PROP="${1:?property id}"
TIER="${2:-${VERIF_TIER:-quick}}"
VERIF_DIR="$(pwd)"
mkdir -p bin evidence
# rebuild the checker from source on every run (cached build: <1s)
( cd sa && go build -o "$VERIF_DIR/bin/verifsa" ./cmd/verifsa ) || { echo "CHECK-ERROR cannot build checker"; exit 2; }
if [ "$TIER" = "thorough" ]; then
  exec "$VERIF_DIR/bin/verifsa" thorough -p "$PROP" -verif "$VERIF_DIR"
fi
exec "$VERIF_DIR/bin/verifsa" check -p "$PROP" -tier quick -verif "$VERIF_DIR"
