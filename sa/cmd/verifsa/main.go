// Command verifsa decides the properties of /verif/properties.jsonl for
// go-openapi/analysis by static analysis of /repo's current working tree.
package main

import (
	"flag"
	"fmt"
	"os"
	"runtime/debug"
	"strconv"
	"time"

	"verif/sa/internal/core"
	"verif/sa/internal/rules"
)

func main() {
	if len(os.Args) < 2 {
		fmt.Println("usage: verifsa check -p <id> [-tier quick|thorough] | rules | dump")
		os.Exit(2)
	}
	switch os.Args[1] {
	case "check":
		os.Exit(check(os.Args[2:]))
	case "thorough":
		os.Exit(thorough(os.Args[2:]))
	case "seeded":
		os.Exit(seededAll(os.Args[2:]))
	case "benign":
		os.Exit(benignAll(os.Args[2:]))
	case "mutant":
		os.Exit(oneMutant(os.Args[2:]))
	case "rules":
		for _, r := range rules.All() {
			fmt.Printf("%-24s %v  %s\n", r.Name, r.Props, r.Doc)
		}
	case "effects":
		prog, err := core.Load(core.LoadOptions{})
		if err != nil {
			fmt.Println(err)
			os.Exit(2)
		}
		rules.DumpEffects(&rules.Ctx{P: prog, S: core.NewSink()}, os.Args[2])
	case "events":
		prog, err := core.Load(core.LoadOptions{})
		if err != nil {
			fmt.Println(err)
			os.Exit(2)
		}
		rules.DumpEvents(&rules.Ctx{P: prog, S: core.NewSink()})
	default:
		fmt.Println("unknown command", os.Args[1])
		os.Exit(2)
	}
}

func check(args []string) (code int) {
	fs := flag.NewFlagSet("check", flag.ExitOnError)
	prop := fs.String("p", "", "property id")
	tier := fs.String("tier", "quick", "quick|thorough")
	verif := fs.String("verif", "/verif", "verif directory")
	repo := fs.String("repo", "", "repository root (default $VERIF_REPO or /repo)")
	overlay := fs.String("overlay", "", "JSON overlay file (mutant)")
	noEvidence := fs.Bool("no-evidence", false, "do not write evidence (mutant runs)")
	only := fs.String("rule", "", "run only this rule")
	_ = fs.Parse(args)
	start := time.Now()
	seed, _ := strconv.Atoi(os.Getenv("VERIF_SEED"))
	if t := os.Getenv("VERIF_TIER"); t != "" && *tier == "" {
		*tier = t
	}
	defer func() {
		if r := recover(); r != nil {
			fmt.Printf("CHECK-ERROR property=%s panic in checker: %v\n%s\n", *prop, r, debug.Stack())
			code = 2
		}
	}()
	lo := core.LoadOptions{Dir: *repo}
	if *overlay != "" {
		dir := *repo
		if dir == "" {
			dir = os.Getenv("VERIF_REPO")
		}
		if dir == "" {
			dir = "/repo"
		}
		ov, err := core.LoadOverlayFile(dir, *overlay)
		if err != nil {
			fmt.Println("CHECK-ERROR overlay:", err)
			return 2
		}
		lo.Overlay = ov
	}
	prog, err := core.Load(lo)
	if err != nil {
		fmt.Printf("CHECK-ERROR property=%s load failed: %v\n", *prop, err)
		return 2
	}
	known, err := core.LoadKnown(*verif + "/known_findings.json")
	if err != nil {
		fmt.Println("CHECK-ERROR known findings:", err)
		return 2
	}
	sink := core.NewSink()
	ctx := &rules.Ctx{P: prog, S: sink}
	rs := rules.For(*prop)
	if len(rs) == 0 {
		fmt.Printf("CHECK-ERROR property=%s has no rules\n", *prop)
		return 2
	}
	var ran []string
	for _, r := range rs {
		if *only != "" && r.Name != *only {
			continue
		}
		r.Run(ctx)
		ran = append(ran, r.Name)
	}
	meta := rules.Meta(*prop)
	extra := map[string]any{
		"rules_run":          ran,
		"functions_analysed": len(prog.Funcs),
		"packages_analysed":  len(prog.Pkgs),
	}
	if *noEvidence {
		return core.Summarize(*prop, sink, known)
	}
	return core.Finish(*verif, *prop, *tier, seed, start, sink, known, meta.Explanation, meta.NotDecided, meta.Assumptions, extra)
}
