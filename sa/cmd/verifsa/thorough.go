package main

import (
	"crypto/sha256"
	"encoding/hex"
	"encoding/json"
	"flag"
	"fmt"
	"os"
	"path/filepath"
	"runtime/debug"
	"sort"
	"strconv"
	"strings"
	"sync"
	"time"

	"verif/sa/internal/core"
	"verif/sa/internal/rules"
)

// Mutant is one text edit of /repo used to validate the rules (never applied on disk).
type Mutant struct {
	Name     string   `json:"name"`
	File     string   `json:"file"`
	Old      string   `json:"old"`
	New      string   `json:"new"`
	Kind     string   `json:"kind"` // breaking | benign
	Props    []string `json:"props"`
	Expect   string   `json:"expect"` // substring of the obligation key expected to be violated (breaking)
	Why      string   `json:"why"`
	Occur    int      `json:"occurrence"` // which occurrence of Old (1-based, default 1)
	fileName string
}

type mutantResult struct {
	Name     string   `json:"name"`
	Kind     string   `json:"kind"`
	Outcome  string   `json:"outcome"` // detected | detected-other | missed | silent | false-alarm | stale | error
	Reported []string `json:"reported,omitempty"`
	Why      string   `json:"why,omitempty"`
}

func loadMutants(dir string) ([]Mutant, error) {
	files, _ := filepath.Glob(filepath.Join(dir, "*.json"))
	sort.Strings(files)
	var out []Mutant
	for _, f := range files {
		b, err := os.ReadFile(f)
		if err != nil {
			return nil, err
		}
		var ms []Mutant
		if err := json.Unmarshal(b, &ms); err != nil {
			return nil, fmt.Errorf("%s: %w", f, err)
		}
		for i := range ms {
			ms[i].fileName = filepath.Base(f)
			if ms[i].Occur == 0 {
				ms[i].Occur = 1
			}
		}
		out = append(out, ms...)
	}
	return out, nil
}

func applyMutant(repo string, m Mutant) (map[string][]byte, bool, error) {
	path := filepath.Join(repo, m.File)
	b, err := os.ReadFile(path)
	if err != nil {
		return nil, false, err
	}
	s := string(b)
	idx := -1
	from := 0
	for n := 0; n < m.Occur; n++ {
		i := strings.Index(s[from:], m.Old)
		if i < 0 {
			return nil, true, nil // stale
		}
		idx = from + i
		from = idx + len(m.Old)
	}
	s = s[:idx] + m.New + s[idx+len(m.Old):]
	return map[string][]byte{path: []byte(s)}, false, nil
}

func runMutant(repo string, m Mutant, prop string, known *core.KnownFile) (res mutantResult) {
	res = mutantResult{Name: m.Name, Kind: m.Kind, Why: m.Why}
	defer func() {
		if r := recover(); r != nil {
			res.Outcome = "error"
			res.Reported = []string{fmt.Sprintf("panic: %v\n%s", r, debug.Stack())}
		}
	}()
	ov, stale, err := applyMutant(repo, m)
	if err != nil {
		res.Outcome = "error"
		res.Reported = []string{err.Error()}
		return
	}
	if stale {
		res.Outcome = "stale"
		return
	}
	prog, err := core.Load(core.LoadOptions{Dir: repo, Overlay: ov})
	if err != nil {
		res.Outcome = "error"
		res.Reported = []string{"mutant does not type-check: " + err.Error()}
		return
	}
	sink := core.NewSink()
	ctx := &rules.Ctx{P: prog, S: sink}
	for _, r := range rules.For(prop) {
		r.Run(ctx)
	}
	rules.Forget(prog)
	knownSet := map[string]bool{}
	for _, k := range known.Known {
		knownSet[k.Property+"|"+k.Key] = true
	}
	var viol, undec []string
	for _, o := range sink.Obs {
		if o.Property != prop {
			continue
		}
		if o.Verdict == core.Violated && !knownSet[o.Property+"|"+o.Key] {
			viol = append(viol, o.Key)
		}
		if o.Verdict == core.Undecided {
			undec = append(undec, "UNDECIDED "+o.Key)
		}
	}
	res.Reported = append(viol, undec...)
	switch m.Kind {
	case "benign":
		if len(viol) > 0 || len(undec) > 0 {
			res.Outcome = "false-alarm"
		} else {
			res.Outcome = "silent"
		}
	default:
		hit := false
		for _, v := range viol {
			if m.Expect == "" || strings.Contains(v, m.Expect) {
				hit = true
			}
		}
		switch {
		case hit:
			res.Outcome = "detected"
		case len(viol) > 0:
			res.Outcome = "detected-other"
		default:
			res.Outcome = "missed"
		}
	}
	return
}

// thorough = quick check on /repo + positive controls + mutant corpus of the property.
func thorough(args []string) int {
	fs := flag.NewFlagSet("thorough", flag.ExitOnError)
	prop := fs.String("p", "", "property id")
	verif := fs.String("verif", "/verif", "verif directory")
	repo := fs.String("repo", "", "repository root")
	_ = fs.Parse(args)
	start := time.Now()
	seed, _ := strconv.Atoi(os.Getenv("VERIF_SEED"))
	dir := *repo
	if dir == "" {
		dir = os.Getenv("VERIF_REPO")
	}
	if dir == "" {
		dir = "/repo"
	}
	prog, err := core.Load(core.LoadOptions{Dir: dir})
	if err != nil {
		fmt.Printf("CHECK-ERROR property=%s load failed: %v\n", *prop, err)
		return 2
	}
	known, err := core.LoadKnown(*verif + "/known_findings.json")
	if err != nil {
		fmt.Println("CHECK-ERROR known findings:", err)
		return 2
	}
	sink := core.NewSink()
	ctx := &rules.Ctx{P: prog, S: sink}
	rs := rules.For(*prop)
	if len(rs) == 0 {
		fmt.Printf("CHECK-ERROR property=%s has no rules\n", *prop)
		return 2
	}
	var ran []string
	for _, r := range rs {
		r.Run(ctx)
		ran = append(ran, r.Name)
	}
	// call-graph cross-check and controls
	extra := map[string]any{"rules_run": ran, "functions_analysed": len(prog.Funcs), "packages_analysed": len(prog.Pkgs)}
	for k, v := range rules.ThoroughExtras(ctx, *prop, *verif) {
		extra[k] = v
	}
	// mutants
	ms, err := loadMutants(filepath.Join(*verif, "mutants"))
	if err != nil {
		fmt.Println("CHECK-ERROR mutants:", err)
		return 2
	}
	var mine []Mutant
	for _, m := range ms {
		for _, p := range m.Props {
			if p == *prop {
				mine = append(mine, m)
			}
		}
	}
	if seed != 0 {
		// seed only permutes the order in which mutants are evaluated
		for i := range mine {
			j := (i*7919 + seed) % len(mine)
			if j < 0 {
				j = -j
			}
			mine[i], mine[j] = mine[j], mine[i]
		}
	}
	results := make([]mutantResult, len(mine))
	sem := make(chan struct{}, 6)
	var wg sync.WaitGroup
	for i := range mine {
		wg.Add(1)
		sem <- struct{}{}
		go func(i int) {
			defer wg.Done()
			defer func() { <-sem }()
			results[i] = runMutant(dir, mine[i], *prop, known)
		}(i)
	}
	wg.Wait()
	sort.Slice(results, func(i, j int) bool { return results[i].Name < results[j].Name })
	counts := map[string]int{}
	var missed, falseAlarms []string
	for _, r := range results {
		counts[r.Outcome]++
		switch r.Outcome {
		case "missed":
			missed = append(missed, r.Name)
		case "false-alarm", "error":
			falseAlarms = append(falseAlarms, r.Name+": "+strings.Join(r.Reported, "; "))
		}
	}
	// behaviour-preserving refactorings: must stay silent
	bvs := loadBenign(filepath.Join(*verif, "benign"))
	bres := make([]mutantResult, len(bvs))
	for i := range bvs {
		wg.Add(1)
		sem <- struct{}{}
		go func(i int) {
			defer wg.Done()
			defer func() { <-sem }()
			bres[i] = runBenign(dir, bvs[i], *prop, known)
		}(i)
	}
	wg.Wait()
	for _, r := range bres {
		counts["refactoring-"+r.Outcome]++
		if r.Outcome == "false-alarm" || r.Outcome == "error" {
			falseAlarms = append(falseAlarms, r.Name+": "+strings.Join(r.Reported, "; "))
		}
	}
	// independently written breaking changes (seeded): replayed for the property they were written against
	// and for every property whose check reported them when they were collected
	var sres []mutantResult
	for _, sv := range loadSeeded(filepath.Join(*verif, "seeded")) {
		applies := sv.Property == *prop
		for _, p := range sv.Reporting {
			if p == *prop {
				applies = true
			}
		}
		if !applies {
			continue
		}
		r := runBenign(dir, sv.benignVariant, *prop, known)
		r.Name = "seeded/" + sv.Name
		r.Kind = "seeded"
		switch r.Outcome {
		case "false-alarm":
			r.Outcome = "detected"
		case "silent":
			r.Outcome = "missed"
			if len(sv.Reporting) > 0 {
				r.Outcome = "reported-by-another-property"
				r.Reported = sv.Reporting
			}
		}
		counts["seeded-"+r.Outcome]++
		sres = append(sres, r)
	}
	extra["seeded"] = sres
	extra["refactorings"] = bres
	extra["mutants"] = results
	extra["mutant_counts"] = counts
	extra["mutants_missed"] = missed
	fmt.Printf("mutants for %s: %v\n", *prop, counts)
	for _, m := range missed {
		fmt.Printf("  note: mutant %s not detected (measures the checker, not /repo)\n", m)
	}
	meta := rules.Meta(*prop)
	code := core.Finish(*verif, *prop, "thorough", seed, start, sink, known, meta.Explanation, meta.NotDecided, meta.Assumptions, extra)
	if len(falseAlarms) > 0 && code == 0 {
		for _, f := range falseAlarms {
			fmt.Printf("CHECK-ERROR self-validation: rule raised an alarm on a benign variant or failed: %s\n", f)
		}
		return 2
	}
	return code
}

// oneMutant runs a single named mutant (debugging aid).
func oneMutant(args []string) int {
	fs := flag.NewFlagSet("mutant", flag.ExitOnError)
	prop := fs.String("p", "", "property id")
	name := fs.String("name", "", "mutant name")
	verif := fs.String("verif", "/verif", "verif directory")
	_ = fs.Parse(args)
	ms, err := loadMutants(filepath.Join(*verif, "mutants"))
	if err != nil {
		fmt.Println(err)
		return 2
	}
	known, _ := core.LoadKnown(*verif + "/known_findings.json")
	dir := os.Getenv("VERIF_REPO")
	if dir == "" {
		dir = "/repo"
	}
	for _, m := range ms {
		if m.Name == *name {
			r := runMutant(dir, m, *prop, known)
			fmt.Printf("%s: %s\n", r.Name, r.Outcome)
			for _, x := range r.Reported {
				fmt.Println("  ", x)
			}
			return 0
		}
	}
	fmt.Println("no such mutant")
	return 2
}

// benignVariant is a behaviour-preserving refactoring of /repo stored as full file contents.
type benignVariant struct {
	Name    string
	Summary string            `json:"summary"`
	Files   map[string]string `json:"files"`
	Base    map[string]string `json:"base_sha256"`
}

func loadBenign(dir string) []benignVariant {
	ds, _ := filepath.Glob(filepath.Join(dir, "*", "overlay.json"))
	sort.Strings(ds)
	var out []benignVariant
	for _, f := range ds {
		b, err := os.ReadFile(f)
		if err != nil {
			continue
		}
		var v benignVariant
		if json.Unmarshal(b, &v) != nil {
			continue
		}
		v.Name = filepath.Base(filepath.Dir(f))
		out = append(out, v)
	}
	return out
}

// runBenign replays one benign variant for one property; outcome silent | false-alarm | stale | error.
func runBenign(repo string, v benignVariant, prop string, known *core.KnownFile) (res mutantResult) {
	res = mutantResult{Name: "benign/" + v.Name, Kind: "benign", Why: v.Summary}
	defer func() {
		if r := recover(); r != nil {
			res.Outcome = "error"
			res.Reported = []string{fmt.Sprintf("panic: %v", r)}
		}
	}()
	ov := map[string][]byte{}
	for p, content := range v.Files {
		abs := filepath.Join(repo, p)
		cur, err := os.ReadFile(abs)
		if err == nil && v.Base[p] != "" {
			h := sha256.Sum256(cur)
			if hex.EncodeToString(h[:]) != v.Base[p] {
				res.Outcome = "stale"
				return
			}
		}
		ov[abs] = []byte(content)
	}
	prog, err := core.Load(core.LoadOptions{Dir: repo, Overlay: ov})
	if err != nil {
		res.Outcome = "error"
		res.Reported = []string{err.Error()}
		return
	}
	sink := core.NewSink()
	ctx := &rules.Ctx{P: prog, S: sink}
	for _, r := range rules.For(prop) {
		r.Run(ctx)
	}
	rules.Forget(prog)
	knownSet := map[string]bool{}
	for _, k := range known.Known {
		knownSet[k.Property+"|"+k.Key] = true
	}
	for _, o := range sink.Obs {
		if o.Property != prop {
			continue
		}
		if o.Verdict == core.Violated && !knownSet[o.Property+"|"+o.Key] {
			res.Reported = append(res.Reported, o.Key)
		}
		if o.Verdict == core.Undecided {
			res.Reported = append(res.Reported, "UNDECIDED "+o.Key)
		}
	}
	if len(res.Reported) > 0 {
		res.Outcome = "false-alarm"
	} else {
		res.Outcome = "silent"
	}
	return
}

// benignAll runs every benign variant against every property with rules (development aid and self-test).
func benignAll(args []string) int {
	fs := flag.NewFlagSet("benign", flag.ExitOnError)
	verif := fs.String("verif", "/verif", "verif directory")
	only := fs.String("name", "", "only this variant")
	_ = fs.Parse(args)
	known, _ := core.LoadKnown(*verif + "/known_findings.json")
	dir := os.Getenv("VERIF_REPO")
	if dir == "" {
		dir = "/repo"
	}
	props := []string{"C01", "C02", "C03", "C04", "C05", "C06", "C07", "C09", "C10", "C11", "C12", "C13", "C14", "C15", "C16", "C17", "C18", "C19", "C20"}
	knownSet := map[string]bool{}
	for _, k := range known.Known {
		knownSet[k.Property+"|"+k.Key] = true
	}
	bad, runs := 0, 0
	for _, v := range loadBenign(filepath.Join(*verif, "benign")) {
		if *only != "" && v.Name != *only && !(strings.HasSuffix(*only, "*") && strings.HasPrefix(v.Name, strings.TrimSuffix(*only, "*"))) {
			continue
		}
		ov := map[string][]byte{}
		stale := false
		for p, content := range v.Files {
			abs := filepath.Join(dir, p)
			cur, err := os.ReadFile(abs)
			if err == nil && v.Base[p] != "" {
				h := sha256.Sum256(cur)
				if hex.EncodeToString(h[:]) != v.Base[p] {
					stale = true
				}
			}
			ov[abs] = []byte(content)
		}
		if stale {
			fmt.Printf("benign/%s: stale (base file changed)\n", v.Name)
			continue
		}
		prog, err := core.Load(core.LoadOptions{Dir: dir, Overlay: ov})
		if err != nil {
			fmt.Printf("benign/%s: does not load: %v\n", v.Name, err)
			bad++
			continue
		}
		for _, p := range props {
			runs++
			func() {
				defer func() {
					if r := recover(); r != nil {
						fmt.Printf("benign/%s %s: panic %v\n", v.Name, p, r)
						bad++
					}
				}()
				sink := core.NewSink()
				ctx := &rules.Ctx{P: prog, S: sink}
				for _, r := range rules.For(p) {
					r.Run(ctx)
				}
				var rep []string
				for _, o := range sink.Obs {
					if o.Property != p {
						continue
					}
					if o.Verdict == core.Violated && !knownSet[o.Property+"|"+o.Key] {
						rep = append(rep, o.Key)
					}
					if o.Verdict == core.Undecided {
						rep = append(rep, "UNDECIDED "+o.Key)
					}
				}
				if len(rep) > 0 {
					bad++
					r := strings.Join(rep, "; ")
					if len(r) > 280 {
						r = r[:280]
					}
					fmt.Printf("benign/%s %s: %s\n", v.Name, p, r)
				}
			}()
		}
		rules.Forget(prog)
	}
	fmt.Printf("benign variants × properties: %d runs, %d not silent\n", runs, bad)
	if bad > 0 {
		return 1
	}
	return 0
}

type seededVariant struct {
	benignVariant
	Property  string
	Reporting []string
}

func loadSeeded(dir string) []seededVariant {
	ds, _ := filepath.Glob(filepath.Join(dir, "*", "overlay.json"))
	sort.Strings(ds)
	var out []seededVariant
	for _, f := range ds {
		b, err := os.ReadFile(f)
		if err != nil {
			continue
		}
		var v seededVariant
		if json.Unmarshal(b, &v.benignVariant) != nil {
			continue
		}
		v.Name = filepath.Base(filepath.Dir(f))
		var meta struct {
			Property    string              `json:"property"`
			Checks      map[string][]string `json:"checks_reporting"`
			Neutralised string              `json:"neutralised"`
		}
		if mb, err := os.ReadFile(filepath.Join(filepath.Dir(f), "meta.json")); err == nil {
			_ = json.Unmarshal(mb, &meta)
		}
		if meta.Neutralised != "" {
			continue // no longer breaks the property on the current tree (a later fix made it harmless): kept, not replayed
		}
		v.Property = meta.Property
		for p := range meta.Checks {
			v.Reporting = append(v.Reporting, p)
		}
		sort.Strings(v.Reporting)
		out = append(out, v)
	}
	return out
}

// seededAll re-evaluates every seeded change against every property (development aid): prints which properties report it.
func seededAll(args []string) int {
	fs := flag.NewFlagSet("seeded", flag.ExitOnError)
	verif := fs.String("verif", "/verif", "verif directory")
	only := fs.String("name", "", "only the variants whose name contains one of these comma-separated strings")
	onlyProps := fs.String("p", "", "only these comma-separated properties")
	_ = fs.Parse(args)
	known, _ := core.LoadKnown(*verif + "/known_findings.json")
	dir := os.Getenv("VERIF_REPO")
	if dir == "" {
		dir = "/repo"
	}
	props := []string{"C01", "C02", "C03", "C04", "C05", "C06", "C07", "C09", "C10", "C11", "C12", "C13", "C14", "C15", "C16", "C17", "C18", "C19", "C20"}
	if *onlyProps != "" {
		props = strings.Split(*onlyProps, ",")
	}
	knownSet := map[string]bool{}
	for _, k := range known.Known {
		knownSet[k.Property+"|"+k.Key] = true
	}
	caught := 0
	total := 0
	for _, v := range loadSeeded(filepath.Join(*verif, "seeded")) {
		if *only != "" {
			match := false
			for _, w := range strings.Split(*only, ",") {
				match = match || strings.Contains(v.Name, w)
			}
			if !match {
				continue
			}
		}
		ov := map[string][]byte{}
		for p, content := range v.Files {
			ov[filepath.Join(dir, p)] = []byte(content)
		}
		prog, err := core.Load(core.LoadOptions{Dir: dir, Overlay: ov})
		if err != nil {
			fmt.Printf("%s: does not load: %v\n", v.Name, err)
			continue
		}
		total++
		rep := map[string][]string{}
		for _, p := range props {
			sink := core.NewSink()
			ctx := &rules.Ctx{P: prog, S: sink}
			func() {
				defer func() {
					if r := recover(); r != nil {
						fmt.Printf("PANIC %s %s: %v\n", v.Name, p, r)
					}
				}()
				for _, r := range rules.For(p) {
					r.Run(ctx)
				}
			}()
			for _, o := range sink.Obs {
				if o.Property == p && o.Verdict == core.Violated && !knownSet[o.Property+"|"+o.Key] {
					rep[p] = append(rep[p], o.Key)
				}
			}
		}
		rules.Forget(prog)
		b, _ := json.Marshal(rep)
		if len(rep) > 0 {
			caught++
		}
		fmt.Printf("SEEDED %s %s\n", v.Name, string(b))
	}
	fmt.Printf("seeded changes: %d, reported by at least one check: %d\n", total, caught)
	return 0
}
