package core

import (
	"go/ast"
	"go/types"
	"sort"

	"golang.org/x/tools/go/types/typeutil"
)

// StaticCallee resolves the callee of a call expression through type
// information: functions, methods, method values; nil for closures held in
// variables, builtins, conversions and interface dispatch (see Callees).
func (p *Program) StaticCallee(fi *FuncInfo, call *ast.CallExpr) *types.Func {
	fn := typeutil.StaticCallee(fi.Pkg.TypesInfo, call)
	if fn == nil {
		return nil
	}
	return fn.Origin()
}

// CalleeAny resolves also interface-method callees (returns the abstract method).
func (p *Program) CalleeAny(fi *FuncInfo, call *ast.CallExpr) *types.Func {
	if fn, ok := typeutil.Callee(fi.Pkg.TypesInfo, call).(*types.Func); ok {
		return fn.Origin()
	}
	return nil
}

// Callees returns every module function the call may invoke: the static
// callee, the implementations of an interface method among module types, and
// the body of a closure bound to a local variable (returned as closures).
func (p *Program) Callees(fi *FuncInfo, call *ast.CallExpr) (fns []*types.Func, closures []*ast.FuncLit) {
	info := fi.Pkg.TypesInfo
	if fn := p.StaticCallee(fi, call); fn != nil {
		return []*types.Func{fn}, nil
	}
	if fn := p.CalleeAny(fi, call); fn != nil {
		// interface method: find implementations in the module
		sig := fn.Type().(*types.Signature)
		if sig.Recv() != nil {
			if iface, ok := sig.Recv().Type().Underlying().(*types.Interface); ok {
				for _, cand := range p.SortedFuncs() {
					if cand.Obj.Name() != fn.Name() {
						continue
					}
					csig := cand.Obj.Type().(*types.Signature)
					if csig.Recv() == nil {
						continue
					}
					if types.Implements(csig.Recv().Type(), iface) {
						fns = append(fns, cand.Obj)
					}
				}
				return fns, nil
			}
		}
		return []*types.Func{fn}, nil
	}
	// a local variable holding named functions (assigned, or ranging over a table of functions)
	if vals := p.funcValues(fi, call.Fun, 0); len(vals) > 0 {
		var lits []*ast.FuncLit
		if o := ObjOf(info, call.Fun); o != nil {
			for _, d := range p.Locals(fi).Defs[o] {
				if d.Kind == DefRangeVal {
					lits = append(lits, p.litElems(fi, d.Expr, 0)...)
				}
			}
		}
		return vals, lits
	}
	// closure variable (assigned a function literal, or ranging over a table that contains function literals)
	if o := ObjOf(info, call.Fun); o != nil {
		for _, d := range p.Locals(fi).Defs[o] {
			switch d.Kind {
			case DefAssign:
				if fl, ok := Unparen(d.Expr).(*ast.FuncLit); ok {
					closures = append(closures, fl)
				}
			case DefRangeVal:
				closures = append(closures, p.litElems(fi, d.Expr, 0)...)
			}
		}
	}
	if fl, ok := Unparen(call.Fun).(*ast.FuncLit); ok {
		closures = append(closures, fl)
	}
	return nil, closures
}

// CallSite is one call inside a module function.
type CallSite struct {
	Caller *FuncInfo
	Call   *ast.CallExpr
	Callee *types.Func // resolved (module or external); nil when dynamic
}

// CallGraph maps module functions to their call sites.
type CallGraph struct {
	Out map[*types.Func][]CallSite
	In  map[*types.Func][]CallSite
}

// CG builds (once) the call graph of the module. Calls inside closures are
// attributed to the enclosing declared function. Function values passed as
// arguments or stored (method values, func identifiers) count as calls.
func (p *Program) CG() *CallGraph {
	if p.cg != nil {
		return p.cg
	}
	g := &CallGraph{Out: map[*types.Func][]CallSite{}, In: map[*types.Func][]CallSite{}}
	for _, fi := range p.SortedFuncs() {
		fi := fi
		callFuns := map[ast.Expr]bool{}
		ast.Inspect(fi.Decl.Body, func(n ast.Node) bool {
			call, ok := n.(*ast.CallExpr)
			if !ok {
				return true
			}
			callFuns[Unparen(call.Fun)] = true
			fns, _ := p.Callees(fi, call)
			if len(fns) == 0 {
				g.Out[fi.Obj] = append(g.Out[fi.Obj], CallSite{Caller: fi, Call: call})
				return true
			}
			for _, fn := range fns {
				cs := CallSite{Caller: fi, Call: call, Callee: fn}
				g.Out[fi.Obj] = append(g.Out[fi.Obj], cs)
				g.In[fn] = append(g.In[fn], cs)
			}
			return true
		})
		// function values not in call position
		ast.Inspect(fi.Decl.Body, func(n ast.Node) bool {
			var id *ast.Ident
			switch x := n.(type) {
			case *ast.Ident:
				id = x
			case *ast.SelectorExpr:
				if callFuns[x] {
					return true
				}
				id = x.Sel
			default:
				return true
			}
			if callFuns[ast.Expr(id)] {
				return true
			}
			if fn, ok := fi.Pkg.TypesInfo.Uses[id].(*types.Func); ok {
				fn = fn.Origin()
				if _, isMod := p.Funcs[fn]; isMod {
					// is this ident the Fun of a call? (handled above)
					for cf := range callFuns {
						if cf == ast.Expr(id) {
							return true
						}
						if se, ok := cf.(*ast.SelectorExpr); ok && se.Sel == id {
							return true
						}
					}
					cs := CallSite{Caller: fi, Callee: fn}
					g.Out[fi.Obj] = append(g.Out[fi.Obj], cs)
					g.In[fn] = append(g.In[fn], cs)
				}
			}
			return true
		})
	}
	p.cg = g
	return g
}

// Reachable returns the module functions reachable from the roots (inclusive).
func (p *Program) Reachable(roots ...*FuncInfo) map[*FuncInfo]bool {
	g := p.CG()
	seen := map[*FuncInfo]bool{}
	var visit func(f *FuncInfo)
	visit = func(f *FuncInfo) {
		if f == nil || seen[f] {
			return
		}
		seen[f] = true
		for _, cs := range g.Out[f.Obj] {
			if cs.Callee != nil {
				visit(p.Funcs[cs.Callee])
			}
		}
	}
	for _, r := range roots {
		visit(r)
	}
	return seen
}

// SortedSet returns the functions of a set in deterministic order.
func SortedSet(s map[*FuncInfo]bool) []*FuncInfo {
	out := make([]*FuncInfo, 0, len(s))
	for f := range s {
		out = append(out, f)
	}
	sort.Slice(out, func(i, j int) bool { return out[i].QName() < out[j].QName() })
	return out
}

// SCCs returns the strongly connected components (size>1 or self-loop) of the module call graph.
func (p *Program) SCCs() [][]*FuncInfo {
	g := p.CG()
	index := 0
	idx := map[*types.Func]int{}
	low := map[*types.Func]int{}
	on := map[*types.Func]bool{}
	var stack []*types.Func
	var out [][]*FuncInfo
	var strong func(v *types.Func)
	strong = func(v *types.Func) {
		idx[v] = index
		low[v] = index
		index++
		stack = append(stack, v)
		on[v] = true
		for _, cs := range g.Out[v] {
			w := cs.Callee
			if w == nil || p.Funcs[w] == nil {
				continue
			}
			if _, ok := idx[w]; !ok {
				strong(w)
				if low[w] < low[v] {
					low[v] = low[w]
				}
			} else if on[w] && idx[w] < low[v] {
				low[v] = idx[w]
			}
		}
		if low[v] == idx[v] {
			var comp []*FuncInfo
			for {
				w := stack[len(stack)-1]
				stack = stack[:len(stack)-1]
				on[w] = false
				comp = append(comp, p.Funcs[w])
				if w == v {
					break
				}
			}
			self := false
			if len(comp) == 1 {
				for _, cs := range g.Out[v] {
					if cs.Callee == v {
						self = true
					}
				}
			}
			if len(comp) > 1 || self {
				sort.Slice(comp, func(i, j int) bool { return comp[i].QName() < comp[j].QName() })
				out = append(out, comp)
			}
		}
	}
	for _, fi := range p.SortedFuncs() {
		if _, ok := idx[fi.Obj]; !ok {
			strong(fi.Obj)
		}
	}
	sort.Slice(out, func(i, j int) bool { return out[i][0].QName() < out[j][0].QName() })
	return out
}

// funcValues resolves a function-valued expression to the declared functions it may denote:
// a function or method identifier, a local assigned from one, or the loop variable of a range over a
// composite literal (table) of functions.
func (p *Program) funcValues(fi *FuncInfo, e ast.Expr, depth int) []*types.Func {
	if depth > 4 {
		return nil
	}
	info := fi.Pkg.TypesInfo
	e = Unparen(e)
	switch x := e.(type) {
	case *ast.Ident:
		switch o := info.Uses[x].(type) {
		case *types.Func:
			return []*types.Func{o.Origin()}
		case *types.Var:
			var out []*types.Func
			for _, d := range p.Locals(fi).Defs[o] {
				switch d.Kind {
				case DefAssign:
					out = append(out, p.funcValues(fi, d.Expr, depth+1)...)
				case DefRangeVal:
					out = append(out, p.funcElems(fi, d.Expr, depth+1)...)
				}
			}
			return out
		}
	case *ast.SelectorExpr:
		if o, ok := info.Uses[x.Sel].(*types.Func); ok {
			return []*types.Func{o.Origin()}
		}
		// field of a struct element of a table: tbl[i].fn — not resolved
	}
	return nil
}

// funcElems: the function-valued elements of a slice/array/map expression.
func (p *Program) funcElems(fi *FuncInfo, e ast.Expr, depth int) []*types.Func {
	if depth > 4 {
		return nil
	}
	info := fi.Pkg.TypesInfo
	switch x := Unparen(e).(type) {
	case *ast.CompositeLit:
		var out []*types.Func
		for _, el := range x.Elts {
			if kv, ok := el.(*ast.KeyValueExpr); ok {
				el = kv.Value
			}
			out = append(out, p.funcValues(fi, el, depth+1)...)
		}
		return out
	case *ast.Ident:
		if o, ok := info.Uses[x].(*types.Var); ok {
			var out []*types.Func
			for _, d := range p.Locals(fi).Defs[o] {
				if d.Kind == DefAssign {
					out = append(out, p.funcElems(fi, d.Expr, depth+1)...)
				}
			}
			return out
		}
	}
	return nil
}

// litElems: the function literals among the elements of a slice/array/map expression (a table of steps).
func (p *Program) litElems(fi *FuncInfo, e ast.Expr, depth int) []*ast.FuncLit {
	if depth > 4 {
		return nil
	}
	info := fi.Pkg.TypesInfo
	switch x := Unparen(e).(type) {
	case *ast.CompositeLit:
		var out []*ast.FuncLit
		for _, el := range x.Elts {
			if kv, ok := el.(*ast.KeyValueExpr); ok {
				el = kv.Value
			}
			if fl, ok := Unparen(el).(*ast.FuncLit); ok {
				out = append(out, fl)
				continue
			}
			// an element naming a local closure: step := func(…){…}; table{…, step, …}
			if id, ok := Unparen(el).(*ast.Ident); ok {
				if o, ok := info.Uses[id].(*types.Var); ok {
					for _, d := range p.Locals(fi).Defs[o] {
						if d.Kind == DefAssign {
							if fl, ok := Unparen(d.Expr).(*ast.FuncLit); ok {
								out = append(out, fl)
							}
						}
					}
				}
			}
		}
		return out
	case *ast.Ident:
		if o, ok := info.Uses[x].(*types.Var); ok {
			var out []*ast.FuncLit
			for _, d := range p.Locals(fi).Defs[o] {
				if d.Kind == DefAssign {
					out = append(out, p.litElems(fi, d.Expr, depth+1)...)
				}
			}
			return out
		}
	}
	return nil
}

// FuncValueExprs: the expressions (function names, method values x.m, function literals) a function-valued
// expression may denote, in source order — through locals, range variables over table literals and tables held
// in locals. The order is the order of the table's elements, i.e. the order in which a loop over it runs them.
func (p *Program) FuncValueExprs(fi *FuncInfo, e ast.Expr) []ast.Expr {
	return p.funcValueExprs(fi, e, 0, false)
}

func (p *Program) funcValueExprs(fi *FuncInfo, e ast.Expr, depth int, elems bool) []ast.Expr {
	if depth > 5 {
		return nil
	}
	info := fi.Pkg.TypesInfo
	e = Unparen(e)
	if elems {
		switch x := e.(type) {
		case *ast.CompositeLit:
			var out []ast.Expr
			for _, el := range x.Elts {
				if kv, ok := el.(*ast.KeyValueExpr); ok {
					el = kv.Value
				}
				out = append(out, p.funcValueExprs(fi, el, depth+1, false)...)
			}
			return out
		case *ast.Ident:
			if o, ok := info.Uses[x].(*types.Var); ok {
				var out []ast.Expr
				for _, d := range p.Locals(fi).Defs[o] {
					if d.Kind == DefAssign {
						out = append(out, p.funcValueExprs(fi, d.Expr, depth+1, true)...)
					}
				}
				return out
			}
		}
		return nil
	}
	switch x := e.(type) {
	case *ast.FuncLit:
		return []ast.Expr{x}
	case *ast.Ident:
		switch o := info.Uses[x].(type) {
		case *types.Func:
			return []ast.Expr{x}
		case *types.Var:
			var out []ast.Expr
			for _, d := range p.Locals(fi).Defs[o] {
				switch d.Kind {
				case DefAssign:
					out = append(out, p.funcValueExprs(fi, d.Expr, depth+1, false)...)
				case DefRangeVal:
					out = append(out, p.funcValueExprs(fi, d.Expr, depth+1, true)...)
				}
			}
			return out
		}
	case *ast.SelectorExpr:
		if _, ok := info.Uses[x.Sel].(*types.Func); ok {
			return []ast.Expr{x}
		}
	}
	return nil
}

// MethodValueRecv: for a call through a function value that may denote the method value recv.m with m == callee,
// the receiver expression (nil when the call is direct or the value is not a method value of callee).
func (p *Program) MethodValueRecv(fi *FuncInfo, call *ast.CallExpr, callee *types.Func) ast.Expr {
	info := fi.Pkg.TypesInfo
	if _, isSel := Unparen(call.Fun).(*ast.SelectorExpr); isSel {
		if o, ok := info.Uses[Unparen(call.Fun).(*ast.SelectorExpr).Sel].(*types.Func); ok && o.Origin() == callee {
			return nil
		}
	}
	for _, x := range p.FuncValueExprs(fi, call.Fun) {
		if sel, ok := x.(*ast.SelectorExpr); ok {
			if o, ok := info.Uses[sel.Sel].(*types.Func); ok && o.Origin() == callee {
				return sel.X
			}
		}
	}
	return nil
}

// SeqCall is one callee of a call site in execution order: calls through a table of steps are expanded to the
// table's elements (Sub is the element index).
type SeqCall struct {
	Call   *ast.CallExpr
	Callee *types.Func
	Sub    int
}

// Before reports whether a runs before b (same function, straight-line order of the source).
func (a SeqCall) Before(b SeqCall) bool {
	if a.Call.Pos() != b.Call.Pos() {
		return a.Call.Pos() < b.Call.Pos()
	}
	return a.Sub < b.Sub
}

// CallSequence lists the module-resolvable callees of the calls of a function body in source order, expanding
// calls through function values into the values' elements in table order.
func (p *Program) CallSequence(fi *FuncInfo) []SeqCall {
	var out []SeqCall
	info := fi.Pkg.TypesInfo
	ast.Inspect(fi.Decl.Body, func(n ast.Node) bool {
		call, ok := n.(*ast.CallExpr)
		if !ok {
			return true
		}
		if callee := p.StaticCallee(fi, call); callee != nil {
			out = append(out, SeqCall{Call: call, Callee: callee})
			return true
		}
		for i, x := range p.FuncValueExprs(fi, call.Fun) {
			var id *ast.Ident
			switch y := x.(type) {
			case *ast.Ident:
				id = y
			case *ast.SelectorExpr:
				id = y.Sel
			}
			if id == nil {
				continue
			}
			if o, ok := info.Uses[id].(*types.Func); ok {
				out = append(out, SeqCall{Call: call, Callee: o.Origin(), Sub: i})
			}
		}
		return true
	})
	sort.SliceStable(out, func(i, j int) bool { return out[i].Before(out[j]) })
	return out
}
