package core

import (
	"go/ast"
	"go/token"
	"go/types"
)

// CondKind classifies a path condition.
type CondKind int

const (
	CondBool     CondKind = iota // Expr is a boolean expression; Neg gives polarity
	CondRange                    // inside the body of `range Expr`
	CondCase                     // inside `switch Tag { case Values… }`
	CondTypeCase                 // inside `switch Tag.(type) { case Types… }`
)

// Cond is one condition that holds whenever a node is reached.
type Cond struct {
	Kind   CondKind
	Expr   ast.Expr // boolean expression / range operand / switch tag
	Neg    bool
	Values []ast.Expr // case values or types
	Stmt   ast.Node   // the statement that introduced it
}

// Parents maps every node of a function body to its parent.
type Parents map[ast.Node]ast.Node

// ParentMap builds the parent map of a function declaration.
func ParentMap(root ast.Node) Parents {
	pm := Parents{}
	var stack []ast.Node
	ast.Inspect(root, func(n ast.Node) bool {
		if n == nil {
			stack = stack[:len(stack)-1]
			return true
		}
		if len(stack) > 0 {
			pm[n] = stack[len(stack)-1]
		}
		stack = append(stack, n)
		return true
	})
	return pm
}

// Enclosing returns the innermost ancestor of n (inclusive) satisfying pred.
func (pm Parents) Enclosing(n ast.Node, pred func(ast.Node) bool) ast.Node {
	for n != nil {
		if pred(n) {
			return n
		}
		n = pm[n]
	}
	return nil
}

// EnclosingStmt returns the statement directly containing n.
func (pm Parents) EnclosingStmt(n ast.Node) ast.Stmt {
	for n != nil {
		if s, ok := n.(ast.Stmt); ok {
			return s
		}
		n = pm[n]
	}
	return nil
}

// IsAncestor reports whether a is an ancestor of (or equal to) n.
func (pm Parents) IsAncestor(a, n ast.Node) bool {
	for n != nil {
		if n == a {
			return true
		}
		n = pm[n]
	}
	return false
}

// leaves reports whether executing s always transfers control out of the
// enclosing block (return, break, continue, goto, panic, os.Exit…).
func leaves(info *types.Info, s ast.Stmt) bool {
	switch x := s.(type) {
	case *ast.ReturnStmt:
		return true
	case *ast.BranchStmt:
		return x.Tok != token.FALLTHROUGH
	case *ast.ExprStmt:
		if call, ok := x.X.(*ast.CallExpr); ok {
			if id, ok := Unparen(call.Fun).(*ast.Ident); ok {
				if b, ok := info.Uses[id].(*types.Builtin); ok && b.Name() == "panic" {
					return true
				}
			}
		}
	case *ast.BlockStmt:
		if len(x.List) > 0 {
			return leaves(info, x.List[len(x.List)-1])
		}
	case *ast.IfStmt:
		if x.Else == nil {
			return false
		}
		return leaves(info, x.Body) && leaves(info, x.Else)
	}
	return false
}

// BlockLeaves is the exported form of leaves for a block.
func BlockLeaves(info *types.Info, b *ast.BlockStmt) bool { return leaves(info, b) }

func splitCond(e ast.Expr, neg bool, stmt ast.Node, out *[]Cond) {
	e = Unparen(e)
	switch x := e.(type) {
	case *ast.UnaryExpr:
		if x.Op == token.NOT {
			splitCond(x.X, !neg, stmt, out)
			return
		}
	case *ast.BinaryExpr:
		if (x.Op == token.LAND && !neg) || (x.Op == token.LOR && neg) {
			splitCond(x.X, neg, stmt, out)
			splitCond(x.Y, neg, stmt, out)
			return
		}
	}
	*out = append(*out, Cond{Kind: CondBool, Expr: e, Neg: neg, Stmt: stmt})
}

// SplitCond decomposes a boolean expression of given polarity into atoms that all hold.
func SplitCond(e ast.Expr, neg bool) []Cond {
	var out []Cond
	splitCond(e, neg, nil, &out)
	return out
}

// PathConds returns conditions that necessarily hold when control reaches
// node n, considering the structured statements between `scope` (exclusive;
// nil = the innermost function literal or declaration) and n: enclosing
// if/else, switch cases, loop conditions, range bodies, and earlier sibling
// guards that leave the block.
func PathConds(info *types.Info, pm Parents, n ast.Node, scope ast.Node) []Cond {
	var out []Cond
	child := n
	for cur := pm[n]; cur != nil; child, cur = cur, pm[cur] {
		if child == scope {
			break
		}
		switch x := cur.(type) {
		case *ast.FuncLit, *ast.FuncDecl:
			return out
		case *ast.IfStmt:
			if child == ast.Node(x.Body) {
				splitCond(x.Cond, false, x, &out)
			} else if x.Else != nil && child == ast.Node(x.Else) {
				splitCond(x.Cond, true, x, &out)
			}
		case *ast.ForStmt:
			if child == ast.Node(x.Body) && x.Cond != nil {
				splitCond(x.Cond, false, x, &out)
			}
		case *ast.RangeStmt:
			if child == ast.Node(x.Body) {
				out = append(out, Cond{Kind: CondRange, Expr: x.X, Stmt: x})
			}
		case *ast.BlockStmt:
			siblingGuards(info, x.List, child, &out)
		case *ast.CaseClause:
			siblingGuards(info, x.Body, child, &out)
			sw := pm[pm[x]] // CaseClause -> BlockStmt -> Switch
			switch s := sw.(type) {
			case *ast.SwitchStmt:
				if s.Tag == nil {
					if len(x.List) == 1 {
						splitCond(x.List[0], false, x, &out)
					}
					// earlier clauses are false
					for _, c := range s.Body.List {
						cc := c.(*ast.CaseClause)
						if cc == x {
							break
						}
						for _, e := range cc.List {
							splitCond(e, true, cc, &out)
						}
					}
				} else {
					out = append(out, Cond{Kind: CondCase, Expr: s.Tag, Values: x.List, Stmt: x})
				}
			case *ast.TypeSwitchStmt:
				var operand ast.Expr
				switch a := s.Assign.(type) {
				case *ast.AssignStmt:
					if ta, ok := Unparen(a.Rhs[0]).(*ast.TypeAssertExpr); ok {
						operand = ta.X
					}
				case *ast.ExprStmt:
					if ta, ok := Unparen(a.X).(*ast.TypeAssertExpr); ok {
						operand = ta.X
					}
				}
				out = append(out, Cond{Kind: CondTypeCase, Expr: operand, Values: x.List, Stmt: x})
			}
		}
		if cur == scope {
			break
		}
	}
	return out
}

func siblingGuards(info *types.Info, list []ast.Stmt, child ast.Node, out *[]Cond) {
	for _, s := range list {
		if ast.Node(s) == child {
			return
		}
		// a tagless switch whose leading clauses all leave: after it, none of those clauses' conditions held
		if sw, isSw := s.(*ast.SwitchStmt); isSw && sw.Tag == nil && sw.Init == nil {
			for _, cl := range sw.Body.List {
				cc := cl.(*ast.CaseClause)
				if cc.List == nil {
					break // default
				}
				if !leaves(info, &ast.BlockStmt{List: cc.Body}) || endsInPlainBreak(cc.Body) {
					break // a clause that falls out of the switch: later conditions were not evaluated on that path
				}
				for _, e := range cc.List {
					splitCond(e, true, cc, out)
				}
			}
			continue
		}
		ifs, ok := s.(*ast.IfStmt)
		if !ok {
			continue
		}
		// walk else-if chains
		for ifs != nil {
			bodyLeaves := leaves(info, ifs.Body)
			if bodyLeaves {
				splitCond(ifs.Cond, true, ifs, out)
			}
			if ifs.Else == nil {
				break
			}
			switch e := ifs.Else.(type) {
			case *ast.IfStmt:
				if !bodyLeaves {
					ifs = nil
					break
				}
				ifs = e
				continue
			case *ast.BlockStmt:
				if !bodyLeaves && leaves(info, e) {
					splitCond(ifs.Cond, false, ifs, out)
				}
			}
			break
		}
	}
}

// NilTest recognises `x != nil` / `x == nil`; returns x and whether the
// condition (with its polarity) establishes x non-nil.
func NilTest(info *types.Info, c Cond) (ast.Expr, bool, bool) {
	if c.Kind != CondBool {
		return nil, false, false
	}
	be, ok := Unparen(c.Expr).(*ast.BinaryExpr)
	if !ok || (be.Op != token.EQL && be.Op != token.NEQ) {
		return nil, false, false
	}
	var x ast.Expr
	if isNil(info, be.Y) {
		x = be.X
	} else if isNil(info, be.X) {
		x = be.Y
	} else {
		return nil, false, false
	}
	nonNil := (be.Op == token.NEQ) != c.Neg
	return x, nonNil, true
}

func isNil(info *types.Info, e ast.Expr) bool {
	id, ok := Unparen(e).(*ast.Ident)
	if !ok {
		return false
	}
	_, isNilObj := info.Uses[id].(*types.Nil)
	return isNilObj
}

// IsNilExpr reports whether e is the predeclared nil.
func IsNilExpr(info *types.Info, e ast.Expr) bool { return isNil(info, e) }

// EmptyTest recognises string emptiness tests: `x == ""`, `x != ""`,
// `len(x) == 0`, `len(x) > 0`, `len(x) != 0`. Returns x and whether the
// condition establishes "x is empty".
func EmptyTest(info *types.Info, c Cond) (ast.Expr, bool, bool) {
	if c.Kind != CondBool {
		return nil, false, false
	}
	be, ok := Unparen(c.Expr).(*ast.BinaryExpr)
	if !ok {
		return nil, false, false
	}
	if s, ok := ConstString(info, be.Y); ok && s == "" && (be.Op == token.EQL || be.Op == token.NEQ) {
		return be.X, (be.Op == token.EQL) != c.Neg, true
	}
	if s, ok := ConstString(info, be.X); ok && s == "" && (be.Op == token.EQL || be.Op == token.NEQ) {
		return be.Y, (be.Op == token.EQL) != c.Neg, true
	}
	// len(x) op 0
	call, ok := Unparen(be.X).(*ast.CallExpr)
	if !ok || len(call.Args) != 1 {
		return nil, false, false
	}
	id, ok := Unparen(call.Fun).(*ast.Ident)
	if !ok {
		return nil, false, false
	}
	if b, ok := info.Uses[id].(*types.Builtin); !ok || b.Name() != "len" {
		return nil, false, false
	}
	tv, ok := info.Types[be.Y]
	if !ok || tv.Value == nil {
		return nil, false, false
	}
	// len(x) < 1  and  len(x) >= 1
	if tv.Value.String() == "1" {
		switch be.Op {
		case token.LSS:
			return call.Args[0], !c.Neg, true
		case token.GEQ:
			return call.Args[0], c.Neg, true
		}
		return nil, false, false
	}
	if tv.Value.String() != "0" {
		return nil, false, false
	}
	switch be.Op {
	case token.EQL, token.LEQ:
		return call.Args[0], !c.Neg, true
	case token.NEQ, token.GTR:
		return call.Args[0], c.Neg, true
	}
	return nil, false, false
}

// endsInPlainBreak: the clause ends with an unlabelled break, which leaves the switch only.
func endsInPlainBreak(body []ast.Stmt) bool {
	if len(body) == 0 {
		return true
	}
	b, ok := body[len(body)-1].(*ast.BranchStmt)
	return ok && b.Tok == token.BREAK && b.Label == nil
}
