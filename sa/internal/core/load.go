// Package core holds the shared machinery of the static checkers: loading the
// type-checked program, resolving callees and local aliases, access paths,
// structural path conditions, and reporting.
package core

import (
	"encoding/json"
	"fmt"
	"go/ast"
	"go/token"
	"go/types"
	"os"
	"path/filepath"
	"sort"
	"strings"

	"golang.org/x/tools/go/packages"
)

const (
	ModPath  = "github.com/go-openapi/analysis"
	SpecPath = "github.com/go-openapi/spec"
)

// FuncInfo is one declared function or method of the module.
type FuncInfo struct {
	Obj  *types.Func
	Decl *ast.FuncDecl
	Pkg  *packages.Package
}

// Name returns "Recv.Name" or "Name".
func (f *FuncInfo) Name() string { return FuncName(f.Obj) }

// QName returns "<pkg short>.Recv.Name".
func (f *FuncInfo) QName() string {
	p := strings.TrimPrefix(f.Pkg.PkgPath, ModPath)
	p = strings.TrimPrefix(p, "/")
	if p == "" {
		p = "analysis"
	}
	return p + "." + f.Name()
}

func FuncName(fn *types.Func) string {
	sig := fn.Type().(*types.Signature)
	if r := sig.Recv(); r != nil {
		t := r.Type()
		if p, ok := t.(*types.Pointer); ok {
			t = p.Elem()
		}
		if n, ok := t.(*types.Named); ok {
			return n.Obj().Name() + "." + fn.Name()
		}
	}
	return fn.Name()
}

// Program is the loaded, type-checked module.
type Program struct {
	Fset   *token.FileSet
	Pkgs   []*packages.Package
	ByPath map[string]*packages.Package
	Funcs  map[*types.Func]*FuncInfo
	byName map[string]*FuncInfo // "pkgpath\x00Recv.Name"
	Root   string

	localDefs map[*FuncInfo]*LocalDefs
	cg        *CallGraph
}

// LoadOptions configures loading.
type LoadOptions struct {
	Dir     string            // repository root (default /repo or $VERIF_REPO)
	Overlay map[string][]byte // absolute path -> content
}

// Load type-checks every non-test package of the module from the working tree.
func Load(o LoadOptions) (*Program, error) {
	dir := o.Dir
	if dir == "" {
		dir = os.Getenv("VERIF_REPO")
	}
	if dir == "" {
		dir = "/repo"
	}
	env := []string{}
	for _, e := range os.Environ() {
		if strings.HasPrefix(e, "GOWORK=") || strings.HasPrefix(e, "GOFLAGS=") || strings.HasPrefix(e, "GOPROXY=") ||
			strings.HasPrefix(e, "GOSUMDB=") || strings.HasPrefix(e, "GOTOOLCHAIN=") {
			continue
		}
		env = append(env, e)
	}
	env = append(env, "GOWORK=off", "GOFLAGS=-mod=mod", "GOPROXY=off", "GOSUMDB=off", "GOTOOLCHAIN=local")
	cfg := &packages.Config{
		Mode:    packages.LoadSyntax | packages.NeedModule,
		Dir:     dir,
		Env:     env,
		Tests:   false,
		Overlay: o.Overlay,
	}
	pkgs, err := packages.Load(cfg, "./...")
	if err != nil {
		return nil, fmt.Errorf("load: %w", err)
	}
	p := &Program{
		ByPath:    map[string]*packages.Package{},
		Funcs:     map[*types.Func]*FuncInfo{},
		byName:    map[string]*FuncInfo{},
		Root:      dir,
		localDefs: map[*FuncInfo]*LocalDefs{},
	}
	sort.Slice(pkgs, func(i, j int) bool { return pkgs[i].PkgPath < pkgs[j].PkgPath })
	for _, pkg := range pkgs {
		if len(pkg.Errors) > 0 {
			return nil, fmt.Errorf("package %s has errors: %v", pkg.PkgPath, pkg.Errors[0])
		}
		if !strings.HasPrefix(pkg.PkgPath, ModPath) {
			continue
		}
		p.Fset = pkg.Fset
		p.Pkgs = append(p.Pkgs, pkg)
		p.ByPath[pkg.PkgPath] = pkg
		for _, f := range pkg.Syntax {
			for _, d := range f.Decls {
				fd, ok := d.(*ast.FuncDecl)
				if !ok || fd.Body == nil {
					continue
				}
				obj, _ := pkg.TypesInfo.Defs[fd.Name].(*types.Func)
				if obj == nil {
					continue
				}
				fi := &FuncInfo{Obj: obj, Decl: fd, Pkg: pkg}
				p.Funcs[obj] = fi
				p.byName[pkg.PkgPath+"\x00"+fi.Name()] = fi
			}
		}
	}
	if len(p.Pkgs) < 8 {
		return nil, fmt.Errorf("expected at least 8 module packages under %s, loaded %d", dir, len(p.Pkgs))
	}
	return p, nil
}

// LoadOverlayFile reads a JSON overlay {"relative/or/abs/path": "content"}.
func LoadOverlayFile(dir, file string) (map[string][]byte, error) {
	b, err := os.ReadFile(file)
	if err != nil {
		return nil, err
	}
	var m map[string]string
	if err := json.Unmarshal(b, &m); err != nil {
		return nil, err
	}
	out := map[string][]byte{}
	for k, v := range m {
		if !filepath.IsAbs(k) {
			k = filepath.Join(dir, k)
		}
		out[k] = []byte(v)
	}
	return out, nil
}

// Pkg returns the module package with the given path suffix ("" = root).
func (p *Program) Pkg(suffix string) *packages.Package {
	path := ModPath
	if suffix != "" {
		path += "/" + suffix
	}
	return p.ByPath[path]
}

// Func finds a function by package suffix and "Recv.Name"/"Name"; nil if absent.
func (p *Program) Func(pkgSuffix, name string) *FuncInfo {
	path := ModPath
	if pkgSuffix != "" {
		path += "/" + pkgSuffix
	}
	return p.byName[path+"\x00"+name]
}

// SortedFuncs returns all module functions in a deterministic order.
func (p *Program) SortedFuncs() []*FuncInfo {
	out := make([]*FuncInfo, 0, len(p.Funcs))
	for _, f := range p.Funcs {
		out = append(out, f)
	}
	sort.Slice(out, func(i, j int) bool {
		if out[i].Pkg.PkgPath != out[j].Pkg.PkgPath {
			return out[i].Pkg.PkgPath < out[j].Pkg.PkgPath
		}
		return out[i].Decl.Pos() < out[j].Decl.Pos()
	})
	return out
}

// Pos renders a position relative to the repository root.
func (p *Program) Pos(pos token.Pos) string {
	if !pos.IsValid() {
		return "-"
	}
	ps := p.Fset.Position(pos)
	rel, err := filepath.Rel(p.Root, ps.Filename)
	if err != nil {
		rel = ps.Filename
	}
	return fmt.Sprintf("%s:%d", rel, ps.Line)
}

// EnclosingFunc returns the declared function containing pos.
func (p *Program) EnclosingFunc(pos token.Pos) *FuncInfo {
	for _, f := range p.Funcs {
		if f.Decl.Pos() <= pos && pos <= f.Decl.End() {
			return f
		}
	}
	return nil
}
