package core

import (
	"encoding/json"
	"fmt"
	"os"
	"path/filepath"
	"sort"
	"strings"
	"time"
)

// Verdicts.
const (
	Holds     = "holds"
	Violated  = "violated"
	Exempt    = "exempt"
	Undecided = "undecided"
)

// Obligation is one decided instance of a rule.
type Obligation struct {
	Rule     string `json:"rule"`
	Key      string `json:"key"`
	Property string `json:"property"`
	Verdict  string `json:"verdict"`
	Pos      string `json:"pos,omitempty"`
	Detail   string `json:"detail,omitempty"`
}

// Sink collects obligations.
type Sink struct {
	Obs   []Obligation
	Notes []string
	seen  map[string]int
}

func NewSink() *Sink { return &Sink{seen: map[string]int{}} }

// Add records an obligation; keys are made unique by an ordinal suffix.
func (s *Sink) Add(o Obligation) {
	k := o.Property + "|" + o.Key
	s.seen[k]++
	if n := s.seen[k]; n > 1 {
		o.Key = fmt.Sprintf("%s#%d", o.Key, n)
	}
	s.Obs = append(s.Obs, o)
}

func (s *Sink) Hold(prop, rule, key, pos, detail string) {
	s.Add(Obligation{Rule: rule, Key: rule + "/" + key, Property: prop, Verdict: Holds, Pos: pos, Detail: detail})
}

func (s *Sink) Violate(prop, rule, key, pos, detail string) {
	s.Add(Obligation{Rule: rule, Key: rule + "/" + key, Property: prop, Verdict: Violated, Pos: pos, Detail: detail})
}

func (s *Sink) Exempt(prop, rule, key, pos, reason string) {
	s.Add(Obligation{Rule: rule, Key: rule + "/" + key, Property: prop, Verdict: Exempt, Pos: pos, Detail: reason})
}

func (s *Sink) Undecided(prop, rule, key, pos, detail string) {
	s.Add(Obligation{Rule: rule, Key: rule + "/" + key, Property: prop, Verdict: Undecided, Pos: pos, Detail: detail})
}

// Decide is Hold or Violate depending on ok.
func (s *Sink) Decide(ok bool, prop, rule, key, pos, holdDetail, violDetail string) {
	if ok {
		s.Hold(prop, rule, key, pos, holdDetail)
	} else {
		s.Violate(prop, rule, key, pos, violDetail)
	}
}

func (s *Sink) Note(format string, a ...any) { s.Notes = append(s.Notes, fmt.Sprintf(format, a...)) }

// KnownFinding is one committed, triaged genuine defect that is not repaired.
type KnownFinding struct {
	Property string `json:"property"`
	Key      string `json:"key"`
	What     string `json:"what"`
	Witness  string `json:"witness,omitempty"`
}

// KnownFile is /verif/known_findings.json.
type KnownFile struct {
	Known []KnownFinding `json:"known"`
	Fixed []string       `json:"fixed"`
}

func LoadKnown(path string) (*KnownFile, error) {
	b, err := os.ReadFile(path)
	if err != nil {
		if os.IsNotExist(err) {
			return &KnownFile{}, nil
		}
		return nil, err
	}
	var k KnownFile
	if err := json.Unmarshal(b, &k); err != nil {
		return nil, err
	}
	return &k, nil
}

// Evidence is the JSON written per property per run.
type Evidence struct {
	PropertyID  string         `json:"property_id"`
	Tier        string         `json:"tier"`
	Seed        int            `json:"seed"`
	Level       string         `json:"level"`
	Coverage    map[string]any `json:"coverage"`
	Assumptions []string       `json:"assumptions"`
	WallS       float64        `json:"wall_s"`
	Violations  int            `json:"violations"`
}

// RunResult is the outcome of a property check.
type RunResult struct {
	Violations []Obligation
	Known      []Obligation
	Undecided  []Obligation
}

// Finish classifies obligations, prints the VIOLATION / KNOWN-FINDING lines,
// writes evidence and replay files, and returns the process exit code.
func Finish(verifDir, prop, tier string, seed int, start time.Time, sink *Sink, known *KnownFile,
	explanation string, notDecided, assumptions []string, extra map[string]any) int {
	var res RunResult
	if assumptions == nil {
		assumptions = []string{}
	}
	if notDecided == nil {
		notDecided = []string{}
	}
	knownSet := map[string]KnownFinding{}
	for _, k := range known.Known {
		knownSet[k.Property+"|"+k.Key] = k
	}
	counts := map[string]int{}
	rules := map[string]int{}
	var mine []Obligation
	for _, o := range sink.Obs {
		if o.Property != prop {
			continue
		}
		mine = append(mine, o)
		counts[o.Verdict]++
		rules[o.Rule]++
		switch o.Verdict {
		case Violated:
			if _, ok := knownSet[o.Property+"|"+o.Key]; ok {
				res.Known = append(res.Known, o)
			} else {
				res.Violations = append(res.Violations, o)
			}
		case Undecided:
			res.Undecided = append(res.Undecided, o)
		}
	}
	evDir := filepath.Join(verifDir, "evidence")
	_ = os.MkdirAll(filepath.Join(evDir, "replay"), 0o755)
	// stale replay files of this property
	if old, _ := filepath.Glob(filepath.Join(evDir, "replay", prop+"-*.json")); len(old) > 0 {
		for _, f := range old {
			_ = os.Remove(f)
		}
	}
	for _, o := range res.Known {
		k := knownSet[o.Property+"|"+o.Key]
		fmt.Printf("KNOWN-FINDING: property=%s %s — %s (%s)\n", prop, o.Key, k.What, o.Pos)
	}
	for i, o := range res.Violations {
		rp := filepath.Join(evDir, "replay", fmt.Sprintf("%s-%d.json", prop, i+1))
		b, _ := json.MarshalIndent(map[string]any{
			"property": prop, "rule": o.Rule, "key": o.Key, "pos": o.Pos, "detail": o.Detail,
			"reproduce": fmt.Sprintf("cd /verif && ./check.sh %s quick", prop),
		}, "", " ")
		_ = os.WriteFile(rp, b, 0o644)
		fmt.Printf("%s: %s — %s\n", o.Pos, o.Key, o.Detail)
		fmt.Printf("VIOLATION property=%s replay=%s\n", prop, rp)
	}
	for _, o := range res.Undecided {
		fmt.Printf("CHECK-ERROR property=%s undecided obligation %s at %s: %s\n", prop, o.Key, o.Pos, o.Detail)
	}
	// samples: every non-holding obligation plus up to 40 holding ones
	var samples []Obligation
	for _, o := range mine {
		if o.Verdict != Holds {
			samples = append(samples, o)
		}
	}
	n := 0
	for _, o := range mine {
		if o.Verdict == Holds && n < 60 {
			samples = append(samples, o)
			n++
		}
	}
	distinct := map[string]bool{}
	for _, o := range mine {
		distinct[o.Key] = true
	}
	ruleNames := make([]string, 0, len(rules))
	for r := range rules {
		ruleNames = append(ruleNames, fmt.Sprintf("%s=%d", r, rules[r]))
	}
	sort.Strings(ruleNames)
	cov := map[string]any{
		"explanation":         explanation,
		"obligations":         len(mine),
		"discharged":          counts[Holds] + counts[Exempt],
		"evaluations":         len(mine),
		"distinct_nontrivial": len(distinct),
		"rule":                "one obligation per rule instance enumerated from /repo's type-checked source; distinct = distinct rule+construct keys; " + strings.Join(ruleNames, ", "),
		"samples":             samples,
		"verdict_counts":      counts,
		"rules":               ruleNames,
		"not_decided":         notDecided,
		"known_findings":      len(res.Known),
		"notes":               sink.Notes,
		"checker_cmd":         fmt.Sprintf("./check.sh %s %s", prop, tier),
		"trusted_base":        []string{"go/types type checker", "go/packages loader", "the rule tables in /verif/sa/internal/rules", "semantics of go-openapi/spec, jsonpointer, swag as read from their sources"},
		"exhaustive":          true,
	}
	for k, v := range extra {
		cov[k] = v
	}
	ev := Evidence{
		PropertyID: prop, Tier: tier, Seed: seed, Level: "other", Coverage: cov,
		Assumptions: assumptions, WallS: time.Since(start).Seconds(), Violations: len(res.Violations),
	}
	b, _ := json.MarshalIndent(ev, "", " ")
	if err := os.WriteFile(filepath.Join(evDir, prop+".json"), b, 0o644); err != nil {
		fmt.Printf("CHECK-ERROR cannot write evidence: %v\n", err)
		return 2
	}
	fmt.Printf("property=%s tier=%s obligations=%d holds=%d exempt=%d violated=%d (known %d) undecided=%d wall=%.1fs\n",
		prop, tier, len(mine), counts[Holds], counts[Exempt], counts[Violated], len(res.Known), counts[Undecided], time.Since(start).Seconds())
	switch {
	case len(res.Violations) > 0:
		return 1
	case len(res.Undecided) > 0:
		return 2
	}
	return 0
}

// Summarize prints violations only (used for mutant runs); exit code as Finish.
func Summarize(prop string, sink *Sink, known *KnownFile) int {
	knownSet := map[string]bool{}
	for _, k := range known.Known {
		knownSet[k.Property+"|"+k.Key] = true
	}
	code := 0
	for _, o := range sink.Obs {
		if o.Property != prop {
			continue
		}
		switch o.Verdict {
		case Violated:
			if knownSet[o.Property+"|"+o.Key] {
				fmt.Printf("KNOWN-FINDING: property=%s %s\n", prop, o.Key)
				continue
			}
			fmt.Printf("VIOLATED %s %s %s — %s\n", prop, o.Key, o.Pos, o.Detail)
			code = 1
		case Undecided:
			fmt.Printf("UNDECIDED %s %s %s — %s\n", prop, o.Key, o.Pos, o.Detail)
			if code == 0 {
				code = 2
			}
		}
	}
	return code
}
