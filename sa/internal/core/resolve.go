package core

import (
	"go/ast"
	"go/constant"
	"go/token"
	"go/types"
	"strings"
)

// DefKind classifies how a local variable gets a value.
type DefKind int

const (
	DefAssign DefKind = iota // x := e, x = e, var x = e
	DefRangeKey
	DefRangeVal
	DefZero       // var x T
	DefTypeSwitch // switch x := e.(type)
	DefMulti      // x, y := f()  (Expr is the call, Index the result index)
	DefOpaque     // inc/dec, op-assign, address taken and passed away…
)

// Def is one definition of a local variable.
type Def struct {
	Kind  DefKind
	Expr  ast.Expr // RHS, range operand, or type-switch operand
	Index int
	Node  ast.Node
	Pos   token.Pos
}

// LocalDefs indexes every definition of every local variable of a function
// (closures included: they share the enclosing function's objects).
type LocalDefs struct {
	Defs   map[types.Object][]Def
	Params map[types.Object]bool
}

// Locals computes (and caches) the definitions for fi.
func (p *Program) Locals(fi *FuncInfo) *LocalDefs {
	if ld, ok := p.localDefs[fi]; ok {
		return ld
	}
	info := fi.Pkg.TypesInfo
	ld := &LocalDefs{Defs: map[types.Object][]Def{}, Params: map[types.Object]bool{}}
	addParams := func(fl *ast.FieldList) {
		if fl == nil {
			return
		}
		for _, f := range fl.List {
			for _, n := range f.Names {
				if o := info.Defs[n]; o != nil {
					ld.Params[o] = true
				}
			}
		}
	}
	addParams(fi.Decl.Recv)
	addParams(fi.Decl.Type.Params)
	addParams(fi.Decl.Type.Results)
	obj := func(e ast.Expr) types.Object {
		id, ok := Unparen(e).(*ast.Ident)
		if !ok || id.Name == "_" {
			return nil
		}
		if o := info.Defs[id]; o != nil {
			return o
		}
		return info.Uses[id]
	}
	ast.Inspect(fi.Decl.Body, func(n ast.Node) bool {
		switch s := n.(type) {
		case *ast.FuncLit:
			addParams(s.Type.Params)
			addParams(s.Type.Results)
		case *ast.AssignStmt:
			if s.Tok != token.DEFINE && s.Tok != token.ASSIGN {
				for _, l := range s.Lhs {
					if o := obj(l); o != nil {
						ld.Defs[o] = append(ld.Defs[o], Def{Kind: DefOpaque, Node: s, Pos: s.Pos()})
					}
				}
				return true
			}
			if len(s.Lhs) == len(s.Rhs) {
				for i, l := range s.Lhs {
					if o := obj(l); o != nil {
						ld.Defs[o] = append(ld.Defs[o], Def{Kind: DefAssign, Expr: s.Rhs[i], Node: s, Pos: s.Pos()})
					}
				}
			} else if len(s.Rhs) == 1 {
				for i, l := range s.Lhs {
					if o := obj(l); o != nil {
						ld.Defs[o] = append(ld.Defs[o], Def{Kind: DefMulti, Expr: s.Rhs[0], Index: i, Node: s, Pos: s.Pos()})
					}
				}
			}
		case *ast.IncDecStmt:
			if o := obj(s.X); o != nil {
				ld.Defs[o] = append(ld.Defs[o], Def{Kind: DefOpaque, Node: s, Pos: s.Pos()})
			}
		case *ast.RangeStmt:
			if s.Key != nil {
				if o := obj(s.Key); o != nil {
					ld.Defs[o] = append(ld.Defs[o], Def{Kind: DefRangeKey, Expr: s.X, Node: s, Pos: s.Pos()})
				}
			}
			if s.Value != nil {
				if o := obj(s.Value); o != nil {
					ld.Defs[o] = append(ld.Defs[o], Def{Kind: DefRangeVal, Expr: s.X, Node: s, Pos: s.Pos()})
				}
			}
		case *ast.DeclStmt:
			gd, ok := s.Decl.(*ast.GenDecl)
			if !ok {
				return true
			}
			for _, sp := range gd.Specs {
				vs, ok := sp.(*ast.ValueSpec)
				if !ok {
					continue
				}
				for i, n := range vs.Names {
					o := info.Defs[n]
					if o == nil {
						continue
					}
					switch {
					case len(vs.Values) == len(vs.Names):
						ld.Defs[o] = append(ld.Defs[o], Def{Kind: DefAssign, Expr: vs.Values[i], Node: s, Pos: s.Pos()})
					case len(vs.Values) == 1:
						ld.Defs[o] = append(ld.Defs[o], Def{Kind: DefMulti, Expr: vs.Values[0], Index: i, Node: s, Pos: s.Pos()})
					default:
						ld.Defs[o] = append(ld.Defs[o], Def{Kind: DefZero, Node: s, Pos: s.Pos()})
					}
				}
			}
		case *ast.TypeSwitchStmt:
			var operand ast.Expr
			switch a := s.Assign.(type) {
			case *ast.AssignStmt:
				if ta, ok := Unparen(a.Rhs[0]).(*ast.TypeAssertExpr); ok {
					operand = ta.X
				}
			case *ast.ExprStmt:
				if ta, ok := Unparen(a.X).(*ast.TypeAssertExpr); ok {
					operand = ta.X
				}
			}
			for _, c := range s.Body.List {
				cc := c.(*ast.CaseClause)
				if o := info.Implicits[cc]; o != nil {
					ld.Defs[o] = append(ld.Defs[o], Def{Kind: DefTypeSwitch, Expr: operand, Node: cc, Pos: cc.Pos()})
				}
			}
		}
		return true
	})
	p.localDefs[fi] = ld
	return ld
}

// Step is one step of an access path.
type Step struct {
	Field *types.Var // nil for index/key steps
	Name  string     // field name, "[*]", "{key}"
}

// Path is an access path: a root object followed by field / element steps.
type Path struct {
	Root     types.Object // parameter, receiver, package variable or unresolved local
	RootCall *ast.CallExpr
	RootLit  ast.Expr // composite literal, make, new, &T{}
	Steps    []Step
	Copied   bool // a struct value copy happened after the last pointer/map/slice crossing
}

func (p *Path) String() string {
	var sb strings.Builder
	switch {
	case p.Root != nil:
		sb.WriteString(p.Root.Name())
	case p.RootCall != nil:
		sb.WriteString(types.ExprString(p.RootCall.Fun) + "()")
	default:
		sb.WriteString("<fresh>")
	}
	for _, s := range p.Steps {
		if s.Field != nil {
			sb.WriteString("." + s.Name)
		} else {
			sb.WriteString(s.Name)
		}
	}
	return sb.String()
}

// FieldNames returns the field steps only.
func (p *Path) FieldNames() []string {
	var out []string
	for _, s := range p.Steps {
		if s.Field != nil {
			out = append(out, s.Name)
		}
	}
	return out
}

// StepsString renders the steps without the root, e.g. ".Items.Schemas[*]".
func (p *Path) StepsString() string {
	var sb strings.Builder
	for _, s := range p.Steps {
		if s.Field != nil {
			sb.WriteString("." + s.Name)
		} else {
			sb.WriteString(s.Name)
		}
	}
	return sb.String()
}

func (p *Path) extend(s Step) *Path {
	q := *p
	q.Steps = append(append([]Step{}, p.Steps...), s)
	return &q
}

// HasPrefix reports whether p starts with (root, steps…) of q.
func (p *Path) HasPrefix(q *Path) bool {
	if p.Root == nil || p.Root != q.Root || len(p.Steps) < len(q.Steps) {
		return false
	}
	for i := range q.Steps {
		if p.Steps[i].Name != q.Steps[i].Name {
			return false
		}
	}
	return true
}

// PathOf resolves expr to an access path, following local aliases when
// follow is true. It returns nil when expr is not path-like.
func (p *Program) PathOf(fi *FuncInfo, e ast.Expr, follow bool) *Path {
	return p.pathOf(fi, e, follow, 0)
}

func (p *Program) pathOf(fi *FuncInfo, e ast.Expr, follow bool, depth int) *Path {
	if depth > 12 {
		return nil
	}
	info := fi.Pkg.TypesInfo
	switch x := Unparen(e).(type) {
	case *ast.Ident:
		o := info.Uses[x]
		if o == nil {
			o = info.Defs[x]
		}
		if o == nil {
			return nil
		}
		if _, isVar := o.(*types.Var); !isVar {
			return nil
		}
		if follow {
			if q := p.followLocal(fi, o, depth); q != nil {
				return q
			}
		}
		return &Path{Root: o}
	case *ast.StarExpr:
		return p.pathOf(fi, x.X, follow, depth+1)
	case *ast.UnaryExpr:
		if x.Op == token.AND {
			q := p.pathOf(fi, x.X, follow, depth+1)
			if q != nil {
				return q
			}
			if _, ok := Unparen(x.X).(*ast.CompositeLit); ok {
				return &Path{RootLit: x}
			}
		}
		return nil
	case *ast.SelectorExpr:
		sel, ok := info.Selections[x]
		if !ok {
			// qualified identifier pkg.Var
			if o, ok := info.Uses[x.Sel].(*types.Var); ok {
				return &Path{Root: o}
			}
			return nil
		}
		if sel.Kind() != types.FieldVal {
			return nil
		}
		base := p.pathOf(fi, x.X, follow, depth+1)
		if base == nil {
			return nil
		}
		fv := sel.Obj().(*types.Var)
		q := base.extend(Step{Field: fv, Name: fv.Name()})
		if IsPointer(fv.Type()) || IsMap(fv.Type()) || IsSlice(fv.Type()) {
			q.Copied = false
		}
		return q
	case *ast.IndexExpr:
		base := p.pathOf(fi, x.X, follow, depth+1)
		if base == nil {
			return nil
		}
		q := base.extend(Step{Name: "[*]"})
		q.Copied = false
		return q
	case *ast.SliceExpr:
		return p.pathOf(fi, x.X, follow, depth+1)
	case *ast.CallExpr:
		// trivial getter inlining: f(recv) { return recv.a.b }
		if q := p.inlineGetter(fi, x, follow, depth); q != nil {
			return q
		}
		if id, ok := Unparen(x.Fun).(*ast.Ident); ok {
			if b, ok := info.Uses[id].(*types.Builtin); ok && (b.Name() == "make" || b.Name() == "new") {
				return &Path{RootLit: x}
			}
		}
		// conversion T(x)
		if tv, ok := info.Types[x.Fun]; ok && tv.IsType() && len(x.Args) == 1 {
			return p.pathOf(fi, x.Args[0], follow, depth+1)
		}
		return &Path{RootCall: x}
	case *ast.CompositeLit:
		return &Path{RootLit: x}
	case *ast.TypeAssertExpr:
		return p.pathOf(fi, x.X, follow, depth+1)
	}
	return nil
}

// followLocal replaces a local variable by the path it aliases, when all its
// definitions agree on one path.
func (p *Program) followLocal(fi *FuncInfo, o types.Object, depth int) *Path {
	ld := p.Locals(fi)
	if ld.Params[o] {
		return nil
	}
	defs := ld.Defs[o]
	if len(defs) == 0 {
		return nil
	}
	var res *Path
	for _, d := range defs {
		var q *Path
		switch d.Kind {
		case DefAssign:
			// self shadow v := v resolves through Uses of the RHS ident (outer object)
			q = p.pathOf(fi, d.Expr, true, depth+1)
			if q != nil && q.Root == o && len(q.Steps) == 0 {
				q = nil
			}
			if q != nil {
				if _, isAddr := Unparen(d.Expr).(*ast.UnaryExpr); !isAddr {
					t := o.Type()
					if !IsPointer(t) && !IsMap(t) && !IsSlice(t) {
						q.Copied = true
					}
				}
			}
		case DefRangeVal:
			b := p.pathOf(fi, d.Expr, true, depth+1)
			if b != nil {
				q = b.extend(Step{Name: "[*]"})
				t := o.Type()
				q.Copied = !IsPointer(t) && !IsMap(t) && !IsSlice(t)
			}
		case DefRangeKey:
			b := p.pathOf(fi, d.Expr, true, depth+1)
			if b != nil {
				q = b.extend(Step{Name: "{key}"})
			}
		case DefTypeSwitch:
			if d.Expr != nil {
				q = p.pathOf(fi, d.Expr, true, depth+1)
			}
		default:
			return nil
		}
		if q == nil {
			return nil
		}
		if res == nil {
			res = q
		} else if res.String() != q.String() || res.Root != q.Root {
			return nil
		}
	}
	return res
}

// inlineGetter resolves calls to one-line accessor functions of the module.
func (p *Program) inlineGetter(fi *FuncInfo, call *ast.CallExpr, follow bool, depth int) *Path {
	callee := p.StaticCallee(fi, call)
	if callee == nil {
		return nil
	}
	cf := p.Funcs[callee]
	if cf == nil || cf.Decl.Recv == nil || len(cf.Decl.Body.List) != 1 || len(call.Args) != 0 {
		return nil
	}
	ret, ok := cf.Decl.Body.List[0].(*ast.ReturnStmt)
	if !ok || len(ret.Results) != 1 {
		return nil
	}
	if len(cf.Decl.Recv.List) != 1 || len(cf.Decl.Recv.List[0].Names) != 1 {
		return nil
	}
	recvObj := cf.Pkg.TypesInfo.Defs[cf.Decl.Recv.List[0].Names[0]]
	inner := p.pathOf(cf, ret.Results[0], false, depth+1)
	if inner == nil || inner.Root != recvObj || recvObj == nil {
		return nil
	}
	sel, ok := Unparen(call.Fun).(*ast.SelectorExpr)
	if !ok {
		return nil
	}
	base := p.pathOf(fi, sel.X, follow, depth+1)
	if base == nil {
		return nil
	}
	q := *base
	q.Steps = append(append([]Step{}, base.Steps...), inner.Steps...)
	q.Copied = false
	return &q
}

// ObjOf returns the object an identifier expression denotes.
func ObjOf(info *types.Info, e ast.Expr) types.Object {
	id, ok := Unparen(e).(*ast.Ident)
	if !ok {
		return nil
	}
	if o := info.Uses[id]; o != nil {
		return o
	}
	return info.Defs[id]
}

// ConstString returns the constant string value of e, if any.
func ConstString(info *types.Info, e ast.Expr) (string, bool) {
	tv, ok := info.Types[e]
	if !ok || tv.Value == nil {
		return "", false
	}
	if tv.Value.Kind() != constant.String {
		return "", false
	}
	return constant.StringVal(tv.Value), true
}
