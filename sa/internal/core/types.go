package core

import (
	"go/ast"
	"go/types"
	"reflect"
	"sort"
	"strings"
)

// Deref strips pointers.
func Deref(t types.Type) types.Type {
	for {
		p, ok := t.Underlying().(*types.Pointer)
		if !ok {
			return t
		}
		t = p.Elem()
	}
}

// NamedOf returns (pkgpath, name) of a possibly-pointer named type.
func NamedOf(t types.Type) (string, string) {
	if t == nil {
		return "", ""
	}
	if a, ok := t.(*types.Alias); ok {
		t = types.Unalias(a)
	}
	if p, ok := t.(*types.Pointer); ok {
		t = p.Elem()
	}
	if n, ok := t.(*types.Named); ok {
		if n.Obj().Pkg() == nil {
			return "", n.Obj().Name()
		}
		return n.Obj().Pkg().Path(), n.Obj().Name()
	}
	return "", ""
}

// IsSpecType reports whether t (or *t) is github.com/go-openapi/spec.<name>.
func IsSpecType(t types.Type, name string) bool {
	p, n := NamedOf(t)
	return p == SpecPath && n == name
}

// IsModType reports whether t (or *t) is <module root>.<name>.
func IsModType(t types.Type, name string) bool {
	p, n := NamedOf(t)
	return p == ModPath && n == name
}

func IsPointer(t types.Type) bool {
	_, ok := t.Underlying().(*types.Pointer)
	return ok
}

func IsMap(t types.Type) bool {
	_, ok := t.Underlying().(*types.Map)
	return ok
}

func IsSlice(t types.Type) bool {
	_, ok := t.Underlying().(*types.Slice)
	return ok
}

func IsString(t types.Type) bool {
	b, ok := t.Underlying().(*types.Basic)
	return ok && b.Info()&types.IsString != 0
}

func IsBool(t types.Type) bool {
	b, ok := t.Underlying().(*types.Basic)
	return ok && b.Info()&types.IsBoolean != 0
}

func IsErrorType(t types.Type) bool {
	return types.Identical(t, types.Universe.Lookup("error").Type())
}

// SpecStruct returns the struct type spec.<name> from the loaded program.
func (p *Program) SpecStruct(name string) (*types.Named, *types.Struct) {
	sp := p.specPkg()
	if sp == nil {
		return nil, nil
	}
	o := sp.Scope().Lookup(name)
	if o == nil {
		return nil, nil
	}
	n, _ := o.Type().(*types.Named)
	if n == nil {
		return nil, nil
	}
	s, _ := n.Underlying().(*types.Struct)
	return n, s
}

func (p *Program) specPkg() *types.Package {
	for _, pkg := range p.Pkgs {
		for _, imp := range pkg.Types.Imports() {
			if imp.Path() == SpecPath {
				return imp
			}
		}
	}
	return nil
}

// JSONTag returns the json name of a struct field ("" if none / "-").
func JSONTag(s *types.Struct, i int) string {
	tag := reflect.StructTag(s.Tag(i)).Get("json")
	if tag == "" {
		return ""
	}
	name := strings.Split(tag, ",")[0]
	if name == "-" {
		return ""
	}
	return name
}

// FieldTag finds the json tag for field `name` of spec struct `strct`.
func (p *Program) FieldTag(strct, name string) string {
	_, s := p.SpecStruct(strct)
	if s == nil {
		return ""
	}
	for i := 0; i < s.NumFields(); i++ {
		if s.Field(i).Name() == name {
			return JSONTag(s, i)
		}
	}
	return ""
}

// Methods returns the *spec.Operation fields of spec.PathItemProps with json tags.
func (p *Program) Methods() (names []string, tags map[string]string) {
	_, s := p.SpecStruct("PathItemProps")
	tags = map[string]string{}
	if s == nil {
		return nil, tags
	}
	for i := 0; i < s.NumFields(); i++ {
		f := s.Field(i)
		if IsPointer(f.Type()) && IsSpecType(f.Type(), "Operation") {
			names = append(names, f.Name())
			tags[f.Name()] = JSONTag(s, i)
		}
	}
	sort.Strings(names)
	return names, tags
}

// SchemaLeaf is a path from a spec.SchemaProps field to a value of type Schema.
type SchemaLeaf struct {
	Field string   // first field (of SchemaProps)
	Path  string   // e.g. "Items.Schemas[*]"
	Tags  []string // json path tokens contributed by struct fields ("" for fields flattened by custom marshalling)
	Index bool     // path crosses a map or slice (needs a key/index token)
	IsMap bool
}

// SchemaLeaves enumerates every position below spec.SchemaProps that holds a Schema.
func (p *Program) SchemaLeaves() []SchemaLeaf {
	_, s := p.SpecStruct("SchemaProps")
	var out []SchemaLeaf
	if s == nil {
		return nil
	}
	for i := 0; i < s.NumFields(); i++ {
		f := s.Field(i)
		p.schemaLeavesIn(f.Type(), f.Name(), f.Name(), []string{JSONTag(s, i)}, false, false, 0, &out)
	}
	sort.Slice(out, func(i, j int) bool { return out[i].Path < out[j].Path })
	return out
}

func (p *Program) schemaLeavesIn(t types.Type, first, path string, tags []string, idx, isMap bool, depth int, out *[]SchemaLeaf) {
	if depth > 4 {
		return
	}
	if IsSpecType(t, "Schema") {
		if _, ok := t.(*types.Pointer); ok || true {
			*out = append(*out, SchemaLeaf{Field: first, Path: path, Tags: append([]string{}, tags...), Index: idx, IsMap: isMap})
		}
		return
	}
	switch u := t.Underlying().(type) {
	case *types.Pointer:
		p.schemaLeavesIn(u.Elem(), first, path, tags, idx, isMap, depth, out)
	case *types.Slice:
		p.schemaLeavesIn(u.Elem(), first, path+"[*]", tags, true, false, depth+1, out)
	case *types.Map:
		p.schemaLeavesIn(u.Elem(), first, path+"[*]", tags, true, true, depth+1, out)
	case *types.Struct:
		pp, _ := NamedOf(t)
		if pp != SpecPath {
			return
		}
		for i := 0; i < u.NumFields(); i++ {
			f := u.Field(i)
			p.schemaLeavesIn(f.Type(), first, path+"."+f.Name(), tags, idx, isMap, depth+1, out)
		}
	}
}

// FieldOf returns the struct field object selected by sel (nil when sel is not a field selection).
func FieldOf(info *types.Info, sel *ast.SelectorExpr) *types.Var {
	if s, ok := info.Selections[sel]; ok && s.Kind() == types.FieldVal {
		v, _ := s.Obj().(*types.Var)
		return v
	}
	return nil
}

// OwnerStruct returns the named struct that declares field v ("pkgpath.Name").
func OwnerStruct(p *Program, v *types.Var) string {
	if v == nil || v.Pkg() == nil {
		return ""
	}
	scope := v.Pkg().Scope()
	for _, n := range scope.Names() {
		tn, ok := scope.Lookup(n).(*types.TypeName)
		if !ok {
			continue
		}
		st, ok := tn.Type().Underlying().(*types.Struct)
		if !ok {
			continue
		}
		for i := 0; i < st.NumFields(); i++ {
			if st.Field(i) == v {
				return v.Pkg().Path() + "." + tn.Name()
			}
		}
	}
	return ""
}

// Unparen strips parentheses.
func Unparen(e ast.Expr) ast.Expr {
	for {
		p, ok := e.(*ast.ParenExpr)
		if !ok {
			return e
		}
		e = p.X
	}
}
