package rules

import (
	"go/ast"
	"go/types"
	"sort"
	"strings"

	"verif/sa/internal/core"
)

func init() {
	register(Rule{
		Name:  "COV-METHODS",
		Props: []string{"C14", "C15", "C18", "C19", "C03"},
		Doc:   "a function that enumerates HTTP methods of a path item enumerates all of them (reference set: *spec.Operation fields of spec.PathItemProps)",
		Run:   covMethods,
	})
}

// propForFunc attributes a function to a property by reachability from the API roots.
func (c *Ctx) propForFunc(fi *core.FuncInfo, dflt string) string {
	type root struct {
		name string
		prop string
	}
	for _, r := range []root{{"Mixin", "C18"}, {"FixEmptyResponseDescriptions", "C19"}} {
		if rf := c.root(r.name); rf != nil && c.P.Reachable(rf)[fi] {
			return r.prop
		}
	}
	if fi.Pkg.PkgPath == core.ModPath && strings.Contains(fi.Obj.Name(), "Param") {
		return "C15"
	}
	if rf := c.root("New"); rf != nil && c.P.Reachable(rf)[fi] {
		return "C14"
	}
	return dflt
}

func covMethods(c *Ctx) {
	methods, tags := c.P.Methods()
	if len(methods) < 7 {
		c.S.Undecided("C14", "COV-METHODS", "model", "-", "could not read the HTTP method fields of spec.PathItemProps")
		return
	}
	isMethodField := func(v *types.Var) bool {
		if v == nil || !inSet(methods, v.Name()) {
			return false
		}
		return core.IsSpecType(v.Type(), "Operation") && strings.HasSuffix(core.OwnerStruct(c.P, v), ".PathItemProps")
	}
	instances := 0
	for _, fi := range c.P.SortedFuncs() {
		info := c.info(fi)
		bySubject := map[string]map[string]bool{}
		var firstPos = map[string]ast.Node{}
		ast.Inspect(fi.Decl.Body, func(n ast.Node) bool {
			sel, ok := n.(*ast.SelectorExpr)
			if !ok {
				return true
			}
			fv := core.FieldOf(info, sel)
			if !isMethodField(fv) {
				return true
			}
			subj := "?"
			if p := c.P.PathOf(fi, sel.X, true); p != nil {
				subj = p.String()
			} else {
				subj = exprStr(sel.X)
			}
			if bySubject[subj] == nil {
				bySubject[subj] = map[string]bool{}
				firstPos[subj] = sel
			}
			bySubject[subj][fv.Name()] = true
			return true
		})
		subjects := make([]string, 0, len(bySubject))
		for s := range bySubject {
			subjects = append(subjects, s)
		}
		sort.Strings(subjects)
		for _, subj := range subjects {
			set := bySubject[subj]
			if len(set) < 2 {
				continue
			}
			instances++
			var missing []string
			for _, m := range methods {
				if !set[m] {
					missing = append(missing, m)
				}
			}
			prop := c.propForFunc(fi, "C14")
			key := fi.QName() + "/" + subj
			c.S.Decide(len(missing) == 0, prop, "COV-METHODS", key, c.P.Pos(firstPos[subj].Pos()),
				"enumerates all "+strings.Join(methods, ","),
				"enumerates HTTP methods of "+subj+" but misses "+strings.Join(missing, ",")+": operations under that method are not handled")
		}
		// paired constant/method-field arguments
		for _, call := range calls(fi.Decl.Body) {
			var constArg string
			var hasConst bool
			var field *types.Var
			for _, a := range call.Args {
				if s, ok := core.ConstString(info, a); ok {
					constArg, hasConst = s, true
				}
				if sel, ok := core.Unparen(a).(*ast.SelectorExpr); ok {
					if fv := core.FieldOf(info, sel); isMethodField(fv) {
						field = fv
					}
				}
			}
			if !hasConst || field == nil {
				continue
			}
			ok := strings.EqualFold(constArg, tags[field.Name()])
			c.S.Decide(ok, "C14", "COV-METHODPAIR", fi.QName()+"/"+field.Name(), c.P.Pos(call.Pos()),
				"method string "+constArg+" paired with field "+field.Name(),
				"method string \""+constArg+"\" is paired with operation field "+field.Name()+" (json \""+tags[field.Name()]+"\"): operations are indexed under the wrong method")
			// C14: upper-case discipline of the index (lookups use strings.ToUpper)
			c.S.Decide(constArg == strings.ToUpper(constArg), "C14", "ENC-CASE", fi.QName()+"/const/"+field.Name(), c.P.Pos(call.Pos()),
				"method constant is upper case", "method constant \""+constArg+"\" is not upper case but lookups normalise with strings.ToUpper")
		}
	}
	if instances < 3 {
		c.S.Undecided("C14", "COV-METHODS", "floor", "-", "fewer method-enumerating functions than confirmed by hand (4)")
	}
	c.siblingGuards(isMethodField)
	// composite literal method sets (sortref.validMethods)
	upper := map[string]bool{}
	for _, m := range methods {
		upper[strings.ToUpper(tags[m])] = true
	}
	found := 0
	for _, pkg := range c.P.Pkgs {
		for _, f := range pkg.Syntax {
			ast.Inspect(f, func(n ast.Node) bool {
				cl, ok := n.(*ast.CompositeLit)
				if !ok {
					return true
				}
				tv, ok := pkg.TypesInfo.Types[cl]
				if !ok || !(core.IsMap(tv.Type) || core.IsSlice(tv.Type)) && tv.Type.Underlying() == nil {
					return true
				}
				keys := map[string]bool{}
				hits := 0
				for _, el := range cl.Elts {
					var keyExpr ast.Expr = el
					if kv, ok := el.(*ast.KeyValueExpr); ok {
						keyExpr = kv.Key
					}
					if s, ok := core.ConstString(pkg.TypesInfo, keyExpr); ok {
						keys[s] = true
						if upper[strings.ToUpper(s)] {
							hits++
						}
					}
				}
				if hits < 3 {
					return true
				}
				found++
				var missing []string
				for m := range upper {
					if !keys[m] {
						missing = append(missing, m)
					}
				}
				sort.Strings(missing)
				c.S.Decide(len(missing) == 0, "C03", "COV-METHODSET", "literal@"+pkg.Name, c.P.Pos(cl.Pos()),
					"method table lists all seven methods in upper case",
					"method table misses "+strings.Join(missing, ",")+": inline schemas under that method get no operation-based name and stay inline")
				return true
			})
		}
	}
	if found < 1 {
		c.S.Undecided("C03", "COV-METHODSET", "floor", "-", "no method table literal found (expected sortref.validMethods)")
	}
}

// siblingGuards (contradiction rule): a branch entered because the operation under one HTTP method is
// non-nil must not use the operation under another method of the same path item that it did not test.
func (c *Ctx) siblingGuards(isMethodField func(*types.Var) bool) {
	n := 0
	for _, fi := range c.P.SortedFuncs() {
		info := c.info(fi)
		ast.Inspect(fi.Decl.Body, func(nd ast.Node) bool {
			ifs, ok := nd.(*ast.IfStmt)
			if !ok {
				return true
			}
			tested := map[string]bool{} // subject|field
			subj := ""
			for _, cd := range core.SplitCond(ifs.Cond, false) {
				if x, nonNil, isNil := core.NilTest(info, cd); isNil && nonNil {
					if sel, ok := core.Unparen(x).(*ast.SelectorExpr); ok && isMethodField(core.FieldOf(info, sel)) {
						subj = exprStr(sel.X)
						tested[subj+"|"+sel.Sel.Name] = true
					}
				}
			}
			if len(tested) == 0 {
				return true
			}
			n++
			var bad []string
			check := func(root ast.Node) {
				ast.Inspect(root, func(m ast.Node) bool {
					sel, ok := m.(*ast.SelectorExpr)
					if !ok || !isMethodField(core.FieldOf(info, sel)) {
						return true
					}
					if exprStr(sel.X) == subj && !tested[subj+"|"+sel.Sel.Name] {
						bad = append(bad, exprStr(sel))
					}
					return true
				})
			}
			check(ifs.Body)
			check(ifs.Cond)
			prop := c.propForFunc(fi, "C14")
			var keys []string
			for k := range tested {
				keys = append(keys, strings.SplitN(k, "|", 2)[1])
			}
			sort.Strings(keys)
			c.S.Decide(len(bad) == 0, prop, "GUARD-SIBLING", fi.QName()+"/"+subj+"."+strings.Join(keys, "+"), c.P.Pos(ifs.Pos()),
				"the branch uses only the operation it tested",
				"the branch is entered because "+subj+"."+strings.Join(keys, ",")+" is non-nil but uses "+strings.Join(bad, ", ")+", which it did not test: wrong operation (or a nil dereference) for path items that define one method and not the other")
			return true
		})
	}
	if n < 7 {
		c.S.Note("GUARD-SIBLING: only %d method-guarded branches found", n)
	}
}
