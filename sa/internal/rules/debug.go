package rules

import (
	"fmt"
	"sort"
	"strings"
)

// DumpEvents prints the index-building events (debugging aid).
func DumpEvents(c *Ctx) {
	in, _ := runIndexEval(c)
	if in == nil {
		fmt.Println("no New")
		return
	}
	for _, ev := range in.events {
		var ks []string
		for _, k := range ev.keys {
			ks = append(ks, keyString(k))
		}
		var fs []string
		for _, f := range ev.facts {
			fs = append(fs, f.String())
		}
		val := keyString(ev.val)
		if ev.val != nil && ev.val.k == avStruct {
			var parts []string
			for n, f := range ev.val.fields {
				parts = append(parts, n+"="+keyString(f))
			}
			sort.Strings(parts)
			val = "{" + strings.Join(parts, " ") + "}"
		}
		fmt.Printf("%s %s[%s] = %s   | %s | %s\n", c.P.Pos(ev.pos), ev.field.Name(), strings.Join(ks, "]["), val, ev.chain, strings.Join(fs, " & "))
	}
	fmt.Println("events:", len(in.events), "loops:", len(in.loops), "steps:", in.steps)
	for _, mp := range modelPositions(c.P) {
		fmt.Println("MODEL", mp.kind, mp.shape)
	}
}
