package rules

// docsync (E3): typestate of the document vs. the analyzer's index along the
// Flatten call tree. States: E (unchanged since function entry), S (index in
// sync with the document), T (stale: the document was written since the last
// re-analysis). Per function a summary over success exits, "needs a synced
// index at entry", and violations: a function that reads the index before any
// own mutation is entered while the state may be stale.

import (
	"fmt"
	"go/ast"
	"go/token"
	"go/types"
	"sort"
	"strings"

	"verif/sa/internal/core"
)

func init() {
	register(Rule{
		Name:  "SYNC",
		Props: []string{"C10", "C04"},
		Doc:   "every success exit of Flatten leaves the passed analyzer re-analysed after the last document mutation; no phase starts on a stale index; reload rebuilds like New",
		Run:   syncRules,
	})
}

type dstate byte

const (
	stE dstate = 'E'
	stS dstate = 'S'
	stT dstate = 'T'
)

// tuple = document state + values of constant-assigned local bool flags.
type dtuple struct {
	st    dstate
	flags string // "name=1,other=0" sorted; ints are abstracted to 0 / +
	ret   string // exits only: abstract values of returned flags, "0=+,1=0" (result index = value)
}

type dset map[dtuple]bool

func (s dset) clone() dset {
	o := dset{}
	for k := range s {
		o[k] = true
	}
	return o
}

func (s dset) union(o dset) dset {
	r := s.clone()
	for k := range o {
		r[k] = true
	}
	return r
}

func (s dset) states() string {
	m := map[dstate]bool{}
	for k := range s {
		m[k.st] = true
	}
	var out []string
	for _, st := range []dstate{stE, stS, stT} {
		if m[st] {
			out = append(out, string(st))
		}
	}
	return strings.Join(out, "")
}

// signature distinguishes exit sets including the abstract return values (fixpoint detection).
func (s dset) signature() string {
	var out []string
	for k := range s {
		out = append(out, string(k.st)+"/"+k.ret)
	}
	sort.Strings(out)
	return strings.Join(out, ";")
}

func (s dset) has(st dstate) bool {
	for k := range s {
		if k.st == st {
			return true
		}
	}
	return false
}

func setFlag(flags, name string, val bool) string {
	m := parseFlags(flags)
	if val {
		m[name] = "1"
	} else {
		m[name] = "0"
	}
	return renderFlags(m)
}

func setFlagVal(flags, name, val string) string {
	m := parseFlags(flags)
	if val == "" {
		delete(m, name)
	} else {
		m[name] = val
	}
	return renderFlags(m)
}

func parseFlags(flags string) map[string]string {
	m := map[string]string{}
	if flags == "" {
		return m
	}
	for _, kv := range strings.Split(flags, ",") {
		p := strings.SplitN(kv, "=", 2)
		m[p[0]] = p[1]
	}
	return m
}

func renderFlags(m map[string]string) string {
	keys := make([]string, 0, len(m))
	for k := range m {
		keys = append(keys, k)
	}
	sort.Strings(keys)
	var parts []string
	for _, k := range keys {
		parts = append(parts, k+"="+m[k])
	}
	return strings.Join(parts, ",")
}

type syncSummary struct {
	exits     dset // states at success exits (E = as at entry)
	errExits  dset // states at error exits (E = as at entry): what a caller that carries on after the error sees
	needsSync bool // reads the index while the state is still E
	needsWhy  string
	mutates   bool
}

type syncViolation struct {
	fn   *core.FuncInfo
	pos  token.Pos
	what string
	key  string
}

type syncEngine struct {
	c           *Ctx
	eff         *effEngine
	sum         map[*core.FuncInfo]*syncSummary
	viols       map[string]syncViolation
	reloadFn    *core.FuncInfo
	specT       *types.Named
	indexFields map[*types.Var]bool
	docField    *types.Var
	collect     bool
	events      int
	holds       map[string]syncViolation
}

func syncRules(c *Ctx) {
	flat := c.need("C10", "SYNC", "", "Flatten")
	newFn := c.need("C10", "SYNC", "", "New")
	if flat == nil || newFn == nil {
		return
	}
	e := &syncEngine{c: c, eff: effects(c), sum: map[*core.FuncInfo]*syncSummary{}, viols: map[string]syncViolation{}, indexFields: map[*types.Var]bool{}, holds: map[string]syncViolation{}}
	// the Spec struct: its document field and its index fields
	if o := c.P.Pkg("").Types.Scope().Lookup("Spec"); o != nil {
		e.specT, _ = o.Type().(*types.Named)
	}
	if e.specT == nil {
		c.S.Undecided("C10", "SYNC", "anchor/Spec", "-", "type Spec not found")
		return
	}
	st := e.specT.Underlying().(*types.Struct)
	for i := 0; i < st.NumFields(); i++ {
		f := st.Field(i)
		if core.IsSpecType(f.Type(), "Swagger") {
			e.docField = f
		} else {
			e.indexFields[f] = true
		}
	}
	// reload: the *Spec method (other than New) that calls exactly the rebuild functions New calls on its result
	newCalls := e.methodCallsOn(newFn)
	for _, fi := range c.P.SortedFuncs() {
		if !strings.HasPrefix(fi.Name(), "Spec.") || fi.Obj.Exported() {
			continue
		}
		calls := e.methodCallsOn(fi)
		if len(calls) >= 2 && strings.Join(calls, ",") == strings.Join(newCalls, ",") {
			e.reloadFn = fi
		}
	}
	if e.reloadFn == nil {
		// New may itself go through the re-analysis method (New = construct + reload): compare the calls one level down
		flat := e.flatMethodCallsOn(newFn)
		for _, fi := range c.P.SortedFuncs() {
			if !strings.HasPrefix(fi.Name(), "Spec.") || fi.Obj.Exported() {
				continue
			}
			calls := e.methodCallsOn(fi)
			if len(calls) >= 2 && strings.Join(calls, ",") == strings.Join(flat, ",") {
				e.reloadFn = fi
				newCalls = flat
			}
		}
	}
	if e.reloadFn == nil {
		c.S.Violate("C10", "SYNC-RELOAD-EQ-NEW", "reload", c.P.Pos(newFn.Decl.Pos()),
			"no *Spec method rebuilds the index with the same calls, in the same order, as New ("+strings.Join(newCalls, ", ")+"): after a re-analysis the index need not equal that of analysis.New(document)")
		return
	}
	c.S.Hold("C10", "SYNC-RELOAD-EQ-NEW", e.reloadFn.QName(), c.P.Pos(e.reloadFn.Decl.Pos()),
		"re-analysis calls "+strings.Join(newCalls, ", ")+" in the same order as New")
	// … and New fills the index through those calls only: an entry stored by New itself is missing after a re-analysis
	{
		info := c.info(newFn)
		var direct []string
		var at token.Pos
		ast.Inspect(newFn.Decl.Body, func(n ast.Node) bool {
			as, ok := n.(*ast.AssignStmt)
			if !ok {
				return true
			}
			for _, l := range as.Lhs {
				x := core.Unparen(l)
				steps := 0
				for {
					switch v := x.(type) {
					case *ast.IndexExpr:
						x = core.Unparen(v.X)
						steps++
						continue
					case *ast.SelectorExpr:
						x = core.Unparen(v.X)
						steps++
						continue
					case *ast.StarExpr:
						x = core.Unparen(v.X)
						continue
					}
					break
				}
				id, isID := x.(*ast.Ident)
				if !isID || steps == 0 {
					continue
				}
				if o := info.Uses[id]; o != nil && types.Identical(core.Deref(o.Type()), e.specT) {
					direct = append(direct, exprStr(l))
					if at == token.NoPos {
						at = as.Pos()
					}
				}
			}
			return true
		})
		sort.Strings(direct)
		c.S.Decide(len(direct) == 0, "C10", "SYNC-RELOAD-EQ-NEW", newFn.QName()+"/direct-stores", c.P.Pos(func() token.Pos {
			if at != token.NoPos {
				return at
			}
			return newFn.Decl.Pos()
		}()),
			"New fills the index only through the calls it shares with the re-analysis",
			"New stores into the analyzer directly ("+strings.Join(direct, ", ")+"), outside the calls it shares with "+e.reloadFn.Name()+": those entries are missing after every re-analysis, so the Spec handed to Flatten no longer answers like analysis.New(document)")
	}
	e.covReset(newCalls)

	reach := core.SortedSet(c.P.Reachable(flat))
	e.identity(reach)
	for _, fi := range reach {
		e.sum[fi] = &syncSummary{exits: dset{}}
	}
	for iter := 0; iter < 10; iter++ {
		changed := false
		for _, fi := range reach {
			old := e.sum[fi]
			ns := e.analyze(fi)
			if ns.exits.signature() != old.exits.signature() || ns.errExits.signature() != old.errExits.signature() || ns.needsSync != old.needsSync || ns.mutates != old.mutates {
				changed = true
			}
			e.sum[fi] = ns
		}
		if !changed {
			break
		}
	}
	e.collect = true
	for _, fi := range reach {
		e.analyze(fi)
	}
	// SYNC-EXIT
	fs := e.sum[flat]
	okExit := !fs.exits.has(stT) && len(fs.exits) > 0
	c.S.Decide(okExit, "C10", "SYNC-EXIT", "Flatten", c.P.Pos(flat.Decl.Pos()),
		"every success exit of Flatten is reached with the index re-analysed after the last document mutation (exit states: "+fs.exits.states()+")",
		"a success exit of Flatten is reachable after a document mutation that is not followed by a re-analysis (exit states: "+fs.exits.states()+"): queries on the passed Spec answer for an older document")
	keys := make([]string, 0, len(e.viols))
	for k := range e.viols {
		keys = append(keys, k)
	}
	sort.Strings(keys)
	for _, k := range keys {
		v := e.viols[k]
		for _, prop := range []string{"C10", "C04"} {
			c.S.Violate(prop, "SYNC-ENTRY", k, c.P.Pos(v.pos), v.what)
		}
	}
	hk := make([]string, 0, len(e.holds))
	for k := range e.holds {
		hk = append(hk, k)
	}
	sort.Strings(hk)
	for _, k := range hk {
		if _, bad := e.viols[k]; bad {
			continue
		}
		v := e.holds[k]
		for _, prop := range []string{"C10", "C04"} {
			c.S.Hold(prop, "SYNC-ENTRY", k, c.P.Pos(v.pos), v.what)
		}
	}
	// per function exit summary (evidence)
	for _, fi := range reach {
		s := e.sum[fi]
		if s.mutates || s.needsSync {
			c.S.Note("SYNC summary %s: exits=%s needsSyncAtEntry=%v mutates=%v", fi.QName(), s.exits.states(), s.needsSync, s.mutates)
		}
	}
	if len(e.holds)+len(e.viols) < 5 {
		c.S.Undecided("C10", "SYNC-ENTRY", "floor", "-", fmt.Sprintf("only %d call sites of index-reading phases found (confirmed by hand: 8)", len(e.holds)+len(e.viols)))
	}
}

// methodCallsOn lists, in order, the module methods called on a *Spec value inside fi (New: on its result; reload: on its receiver).
func (e *syncEngine) methodCallsOn(fi *core.FuncInfo) []string {
	var out []string
	for _, call := range calls(fi.Decl.Body) {
		callee := e.c.P.StaticCallee(fi, call)
		if callee == nil || e.c.P.Funcs[callee] == nil {
			continue
		}
		sig := callee.Type().(*types.Signature)
		if sig.Recv() == nil && !callee.Exported() && sig.Results().Len() == 1 && core.IsModType(sig.Results().At(0).Type(), "Spec") {
			// an unexported constructor (literal + allocation): what it calls on the new analyzer comes first
			if g := e.c.P.Funcs[callee]; g != nil && g != fi {
				out = append(out, e.methodCallsOn(g)...)
			}
			continue
		}
		if sig.Recv() == nil || !core.IsModType(sig.Recv().Type(), "Spec") {
			continue
		}
		out = append(out, callee.Name())
	}
	return out
}

// flatMethodCallsOn: like methodCallsOn, with each unexported *Spec method replaced by the methods it calls itself.
func (e *syncEngine) flatMethodCallsOn(fi *core.FuncInfo) []string {
	var out []string
	for _, call := range calls(fi.Decl.Body) {
		callee := e.c.P.StaticCallee(fi, call)
		g := e.c.P.Funcs[callee]
		if callee == nil || g == nil {
			continue
		}
		sig := callee.Type().(*types.Signature)
		if sig.Recv() == nil && !callee.Exported() && sig.Results().Len() == 1 && core.IsModType(sig.Results().At(0).Type(), "Spec") && g != fi {
			out = append(out, e.methodCallsOn(g)...)
			continue
		}
		if sig.Recv() == nil || !core.IsModType(sig.Recv().Type(), "Spec") {
			continue
		}
		if inner := e.methodCallsOn(g); len(inner) > 0 && !callee.Exported() {
			out = append(out, inner...)
			continue
		}
		out = append(out, callee.Name())
	}
	return out
}

// identity (SYNC-IDENTITY): Flatten works on a copy of its options, so the analyzer the caller observes is the
// one the Spec field pointed to on entry. No function below Flatten may re-point that field (to a new analyzer):
// every later re-analysis would then refresh a private analyzer and leave the caller's stale.
func (e *syncEngine) identity(reach []*core.FuncInfo) {
	c := e.c
	var optsSpec *types.Var
	var optsT types.Type
	if o := c.P.Pkg("").Types.Scope().Lookup("FlattenOpts"); o != nil {
		optsT = o.Type()
	}
	if optsT == nil {
		c.S.Undecided("C10", "SYNC-IDENTITY", "anchor", "-", "type FlattenOpts not found")
		return
	}
	if st, ok := optsT.Underlying().(*types.Struct); ok {
		for i := 0; i < st.NumFields(); i++ {
			if f := st.Field(i); core.IsModType(f.Type(), "Spec") {
				optsSpec = f
			}
		}
	}
	if optsSpec == nil {
		c.S.Undecided("C10", "SYNC-IDENTITY", "anchor", "-", "FlattenOpts has no field of type *Spec")
		return
	}
	n := 0
	for _, fi := range reach {
		info := c.info(fi)
		ast.Inspect(fi.Decl.Body, func(nd ast.Node) bool {
			as, ok := nd.(*ast.AssignStmt)
			if !ok {
				return true
			}
			for _, l := range as.Lhs {
				if sel, ok := core.Unparen(l).(*ast.SelectorExpr); ok && core.FieldOf(info, sel) == optsSpec {
					n++
					c.S.Violate("C10", "SYNC-IDENTITY", fi.QName()+"/"+optsSpec.Name(), c.P.Pos(as.Pos()),
						"the analyzer field of the flattening options is re-pointed below Flatten: the options are a copy, so the caller keeps the old analyzer, which no later re-analysis refreshes — its views stay those of the original document")
				}
			}
			return true
		})
	}
	if n == 0 {
		c.S.Hold("C10", "SYNC-IDENTITY", "FlattenOpts."+optsSpec.Name(), c.P.Pos(optsSpec.Pos()),
			fmt.Sprintf("no assignment to the analyzer field in the %d functions below Flatten: every re-analysis refreshes the caller's analyzer", len(reach)))
	}
}

// covReset: the first rebuild function assigns every map field of Spec (recursively through struct fields) with make.
func (e *syncEngine) covReset(calls []string) {
	c := e.c
	if len(calls) == 0 {
		return
	}
	reset := c.root("Spec." + calls[0])
	if reset == nil {
		return
	}
	assigned := c.freshAssignedFields(reset)
	n := 0
	var walk func(st *types.Struct, prefix string)
	walk = func(st *types.Struct, prefix string) {
		for i := 0; i < st.NumFields(); i++ {
			f := st.Field(i)
			switch u := f.Type().Underlying().(type) {
			case *types.Map:
				n++
				c.S.Decide(assigned[f], "C10", "COV-RESET", prefix+f.Name(), c.P.Pos(reset.Decl.Pos()),
					"emptied by every re-analysis", "index map "+prefix+f.Name()+" is not re-created by "+reset.Name()+": entries of the previous document survive a re-analysis")
			case *types.Struct:
				if pp, _ := core.NamedOf(f.Type()); pp == core.ModPath {
					walk(u, prefix+f.Name()+".")
				}
			}
		}
	}
	walk(e.specT.Underlying().(*types.Struct), "")
	if n < 20 {
		c.S.Undecided("C10", "COV-RESET", "floor", "-", fmt.Sprintf("only %d index maps found in Spec (confirmed by hand: 24)", n))
	}
}

// isFreshMap: the expression creates a new empty map: make(map…), an empty map literal, or a call of a module
// function all of whose returns do.
func (c *Ctx) isFreshMap(fi *core.FuncInfo, e ast.Expr, depth int) bool {
	if depth > 3 {
		return false
	}
	info := c.info(fi)
	switch x := core.Unparen(e).(type) {
	case *ast.CompositeLit:
		return core.IsMap(info.TypeOf(x)) && len(x.Elts) == 0
	case *ast.CallExpr:
		if isBuiltin(info, x, "make") {
			return true
		}
		callee := c.P.StaticCallee(fi, x)
		g := c.P.Funcs[callee]
		if callee == nil || g == nil || g.Decl == nil || g.Decl.Body == nil {
			return false
		}
		all, n := true, 0
		ast.Inspect(g.Decl.Body, func(m ast.Node) bool {
			if _, isLit := m.(*ast.FuncLit); isLit {
				return false
			}
			if ret, ok := m.(*ast.ReturnStmt); ok {
				n++
				if len(ret.Results) != 1 || !c.isFreshMap(g, ret.Results[0], depth+1) {
					all = false
				}
			}
			return true
		})
		return all && n > 0
	}
	return false
}

// freshMapFields: the map fields that are new empty maps in a struct value built by a composite literal
// (possibly behind &) or by a module constructor all of whose returns build one.
func (c *Ctx) freshMapFields(fi *core.FuncInfo, e ast.Expr, depth int) map[*types.Var]bool {
	out := map[*types.Var]bool{}
	if depth > 3 {
		return out
	}
	info := c.info(fi)
	switch x := core.Unparen(e).(type) {
	case *ast.UnaryExpr:
		return c.freshMapFields(fi, x.X, depth)
	case *ast.CompositeLit:
		for _, el := range x.Elts {
			kv, ok := el.(*ast.KeyValueExpr)
			if !ok {
				continue
			}
			id, ok := kv.Key.(*ast.Ident)
			if !ok {
				continue
			}
			fv, _ := info.Uses[id].(*types.Var)
			if fv == nil || !fv.IsField() {
				continue
			}
			if core.IsMap(fv.Type()) {
				if c.isFreshMap(fi, kv.Value, depth+1) {
					out[fv] = true
				}
			} else {
				for f := range c.freshMapFields(fi, kv.Value, depth+1) {
					out[f] = true
				}
			}
		}
	case *ast.CallExpr:
		callee := c.P.StaticCallee(fi, x)
		g := c.P.Funcs[callee]
		if callee == nil || g == nil || g.Decl == nil || g.Decl.Body == nil {
			return out
		}
		first := true
		ast.Inspect(g.Decl.Body, func(m ast.Node) bool {
			if _, isLit := m.(*ast.FuncLit); isLit {
				return false
			}
			ret, ok := m.(*ast.ReturnStmt)
			if !ok {
				return true
			}
			var got map[*types.Var]bool
			if len(ret.Results) == 1 {
				got = c.freshMapFields(g, ret.Results[0], depth+1)
			}
			if first {
				out, first = got, false
				if out == nil {
					out = map[*types.Var]bool{}
				}
			} else {
				for f := range out {
					if !got[f] {
						delete(out, f)
					}
				}
			}
			return true
		})
	}
	return out
}

// ---- per-function analysis ---------------------------------------------------

type syncFn struct {
	e      *syncEngine
	fi     *core.FuncInfo
	info   *types.Info
	sum    *syncSummary
	flags  map[types.Object]bool
	jumps  []dset          // per enclosing loop: states at break/continue statements
	breaks []dset          // per enclosing loop: states at break statements only (what leaves a `for {}`)
	defers []*ast.CallExpr // calls deferred so far, applied (as "may have been deferred") at every exit
	bind   map[int]types.Object
	// the state before the statement being executed, and before the previous one of the same list
	curIn, prevIn dset
	prevStmt      ast.Stmt
}

func (e *syncEngine) analyze(fi *core.FuncInfo) *syncSummary {
	f := &syncFn{e: e, fi: fi, info: fi.Pkg.TypesInfo, sum: &syncSummary{exits: dset{}, errExits: dset{}}, flags: map[types.Object]bool{}}
	// flags: local bools all of whose assignments are constants
	ld := e.c.P.Locals(fi)
	isInt := func(t types.Type) bool {
		b, ok := t.Underlying().(*types.Basic)
		return ok && b.Info()&types.IsInteger != 0
	}
	for o, defs := range ld.Defs {
		if !(core.IsBool(o.Type()) || isInt(o.Type())) {
			continue
		}
		if ld.Params[o] {
			// named results are fine, real parameters are not tracked
			if _, isParam := e.eff.paramIndex(fi, o); isParam {
				continue
			}
		}
		all := len(defs) > 0
		for _, d := range defs {
			switch d.Kind {
			case core.DefZero:
			case core.DefOpaque:
				if _, isInc := d.Node.(*ast.IncDecStmt); !isInc {
					all = false
				}
			case core.DefAssign, core.DefMulti:
				if tv, ok := f.info.Types[d.Expr]; ok && tv.Value != nil {
					continue
				}
				// bound from the summary of a module call
				if call, ok := core.Unparen(d.Expr).(*ast.CallExpr); ok {
					if callee := e.c.P.StaticCallee(fi, call); callee != nil && e.c.P.Funcs[callee] != nil {
						continue
					}
				}
				all = false
			default:
				all = false
			}
		}
		if all {
			f.flags[o] = true
		}
	}
	start := dset{dtuple{st: stE}: true}
	out, term := f.stmts(fi.Decl.Body.List, start)
	if !term {
		out = f.runDefers(out)
		for k := range out {
			f.sum.exits[dtuple{st: k.st}] = true
		}
	}
	return f.sum
}

func (f *syncFn) stmts(list []ast.Stmt, s dset) (dset, bool) {
	var before dset
	for i, st := range list {
		var term bool
		f.prevIn, f.prevStmt = before, nil
		if i > 0 {
			f.prevStmt = list[i-1]
		}
		before = s.clone()
		f.curIn = before
		s, term = f.stmt(st, s)
		if term {
			return s, true
		}
	}
	return s, false
}

// errorBranch: cond tests `err != nil` (alone, or in a conjunction) on an error assigned from a single module call by
// the if's own init statement or by the statement just before it. Returns the state in which the callee's error
// exits leave the document, and whether the test stands alone.
func (f *syncFn) errorBranch(x *ast.IfStmt, pre dset) (errState dset, alone, ok bool) {
	atoms := core.SplitCond(x.Cond, false)
	var errObj types.Object
	for _, cd := range atoms {
		if v, nonNil, isNil := core.NilTest(f.info, cd); isNil && nonNil && core.IsErrorType(f.info.TypeOf(v)) {
			errObj = core.ObjOf(f.info, v)
		}
	}
	if errObj == nil {
		return nil, false, false
	}
	def := x.Init
	in := pre
	if def == nil {
		def = f.prevStmt
		in = f.prevIn
	}
	as, isAs := def.(*ast.AssignStmt)
	if !isAs || len(as.Rhs) != 1 || in == nil {
		return nil, false, false
	}
	assigns := false
	for _, l := range as.Lhs {
		if core.ObjOf(f.info, l) == errObj {
			assigns = true
		}
	}
	call, isCall := core.Unparen(as.Rhs[0]).(*ast.CallExpr)
	if !assigns || !isCall {
		return nil, false, false
	}
	callee := f.e.c.P.StaticCallee(f.fi, call)
	cs := f.e.sum[f.e.c.P.Funcs[callee]]
	if callee == nil || cs == nil || len(cs.errExits) == 0 {
		return nil, false, false
	}
	out := dset{}
	for k := range in {
		for ek := range cs.errExits {
			st := ek.st
			if st == stE {
				st = k.st
			}
			out[dtuple{st: st, flags: k.flags}] = true
		}
	}
	return out, len(atoms) == 1, true
}

func (f *syncFn) isErrorExit(r *ast.ReturnStmt) bool {
	pm := f.e.c.parents(f.fi)
	for _, cd := range core.PathConds(f.info, pm, r, nil) {
		if x, nonNil, ok := core.NilTest(f.info, cd); ok && nonNil && core.IsErrorType(f.info.TypeOf(x)) {
			return true
		}
	}
	// returning a freshly constructed error
	for _, res := range r.Results {
		if !core.IsErrorType(f.info.TypeOf(res)) {
			continue
		}
		if call, ok := core.Unparen(res).(*ast.CallExpr); ok {
			// `return phase(…)`: a tail call of a function that touches the document or the index is not the
			// construction of an error — its success exits are this function's
			if callee := f.e.c.P.StaticCallee(f.fi, call); callee != nil {
				if cs := f.e.sum[f.e.c.P.Funcs[callee]]; cs != nil && (cs.mutates || cs.needsSync) {
					continue
				}
			}
			return true
		}
	}
	return false
}

func (f *syncFn) stmt(st ast.Stmt, s dset) (dset, bool) {
	switch x := st.(type) {
	case *ast.BlockStmt:
		return f.stmts(x.List, s)
	case *ast.ReturnStmt:
		for _, r := range x.Results {
			s = f.expr(r, s)
		}
		s = f.runDefers(s)
		if f.isErrorExit(x) {
			for k := range s {
				f.sum.errExits[dtuple{st: k.st}] = true
			}
		}
		if !f.isErrorExit(x) {
			for k := range s {
				fl := parseFlags(k.flags)
				ret := map[string]string{}
				for i, r := range x.Results {
					if o := core.ObjOf(f.info, r); o != nil && f.flags[o] {
						if v, ok := fl[o.Name()]; ok {
							ret[fmt.Sprint(i)] = v
						}
					} else if tv, ok := f.info.Types[r]; ok && tv.Value != nil {
						switch tv.Value.String() {
						case "true":
							ret[fmt.Sprint(i)] = "1"
						case "false", "0":
							ret[fmt.Sprint(i)] = "0"
						}
					}
				}
				// named results returned by a bare return
				if len(x.Results) == 0 && f.fi.Decl.Type.Results != nil {
					i := 0
					for _, fld := range f.fi.Decl.Type.Results.List {
						for _, nm := range fld.Names {
							if o := f.info.Defs[nm]; o != nil && f.flags[o] {
								if v, ok := fl[o.Name()]; ok {
									ret[fmt.Sprint(i)] = v
								}
							}
							i++
						}
					}
				}
				f.sum.exits[dtuple{st: k.st, ret: renderFlags(ret)}] = true
			}
		}
		return s, true
	case *ast.BranchStmt:
		if n := len(f.jumps); n > 0 {
			f.jumps[n-1] = f.jumps[n-1].union(s)
		}
		if n := len(f.breaks); n > 0 && x.Tok == token.BREAK && x.Label == nil {
			f.breaks[n-1] = f.breaks[n-1].union(s)
		}
		return s, true
	case *ast.IfStmt:
		pre := s
		prevIn, prevStmt := f.prevIn, f.prevStmt
		if x.Init != nil {
			s, _ = f.stmt(x.Init, s)
		}
		s = f.expr(x.Cond, s)
		thenIn, elseIn := f.filter(s, x.Cond)
		// the error branch of a module call sees the document as the callee's error exits leave it
		f.prevIn, f.prevStmt = prevIn, prevStmt
		if errState, alone, ok := f.errorBranch(x, pre); ok {
			thenIn = errState
			if !alone {
				elseIn = elseIn.union(errState)
			}
		}
		thenOut, thenT := f.stmts(x.Body.List, thenIn)
		elseOut, elseT := elseIn, false
		if x.Else != nil {
			elseOut, elseT = f.stmt(x.Else, elseIn)
		}
		switch {
		case thenT && elseT:
			return s, true
		case thenT:
			return elseOut, false
		case elseT:
			return thenOut, false
		}
		return thenOut.union(elseOut), false
	case *ast.ForStmt:
		if x.Init != nil {
			s, _ = f.stmt(x.Init, s)
		}
		if x.Cond == nil {
			// for { … }: left only through break (or return): what follows sees the states at the breaks
			out, broke := f.foreverLoop(x.Body, x.Post, s)
			if !broke {
				return out, true
			}
			return out, false
		}
		return f.loop(x.Cond, x.Body, x.Post, s), false
	case *ast.RangeStmt:
		s = f.expr(x.X, s)
		// a table of steps: the loop runs its elements in order — each one a call of the function it denotes, skipped
		// when its guard says so
		if steps, run := f.e.c.stepTable(f.fi, x); steps != nil {
			for _, st := range steps {
				out := f.applySummary(st.fn, run.Pos(), s)
				if st.guarded {
					out = out.union(s)
				}
				s = out
			}
			return s, false
		}
		return f.loop(nil, x.Body, nil, s), false
	case *ast.SwitchStmt:
		if x.Init != nil {
			s, _ = f.stmt(x.Init, s)
		}
		if x.Tag != nil {
			s = f.expr(x.Tag, s)
		}
		out := dset{}
		hasDefault := false
		for _, cl := range x.Body.List {
			cc := cl.(*ast.CaseClause)
			if cc.List == nil {
				hasDefault = true
			}
			in := s
			for _, e := range cc.List {
				in = f.expr(e, in)
			}
			o, t := f.stmts(cc.Body, in)
			if !t {
				out = out.union(o)
			}
		}
		if !hasDefault {
			out = out.union(s)
		}
		return out, false
	case *ast.TypeSwitchStmt:
		out := s.clone()
		for _, cl := range x.Body.List {
			o, t := f.stmts(cl.(*ast.CaseClause).Body, s)
			if !t {
				out = out.union(o)
			}
		}
		return out, false
	case *ast.LabeledStmt:
		return f.stmt(x.Stmt, s)
	case *ast.ExprStmt:
		return f.expr(x.X, s), false
	case *ast.DeferStmt:
		// the arguments are evaluated now, the call runs when the function returns — after whatever follows
		for _, a := range x.Call.Args {
			s = f.expr(a, s)
		}
		f.defers = append(f.defers, x.Call)
		return s, false
	case *ast.GoStmt:
		return f.expr(x.Call, s), false
	case *ast.IncDecStmt:
		if o := core.ObjOf(f.info, x.X); o != nil && f.flags[o] && x.Tok == token.INC {
			out := dset{}
			for k := range s {
				out[dtuple{st: k.st, flags: setFlagVal(k.flags, o.Name(), "+")}] = true
			}
			return out, false
		}
		return s, false
	case *ast.DeclStmt:
		if gd, ok := x.Decl.(*ast.GenDecl); ok {
			for _, sp := range gd.Specs {
				if vs, ok := sp.(*ast.ValueSpec); ok {
					for _, v := range vs.Values {
						s = f.expr(v, s)
					}
					for _, nm := range vs.Names {
						if o := f.info.Defs[nm]; o != nil && f.flags[o] && len(vs.Values) == 0 {
							s = f.setFlag(s, o, false)
						}
					}
				}
			}
		}
		return s, false
	case *ast.AssignStmt:
		// x, err := f(…): bind tracked locals to the callee's abstract results
		if len(x.Rhs) == 1 {
			if call, ok := core.Unparen(x.Rhs[0]).(*ast.CallExpr); ok {
				if callee := f.e.c.P.StaticCallee(f.fi, call); callee != nil && f.e.sum[f.e.c.P.Funcs[callee]] != nil {
					bind := map[int]types.Object{}
					for i, l := range x.Lhs {
						if o := core.ObjOf(f.info, l); o != nil && f.flags[o] {
							bind[i] = o
						}
					}
					if len(bind) > 0 {
						for _, a := range call.Args {
							s = f.expr(a, s)
						}
						return f.callBind(call, s, bind), false
					}
				}
			}
		}
		for _, r := range x.Rhs {
			s = f.expr(r, s)
		}
		for i, l := range x.Lhs {
			l = core.Unparen(l)
			if id, ok := l.(*ast.Ident); ok {
				if o := core.ObjOf(f.info, id); o != nil && f.flags[o] && i < len(x.Rhs) {
					if tv, ok := f.info.Types[x.Rhs[i]]; ok && tv.Value != nil {
						switch tv.Value.String() {
						case "true":
							s = f.setFlag(s, o, true)
						case "false", "0":
							s = f.setFlag(s, o, false)
						default:
							out := dset{}
							for k := range s {
								out[dtuple{st: k.st, flags: setFlagVal(k.flags, o.Name(), "+")}] = true
							}
							s = out
						}
					}
				}
				continue
			}
			// a direct store: does it hit the document?
			if f.directDocWrite(x.Pos()) {
				s = f.mutate(s)
			}
		}
		return s, false
	}
	return s, false
}

func (f *syncFn) setFlag(s dset, o types.Object, v bool) dset {
	out := dset{}
	for k := range s {
		out[dtuple{st: k.st, flags: setFlag(k.flags, o.Name(), v)}] = true
	}
	return out
}

// filter splits the state set by a condition over tracked flags.
func (f *syncFn) filter(s dset, cond ast.Expr) (dset, dset) {
	neg := false
	e := core.Unparen(cond)
	if u, ok := e.(*ast.UnaryExpr); ok && u.Op == token.NOT {
		neg = true
		e = core.Unparen(u.X)
	}
	// integer flag compared with 0 / 1:  n == 0, n < 1, n <= 0  (zero)   n != 0, n > 0, n >= 1  (positive)
	if be, ok := e.(*ast.BinaryExpr); ok {
		if o := core.ObjOf(f.info, be.X); o != nil && f.flags[o] {
			if tv, isC := f.info.Types[be.Y]; isC && tv.Value != nil {
				c := tv.Value.String()
				zero, known := false, false
				switch {
				case c == "0" && (be.Op == token.EQL || be.Op == token.LEQ), c == "1" && be.Op == token.LSS:
					zero, known = true, true
				case c == "0" && (be.Op == token.NEQ || be.Op == token.GTR), c == "1" && be.Op == token.GEQ:
					zero, known = false, true
				}
				if known {
					t, el := dset{}, dset{}
					for k := range s {
						v, has := parseFlags(k.flags)[o.Name()]
						switch {
						case !has:
							t[k], el[k] = true, true
						case (v == "0") == (zero != neg):
							t[k] = true
						default:
							el[k] = true
						}
					}
					return t, el
				}
			}
		}
		return s, s
	}
	o := core.ObjOf(f.info, e)
	if o == nil || !f.flags[o] {
		return s, s
	}
	t, el := dset{}, dset{}
	for k := range s {
		v, known := parseFlags(k.flags)[o.Name()]
		switch {
		case !known:
			t[k], el[k] = true, true
		case (v == "1") != neg:
			t[k] = true
		default:
			el[k] = true
		}
	}
	return t, el
}

func (f *syncFn) loop(cond ast.Expr, body *ast.BlockStmt, post ast.Stmt, s dset) dset {
	acc := s.clone()
	for i := 0; i < 6; i++ {
		in := acc
		if cond != nil {
			in = f.expr(cond, in)
		}
		f.jumps = append(f.jumps, dset{})
		out, _ := f.stmts(body.List, in)
		// continue/break paths rejoin after the body
		out = out.union(f.jumps[len(f.jumps)-1])
		f.jumps = f.jumps[:len(f.jumps)-1]
		if post != nil {
			out, _ = f.stmt(post, out)
		}
		n := len(acc)
		acc = acc.union(out)
		if len(acc) == n {
			break
		}
	}
	if cond != nil {
		acc = f.expr(cond, acc)
	}
	return acc
}

// foreverLoop: a loop without condition. Returns the union of the states at its break statements and whether there
// is any (a switch or select inside the body would capture an unlabelled break: none below Flatten).
func (f *syncFn) foreverLoop(body *ast.BlockStmt, post ast.Stmt, s dset) (dset, bool) {
	acc := s.clone()
	left := dset{}
	for i := 0; i < 6; i++ {
		f.jumps = append(f.jumps, dset{})
		f.breaks = append(f.breaks, dset{})
		out, _ := f.stmts(body.List, acc)
		br := f.breaks[len(f.breaks)-1]
		all := f.jumps[len(f.jumps)-1]
		f.jumps = f.jumps[:len(f.jumps)-1]
		f.breaks = f.breaks[:len(f.breaks)-1]
		left = left.union(br)
		// continue paths (all jumps that are not breaks are over-approximated by all jumps) rejoin the head
		out = out.union(all)
		if post != nil {
			out, _ = f.stmt(post, out)
		}
		n := len(acc)
		acc = acc.union(out)
		if len(acc) == n {
			break
		}
	}
	return left, len(left) > 0
}

// runDefers applies the calls deferred so far, last first. A defer met on some path only (in a branch, in a loop) may
// or may not be pending: both outcomes are kept.
func (f *syncFn) runDefers(s dset) dset {
	for i := len(f.defers) - 1; i >= 0; i-- {
		call := f.defers[i]
		if _, isLit := core.Unparen(call.Fun).(*ast.FuncLit); isLit {
			continue // deferred literals below Flatten only recover or log; their bodies are not followed
		}
		s = s.union(f.call(call, s))
	}
	return s
}

func (f *syncFn) mutate(s dset) dset {
	f.sum.mutates = true
	out := dset{}
	for k := range s {
		out[dtuple{st: stT, flags: k.flags}] = true
	}
	return out
}

func (f *syncFn) synced(s dset) dset {
	out := dset{}
	for k := range s {
		out[dtuple{st: stS, flags: k.flags}] = true
	}
	return out
}

// directDocWrite: a direct (not via call) write of this function at pos that reaches document storage.
func (f *syncFn) directDocWrite(pos token.Pos) bool {
	for _, w := range f.e.eff.sum[f.fi].writes {
		if w.fn != f.fi || len(w.via) > 0 || w.pos != pos {
			continue
		}
		if f.e.isDocWrite(f.fi, w) {
			return true
		}
	}
	return false
}

func (e *syncEngine) isDocWrite(fi *core.FuncInfo, w effWrite) bool {
	for _, s := range w.steps {
		if isDocStep(s) {
			return true
		}
	}
	if w.root == "param" {
		pt := paramType(fi, w.param)
		if pp, _ := core.NamedOf(pt); pp == core.SpecPath {
			return true
		}
		if _, isIface := pt.Underlying().(*types.Interface); isIface && w.unknownRel {
			return true
		}
	}
	return false
}

// expr processes the calls inside an expression in source order.
func (f *syncFn) expr(e ast.Expr, s dset) dset {
	if e == nil {
		return s
	}
	var callsIn []*ast.CallExpr
	ast.Inspect(e, func(n ast.Node) bool {
		if _, isLit := n.(*ast.FuncLit); isLit {
			return false
		}
		if c, ok := n.(*ast.CallExpr); ok {
			callsIn = append(callsIn, c)
		}
		return true
	})
	// innermost first (arguments are evaluated before the call)
	sort.SliceStable(callsIn, func(i, j int) bool { return callsIn[i].End() < callsIn[j].End() })
	// index reads in the expression (outside calls to module functions, which have their own summaries)
	s = f.indexReads(e, s)
	for _, call := range callsIn {
		s = f.call(call, s)
	}
	return s
}

// indexReads: selections of an index field of the Spec handed to Flatten.
func (f *syncFn) indexReads(e ast.Expr, s dset) dset {
	found := ""
	ast.Inspect(e, func(n ast.Node) bool {
		if _, isLit := n.(*ast.FuncLit); isLit {
			return false
		}
		sel, ok := n.(*ast.SelectorExpr)
		if !ok {
			return true
		}
		fv := core.FieldOf(f.info, sel)
		if fv == nil || !f.e.indexFields[fv] {
			return true
		}
		// rooted at a parameter (the FlattenOpts / its Spec), not at a fresh analyzer
		p := f.e.c.P.PathOf(f.fi, sel.X, true)
		if p == nil || p.Root == nil {
			return true
		}
		if !f.e.c.P.Locals(f.fi).Params[p.Root] {
			return true
		}
		found = exprStr(sel)
		return true
	})
	if found != "" && s.has(stE) && !f.sum.needsSync {
		f.sum.needsSync = true
		f.sum.needsWhy = "reads " + found
	}
	return s
}

// callBind applies a module call whose results are bound to tracked locals.
func (f *syncFn) callBind(call *ast.CallExpr, s dset, bind map[int]types.Object) dset {
	f.bind = bind
	out := f.call(call, s)
	f.bind = nil
	return out
}

func (f *syncFn) call(call *ast.CallExpr, s dset) dset {
	c := f.e.c
	if isBuiltin(f.info, call, "delete") || isBuiltin(f.info, call, "copy") || isBuiltin(f.info, call, "clear") {
		if f.directDocWrite(call.Pos()) {
			s = f.mutate(s)
		}
		return s
	}
	fns, _ := c.P.Callees(f.fi, call)
	for _, callee := range fns {
		cf := c.P.Funcs[callee]
		if cf == nil {
			// external mutators on document data
			if idx, ok := externalEffects[callee.FullName()]; ok {
				var a ast.Expr
				if idx == -1 {
					if sel, ok := core.Unparen(call.Fun).(*ast.SelectorExpr); ok {
						a = sel.X
					}
				} else if idx < len(call.Args) {
					a = call.Args[idx]
				}
				if a != nil {
					p := c.P.PathOf(f.fi, a, true)
					_, _, _, fresh := f.e.eff.classify(f.fi, p)
					if !fresh && !strings.HasPrefix(callee.FullName(), "sort.") {
						s = f.mutate(s)
					}
				}
			}
			continue
		}
		// re-analysis of the Spec handed to Flatten
		if cf == f.e.reloadFn {
			if sel, ok := core.Unparen(call.Fun).(*ast.SelectorExpr); ok {
				p := c.P.PathOf(f.fi, sel.X, true)
				if p != nil && p.Root != nil && c.P.Locals(f.fi).Params[p.Root] {
					f.e.events++
					s = f.synced(s)
					continue
				}
			}
			continue
		}
		// exported *Spec query methods and index consumers: an index read when called on the passed Spec
		if sig := callee.Type().(*types.Signature); sig.Recv() != nil && core.IsModType(sig.Recv().Type(), "Spec") {
			if sel, ok := core.Unparen(call.Fun).(*ast.SelectorExpr); ok {
				p := c.P.PathOf(f.fi, sel.X, true)
				if p != nil && p.Root != nil && c.P.Locals(f.fi).Params[p.Root] && callee.Name() != "Swagger" {
					reads := false
					ast.Inspect(cf.Decl.Body, func(n ast.Node) bool {
						if sl, ok := n.(*ast.SelectorExpr); ok {
							if fv := core.FieldOf(cf.Pkg.TypesInfo, sl); fv != nil && f.e.indexFields[fv] {
								reads = true
							}
						}
						return true
					})
					if reads && s.has(stE) && !f.sum.needsSync {
						f.sum.needsSync = true
						f.sum.needsWhy = "calls " + callee.Name() + "() on the passed Spec"
					}
				}
			}
			continue
		}
		cs := f.e.sum[cf]
		if cs == nil {
			// outside the Flatten tree summaries (should not happen): use effects
			cs = &syncSummary{exits: dset{dtuple{st: stE}: true}}
		}
		// a Spec passed as an interface to an index consumer (operations.AllOpRefsByRef(opts.Spec, …))
		passesSpec := false
		for _, a := range call.Args {
			if core.IsModType(f.info.TypeOf(a), "Spec") {
				p := c.P.PathOf(f.fi, a, true)
				if p != nil && p.Root != nil && c.P.Locals(f.fi).Params[p.Root] {
					passesSpec = true
				}
			}
		}
		needs := cs.needsSync || passesSpec && f.calleeReadsProvider(cf)
		if needs {
			if s.has(stE) && !f.sum.needsSync {
				f.sum.needsSync = true
				f.sum.needsWhy = "calls " + cf.Obj.Name() + " (" + cs.needsWhy + ")"
			}
			key := f.fi.QName() + "->" + cf.Obj.Name()
			if f.e.collect {
				if s.has(stT) {
					f.e.viols[key] = syncViolation{fn: f.fi, pos: call.Pos(), key: key,
						what: fmt.Sprintf("%s is entered while the index may be stale (a document mutation earlier on this path is not followed by a re-analysis); %s reads the index before mutating anything (%s): its keys may not resolve against the document", cf.Obj.Name(), cf.Obj.Name(), cs.needsWhy)}
				} else {
					f.e.holds[key] = syncViolation{fn: f.fi, pos: call.Pos(), what: cf.Obj.Name() + " reads the index at entry and is always entered with the index in sync (state " + s.states() + ")"}
				}
			}
		}
		// does the callee write the document (directly or transitively) without its own summary saying so?
		if f.e.calleeMutatesDoc(cf) && len(cs.exits) == 0 {
			s = f.mutate(s)
			continue
		}
		// apply the callee's exit summary
		out := dset{}
		for k := range s {
			for ek := range cs.exits {
				st := ek.st
				if st == stE {
					st = k.st
				}
				fl := k.flags
				if f.bind != nil {
					rv := parseFlags(ek.ret)
					for i, o := range f.bind {
						fl = setFlagVal(fl, o.Name(), rv[fmt.Sprint(i)])
					}
				}
				out[dtuple{st: st, flags: fl}] = true
			}
			if len(cs.exits) == 0 {
				out[k] = true
			}
		}
		if cs.mutates {
			f.sum.mutates = true
		}
		s = out
	}
	return s
}

// applySummary applies the summary of a module function called through a function value (an element of a table of
// steps): the entry requirement, then the success exits.
func (f *syncFn) applySummary(cf *core.FuncInfo, pos token.Pos, s dset) dset {
	cs := f.e.sum[cf]
	if cs == nil {
		cs = &syncSummary{exits: dset{dtuple{st: stE}: true}}
	}
	if cs.needsSync {
		if s.has(stE) && !f.sum.needsSync {
			f.sum.needsSync = true
			f.sum.needsWhy = "calls " + cf.Obj.Name() + " (" + cs.needsWhy + ")"
		}
		key := f.fi.QName() + "->" + cf.Obj.Name()
		if f.e.collect {
			if s.has(stT) {
				f.e.viols[key] = syncViolation{fn: f.fi, pos: pos, key: key,
					what: fmt.Sprintf("%s is entered while the index may be stale (a document mutation earlier on this path is not followed by a re-analysis); %s reads the index before mutating anything (%s): its keys may not resolve against the document", cf.Obj.Name(), cf.Obj.Name(), cs.needsWhy)}
			} else {
				f.e.holds[key] = syncViolation{fn: f.fi, pos: pos, what: cf.Obj.Name() + " reads the index at entry and is always entered with the index in sync (state " + s.states() + ")"}
			}
		}
	}
	if f.e.calleeMutatesDoc(cf) && len(cs.exits) == 0 {
		return f.mutate(s)
	}
	out := dset{}
	for k := range s {
		for ek := range cs.exits {
			st := ek.st
			if st == stE {
				st = k.st
			}
			out[dtuple{st: st, flags: k.flags}] = true
		}
		if len(cs.exits) == 0 {
			out[k] = true
		}
	}
	if cs.mutates {
		f.sum.mutates = true
	}
	return out
}

// calleeReadsProvider: the callee (or what it calls) invokes a method on its Provider/Spec parameter.
func (f *syncFn) calleeReadsProvider(cf *core.FuncInfo) bool {
	for g := range f.e.c.P.Reachable(cf) {
		for _, call := range calls(g.Decl.Body) {
			if callee := f.e.c.P.CalleeAny(g, call); callee != nil && callee.Name() == "Operations" {
				return true
			}
		}
	}
	return false
}

func (e *syncEngine) calleeMutatesDoc(cf *core.FuncInfo) bool {
	s := e.eff.sum[cf]
	if s == nil {
		return false
	}
	for _, w := range s.writes {
		if e.isDocWrite(cf, w) {
			return true
		}
	}
	return false
}

// freshAssignedFields: the map members (directly, or inside a struct replaced as a whole) that the function assigns a
// newly made map.
func (c *Ctx) freshAssignedFields(reset *core.FuncInfo) map[*types.Var]bool {
	info := c.info(reset)
	assigned := map[*types.Var]bool{}
	ast.Inspect(reset.Decl.Body, func(n ast.Node) bool {
		as, ok := n.(*ast.AssignStmt)
		if !ok {
			return true
		}
		for i, l := range as.Lhs {
			sel, ok := core.Unparen(l).(*ast.SelectorExpr)
			if !ok || i >= len(as.Rhs) {
				continue
			}
			fv := core.FieldOf(info, sel)
			if fv == nil {
				continue
			}
			if core.IsMap(fv.Type()) {
				if c.isFreshMap(reset, as.Rhs[i], 0) {
					assigned[fv] = true
				}
				continue
			}
			// a struct of index maps replaced as a whole: X.refs = referenceAnalysis{…: make(…)} or a constructor call
			for f := range c.freshMapFields(reset, as.Rhs[i], 0) {
				assigned[f] = true
			}
		}
		return true
	})
	return assigned
}
