package rules

// effects (E4): who writes what. For every module function a summary of the
// writes it performs, as access paths rooted at a parameter / receiver, a
// package variable or something derived from a call; writes to fresh locals
// and to value copies are dropped. Summaries are closed transitively over the
// call graph (fixpoint), translating callee parameters to caller arguments.

import (
	"fmt"
	"go/ast"
	"go/token"
	"go/types"
	"os"
	"sort"
	"strings"
	"sync"

	"verif/sa/internal/core"
)

// effWrite is one write, expressed relative to a root.
type effWrite struct {
	root       string // "param", "pkgvar", "unknown"
	param      int    // parameter index (-1 receiver) for root=="param"
	rootObj    types.Object
	steps      []core.Step // steps below the root, the last one is what is stored to
	how        string      // assign, delete, incdec, ext:<callee>
	pos        token.Pos
	fn         *core.FuncInfo // function containing the syntactic write
	via        []string       // call chain from the summarised function down to fn
	note       string
	valueOf    string // rendered RHS, for stores
	lhs        string // rendered LHS at the original site
	unknownRel bool   // exact location below the root unknown (derived through a call)
}

func (w effWrite) relString() string {
	var sb strings.Builder
	for _, s := range w.steps {
		if s.Field != nil {
			sb.WriteString("." + s.Name)
		} else {
			sb.WriteString(s.Name)
		}
	}
	if w.unknownRel {
		sb.WriteString("…")
	}
	return sb.String()
}

func (w effWrite) finalField() *types.Var {
	for i := len(w.steps) - 1; i >= 0; i-- {
		if w.steps[i].Field != nil {
			return w.steps[i].Field
		}
		if w.steps[i].Name != "[*]" {
			break
		}
	}
	return nil
}

func (w effWrite) key() string {
	return fmt.Sprintf("%s|%d|%v|%s|%s|%d", w.root, w.param, w.rootObj, w.relString(), w.how, w.pos)
}

type litWrite struct {
	lit   *ast.FuncLit
	param int
	w     effWrite
}

type effSummary struct {
	litWrites    map[string]litWrite // writes rooted at a parameter of a function literal of this function
	writes       map[string]effWrite
	returnsFresh bool     // nothing reachable from the result is shared with a caller-visible object
	returnsNew   bool     // the result itself is newly allocated (it may embed pointers handed in)
	conc         []string // go statements, channel operations, sync/atomic use
	extCalls     map[string]extCall
}

type extCall struct {
	callee string
	pos    token.Pos
	fn     *core.FuncInfo
	arg    string
	root   string
	param  int
	steps  []core.Step
}

type effEngine struct {
	c        *Ctx
	sum      map[*core.FuncInfo]*effSummary
	visiting map[types.Object]bool
	shallow  bool // composite literals are new storage whatever they embed (first pass, for returnsNew)
}

// externalEffects: external callees that write through an argument
// (-1 = receiver). Confirmed by reading the vendored sources.
var externalEffects = map[string]int{
	"github.com/go-openapi/spec.ExpandSpec":                       0,
	"github.com/go-openapi/spec.ExpandSchema":                     0,
	"github.com/go-openapi/spec.ExpandSchemaWithBasePath":         0,
	"github.com/go-openapi/swag.FromDynamicJSON":                  1,
	"(*github.com/go-openapi/spec.VendorExtensible).AddExtension": -1,
	"(*github.com/go-openapi/spec.Schema).UnmarshalJSON":          -1,
	"(github.com/go-openapi/spec.Extensions).Add":                 -1,
	"sort.Strings":            0,
	"sort.Sort":               0,
	"sort.Stable":             0,
	"sort.Slice":              0,
	"sort.SliceStable":        0,
	"sort.Ints":               0,
	"encoding/json.Unmarshal": 1,
}

// externalReadOnly: external callees known not to write through their arguments.
var externalReadOnlyPrefixes = []string{
	"fmt.", "strings.", "path.", "path/filepath.", "strconv.", "net/url.", "errors.", "log.", "os.", "reflect.DeepEqual", "net/http.",
	"github.com/go-openapi/jsonpointer.", "(*github.com/go-openapi/jsonpointer.Pointer).", "(github.com/go-openapi/jsonpointer.Pointer).",
	"(*github.com/go-openapi/jsonreference.Ref).", "(github.com/go-openapi/jsonreference.Ref).",
	"(*github.com/go-openapi/spec.Ref).", "(github.com/go-openapi/spec.Ref).",
	"github.com/go-openapi/spec.MustCreateRef", "github.com/go-openapi/spec.NewRef", "github.com/go-openapi/spec.RefSchema", "github.com/go-openapi/spec.ResolveRefWithBase", "github.com/go-openapi/spec.ResolveRef",
	"github.com/go-openapi/swag.ToGoName", "github.com/go-openapi/swag.ToJSONName", "github.com/go-openapi/swag.ContainsStrings",
	"(github.com/go-openapi/spec.Extensions).GetString", "(github.com/go-openapi/spec.StringOrArray).Contains",
	"(*github.com/go-openapi/strfmt.defaultFormats).ContainsName", "(github.com/go-openapi/strfmt.Registry).ContainsName",
	"(github.com/go-openapi/spec.Response).MarshalJSON", "(github.com/go-openapi/spec.Parameter).MarshalJSON", "encoding/json.Marshal",
	"(reflect.Value).", "(*reflect.MapIter).", "reflect.ValueOf", "reflect.TypeOf",
}

func isExternalReadOnly(full string) bool {
	for _, p := range externalReadOnlyPrefixes {
		if strings.HasPrefix(full, p) {
			return true
		}
	}
	return false
}

var (
	effCache = map[*core.Program]*effEngine{}
	cacheMu  sync.Mutex
)

func effects(c *Ctx) *effEngine {
	cacheMu.Lock()
	e0, ok := effCache[c.P]
	cacheMu.Unlock()
	if ok {
		return e0
	}
	e := &effEngine{c: c, sum: map[*core.FuncInfo]*effSummary{}}
	funcs := c.P.SortedFuncs()
	for _, fi := range funcs {
		e.sum[fi] = &effSummary{writes: map[string]effWrite{}, extCalls: map[string]extCall{}, litWrites: map[string]litWrite{}}
	}
	// returns-fresh first (needed by freshness of locals)
	// shallow first: "returns a newly allocated object" (whatever it points to), for PURE-NEWFRESH
	e.shallow = true
	for iter := 0; iter < 4; iter++ {
		for _, fi := range funcs {
			e.sum[fi].returnsFresh = e.computeReturnsFresh(fi)
		}
	}
	for _, fi := range funcs {
		e.sum[fi].returnsNew = e.sum[fi].returnsFresh
		e.sum[fi].returnsFresh = false
	}
	e.shallow = false
	for iter := 0; iter < 4; iter++ {
		for _, fi := range funcs {
			e.sum[fi].returnsFresh = e.computeReturnsFresh(fi)
		}
	}
	for iter := 0; iter < 10; iter++ {
		changed := false
		for _, fi := range funcs {
			n := len(e.sum[fi].writes) + len(e.sum[fi].extCalls) + len(e.sum[fi].litWrites)
			e.analyze(fi)
			if len(e.sum[fi].writes)+len(e.sum[fi].extCalls)+len(e.sum[fi].litWrites) != n {
				changed = true
			}
		}
		if !changed {
			break
		}
	}
	cacheMu.Lock()
	effCache[c.P] = e
	cacheMu.Unlock()
	return e
}

func (e *effEngine) paramIndex(fi *core.FuncInfo, o types.Object) (int, bool) {
	info := fi.Pkg.TypesInfo
	if fi.Decl.Recv != nil {
		for _, fl := range fi.Decl.Recv.List {
			for _, n := range fl.Names {
				if info.Defs[n] == o {
					return -1, true
				}
			}
		}
	}
	i := 0
	for _, fl := range fi.Decl.Type.Params.List {
		if len(fl.Names) == 0 {
			i++
		}
		for _, n := range fl.Names {
			if info.Defs[n] == o {
				return i, true
			}
			i++
		}
	}
	return 0, false
}

// freshExpr: the expression denotes storage created here (not shared with any caller-visible object).
func (e *effEngine) freshExpr(fi *core.FuncInfo, x ast.Expr, depth int) bool {
	if depth > 6 {
		return false
	}
	info := fi.Pkg.TypesInfo
	switch v := core.Unparen(x).(type) {
	case *ast.CompositeLit:
		// deep: a literal that embeds a pointer (slice, map) handed in from elsewhere is new storage only down to
		// that member — what is reached through it belongs to whoever owns the pointee
		for _, el := range v.Elts {
			if e.shallow {
				break
			}
			val := el
			if kv, isKV := el.(*ast.KeyValueExpr); isKV {
				val = kv.Value
			}
			if t := info.TypeOf(val); t != nil && pointerLike(t) && !e.freshExpr(fi, val, depth+1) {
				return false
			}
		}
		return true
	case *ast.StarExpr:
		// *p as a value: a copy of the pointee (shallow, like any struct copy)
		if t := info.TypeOf(v); t != nil && !pointerLike(t) {
			return true
		}
	case *ast.UnaryExpr:
		if v.Op == token.AND {
			if lit, ok := core.Unparen(v.X).(*ast.CompositeLit); ok {
				return e.freshExpr(fi, lit, depth+1)
			}
			// address of a fresh local (e.g. &sch where var sch T)
			if id, ok := core.Unparen(v.X).(*ast.Ident); ok {
				return e.freshLocal(fi, core.ObjOf(info, id), depth+1)
			}
		}
	case *ast.BasicLit:
		return true
	case *ast.Ident:
		if core.IsNilExpr(info, v) {
			return true
		}
		return e.freshLocal(fi, core.ObjOf(info, v), depth+1)
	case *ast.CallExpr:
		if id, ok := core.Unparen(v.Fun).(*ast.Ident); ok {
			if b, ok := info.Uses[id].(*types.Builtin); ok {
				switch b.Name() {
				case "make", "new":
					return true
				case "append":
					if len(v.Args) == 0 || !e.freshExpr(fi, v.Args[0], depth+1) {
						return false
					}
					// deep: a fresh slice that holds pointers handed in from elsewhere is not fresh storage — what is
					// reached through its elements belongs to whoever owns the pointees
					for _, el := range v.Args[1:] {
						if t := info.TypeOf(el); t != nil && (pointerLike(t) || core.IsSlice(t) && v.Ellipsis.IsValid() || isRecordLit(el) && hasPointers(t)) && !e.freshExpr(fi, el, depth+1) {
							return false
						}
					}
					return true
				}
			}
		}
		if callee := e.c.P.StaticCallee(fi, v); callee != nil {
			if cf := e.c.P.Funcs[callee]; cf != nil {
				return e.sum[cf] != nil && e.sum[cf].returnsFresh
			}
		}
	}
	return false
}

func (e *effEngine) freshLocal(fi *core.FuncInfo, o types.Object, depth int) bool {
	if o == nil {
		return false
	}
	ld := e.c.P.Locals(fi)
	if ld.Params[o] {
		// named results start as zero values; parameters (of the function or of a function literal) are not fresh
		if _, isParam := e.paramIndex(fi, o); isParam {
			return false
		}
		if _, _, isLit := e.litParam(fi, o); isLit {
			return false
		}
	}
	if v, ok := o.(*types.Var); !ok || v.Parent() == v.Pkg().Scope() {
		return false
	}
	defs := ld.Defs[o]
	if e.visiting == nil {
		e.visiting = map[types.Object]bool{}
	}
	if e.visiting[o] {
		return true // x = append(x, …): fresh if everything else is
	}
	e.visiting[o] = true
	defer delete(e.visiting, o)
	for _, d := range defs {
		switch d.Kind {
		case core.DefZero:
		case core.DefAssign:
			if !e.freshExpr(fi, d.Expr, depth+1) {
				return false
			}
		case core.DefOpaque:
		default:
			return false
		}
	}
	return true
}

func (e *effEngine) computeReturnsFresh(fi *core.FuncInfo) bool {
	res := fi.Decl.Type.Results
	if res == nil || len(res.List) == 0 {
		return false
	}
	ok := true
	found := false
	info := fi.Pkg.TypesInfo
	ast.Inspect(fi.Decl.Body, func(n ast.Node) bool {
		if _, isLit := n.(*ast.FuncLit); isLit {
			return false
		}
		ret, isRet := n.(*ast.ReturnStmt)
		if !isRet {
			return true
		}
		found = true
		if len(ret.Results) == 0 {
			// named results
			for _, fl := range res.List {
				for _, nm := range fl.Names {
					if !e.freshLocal(fi, info.Defs[nm], 0) {
						ok = false
					}
				}
			}
			return true
		}
		if !e.freshExpr(fi, ret.Results[0], 0) {
			ok = false
		}
		return true
	})
	return ok && found
}

// classify turns a resolved path into a write root.
func (e *effEngine) classify(fi *core.FuncInfo, p *core.Path) (root string, param int, obj types.Object, fresh bool) {
	if p == nil {
		return "unknown", 0, nil, false
	}
	if p.RootLit != nil {
		return "", 0, nil, true
	}
	if p.RootCall != nil {
		if callee := e.c.P.StaticCallee(fi, p.RootCall); callee != nil {
			if cf := e.c.P.Funcs[callee]; cf != nil && e.sum[cf].returnsFresh {
				return "", 0, nil, true
			}
		}
		return "call", 0, nil, false
	}
	if idx, ok := e.paramIndex(fi, p.Root); ok {
		return "param", idx, p.Root, false
	}
	if v, ok := p.Root.(*types.Var); ok && v.Pkg() != nil && v.Parent() == v.Pkg().Scope() {
		return "pkgvar", 0, p.Root, false
	}
	if e.freshLocal(fi, p.Root, 0) {
		return "", 0, nil, true
	}
	// closure parameter or unresolved local
	return "unknown", 0, p.Root, false
}

// copiedAfter: is a store at p+rel a store into a value copy (no pointer/map/slice crossed since the copy)?
func copiedAfter(copied bool, steps []core.Step) bool {
	for i, s := range steps {
		if i == len(steps)-1 {
			break
		}
		if s.Field == nil {
			copied = false
			continue
		}
		t := s.Field.Type()
		if core.IsPointer(t) || core.IsMap(t) || core.IsSlice(t) {
			copied = false
		}
	}
	return copied
}

func pointerLike(t types.Type) bool {
	if t == nil {
		return false
	}
	switch t.Underlying().(type) {
	case *types.Pointer, *types.Map, *types.Slice, *types.Interface:
		return true
	}
	return false
}

func (e *effEngine) add(fi *core.FuncInfo, w effWrite) {
	s := e.sum[fi]
	if _, ok := s.writes[w.key()]; !ok {
		s.writes[w.key()] = w
	}
}

// recordWrite records a store to the location denoted by target (an lvalue
// expression or, for deref=true, the pointee/element storage of target).
func (e *effEngine) recordWrite(fi *core.FuncInfo, target ast.Expr, how string, pos token.Pos, value ast.Expr, rel []core.Step, via []string, origin *core.FuncInfo, lhs string, unknownRel bool) {
	// a store through *p where p = &x.f is a store to x.f itself
	if u, ok := core.Unparen(target).(*ast.UnaryExpr); ok && u.Op == token.AND && len(rel) > 0 && rel[0].Field == nil && rel[0].Name == "*" {
		if sel, isSel := core.Unparen(u.X).(*ast.SelectorExpr); isSel {
			if fv := core.FieldOf(fi.Pkg.TypesInfo, sel); fv != nil {
				e.recordWrite(fi, sel.X, how, pos, value, append([]core.Step{{Field: fv, Name: fv.Name()}}, rel[1:]...), via, origin, lhs, unknownRel)
				return
			}
		}
	}
	p := e.c.P.PathOf(fi, target, true)
	if p == nil {
		p2 := e.c.P.PathOf(fi, target, false)
		p = p2
	}
	if os.Getenv("VERIF_DEBUG_EFF") == fi.Name() {
		fmt.Fprintf(os.Stderr, "DEBUG recordWrite %s target=%s path=%v rel=%d how=%s\n", fi.QName(), exprStr(target), p, len(rel), how)
	}
	// a local with several definitions: the store may hit any of the things it aliases
	if p != nil && p.Root != nil && len(via) < 12 {
		if _, isParam := e.paramIndex(fi, p.Root); !isParam {
			if e.freshLocal(fi, p.Root, 0) {
				return
			}
			if alts := e.aliasTargets(fi, p); len(alts) > 0 {
				for _, a := range alts {
					e.recordPath(fi, a, how, pos, value, rel, via, origin, lhs, unknownRel)
				}
				return
			}
		}
	}
	e.recordPath(fi, p, how, pos, value, rel, via, origin, lhs, unknownRel)
}

// litParam: o is the idx-th parameter of a function literal inside fi.
func (e *effEngine) litParam(fi *core.FuncInfo, o types.Object) (*ast.FuncLit, int, bool) {
	var found *ast.FuncLit
	idx := -1
	info := fi.Pkg.TypesInfo
	ast.Inspect(fi.Decl.Body, func(n ast.Node) bool {
		fl, ok := n.(*ast.FuncLit)
		if !ok || found != nil {
			return found == nil
		}
		i := 0
		for _, f := range fl.Type.Params.List {
			if len(f.Names) == 0 {
				i++
			}
			for _, nm := range f.Names {
				if info.Defs[nm] == o {
					found, idx = fl, i
				}
				i++
			}
		}
		return true
	})
	return found, idx, found != nil
}

// aliasTargets expands a path rooted at a multiply-defined local into the paths it may alias.
func (e *effEngine) aliasTargets(fi *core.FuncInfo, p *core.Path) []*core.Path {
	ld := e.c.P.Locals(fi)
	defs := ld.Defs[p.Root]
	if len(defs) < 2 {
		return nil
	}
	var out []*core.Path
	for _, d := range defs {
		var base *core.Path
		switch d.Kind {
		case core.DefAssign:
			if e.freshExpr(fi, d.Expr, 0) {
				continue
			}
			// a table built by append: x = append(x, rec…) — an element of x is one of the appended values; when
			// the value is a record literal, what is reached through a member is what that member was built from
			if call, isCall := core.Unparen(d.Expr).(*ast.CallExpr); isCall && isBuiltin(fi.Pkg.TypesInfo, call, "append") && len(call.Args) > 1 && !call.Ellipsis.IsValid() && len(p.Steps) > 0 && p.Steps[0].Field == nil {
				for _, el := range call.Args[1:] {
					rest := p.Steps[1:]
					target := core.Unparen(el)
					lit := target
					if u, isAddr := lit.(*ast.UnaryExpr); isAddr && u.Op == token.AND {
						lit = core.Unparen(u.X)
					}
					if cl, isLit := lit.(*ast.CompositeLit); isLit {
						st, isStruct := structOf(fi.Pkg.TypesInfo.TypeOf(cl))
						if !isStruct || len(rest) == 0 || rest[0].Field == nil {
							continue
						}
						var val ast.Expr
						for i, fe := range cl.Elts {
							if kv, isKV := fe.(*ast.KeyValueExpr); isKV {
								if id, isId := kv.Key.(*ast.Ident); isId && id.Name == rest[0].Field.Name() {
									val = kv.Value
								}
							} else if i < st.NumFields() && st.Field(i) == rest[0].Field {
								val = fe
							}
						}
						if val == nil || !pointerLike(rest[0].Field.Type()) {
							continue
						}
						target, rest = core.Unparen(val), rest[1:]
					}
					if e.freshExpr(fi, target, 0) {
						continue
					}
					tb := e.c.P.PathOf(fi, target, true)
					if tb == nil || tb.Root == p.Root {
						continue
					}
					q := *tb
					q.Steps = append(append([]core.Step{}, tb.Steps...), rest...)
					q.Copied = false
					out = append(out, &q)
				}
				continue
			}
			base = e.c.P.PathOf(fi, d.Expr, true)
		case core.DefRangeVal:
			if b := e.c.P.PathOf(fi, d.Expr, true); b != nil {
				q := *b
				q.Steps = append(append([]core.Step{}, b.Steps...), core.Step{Name: "[*]"})
				t := p.Root.Type()
				q.Copied = !core.IsPointer(t) && !core.IsMap(t) && !core.IsSlice(t)
				base = &q
			}
		case core.DefZero:
			continue
		}
		if base == nil || (base.Root == p.Root && len(base.Steps) == 0) {
			continue
		}
		if base.Root == nil && base.RootLit != nil {
			continue // fresh
		}
		q := *base
		q.Steps = append(append([]core.Step{}, base.Steps...), p.Steps...)
		if len(p.Steps) > 0 {
			q.Copied = p.Copied && base.Copied
		}
		out = append(out, &q)
	}
	return out
}

func (e *effEngine) recordPath(fi *core.FuncInfo, p *core.Path, how string, pos token.Pos, value ast.Expr, rel []core.Step, via []string, origin *core.FuncInfo, lhs string, unknownRel bool) {
	// an element of a table literal of pointers aliases what the table was built from
	if p != nil && p.RootLit != nil && len(p.Steps) >= 1 && p.Steps[0].Field == nil && len(via) < 12 {
		lit := core.Unparen(p.RootLit)
		if u, ok := lit.(*ast.UnaryExpr); ok {
			lit = core.Unparen(u.X)
		}
		if cl, ok := lit.(*ast.CompositeLit); ok {
			var elem types.Type
			switch u := fi.Pkg.TypesInfo.TypeOf(cl).Underlying().(type) {
			case *types.Slice:
				elem = u.Elem()
			case *types.Array:
				elem = u.Elem()
			case *types.Map:
				elem = u.Elem()
			}
			// a table of records holding pointers: {&x.A, v}, {&x.B, w} — a store through rec.field goes to what
			// that field of each record was built from
			if st, isStruct := structOf(elem); isStruct && len(p.Steps) >= 2 && p.Steps[1].Field != nil && pointerLike(p.Steps[1].Field.Type()) && len(via) < 12 {
				nrel := append(append([]core.Step{}, p.Steps[2:]...), rel...)
				for _, el := range cl.Elts {
					if kv, ok := el.(*ast.KeyValueExpr); ok {
						el = kv.Value
					}
					rec, ok := core.Unparen(el).(*ast.CompositeLit)
					if !ok {
						continue
					}
					for i, fe := range rec.Elts {
						var val ast.Expr
						if kv, ok := fe.(*ast.KeyValueExpr); ok {
							if id, ok := kv.Key.(*ast.Ident); ok && id.Name == p.Steps[1].Field.Name() {
								val = kv.Value
							}
						} else if i < st.NumFields() && st.Field(i) == p.Steps[1].Field {
							val = fe
						}
						if val != nil && len(nrel) > 0 {
							e.recordWrite(fi, val, how, pos, value, nrel, via, origin, lhs, unknownRel)
						}
					}
				}
				return
			}
			if elem != nil && pointerLike(elem) {
				nrel := append(append([]core.Step{}, p.Steps[1:]...), rel...)
				if len(nrel) > 0 {
					for _, el := range cl.Elts {
						if kv, ok := el.(*ast.KeyValueExpr); ok {
							el = kv.Value
						}
						e.recordWrite(fi, el, how, pos, value, nrel, via, origin, lhs, unknownRel)
					}
				}
				return
			}
		}
	}
	root, param, obj, fresh := e.classify(fi, p)
	if os.Getenv("VERIF_DEBUG_EFF") != "" && how == "append-shared" {
		fmt.Fprintf(os.Stderr, "DEBUG append-shared in %s: lhs=%s root=%s param=%d fresh=%v path=%v rel=%d via=%v\n", fi.QName(), lhs, root, param, fresh, p, len(rel), via)
	}
	if fresh {
		return
	}
	if root == "unknown" && p != nil && p.Root != nil {
		if lit, idx, ok := e.litParam(fi, p.Root); ok {
			w := effWrite{root: "param", param: idx, rootObj: p.Root, steps: append(append([]core.Step{}, p.Steps...), rel...), how: how, pos: pos, fn: origin, via: via, lhs: lhs, unknownRel: unknownRel}
			k := fmt.Sprintf("%d|%s", lit.Pos(), w.key())
			if _, dup := e.sum[fi].litWrites[k]; !dup {
				e.sum[fi].litWrites[k] = litWrite{lit: lit, param: idx, w: w}
			}
			return
		}
	}
	var steps []core.Step
	copied := false
	if p != nil {
		steps = append(steps, p.Steps...)
		copied = p.Copied
	}
	all := append(append([]core.Step{}, steps...), rel...)
	if !unknownRel && copiedAfter(copied, rel) {
		// the whole store stays inside a value copy
		return
	}
	if root == "call" && how == "append-shared" && (p == nil || p.RootCall == nil || core.IsSlice(fi.Pkg.TypesInfo.TypeOf(p.RootCall)) && len(p.Steps) == 0) {
		// the result of a call that is appended to: whether it shares storage with an argument is unknown, and the
		// usual attribution to every pointer-like argument would blame the elements, not the slice
		return
	}
	if root == "call" && p != nil && p.RootCall != nil && len(all) > 0 && all[0].Field != nil && len(via) < 12 {
		// the result of a constructor (a new record that may embed what it was handed): a store below one of its
		// members goes where that member was initialised from — nowhere for a member the literal leaves zero or
		// makes itself, into the argument for a member set from a parameter
		if callee := e.c.P.StaticCallee(fi, p.RootCall); callee != nil {
			if cf := e.c.P.Funcs[callee]; cf != nil && e.sum[cf] != nil && e.sum[cf].returnsNew {
				if memberInit, known := e.resultMemberOrigin(cf, all[0].Field); known {
					if memberInit == nil || e.freshExpr(cf, memberInit, 0) {
						return
					}
					if po := core.ObjOf(cf.Pkg.TypesInfo, memberInit); po != nil {
						if idx, isParam := e.paramIndex(cf, po); isParam && idx >= 0 && idx < len(p.RootCall.Args) {
							e.recordWrite(fi, p.RootCall.Args[idx], how, pos, value, append([]core.Step{}, all[1:]...), via, origin, lhs, unknownRel)
							return
						}
					}
				}
			}
		}
	}
	if root == "call" && p != nil && p.RootCall != nil {
		// derived from a call: attribute to each pointer-like argument (location unknown), the receiver of a method
		// call included (a getter hands out the analyzer's or the document's own storage) unless the callee is
		// known to return fresh storage
		cargs := append([]ast.Expr{}, p.RootCall.Args...)
		if sel, ok := core.Unparen(p.RootCall.Fun).(*ast.SelectorExpr); ok {
			if _, isSel := fi.Pkg.TypesInfo.Selections[sel]; isSel {
				fresh := false
				if callee := e.c.P.StaticCallee(fi, p.RootCall); callee != nil {
					if cf := e.c.P.Funcs[callee]; cf != nil && e.sum[cf] != nil && e.sum[cf].returnsFresh {
						fresh = true
					}
				}
				if !fresh {
					cargs = append(cargs, sel.X)
				}
			}
		}
		for _, a := range cargs {
			if !pointerLike(fi.Pkg.TypesInfo.TypeOf(a)) && !hasPointers(fi.Pkg.TypesInfo.TypeOf(a)) {
				continue
			}
			ap := e.c.P.PathOf(fi, a, true)
			ar, aparam, aobj, afresh := e.classify(fi, ap)
			if afresh || ap == nil {
				continue
			}
			w := effWrite{root: ar, param: aparam, rootObj: aobj, steps: append(append([]core.Step{}, ap.Steps...), all...), how: how, pos: pos, fn: origin, via: via, unknownRel: true, lhs: lhs}
			if value != nil {
				w.valueOf = exprStr(value)
			}
			e.add(fi, w)
		}
		return
	}
	w := effWrite{root: root, param: param, rootObj: obj, steps: all, how: how, pos: pos, fn: origin, via: via, lhs: lhs, unknownRel: unknownRel}
	if value != nil {
		w.valueOf = exprStr(value)
	}
	e.add(fi, w)
}

func hasPointers(t types.Type) bool {
	if t == nil {
		return false
	}
	switch u := t.Underlying().(type) {
	case *types.Pointer, *types.Map, *types.Slice, *types.Interface, *types.Chan, *types.Signature:
		return true
	case *types.Struct:
		for i := 0; i < u.NumFields(); i++ {
			if hasPointers(u.Field(i).Type()) {
				return true
			}
		}
	}
	return false
}

func (e *effEngine) analyze(fi *core.FuncInfo) {
	info := fi.Pkg.TypesInfo
	s := e.sum[fi]
	ast.Inspect(fi.Decl.Body, func(n ast.Node) bool {
		switch x := n.(type) {
		case *ast.GoStmt:
			s.conc = appendUniq(s.conc, "go statement at "+e.c.P.Pos(x.Pos()))
		case *ast.SendStmt:
			s.conc = appendUniq(s.conc, "channel send at "+e.c.P.Pos(x.Pos()))
		case *ast.UnaryExpr:
			if x.Op == token.ARROW {
				s.conc = appendUniq(s.conc, "channel receive at "+e.c.P.Pos(x.Pos()))
			}
		case *ast.AssignStmt:
			for i, l := range x.Lhs {
				l = core.Unparen(l)
				if _, isIdent := l.(*ast.Ident); isIdent {
					// plain variable: a write only when it is a package variable
					if o, ok := core.ObjOf(info, l).(*types.Var); ok && o.Pkg() != nil && o.Parent() == o.Pkg().Scope() {
						e.add(fi, effWrite{root: "pkgvar", rootObj: o, how: "assign", pos: x.Pos(), fn: fi, lhs: exprStr(l)})
					}
					continue
				}
				var val ast.Expr
				if len(x.Lhs) == len(x.Rhs) {
					val = x.Rhs[i]
				}
				e.store(fi, l, "assign", x.Pos(), val)
			}
		case *ast.IncDecStmt:
			if _, isIdent := core.Unparen(x.X).(*ast.Ident); !isIdent {
				e.store(fi, x.X, "incdec", x.Pos(), nil)
			}
		case *ast.CallExpr:
			e.call(fi, x)
		}
		return true
	})
}

// store records a direct store to an lvalue (field, element or pointee).
func (e *effEngine) store(fi *core.FuncInfo, l ast.Expr, how string, pos token.Pos, val ast.Expr) {
	info := fi.Pkg.TypesInfo
	switch lx := core.Unparen(l).(type) {
	case *ast.SelectorExpr:
		if fv := core.FieldOf(info, lx); fv != nil {
			e.recordWrite(fi, lx.X, how, pos, val, []core.Step{{Field: fv, Name: fv.Name()}}, nil, fi, exprStr(l), false)
			return
		}
		// package-level variable pkg.Var
		if o, ok := info.Uses[lx.Sel].(*types.Var); ok {
			e.add(fi, effWrite{root: "pkgvar", rootObj: o, how: how, pos: pos, fn: fi, lhs: exprStr(l)})
		}
	case *ast.IndexExpr:
		e.recordWrite(fi, lx.X, how, pos, val, []core.Step{{Name: "[*]"}}, nil, fi, exprStr(l), false)
	case *ast.StarExpr:
		e.recordWrite(fi, lx.X, how, pos, val, []core.Step{{Name: "*"}}, nil, fi, exprStr(l), false)
	}
}

// reslicedBase: x is (a local defined as) a re-slicing y[a:b] of a slice: returns y.
func (e *effEngine) reslicedBase(fi *core.FuncInfo, x ast.Expr, depth int) ast.Expr {
	if depth > 3 {
		return nil
	}
	switch v := core.Unparen(x).(type) {
	case *ast.SliceExpr:
		return v.X
	case *ast.Ident:
		o := core.ObjOf(fi.Pkg.TypesInfo, v)
		for _, d := range e.c.P.Locals(fi).Defs[o] {
			if d.Kind == core.DefAssign {
				if _, isSlice := core.Unparen(d.Expr).(*ast.SliceExpr); isSlice {
					return e.reslicedBase(fi, d.Expr, depth+1)
				}
			}
		}
	}
	return nil
}

func appendUniq(xs []string, s string) []string {
	for _, x := range xs {
		if x == s {
			return xs
		}
	}
	return append(xs, s)
}

func (e *effEngine) call(fi *core.FuncInfo, call *ast.CallExpr) {
	info := fi.Pkg.TypesInfo
	s := e.sum[fi]
	if id, ok := core.Unparen(call.Fun).(*ast.Ident); ok {
		if b, ok := info.Uses[id].(*types.Builtin); ok {
			switch b.Name() {
			case "append":
				// append(x[:n], …) — the in-place filter idiom — writes into x's backing array
				if len(call.Args) >= 2 {
					if base := e.reslicedBase(fi, call.Args[0], 0); base != nil {
						e.recordWrite(fi, base, "append-in-place", call.Pos(), nil, []core.Step{{Name: "[*]"}}, nil, fi, exprStr(call.Args[0])+" (resliced, appended in place)", false)
					} else if _, isLit := core.Unparen(call.Args[0]).(*ast.CompositeLit); !isLit && !core.IsNilExpr(info, call.Args[0]) {
						// append(s, …) on a slice that is not fresh storage writes into the spare capacity of s's
						// backing array (a JSON-decoded list of 3 has capacity 4): two readers doing so race
						e.recordWrite(fi, call.Args[0], "append-shared", call.Pos(), nil, []core.Step{{Name: "[*]"}}, nil, fi, exprStr(call.Args[0])+" (appended to: spare capacity of its backing array)", false)
					}
				}
			case "delete":
				e.recordWrite(fi, call.Args[0], "delete", call.Pos(), nil, []core.Step{{Name: "[*]"}}, nil, fi, exprStr(call.Args[0])+"[…]", false)
			case "copy", "clear":
				e.recordWrite(fi, call.Args[0], b.Name(), call.Pos(), nil, []core.Step{{Name: "[*]"}}, nil, fi, exprStr(call.Args[0]), false)
			}
			return
		}
	}
	fns, lits := e.c.P.Callees(fi, call)
	for _, lit := range lits {
		for _, lw := range s.litWrites {
			if lw.lit != lit || lw.param >= len(call.Args) || len(lw.w.via) > 10 {
				continue
			}
			e.recordWrite(fi, call.Args[lw.param], lw.w.how, lw.w.pos, nil, lw.w.steps, append([]string{"closure"}, lw.w.via...), lw.w.fn, lw.w.lhs, lw.w.unknownRel)
		}
	}
	var recvExpr ast.Expr
	if sel, ok := core.Unparen(call.Fun).(*ast.SelectorExpr); ok {
		if _, isSel := info.Selections[sel]; isSel {
			recvExpr = sel.X
		}
	}
	_ = recvExpr
	// a declared function handed over as a visitor (forEach(x, visit)): whoever receives it may call it on anything
	// reachable from the other arguments — its writes through its parameters are attributed to each pointer-like
	// argument of this call, location unknown
	for _, fa := range call.Args {
		var fobj *types.Func
		switch x := core.Unparen(fa).(type) {
		case *ast.Ident:
			fobj, _ = info.Uses[x].(*types.Func)
		case *ast.SelectorExpr:
			fobj, _ = info.Uses[x.Sel].(*types.Func)
		}
		if fobj == nil {
			continue
		}
		g := e.c.P.Funcs[fobj.Origin()]
		if g == nil || e.sum[g] == nil {
			continue
		}
		for _, w := range e.sortedWrites(g) {
			if w.root != "param" || len(w.via) > 10 {
				continue
			}
			for _, a := range call.Args {
				if a == fa || !pointerLike(info.TypeOf(a)) {
					continue
				}
				e.recordWrite(fi, a, w.how, w.pos, nil, w.steps, append([]string{g.QName() + " (handed over as a function value)"}, w.via...), w.fn, w.lhs, true)
			}
		}
	}
	argFor := func(i int) ast.Expr {
		if i == -1 {
			return recvExpr
		}
		if i < len(call.Args) {
			return call.Args[i]
		}
		if len(call.Args) > 0 && call.Ellipsis.IsValid() {
			return call.Args[len(call.Args)-1]
		}
		return nil
	}
	for _, callee := range fns {
		cf := e.c.P.Funcs[callee]
		if cf == nil {
			// external
			full := callee.FullName()
			if idx, ok := externalEffects[full]; ok {
				if a := argFor(idx); a != nil {
					e.recordWrite(fi, a, "ext:"+full, call.Pos(), nil, nil, nil, fi, exprStr(a), true)
				}
				continue
			}
			if isExternalReadOnly(full) {
				continue
			}
			// unknown external receiving pointer-like non-fresh data
			cands := append([]ast.Expr{}, call.Args...)
			if recvExpr != nil {
				cands = append(cands, recvExpr)
			}
			for _, a := range cands {
				if !pointerLike(info.TypeOf(a)) {
					continue
				}
				p := e.c.P.PathOf(fi, a, true)
				root, param, _, fresh := e.classify(fi, p)
				if fresh || p == nil {
					continue
				}
				ec := extCall{callee: full, pos: call.Pos(), fn: fi, arg: exprStr(a), root: root, param: param, steps: p.Steps}
				s.extCalls[full+"|"+exprStr(a)+"|"+fmt.Sprint(call.Pos())] = ec
			}
			continue
		}
		cs := e.sum[cf]
		// concurrency propagates
		for _, cnc := range cs.conc {
			s.conc = appendUniq(s.conc, cnc)
		}
		keys := make([]string, 0, len(cs.writes))
		for k := range cs.writes {
			keys = append(keys, k)
		}
		sort.Strings(keys)
		for _, k := range keys {
			w := cs.writes[k]
			via := append([]string{cf.QName()}, w.via...)
			if len(via) > 12 {
				continue
			}
			switch w.root {
			case "pkgvar":
				nw := w
				nw.via = via
				e.add(fi, nw)
			case "param":
				a := argFor(w.param)
				if a == nil {
					continue
				}
				if len(w.steps) > 10 {
					continue
				}
				e.recordWrite(fi, a, w.how, w.pos, nil, w.steps, via, w.fn, w.lhs, w.unknownRel)
			case "unknown":
				nw := w
				nw.via = via
				e.add(fi, nw)
			}
		}
		ekeys := make([]string, 0, len(cs.extCalls))
		for k := range cs.extCalls {
			ekeys = append(ekeys, k)
		}
		sort.Strings(ekeys)
		for _, k := range ekeys {
			ec := cs.extCalls[k]
			if ec.root != "param" {
				if _, ok := s.extCalls[k]; !ok {
					s.extCalls[k] = ec
				}
				continue
			}
			a := argFor(ec.param)
			if a == nil {
				continue
			}
			p := e.c.P.PathOf(fi, a, true)
			root, param, _, fresh := e.classify(fi, p)
			if fresh || p == nil {
				continue
			}
			nec := ec
			nec.root, nec.param = root, param
			nec.steps = append(append([]core.Step{}, p.Steps...), ec.steps...)
			if _, ok := s.extCalls[k]; !ok {
				s.extCalls[k] = nec
			}
		}
	}
}

func (e *effEngine) sortedWrites(fi *core.FuncInfo) []effWrite {
	s := e.sum[fi]
	keys := make([]string, 0, len(s.writes))
	for k := range s.writes {
		keys = append(keys, k)
	}
	sort.Strings(keys)
	out := make([]effWrite, 0, len(keys))
	for _, k := range keys {
		out = append(out, s.writes[k])
	}
	return out
}

func (e *effEngine) describe(w effWrite) string {
	via := ""
	if len(w.via) > 0 {
		via = " via " + strings.Join(w.via, " → ")
	}
	return fmt.Sprintf("%s of %s at %s%s", w.how, w.lhs, e.c.P.Pos(w.pos), via)
}

func structOf(t types.Type) (*types.Struct, bool) {
	if t == nil {
		return nil, false
	}
	st, ok := t.Underlying().(*types.Struct)
	return st, ok
}

// isRecordLit: a struct literal (or its address) written in place.
func isRecordLit(e ast.Expr) bool {
	e = core.Unparen(e)
	if u, ok := e.(*ast.UnaryExpr); ok && u.Op == token.AND {
		e = core.Unparen(u.X)
	}
	_, ok := e.(*ast.CompositeLit)
	return ok
}

// resultMemberOrigin: for a function all of whose returns hand out one record literal (directly, by address, or
// through a local defined by it), the expression the member was initialised with (nil when the literal leaves it
// zero). known=false when the returns do not have that shape.
func (e *effEngine) resultMemberOrigin(cf *core.FuncInfo, field *types.Var) (ast.Expr, bool) {
	info := cf.Pkg.TypesInfo
	var lits []*ast.CompositeLit
	ok := true
	ast.Inspect(cf.Decl.Body, func(n ast.Node) bool {
		if _, isLit := n.(*ast.FuncLit); isLit {
			return false
		}
		ret, isRet := n.(*ast.ReturnStmt)
		if !isRet {
			return true
		}
		if len(ret.Results) != 1 {
			ok = false
			return true
		}
		x := core.Unparen(ret.Results[0])
		for i := 0; i < 3; i++ {
			if u, isAddr := x.(*ast.UnaryExpr); isAddr && u.Op == token.AND {
				x = core.Unparen(u.X)
				continue
			}
			if id, isId := x.(*ast.Ident); isId {
				defs := e.c.P.Locals(cf).Defs[core.ObjOf(info, id)]
				if len(defs) == 1 && defs[0].Kind == core.DefAssign {
					x = core.Unparen(defs[0].Expr)
					continue
				}
			}
			break
		}
		cl, isLit := x.(*ast.CompositeLit)
		if !isLit {
			ok = false
			return true
		}
		lits = append(lits, cl)
		return true
	})
	if !ok || len(lits) != 1 {
		return nil, false
	}
	st, isStruct := structOf(info.TypeOf(lits[0]))
	if !isStruct {
		return nil, false
	}
	for i, el := range lits[0].Elts {
		if kv, isKV := el.(*ast.KeyValueExpr); isKV {
			if id, isId := kv.Key.(*ast.Ident); isId && id.Name == field.Name() {
				return kv.Value, true
			}
		} else if i < st.NumFields() && st.Field(i) == field {
			return el, true
		}
	}
	return nil, true
}
