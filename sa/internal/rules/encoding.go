package rules

// encoding (E6) for the flattener: one string, one escaping. A small type
// system over string encodings — N raw name, T pointer-escaped token, P
// '/'-joined tokens, K "#"+P (analyzer keys), U URL-escaped K (what
// Ref.String() returns), S strings every escaper leaves unchanged — with
// declared signatures for the library functions and for this repository's
// fields, inference for locals and module function results, and an error for
// every *definite* mismatch at a map-key or reference-construction sink.
// Unknown domains are never reported.

import (
	"fmt"
	"go/ast"
	"go/token"
	"go/types"
	"sort"
	"strings"

	"verif/sa/internal/core"
)

func init() {
	register(Rule{
		Name:  "ENC",
		Props: []string{"C06", "C01", "C04", "C09"},
		Doc:   "string-encoding discipline of keys, names and $ref strings at map-key and reference-construction sinks of the flattener",
		Run:   encRules,
	})
}

type dom string

const (
	dX dom = "?"
	dS dom = "S"   // safe constant
	dN dom = "N"   // raw name
	dT dom = "T"   // pointer-escaped token
	dP dom = "P"   // joined tokens, no '#'
	dK dom = "K"   // "#"+P
	dU dom = "U"   // URL-escaped K
	dB dom = "BAD" // a raw name was spliced into a pointer
	dQ dom = "Q"   // query-unescaped: '+' turned into space, not a faithful decoding of a $ref string
	dD dom = "D"   // a whole pointer run through jsonpointer.Unescape: '/' inside names is now indistinguishable from the separator
	dM dom = "NN"  // a raw name unescaped once more: "~0"/"~1" inside the name are corrupted
	dE dom = "E"   // url.PathEscape'd (path-segment escaping): not the escaping of Ref.String() ('?', ';', ',' … differ)
)

type encEngine struct {
	objStack map[types.Object]bool
	c        *Ctx
	memo     map[ast.Expr]dom
	onPath   map[ast.Expr]bool
	resMemo  map[string]dom
	rawName  map[ast.Expr]bool // expressions whose P/K value contains an unescaped raw name (KeepNames)
	usePos   token.Pos         // position of the use being decided (flow-sensitivity for range variables)
}

// nameKeyedMap: maps of the document model keyed by raw names: a map-typed
// field of a go-openapi/spec struct, a value of a named spec map type
// (Definitions, SchemaProperties…), or a type-switch variable of such a map
// type (the containers resolved by the rewriters).
func (e *encEngine) nameKeyedMap(fi *core.FuncInfo, m ast.Expr) bool {
	info := fi.Pkg.TypesInfo
	t := info.TypeOf(m)
	if t == nil {
		return false
	}
	mt, ok := t.Underlying().(*types.Map)
	if !ok || !core.IsString(mt.Key()) {
		return false
	}
	if tp, _ := core.NamedOf(t); tp == core.SpecPath {
		return true
	}
	m = core.Unparen(m)
	if sel, ok := m.(*ast.SelectorExpr); ok {
		if fv := core.FieldOf(info, sel); fv != nil && fv.Pkg() != nil && fv.Pkg().Path() == core.SpecPath {
			return true
		}
	}
	if call, ok := m.(*ast.CallExpr); ok {
		// accessor of a spec map field (opts.Swagger().Definitions is a selector; kept for helpers)
		_ = call
	}
	if o := core.ObjOf(info, m); o != nil {
		for _, d := range e.c.P.Locals(fi).Defs[o] {
			if d.Kind == core.DefTypeSwitch {
				if ep, _ := core.NamedOf(mt.Elem()); ep == core.SpecPath {
					return true
				}
			}
			if d.Kind == core.DefAssign && d.Expr != nil {
				if e.nameKeyedMap(fi, d.Expr) {
					return true
				}
			}
		}
		// parameters of a named-keyed role: spec.Definitions is named (handled above)
	}
	return false
}

// fieldDomains: declared domains of this repository's own string fields and map keys.
// paramDomains: declared domains of string parameters of the module's functions ("pkg.Recv.Name#index").
var paramDomains = map[string]dom{
	"analysis.InlineSchemaNamer.Name#0": dK, // the key of the schema to name: split by sortref.KeyParts, recorded in newRefs
}

var fieldDomains = map[string]dom{
	"newRef.key":     dK,
	"newRef.path":    dX, // "#/definitions/"+name with a raw name under KeepNames: neither K nor N (see DESIGN F11)
	"newRef.newName": dN,
	"SchemaRef.Name": dX,
	"RefRevIdx.Keys": dK, // element domain
	"newRef.parents": dK, // element domain
	"Key.Key":        dK,
}

// keyDomainOfMapField: key domains of the module's index maps (all analyzer indexes are keyed by K).
func (e *encEngine) mapKeyDomain(fi *core.FuncInfo, m ast.Expr) dom {
	info := fi.Pkg.TypesInfo
	t := info.TypeOf(m)
	if t == nil {
		return dX
	}
	mt, ok := t.Underlying().(*types.Map)
	if !ok || !core.IsString(mt.Key()) {
		return dX
	}
	// analyzer indexes and the flatten context
	if sel, ok := core.Unparen(m).(*ast.SelectorExpr); ok {
		if fv := core.FieldOf(info, sel); fv != nil && fv.Pkg() != nil && fv.Pkg().Path() == core.ModPath {
			owner := core.OwnerStruct(e.c.P, fv)
			switch {
			case strings.HasSuffix(owner, ".referenceAnalysis"), strings.HasSuffix(owner, ".patternAnalysis"), strings.HasSuffix(owner, ".enumAnalysis"):
				return dK
			case strings.HasSuffix(owner, ".Spec") && (fv.Name() == "allSchemas" || fv.Name() == "allOfs"):
				return dK
			case strings.HasSuffix(owner, ".context") && fv.Name() == "newRefs":
				return dK
			}
		}
	}
	if e.nameKeyedMap(fi, m) {
		return dN
	}
	// a local map: the domain of what was inserted into it
	if o := core.ObjOf(info, m); o != nil {
		var d dom = dX
		ast.Inspect(fi.Decl.Body, func(n ast.Node) bool {
			as, ok := n.(*ast.AssignStmt)
			if !ok {
				return true
			}
			for _, l := range as.Lhs {
				if ix, ok := core.Unparen(l).(*ast.IndexExpr); ok && core.ObjOf(info, ix.X) == o {
					if kd := e.dom(fi, ix.Index); kd != dX && kd != dS {
						d = kd
					}
				}
			}
			return true
		})
		return d
	}
	return dX
}

// domSet: the possible domains of an expression; a local with several definitions yields the union of the
// domains of its definitions (a self-referential definition such as `k = decode(k)` is evaluated with the
// other definitions standing for the inner occurrence).
func (e *encEngine) domSet(fi *core.FuncInfo, x ast.Expr) []dom {
	x = core.Unparen(x)
	id, ok := x.(*ast.Ident)
	if !ok {
		return []dom{e.dom(fi, x)}
	}
	info := fi.Pkg.TypesInfo
	o := info.Uses[id]
	if o == nil {
		o = info.Defs[id]
	}
	ld := e.c.P.Locals(fi)
	if o == nil || ld.Params[o] || len(ld.Defs[o]) < 2 {
		return []dom{e.dom(fi, x)}
	}
	if e.objStack == nil {
		e.objStack = map[types.Object]bool{}
	}
	set := map[dom]bool{}
	inner := e.objStack[o]
	e.objStack[o] = true
	// the variable of a range loop gets a fresh value at the head of every iteration: an assignment further down in
	// the body does not reach a use above it
	isRangeVar := false
	for _, d := range ld.Defs[o] {
		if d.Kind == core.DefRangeKey || d.Kind == core.DefRangeVal {
			isRangeVar = true
		}
	}
	for _, d := range ld.Defs[o] {
		if isRangeVar && e.usePos != token.NoPos && (d.Kind == core.DefAssign || d.Kind == core.DefMulti) && d.Pos > e.usePos {
			continue
		}
		switch d.Kind {
		case core.DefRangeKey:
			set[e.mapKeyDomain(fi, d.Expr)] = true
		case core.DefRangeVal:
			set[e.elemDomain(fi, d.Expr)] = true
		case core.DefAssign:
			if inner {
				continue
			}
			for _, dd := range e.domSetFresh(fi, d.Expr) {
				set[dd] = true
			}
		case core.DefMulti:
			if inner {
				continue
			}
			set[e.multiDom(fi, d.Expr, d.Index)] = true
		case core.DefZero:
		default:
			set[dX] = true
		}
	}
	if !inner {
		delete(e.objStack, o)
	}
	var out []dom
	for d := range set {
		out = append(out, d)
	}
	sort.Slice(out, func(i, j int) bool { return out[i] < out[j] })
	return out
}

// domSetFresh evaluates without the memo (the memo may hold values computed under another recursion context).
func (e *encEngine) domSetFresh(fi *core.FuncInfo, x ast.Expr) []dom {
	saved := e.memo
	e.memo = map[ast.Expr]dom{}
	out := e.domSet(fi, x)
	e.memo = saved
	return out
}

func (e *encEngine) dom(fi *core.FuncInfo, x ast.Expr) dom {
	x = core.Unparen(x)
	if d, ok := e.memo[x]; ok {
		return d
	}
	if e.onPath[x] {
		return dX
	}
	e.onPath[x] = true
	d := e.dom1(fi, x)
	delete(e.onPath, x)
	e.memo[x] = d
	return d
}

// escapeNeutral: no pointer-, URL- or path-escaper changes any character of s.
func escapeNeutral(s string) bool {
	for _, r := range s {
		switch {
		case r >= 'a' && r <= 'z', r >= 'A' && r <= 'Z', r >= '0' && r <= '9', r == '/', r == '#', r == '_', r == '-', r == '.':
		default:
			return false
		}
	}
	return true
}

func constDom(s string) dom {
	switch {
	case strings.HasPrefix(s, "#/") || s == "#":
		return dK
	case strings.Contains(s, "/"):
		return dP
	case strings.ContainsAny(s, "~%"):
		return dX
	}
	return dS
}

func (e *encEngine) dom1(fi *core.FuncInfo, x ast.Expr) dom {
	info := fi.Pkg.TypesInfo
	if s, ok := core.ConstString(info, x); ok {
		return constDom(s)
	}
	switch v := x.(type) {
	case *ast.Ident:
		o := info.Uses[v]
		if o == nil {
			o = info.Defs[v]
		}
		if o == nil {
			return dX
		}
		ld := e.c.P.Locals(fi)
		if ld.Params[o] {
			return e.paramDomain(fi, o)
		}
		var res dom = ""
		for _, d := range ld.Defs[o] {
			var dd dom = dX
			if e.objStack[o] && (d.Kind == core.DefAssign || d.Kind == core.DefMulti) {
				continue // inner occurrence of a self-referential definition: the other definitions stand for it
			}
			switch d.Kind {
			case core.DefAssign:
				dd = e.dom(fi, d.Expr)
			case core.DefMulti:
				dd = e.multiDom(fi, d.Expr, d.Index)
			case core.DefRangeKey:
				dd = e.mapKeyDomain(fi, d.Expr)
				if t := info.TypeOf(d.Expr); t != nil {
					if _, isMap := t.Underlying().(*types.Map); !isMap {
						dd = dX
					}
				}
			case core.DefRangeVal:
				dd = e.elemDomain(fi, d.Expr)
			}
			if res == "" {
				res = dd
			} else if res != dd {
				// S is compatible with everything
				switch {
				case res == dS:
					res = dd
				case dd == dS:
				default:
					return dX
				}
			}
		}
		if res == "" {
			return dX
		}
		return res
	case *ast.BinaryExpr:
		if v.Op != token.ADD {
			return dX
		}
		if s, ok := core.ConstString(info, v.X); ok && s == "#" {
			switch e.dom(fi, v.Y) {
			case dP, dS, dT:
				e.rawName[x] = e.rawName[core.Unparen(v.Y)]
				return dK
			case dB:
				return dB
			}
			return dX
		}
		// a pointer spelled out by hand: "#/section" + "/" + part …  (the same reading as path.Join gets)
		var parts []ast.Expr
		var flat func(ast.Expr)
		flat = func(p ast.Expr) {
			if b, ok := core.Unparen(p).(*ast.BinaryExpr); ok && b.Op == token.ADD {
				flat(b.X)
				flat(b.Y)
				return
			}
			parts = append(parts, core.Unparen(p))
		}
		flat(v)
		if s, ok := core.ConstString(info, parts[0]); ok && strings.HasPrefix(s, "#/") && len(parts) >= 3 {
			raw := false
			for i, p := range parts[1:] {
				if s, ok := core.ConstString(info, p); ok {
					if i%2 == 0 && s != "/" {
						return dX
					}
					continue
				}
				if i%2 == 0 {
					return dX // two parts not separated by "/"
				}
				switch e.dom(fi, p) {
				case dT, dS:
				case dN:
					raw = true
				case dE:
					return dE
				default:
					return dX
				}
			}
			if raw {
				e.rawName[x] = true
			}
			return dK
		}
		return dX
	case *ast.SliceExpr:
		// k[1:]
		if e.dom(fi, v.X) == dK && v.Low != nil && v.High == nil {
			if tv, ok := info.Types[v.Low]; ok && tv.Value != nil && tv.Value.String() == "1" {
				return dP
			}
		}
		return dX
	case *ast.SelectorExpr:
		if fv := core.FieldOf(info, v); fv != nil {
			owner := core.OwnerStruct(e.c.P, fv)
			short := owner[strings.LastIndex(owner, ".")+1:] + "." + fv.Name()
			if d, ok := fieldDomains[short]; ok && core.IsString(fv.Type()) {
				return d
			}
		}
		return dX
	case *ast.IndexExpr:
		// element of a []string field with declared element domain
		return e.elemDomain(fi, v.X)
	case *ast.CallExpr:
		return e.callDom(fi, v)
	}
	return dX
}

// elemDomain: domain of the elements of a string slice / values of a map.
func (e *encEngine) elemDomain(fi *core.FuncInfo, x ast.Expr) dom {
	info := fi.Pkg.TypesInfo
	x = core.Unparen(x)
	if sel, ok := x.(*ast.SelectorExpr); ok {
		if fv := core.FieldOf(info, sel); fv != nil {
			owner := core.OwnerStruct(e.c.P, fv)
			short := owner[strings.LastIndex(owner, ".")+1:] + "." + fv.Name()
			if d, ok := fieldDomains[short]; ok && !core.IsString(fv.Type()) {
				return d
			}
		}
	}
	if call, ok := x.(*ast.CallExpr); ok {
		callee := e.c.P.CalleeAny(fi, call)
		if callee != nil {
			switch {
			case callee.Name() == "AllDefinitionReferences" || strings.HasSuffix(callee.Name(), "References") && callee.Pkg() != nil && callee.Pkg().Path() == core.ModPath:
				return dU
			case callee.FullName() == core.ModPath+"/internal/flatten/sortref.DepthFirst", callee.FullName() == core.ModPath+"/internal/flatten/sortref.TopmostFirst":
				return dK
			case callee.FullName() == core.ModPath+"/internal/flatten/sortref.KeyParts":
				return dN
			}
		}
	}
	if o := core.ObjOf(info, x); o != nil {
		ld := e.c.P.Locals(fi)
		if !ld.Params[o] {
			var res dom = ""
			for _, d := range ld.Defs[o] {
				var dd dom = dX
				if d.Kind == core.DefAssign {
					dd = e.elemDomain(fi, d.Expr)
					// x = append(x, v)
					if call, ok := core.Unparen(d.Expr).(*ast.CallExpr); ok && isBuiltin(info, call, "append") && len(call.Args) >= 2 {
						dd = e.dom(fi, call.Args[1])
						if call.Ellipsis.IsValid() {
							dd = e.elemDomain(fi, call.Args[1])
						}
					}
				}
				if dd == dX {
					continue
				}
				if res == "" {
					res = dd
				} else if res != dd {
					return dX
				}
			}
			if res != "" {
				return res
			}
			// a local map of strings: the domain of the values stored into it (m[k] = v), when they agree
			if mt, isMap := o.Type().Underlying().(*types.Map); isMap && core.IsString(mt.Elem()) {
				var mres dom = ""
				mixed := false
				ast.Inspect(fi.Decl.Body, func(n ast.Node) bool {
					as, ok := n.(*ast.AssignStmt)
					if !ok || len(as.Lhs) != len(as.Rhs) {
						return true
					}
					for i, l := range as.Lhs {
						if ix, ok := core.Unparen(l).(*ast.IndexExpr); ok && core.ObjOf(info, ix.X) == o {
							vd := e.dom(fi, as.Rhs[i])
							if vd == dX {
								// a local defined once: take the domain of its definition
								if set := e.domSetFresh(fi, as.Rhs[i]); len(set) == 1 {
									vd = set[0]
								}
							}
							if mres == "" {
								mres = vd
							} else if mres != vd {
								mixed = true
							}
						}
					}
					return true
				})
				if mres != "" && !mixed {
					return mres
				}
			}
		}
	}
	return dX
}

func (e *encEngine) paramDomain(fi *core.FuncInfo, o types.Object) dom {
	if !core.IsString(o.Type()) {
		return dX
	}
	// declared: the `key` parameters of the rewriters and of the namer are analyzer keys
	name := o.Name()
	pkg := fi.Pkg.PkgPath
	switch {
	case name == "key" && (strings.HasSuffix(pkg, "/replace") || pkg == core.ModPath):
		return dK
	case name == "k" && fi.Obj.Name() == "stripOAIGenForRef":
		return dK
	}
	// inferred: all call sites agree
	var res dom = ""
	idx := -1
	sig := fi.Obj.Type().(*types.Signature)
	for i := 0; i < sig.Params().Len(); i++ {
		if sig.Params().At(i) == o {
			idx = i
		}
	}
	if idx < 0 {
		return dX
	}
	for _, cs := range e.c.P.CG().In[fi.Obj] {
		if cs.Call == nil || idx >= len(cs.Call.Args) {
			continue
		}
		d := e.dom(cs.Caller, cs.Call.Args[idx])
		if d == dX {
			return dX
		}
		if res == "" || res == dS {
			res = d
		} else if d != dS && d != res {
			return dX
		}
	}
	if res == "" {
		return dX
	}
	return res
}

// multiDom: domain of result `index` of a call.
func (e *encEngine) multiDom(fi *core.FuncInfo, x ast.Expr, index int) dom {
	call, ok := core.Unparen(x).(*ast.CallExpr)
	if !ok {
		return dX
	}
	callee := e.c.P.CalleeAny(fi, call)
	if callee == nil {
		return dX
	}
	switch callee.FullName() {
	case "net/url.PathUnescape", "net/url.QueryUnescape":
		if index == 0 {
			return e.callDom(fi, call)
		}
		return dX
	}
	cf := e.c.P.Funcs[callee]
	if cf == nil {
		return dX
	}
	return e.resultDom(cf, index)
}

// resultDom: domain of the index-th result of a module function (all non-empty returns agree).
func (e *encEngine) resultDom(cf *core.FuncInfo, index int) dom {
	key := fmt.Sprintf("%s#%d", cf.QName(), index)
	if d, ok := e.resMemo[key]; ok {
		return d
	}
	e.resMemo[key] = dX
	var res dom = ""
	info := cf.Pkg.TypesInfo
	ast.Inspect(cf.Decl.Body, func(n ast.Node) bool {
		if _, isLit := n.(*ast.FuncLit); isLit {
			return false
		}
		r, ok := n.(*ast.ReturnStmt)
		if !ok || index >= len(r.Results) {
			return true
		}
		if s, isConst := core.ConstString(info, r.Results[index]); isConst && s == "" {
			return true
		}
		d := e.dom(cf, r.Results[index])
		if res == "" {
			res = d
		} else if res != d {
			res = dX
		}
		return true
	})
	if res == "" {
		res = dX
	}
	e.resMemo[key] = res
	return res
}

func (e *encEngine) callDom(fi *core.FuncInfo, call *ast.CallExpr) dom {
	info := fi.Pkg.TypesInfo
	callee := e.c.P.CalleeAny(fi, call)
	if callee == nil {
		// mangler closure: mangle(name) returns a name
		if core.IsString(info.TypeOf(call)) && len(call.Args) == 1 && e.dom(fi, call.Args[0]) == dN {
			return dN
		}
		if id, ok := core.Unparen(call.Fun).(*ast.Ident); ok && id.Name == "mangle" {
			return dN
		}
		return dX
	}
	full := callee.FullName()
	arg := func(i int) dom {
		if i < len(call.Args) {
			return e.dom(fi, call.Args[i])
		}
		return dX
	}
	switch full {
	case "github.com/go-openapi/jsonpointer.Escape":
		return dT
	case "github.com/go-openapi/jsonpointer.Unescape":
		switch arg(0) {
		case dP, dK, dU:
			return dD // decoding before splitting: the token boundaries are lost
		case dN:
			return dM // decoded twice
		case dX:
			// a local with several definitions, every one of them a whole pointer (k = decode(k))
			if len(call.Args) == 1 {
				set := e.domSetFresh(fi, call.Args[0])
				all := len(set) > 0
				for _, d := range set {
					if d != dP && d != dK && d != dU {
						all = false
					}
				}
				if all {
					return dD
				}
			}
		}
		return dN
	case "net/url.PathEscape":
		switch arg(0) {
		case dX:
			return dX
		}
		return dE
	case "path.Join":
		first := arg(0)
		bad := false
		for i := range call.Args {
			switch arg(i) {
			case dN:
				bad = true
			case dE:
				return dE
			case dX, dU:
				return dX
			case dB:
				bad = true
			}
		}
		if bad {
			e.rawName[core.Unparen(ast.Expr(call))] = true
			// still a pointer-shaped string; the raw-name splice is reported at reference-construction sinks
		}
		if first == dK {
			return dK
		}
		return dP
	case "path.Base":
		switch arg(0) {
		case dD:
			return dB
		case dP, dK:
			if e.rawName[core.Unparen(call.Args[0])] {
				return dX
			}
			return dT
		case dU:
			return dT
		}
		return dX
	case "path.Dir":
		return arg(0)
	case "net/url.PathUnescape":
		switch arg(0) {
		case dK, dU:
			return dK
		case dP:
			return dP
		}
		return dX
	case "net/url.QueryUnescape":
		// not the inverse of the escaping done by Ref.String(): '+' becomes a space
		switch arg(0) {
		case dK, dU, dP:
			return dQ
		}
		return dX
	case "strings.TrimPrefix", "strings.ToLower", "strings.ToUpper":
		return dX
	case "fmt.Sprintf":
		// a name decorated with numbers or constants is still a name
		var res dom = ""
		for i := 1; i < len(call.Args); i++ {
			if !core.IsString(info.TypeOf(call.Args[i])) {
				continue
			}
			d := arg(i)
			if d == dS {
				continue
			}
			if res == "" {
				res = d
			} else if res != d {
				return dX
			}
		}
		if res == dN {
			return dN
		}
		return dX
	case "github.com/go-openapi/swag.ToJSONName", "github.com/go-openapi/swag.ToGoName":
		return dN
	}
	if callee.Name() == "String" && len(call.Args) == 0 {
		if sel, ok := core.Unparen(call.Fun).(*ast.SelectorExpr); ok {
			if core.IsSpecType(info.TypeOf(sel.X), "Ref") {
				return dU
			}
		}
	}
	if cf := e.c.P.Funcs[callee]; cf != nil {
		sig := callee.Type().(*types.Signature)
		if sig.Results().Len() >= 1 && core.IsString(sig.Results().At(0).Type()) {
			return e.resultDom(cf, 0)
		}
	}
	return dX
}

func encRules(c *Ctx) {
	e := &encEngine{c: c, memo: map[ast.Expr]dom{}, onPath: map[ast.Expr]bool{}, resMemo: map[string]dom{}, rawName: map[ast.Expr]bool{}}
	flat := c.need("C06", "ENC", "", "Flatten")
	if flat == nil {
		return
	}
	reach := c.P.Reachable(flat)
	funcs := core.SortedSet(reach)
	nKeys, nRefs := 0, 0
	nCmp := map[string]int{}
	var observations []string
	for _, fi := range funcs {
		info := c.info(fi)
		prop := "C01"
		switch {
		case fi.Obj.Name() == "removeUnusedSinglePass" || fi.Obj.Name() == "removeUnused":
			prop = "C06"
		case c.onSpec(fi):
			continue // the analyzer's keys are decided by IDX
		}
		report := func(sinkKind string, m ast.Expr, key ast.Expr, pos token.Pos) {
			want := e.mapKeyDomain(fi, m)
			got := e.dom(fi, key)
			if (got == dK || got == dP) && e.rawNameIn(fi, key, 0) {
				nKeys++
				c.S.Violate(prop, "ENC-MAPKEY", fi.QName()+"/"+sinkKind+" "+exprStr(m)+"["+exprStr(key)+"]", c.P.Pos(pos),
					"the key is a JSON pointer into which a raw (unescaped) name is joined: for names containing '/' or '~' it designates another entry or none")
				return
			}
			if want == dX || got == dX {
				// several possible domains (flow-insensitive): a definite mismatch only if every one mismatches
				e.usePos = key.Pos()
				set := e.domSetFresh(fi, key)
				// path.Base(k) of a local with several definitions: the last token of each of its possible pointers
				if call, isCall := core.Unparen(key).(*ast.CallExpr); isCall && len(call.Args) == 1 {
					if callee := c.P.StaticCallee(fi, call); callee != nil && callee.FullName() == "path.Base" {
						set = nil
						for _, d := range e.domSetFresh(fi, call.Args[0]) {
							switch d {
							case dP, dK, dU:
								set = append(set, dT)
							case dD:
								set = append(set, dB)
							default:
								set = append(set, dX)
							}
						}
					}
				}
				e.usePos = token.NoPos
				all := len(set) > 0 && want != dX
				for _, d := range set {
					if d == dX || d == dS || d == want {
						all = false
					}
				}
				if !all {
					return
				}
				got = set[0]
				if len(set) > 1 {
					got = set[len(set)-1]
				}
			}
			nKeys++
			ok := got == want || got == dS
			k := fi.QName() + "/" + sinkKind + " " + exprStr(m) + "[" + exprStr(key) + "]"
			c.S.Decide(ok, prop, "ENC-MAPKEY", k, c.P.Pos(pos),
				"key is in the map's key domain ("+string(want)+")",
				fmt.Sprintf("%s uses a key in domain %s (%s) on a map whose keys are in domain %s (%s): for names that need escaping the entry designated is another one or none",
					sinkKind, got, domText(got), want, domText(want)))
		}
		ast.Inspect(fi.Decl.Body, func(n ast.Node) bool {
			switch x := n.(type) {
			case *ast.IndexExpr:
				if core.IsMap(info.TypeOf(x.X)) {
					report("index", x.X, x.Index, x.Pos())
				}
			case *ast.CallExpr:
				if isBuiltin(info, x, "delete") && len(x.Args) == 2 {
					report("delete", x.Args[0], x.Args[1], x.Pos())
				}
				// ENC-SUBSTR: names of the document range over an alphabet that contains any word: a key, pointer,
				// $ref string or name is never classified by searching it for a word (strings.Contains(k, "OAIGen")
				// took a definition of the user's for a generated one: defect F26)
				if callee := c.P.CalleeAny(fi, x); callee != nil && callee.Pkg() != nil && callee.Pkg().Path() == "strings" && len(x.Args) == 2 {
					switch callee.Name() {
					case "Contains", "Index", "LastIndex", "Count":
						needle, isConst := core.ConstString(info, x.Args[1])
						word := false
						for _, r := range needle {
							if r >= 'a' && r <= 'z' || r >= 'A' && r <= 'Z' || r >= '0' && r <= '9' {
								word = true
							}
						}
						if d := e.dom(fi, x.Args[0]); isConst && word && (d == dK || d == dP || d == dU || d == dT || d == dN) {
							c.S.Violate(prop, "ENC-SUBSTR", fi.QName()+"/"+callee.Name()+" "+fmt.Sprintf("%q", needle), c.P.Pos(x.Pos()),
								"the "+domText(d)+" "+exprStr(x.Args[0])+" is searched for the word "+fmt.Sprintf("%q", needle)+": names of the document may contain it, so what the test classifies (a generated definition, a section) is also matched by definitions and properties of the user's — they are then rewritten or deleted as if generated")
						}
					}
				}
				if callee := c.P.CalleeAny(fi, x); callee != nil && (callee.FullName() == "github.com/go-openapi/spec.MustCreateRef") && len(x.Args) == 1 {
					nRefs++
					a := core.Unparen(x.Args[0])
					e.dom(fi, a)
					raw := e.rawNameIn(fi, a, 0)
					k := fi.QName() + "/MustCreateRef"
					// armed for the inline-schema namer only: KeepNames belongs to the quantifier for
					// single-document bundles, whose new definitions are all created there; the import
					// path (multi-document) is listed as an observation
					if !strings.HasPrefix(fi.Name(), "InlineSchemaNamer.") {
						if raw {
							observations = append(observations, fmt.Sprintf("%s: %s builds a reference from a raw name (multi-document import path, KeepNames outside the quantifier there)", c.P.Pos(x.Pos()), fi.QName()))
						}
						c.S.Hold("C04", "ENC-REFARG", k, c.P.Pos(x.Pos()), "reference construction outside the namer (raw names reach it only for multi-document bundles with KeepNames, outside the quantifier)")
						return true
					}
					// keyed by the receiver type, not by the method: the namer may be split into several methods
					k = fi.Pkg.Types.Name() + ".InlineSchemaNamer/MustCreateRef"
					c.S.Decide(!raw, "C04", "ENC-REFARG", k, c.P.Pos(x.Pos()),
						"no raw (unescaped) name is spliced into the reference",
						"the reference is built by joining a raw definition name (not pointer-escaped; raw under KeepNames) into a JSON pointer: a name containing '/' or '~' yields a $ref that does not resolve")
				}
			case *ast.BinaryExpr:
				if x.Op == token.EQL || x.Op == token.NEQ {
					a, b := e.dom(fi, x.X), e.dom(fi, x.Y)
					if a != dX && b != dX && a != b && a != dS && b != dS {
						// a definite mismatch is an error for every name that needs the escaping (a URL-escaped $ref
						// string never equals the key of the same place when the name holds a space), or compares a
						// fragment of a pointer with a whole one
						// a constant made of characters no escaper touches ("#/definitions") is the same string in
						// every domain: comparing it with a URL-escaped string is exact
						neutral := false
						for _, side := range []ast.Expr{x.X, x.Y} {
							if cs, isC := core.ConstString(info, side); isC && escapeNeutral(cs) {
								neutral = true
							}
						}
						if neutral {
							observations = append(observations, fmt.Sprintf("%s: %s compares %s with %s, one side an escape-neutral constant (%s)", c.P.Pos(x.Pos()), fi.QName(), a, b, exprStr(x)))
						} else {
							nCmp[fi.QName()]++
							k := fi.QName() + "/compare"
							if nCmp[fi.QName()] > 1 {
								k = fmt.Sprintf("%s#%d", k, nCmp[fi.QName()])
							}
							c.S.Violate(prop, "ENC-CMP", k, c.P.Pos(x.Pos()),
								fmt.Sprintf("compares a string in domain %s (%s) with one in domain %s (%s): the two sides can designate the same thing and differ, or differ in what they designate and be equal", a, domText(a), b, domText(b)))
						}
					}
				}
				return true
			}
			// declared parameter domains of the module's own functions
			if call, ok := n.(*ast.CallExpr); ok {
				if callee := c.P.StaticCallee(fi, call); callee != nil {
					if cf := c.P.Funcs[callee]; cf != nil {
						for i, a := range call.Args {
							want, declared := paramDomains[fmt.Sprintf("%s#%d", cf.QName(), i)]
							if !declared {
								continue
							}
							got := e.dom(fi, a)
							if got == dX || got == dS || got == want {
								if got == want {
									c.S.Hold(prop, "ENC-ARG", fi.QName()+"->"+cf.Name(), c.P.Pos(call.Pos()), "the argument is in the parameter's domain ("+string(want)+")")
								}
								continue
							}
							c.S.Violate(prop, "ENC-ARG", fi.QName()+"->"+cf.Name(), c.P.Pos(call.Pos()),
								fmt.Sprintf("%s receives a string in domain %s (%s) where it expects %s (%s): it splits the key into name parts without decoding it, so a name that needs URL escaping reaches the generated definition name still escaped ('my%%20def c') and the $ref built from that name designates another definition or none", cf.Name(), got, domText(got), want, domText(want)))
						}
					}
				}
			}
			// identity of references tested by prefix: HasPrefix(ref1.String(), ref2.String())
			if call, ok := n.(*ast.CallExpr); ok && len(call.Args) == 2 {
				if cal := c.P.CalleeAny(fi, call); cal != nil && (cal.FullName() == "strings.HasPrefix" || cal.FullName() == "strings.Contains" || cal.FullName() == "strings.HasSuffix") {
					isRefString := func(x ast.Expr) bool {
						x = core.Unparen(x)
						if o := core.ObjOf(info, x); o != nil {
							if defs := c.P.Locals(fi).Defs[o]; len(defs) == 1 && defs[0].Kind == core.DefAssign {
								x = core.Unparen(defs[0].Expr)
							}
						}
						cc, ok := x.(*ast.CallExpr)
						if !ok || len(cc.Args) != 0 {
							return false
						}
						sel, ok := core.Unparen(cc.Fun).(*ast.SelectorExpr)
						return ok && sel.Sel.Name == "String" && core.IsSpecType(info.TypeOf(sel.X), "Ref")
					}
					if isRefString(call.Args[0]) && isRefString(call.Args[1]) {
						c.S.Violate(prop, "REF-EQ", fi.QName()+"/"+cal.Name(), c.P.Pos(call.Pos()),
							"two $ref strings are matched with strings."+cal.Name()+" instead of ==: a reference whose pointer merely starts with (contains) the other's — a sibling property named tags next to tag — is taken for the same reference and rewritten to the wrong target")
					}
				}
			}
			return true
		})
	}
	sort.Strings(observations)
	for _, o := range observations {
		c.S.Note("ENC observation (not armed: no failing input known): %s", o)
	}
	if nKeys < 12 {
		c.S.Undecided("C01", "ENC-MAPKEY", "floor", "-", fmt.Sprintf("only %d map-key sinks with both domains known (confirmed by hand: 14+)", nKeys))
	}
	if nRefs < 6 {
		c.S.Undecided("C04", "ENC-REFARG", "floor", "-", fmt.Sprintf("only %d reference constructions found below Flatten", nRefs))
	}
	e.mustRef()
	e.consumers()
	e.fragmentSplit(funcs)
}

// fragmentSplit (C01): a $ref string is split into document and fragment at the FIRST '#': names may contain '#',
// so strings.Split(ref, "#") followed by taking element 1 truncates the fragment.
func (e *encEngine) fragmentSplit(funcs []*core.FuncInfo) {
	c := e.c
	n := 0
	for _, fi := range funcs {
		info := c.info(fi)
		ld := c.P.Locals(fi)
		for _, call := range calls(fi.Decl.Body) {
			callee := c.P.CalleeAny(fi, call)
			if callee == nil || len(call.Args) < 2 {
				continue
			}
			full := callee.FullName()
			if full != "strings.Split" && full != "strings.SplitN" {
				continue
			}
			if sep, ok := core.ConstString(info, call.Args[1]); !ok || sep != "#" {
				continue
			}
			// is element [1] of the result used?
			takesFragment := false
			var resObj types.Object
			if as, ok := c.parents(fi)[call].(*ast.AssignStmt); ok && len(as.Lhs) == 1 {
				resObj = core.ObjOf(info, as.Lhs[0])
			}
			if resObj == nil {
				continue
			}
			_ = ld
			ast.Inspect(fi.Decl.Body, func(m ast.Node) bool {
				ix, ok := m.(*ast.IndexExpr)
				if !ok || core.ObjOf(info, ix.X) != resObj {
					return true
				}
				if tv, ok := info.Types[ix.Index]; ok && tv.Value != nil && tv.Value.String() == "1" {
					// reading element 1 (not re-joining all parts)
					takesFragment = true
				}
				return true
			})
			if !takesFragment {
				continue
			}
			n++
			ok := full == "strings.SplitN"
			if ok {
				if tv, isC := info.Types[call.Args[2]]; !isC || tv.Value == nil || tv.Value.String() != "2" {
					ok = false
				}
			}
			for _, prop := range []string{"C01", "C04"} {
				c.S.Decide(ok, prop, "ENC-FRAGSPLIT", fi.QName()+"/"+exprStr(call.Args[0]), c.P.Pos(call.Pos()),
					"the reference is cut at its first '#' only",
					"the reference "+exprStr(call.Args[0])+" is split on every '#' and only the piece after the first one is kept as its fragment: a $ref to a definition whose name contains '#' is truncated (inner $refs of imported schemas point to a definition that does not exist)")
			}
		}
	}
	if n < 1 {
		c.S.Note("ENC-FRAGSPLIT: no fragment split found below Flatten")
	}
}

// consumers (C04/C12 consumer side): every JSON pointer built from an analyzer key in the rewriters goes through
// url.PathUnescape first (keys of templated paths carry %7B…%7D when they were taken from a $ref string); the
// sibling resolvers must agree.
func (e *encEngine) consumers() {
	c := e.c
	n := 0
	for _, fi := range c.P.SortedFuncs() {
		if !strings.HasSuffix(fi.Pkg.PkgPath, "/replace") {
			continue
		}
		info := c.info(fi)
		for _, call := range calls(fi.Decl.Body) {
			callee := c.P.CalleeAny(fi, call)
			if callee == nil || callee.FullName() != "github.com/go-openapi/jsonpointer.New" || len(call.Args) != 1 {
				continue
			}
			// is the argument derived from a string parameter of the function?
			fromKey, unescaped := false, false
			var walk func(x ast.Expr, depth int)
			walk = func(x ast.Expr, depth int) {
				if depth > 6 {
					return
				}
				ast.Inspect(x, func(m ast.Node) bool {
					switch v := m.(type) {
					case *ast.CallExpr:
						if cal := c.P.CalleeAny(fi, v); cal != nil {
							if cal.FullName() == "net/url.PathUnescape" {
								unescaped = true
							}
							// a helper of the module that decodes (transitively calls url.PathUnescape)
							if cf := c.P.Funcs[cal]; cf != nil && c.reachesExternal(cf, "net/url.PathUnescape") {
								unescaped = true
								fromKey = true
							}
						}
					case *ast.Ident:
						o, ok := info.Uses[v].(*types.Var)
						if !ok {
							return true
						}
						if c.P.Locals(fi).Params[o] && core.IsString(o.Type()) {
							fromKey = true
							return true
						}
						for _, d := range c.P.Locals(fi).Defs[o] {
							if d.Expr != nil {
								walk(d.Expr, depth+1)
							}
						}
					}
					return true
				})
			}
			walk(call.Args[0], 0)
			if !fromKey {
				continue
			}
			n++
			for _, prop := range []string{"C04", "C01"} {
				c.S.Decide(unescaped, prop, "ENC-CONSUMER", fi.QName()+"/jsonpointer.New", c.P.Pos(call.Pos()),
					"the key is URL-unescaped before being parsed as a JSON pointer, like in the sibling resolver",
					"the JSON pointer is built from the key without url.PathUnescape while the sibling resolver unescapes: keys taken from $ref strings of templated paths (%7Bid%7D) resolve their value but not their parent (or vice versa), and Flatten fails on a well-formed bundle")
			}
		}
	}
	if n < 2 {
		c.S.Undecided("C04", "ENC-CONSUMER", "floor", "-", fmt.Sprintf("only %d key-to-pointer conversions found in the rewriters (confirmed by hand: 2)", n))
	}
}

// rawNameIn: the expression (following locals) contains a path.Join that splices a raw name.
func (e *encEngine) rawNameIn(fi *core.FuncInfo, x ast.Expr, depth int) bool {
	if depth > 4 {
		return false
	}
	x = core.Unparen(x)
	if e.rawName[x] {
		return true
	}
	info := fi.Pkg.TypesInfo
	switch v := x.(type) {
	case *ast.Ident:
		o := core.ObjOf(info, v)
		for _, d := range e.c.P.Locals(fi).Defs[o] {
			if d.Kind == core.DefAssign {
				e.dom(fi, d.Expr)
				if e.rawNameIn(fi, d.Expr, depth+1) {
					return true
				}
			}
		}
	case *ast.BinaryExpr:
		return e.rawNameIn(fi, v.X, depth+1) || e.rawNameIn(fi, v.Y, depth+1)
	case *ast.SelectorExpr:
		// newRef.path is assigned path.Join(definitionsPath, newName) at its construction sites
	}
	return false
}

func domText(d dom) string {
	switch d {
	case dD:
		return "whole pointer decoded with jsonpointer.Unescape before being split: a '/' inside a name now looks like a separator"
	case dM:
		return "raw name unescaped a second time: '~0' / '~1' inside the name are rewritten"
	case dE:
		return "url.PathEscape'd string: path-segment escaping differs from the fragment escaping of Ref.String() for '?', ';', ',', '!', '(', ')', '*'"
	}
	switch d {
	case dN:
		return "raw name"
	case dT:
		return "pointer-escaped token"
	case dP:
		return "joined pointer tokens"
	case dK:
		return "analyzer key '#/…'"
	case dU:
		return "URL-escaped $ref string"
	case dS:
		return "escape-neutral constant"
	case dQ:
		return "query-unescaped string ('+' decoded as space)"
	}
	return string(d)
}

// mustRef (C09): Must* reference constructors fed with document-derived names
// panic on an invalid URL escape. Armed for the analyzer's schema registration
// (witnessed); the call sites below Flatten are listed as observations.
func (e *encEngine) mustRef() {
	c := e.c
	newFn := c.root("New")
	if newFn == nil {
		return
	}
	n := 0
	ordMust := map[string]int{}
	for _, fi := range core.SortedSet(c.P.Reachable(newFn)) {
		info := c.info(fi)
		for _, call := range calls(fi.Decl.Body) {
			callee := c.P.CalleeAny(fi, call)
			if callee == nil || !strings.HasPrefix(callee.Name(), "Must") || callee.Pkg() == nil || callee.Pkg().Path() != core.SpecPath {
				continue
			}
			n++
			// is the argument built from names of the document (function parameters / loop keys), unvalidated?
			derived := false
			ast.Inspect(call.Args[0], func(m ast.Node) bool {
				if id, ok := m.(*ast.Ident); ok {
					if o, ok := info.Uses[id].(*types.Var); ok && !isPkgLevel(o) {
						derived = true
					}
				}
				return true
			})
			// keyed by where the constructed reference goes (the field of the record it is stored in), so that the
			// obligation — and the known finding — survives a renaming of the enclosing function
			where := fi.QName()
			if kv, ok := c.parents(fi)[call].(*ast.KeyValueExpr); ok {
				if cl, ok := c.parents(fi)[kv].(*ast.CompositeLit); ok {
					if _, tn := core.NamedOf(info.TypeOf(cl)); tn != "" {
						if id, ok := kv.Key.(*ast.Ident); ok {
							where = tn + "." + id.Name
						}
					}
				}
			}
			ordMust[where]++
			if ordMust[where] > 1 {
				where = fmt.Sprintf("%s#%d", where, ordMust[where])
			}
			c.S.Decide(!derived, "C09", "ENC-MUSTREF", where+"/"+callee.Name(), c.P.Pos(call.Pos()),
				"the panicking constructor only receives constants",
				callee.Name()+" panics on an invalid URL escape and receives a string built from names of the document ("+exprStr(call.Args[0])+"): a definition or path named like \"100%zz\" makes analysis.New panic")
		}
	}
	if n < 1 {
		c.S.Undecided("C09", "ENC-MUSTREF", "floor", "-", "no Must* reference constructor found below analysis.New")
	}
}

func isPkgLevel(v *types.Var) bool {
	return v.Pkg() != nil && v.Parent() == v.Pkg().Scope()
}
