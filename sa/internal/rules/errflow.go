package rules

// errflow (E8): errors reach the caller. Every call below Flatten / Schema
// whose callee returns an error must have that error returned (possibly
// wrapped) on the edge where it is non-nil, or carried into a later return.

import (
	"fmt"
	"go/ast"
	"go/types"
	"strings"

	"verif/sa/internal/core"
)

func init() {
	register(Rule{
		Name:  "ERR",
		Props: []string{"C09"},
		Doc:   "no error returned by a callee below Flatten/Schema is dropped or tested without being propagated",
		Run:   errRules,
	})
}

// errExempt: discarded errors that are deliberate, one callee per function, with the reason.
var errExempt = map[string]string{
	"internal/flatten/replace.getPointerFromKey/PathUnescape":     "lenient decoding of the key: an invalid escape leaves an empty path and the following jsonpointer lookup fails with an error",
	"internal/flatten/replace.getParentFromKey/PathUnescape":      "same lenient decoding as getPointerFromKey",
	"internal/flatten/normalize.RebaseRef/PathUnescape":           "lenient decoding of $ref strings before rebasing ('%' is outside the alphabet)",
	"internal/flatten/normalize.RebaseRef/Parse":                  "url.Parse only fails on an invalid '%' escape, outside the alphabet; recorded as an observation under C09 (no failing input in W+)",
	"internal/flatten/normalize.Path/PathUnescape":                "lenient decoding of $ref strings",
	"internal/flatten/normalize.Path/Parse":                       "url.Parse only fails on an invalid '%' escape, outside the alphabet",
	"internal/flatten/replace.DeepestRef/MarshalJSON":             "re-marshalling of a value that was unmarshalled from JSON cannot fail; the following UnmarshalJSON error is propagated",
	"internal/flatten/replace.DeepestRef/Marshal":                 "re-marshalling of a value that was unmarshalled from JSON cannot fail; the following UnmarshalJSON error is propagated",
	"internal/flatten/schutils.Clone/FromDynamicJSON":             "cloning a schema that was itself loaded from JSON cannot fail",
	"internal/flatten/sortref.SplitKey.ResponseName/Atoi":         "guarded by IsStatusCodeResponse, which already parsed the same token",
	"internal/flatten/sortref.SplitKey.IsStatusCodeResponse/Atoi": "the error is the result: err == nil is what the predicate returns",
}

// errExemptPkg: the same deliberate discards, keyed by package and callee (the discard may live in any helper of the package).
var errExemptPkg = map[string]string{
	"internal/flatten/replace/PathUnescape":     "lenient decoding of an analyzer key: an invalid escape leaves an empty path and the following jsonpointer lookup fails with an error",
	"internal/flatten/replace/MarshalJSON":      "re-marshalling of a value that was unmarshalled from JSON cannot fail; the following UnmarshalJSON error is propagated",
	"internal/flatten/replace/Marshal":          "re-marshalling of a value that was unmarshalled from JSON cannot fail; the following UnmarshalJSON error is propagated",
	"internal/flatten/normalize/PathUnescape":   "lenient decoding of $ref strings ('%' is outside the alphabet)",
	"internal/flatten/normalize/Parse":          "url.Parse only fails on an invalid '%' escape, outside the alphabet",
	"internal/flatten/schutils/FromDynamicJSON": "cloning a schema that was itself loaded from JSON cannot fail",
}

func errRules(c *Ctx) {
	var roots []*core.FuncInfo
	for _, n := range []string{"Flatten", "Schema"} {
		if f := c.root(n); f != nil {
			roots = append(roots, f)
		}
	}
	if len(roots) < 2 {
		c.S.Undecided("C09", "ERR", "anchor", "-", "Flatten/Schema not found")
		return
	}
	n := 0
	for _, fi := range core.SortedSet(c.P.Reachable(roots...)) {
		info := c.info(fi)
		pm := c.parents(fi)
		fsig := fi.Obj.Type().(*types.Signature)
		returnsErr := fsig.Results().Len() > 0 && core.IsErrorType(fsig.Results().At(fsig.Results().Len()-1).Type())
		for _, call := range calls(fi.Decl.Body) {
			callee := c.P.CalleeAny(fi, call)
			if callee == nil {
				continue
			}
			sig, ok := callee.Type().(*types.Signature)
			if !ok || sig.Results().Len() == 0 || !core.IsErrorType(sig.Results().At(sig.Results().Len()-1).Type()) {
				continue
			}
			errIdx := sig.Results().Len() - 1
			// error constructors are not fallible steps
			if pk := callee.Pkg(); pk != nil && (pk.Path() == "fmt" || pk.Path() == "errors") {
				continue
			}
			if sig.Results().Len() == 1 && strings.HasPrefix(callee.Name(), "Err") && c.P.Funcs[callee] != nil {
				continue
			}
			n++
			key := fi.QName() + "/" + callee.Name()
			pos := c.P.Pos(call.Pos())
			exemptKey := fi.QName() + "/" + callee.Name()
			pkgKey := strings.TrimPrefix(strings.TrimPrefix(fi.Pkg.PkgPath, core.ModPath), "/") + "/" + callee.Name()
			parent := pm[call]
			for {
				if p, ok := parent.(*ast.ParenExpr); ok {
					parent = pm[p]
					continue
				}
				break
			}
			assignedToBlank := false
			if as, isAs := parent.(*ast.AssignStmt); isAs && len(as.Lhs) > errIdx {
				if id, isID := core.Unparen(as.Lhs[errIdx]).(*ast.Ident); isID && id.Name == "_" {
					assignedToBlank = true
				}
			}
			verdict := func(ok bool, why string) {
				if !ok {
					if reason, ex := errExempt[exemptKey]; ex {
						c.S.Exempt("C09", "ERR-DROP", key, pos, reason)
						return
					}
					// the same deliberate discard moved into a helper of the same package
					if reason, ex := errExemptPkg[pkgKey]; ex && assignedToBlank {
						c.S.Exempt("C09", "ERR-DROP", key, pos, reason)
						return
					}
				}
				c.S.Decide(ok, "C09", "ERR-PROP", key, pos, "the error is returned to the caller on the edge where it is non-nil", why)
			}
			switch p := parent.(type) {
			case *ast.ReturnStmt:
				verdict(true, "")
			case *ast.ExprStmt:
				verdict(false, "the error returned by "+callee.Name()+" is discarded")
			case *ast.AssignStmt:
				if len(p.Lhs) <= errIdx && len(p.Lhs) != sig.Results().Len() {
					verdict(false, "cannot match the error result of "+callee.Name())
					continue
				}
				lhs := p.Lhs[errIdx]
				if id, ok := core.Unparen(lhs).(*ast.Ident); ok && id.Name == "_" {
					verdict(false, "the error returned by "+callee.Name()+" is assigned to _")
					continue
				}
				eo := core.ObjOf(info, lhs)
				if eo == nil {
					verdict(false, "the error of "+callee.Name()+" is stored somewhere it is never tested")
					continue
				}
				if !returnsErr {
					// the predicate idiom: `_, err := f(); return err == nil`
					verdict(c.errUsedInReturn(fi, eo, p), "the enclosing function cannot return an error and does not use it")
					continue
				}
				verdict(c.errPropagated(fi, eo, p), "the error of "+callee.Name()+" is assigned to "+eo.Name()+" but no path tests it and returns a non-nil error (nor is it carried into a later return): Flatten would report success after a failed step")
			case *ast.ValueSpec:
				verdict(false, "error declared and not propagated")
			default:
				// used as an operand (e.g. if f() != nil)
				verdict(true, "")
			}
		}
	}
	if n < 40 {
		c.S.Undecided("C09", "ERR-PROP", "floor", "-", fmt.Sprintf("only %d error-returning calls found below Flatten/Schema (confirmed by hand: 50+)", n))
	}
	c.expandOpts()
}

// expandOpts (C09): the options handed to the spec expander/resolver carry the caller's ContinueOnError and base path.
func (c *Ctx) expandOpts() {
	found := false
	for _, fi := range c.P.SortedFuncs() {
		sig := fi.Obj.Type().(*types.Signature)
		if sig.Recv() == nil || !core.IsModType(sig.Recv().Type(), "FlattenOpts") || sig.Results().Len() != 1 || !core.IsSpecType(sig.Results().At(0).Type(), "ExpandOptions") {
			continue
		}
		found = true
		info := c.info(fi)
		recv := sig.Recv()
		got := map[string]string{}
		ast.Inspect(fi.Decl.Body, func(n ast.Node) bool {
			cl, ok := n.(*ast.CompositeLit)
			if !ok || !core.IsSpecType(info.TypeOf(cl), "ExpandOptions") {
				return true
			}
			for _, el := range cl.Elts {
				if kv, ok := el.(*ast.KeyValueExpr); ok {
					if id, ok := kv.Key.(*ast.Ident); ok {
						if sel, ok := core.Unparen(kv.Value).(*ast.SelectorExpr); ok && core.ObjOf(info, sel.X) == recv {
							got[id.Name] = sel.Sel.Name
						} else {
							got[id.Name] = exprStr(kv.Value)
						}
					}
				}
			}
			return true
		})
		c.S.Decide(got["ContinueOnError"] == "ContinueOnError", "C09", "COV-EXPANDOPTS", fi.QName()+"/ContinueOnError", c.P.Pos(fi.Decl.Pos()),
			"ContinueOnError of the expander is the caller's option (off by default: unresolvable $refs are errors)",
			"ExpandOptions.ContinueOnError is "+got["ContinueOnError"]+" instead of the receiver's ContinueOnError: unresolvable $refs or unloadable documents may be skipped silently and Flatten reports success")
		c.S.Decide(got["RelativeBase"] == "BasePath", "C09", "COV-EXPANDOPTS", fi.QName()+"/RelativeBase", c.P.Pos(fi.Decl.Pos()),
			"relative $refs are resolved against the caller's BasePath", "ExpandOptions.RelativeBase is "+got["RelativeBase"]+" instead of the receiver's BasePath")
	}
	if !found {
		c.S.Undecided("C09", "COV-EXPANDOPTS", "anchor", "-", "no FlattenOpts method returning *spec.ExpandOptions")
	}
}

// errPropagated: after the assignment, the error variable is tested non-nil with a branch that
// returns a non-nil error, or it is itself returned later.
func (c *Ctx) errPropagated(fi *core.FuncInfo, eo types.Object, after ast.Node) bool {
	info := c.info(fi)
	ok := false
	ast.Inspect(fi.Decl.Body, func(n ast.Node) bool {
		switch x := n.(type) {
		case *ast.IfStmt:
			if x.Pos() < after.Pos() && !(x.Init != nil && x.Init == after) {
				return true
			}
			for _, cd := range core.SplitCond(x.Cond, false) {
				if e, nonNil, isNil := core.NilTest(info, cd); isNil && nonNil && core.ObjOf(info, e) == eo {
					// the then-branch must return an error that is not the literal nil
					ast.Inspect(x.Body, func(m ast.Node) bool {
						if r, isRet := m.(*ast.ReturnStmt); isRet && len(r.Results) > 0 {
							last := r.Results[len(r.Results)-1]
							if !core.IsNilExpr(info, last) {
								ok = true
							}
						}
						return true
					})
				}
			}
		case *ast.ReturnStmt:
			if x.Pos() > after.Pos() {
				for _, r := range x.Results {
					if core.ObjOf(info, r) == eo {
						ok = true
					}
					// wrapped: ErrX(err)
					if call, isCall := core.Unparen(r).(*ast.CallExpr); isCall {
						for _, a := range call.Args {
							if core.ObjOf(info, a) == eo {
								ok = true
							}
						}
					}
				}
			}
		}
		return true
	})
	return ok
}

func (c *Ctx) errUsedInReturn(fi *core.FuncInfo, eo types.Object, after ast.Node) bool {
	info := c.info(fi)
	used := false
	ast.Inspect(fi.Decl.Body, func(n ast.Node) bool {
		if id, ok := n.(*ast.Ident); ok && id.Pos() > after.End() && info.Uses[id] == eo {
			used = true
		}
		return true
	})
	return used
}

var _ = strings.Contains
