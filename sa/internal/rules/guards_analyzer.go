package rules

// guards (E9) for the analyzer's lookups: C15 (effective parameters) and C14
// (precedence rules, case-insensitive method lookup).

import (
	"fmt"
	"go/ast"
	"go/token"
	"go/types"
	"sort"
	"strings"

	"verif/sa/internal/core"
)

func init() {
	register(Rule{
		Name:  "GUARD-PARAMS",
		Props: []string{"C15"},
		Doc:   "the parameter merge stores only inline parameters or resolved $refs, reports errors through the callback, and merges path-level before operation-level",
		Run:   guardParams,
	})
	register(Rule{
		Name:  "GUARD-PRECEDENCE",
		Props: []string{"C14"},
		Doc:   "nil-vs-empty discipline of security/consumes/produces precedence; method lookups are upper-cased",
		Run:   guardPrecedence,
	})
}

// mergeFn finds the parameter merge function by role: a module function with
// a []spec.Parameter, a map[string]spec.Parameter and a func parameter.
func (c *Ctx) paramMergeFn() (*core.FuncInfo, int, int, int) {
	for _, fi := range c.P.SortedFuncs() {
		sig := fi.Obj.Type().(*types.Signature)
		li, mi, ci := -1, -1, -1
		for i := 0; i < sig.Params().Len(); i++ {
			t := sig.Params().At(i).Type()
			switch u := t.Underlying().(type) {
			case *types.Slice:
				if core.IsSpecType(u.Elem(), "Parameter") {
					li = i
				}
			case *types.Map:
				if core.IsSpecType(u.Elem(), "Parameter") {
					mi = i
				}
			case *types.Signature:
				ci = i
			}
		}
		if li >= 0 && mi >= 0 && ci >= 0 {
			return fi, li, mi, ci
		}
	}
	return nil, 0, 0, 0
}

func guardParams(c *Ctx) {
	fi, li, mi, ci := c.paramMergeFn()
	if fi == nil {
		c.S.Undecided("C15", "GUARD-PLACEHOLDER", "anchor", "-", "no function merging []spec.Parameter into map[string]spec.Parameter with an error callback found")
		return
	}
	info := c.info(fi)
	sig := fi.Obj.Type().(*types.Signature)
	mapObj, cbObj := sig.Params().At(mi), sig.Params().At(ci)
	_ = li
	ld := c.P.Locals(fi)
	// the callback and its local aliases
	cbSet := map[types.Object]bool{cbObj: true}
	for o, defs := range ld.Defs {
		for _, d := range defs {
			if d.Kind == core.DefAssign && core.ObjOf(info, d.Expr) == cbObj {
				cbSet[o] = true
			}
		}
	}
	stores := 0
	ast.Inspect(fi.Decl.Body, func(n ast.Node) bool {
		as, ok := n.(*ast.AssignStmt)
		if !ok || len(as.Lhs) != 1 || len(as.Rhs) != 1 {
			return true
		}
		ix, ok := core.Unparen(as.Lhs[0]).(*ast.IndexExpr)
		if !ok || core.ObjOf(info, ix.X) != mapObj {
			return true
		}
		stores++
		ok = c.resolvedParamValue(fi, as.Rhs[0], as, 0)
		c.S.Decide(ok, "C15", "GUARD-PLACEHOLDER", fi.QName()+"/store", c.P.Pos(as.Pos()),
			"stores either a parameter whose $ref is empty or the parameter obtained from the successful resolution of its $ref",
			"a parameter is stored into the result although nothing establishes that its $ref is empty (the parameter itself, or the object its $ref was resolved to — a shared parameter may again be a $ref): callers can receive an unresolved placeholder")
		return true
	})
	if stores < 1 {
		c.S.Undecided("C15", "GUARD-PLACEHOLDER", "floor", "-", "no store into the result map found in the parameter merge")
	}
	// error edges: every failure test of the resolution (an error, a failed assertion) hands the error to the
	// callback, whose answer selects "next parameter" (true) or "stop" (false), in either shape:
	//   if cb(…) { continue }; break|return        or        if !cb(…) { break|return }; continue
	edges := 0
	isStop := func(st ast.Stmt) bool {
		switch x := st.(type) {
		case *ast.BranchStmt:
			return x.Tok.String() == "break"
		case *ast.ReturnStmt:
			return true
		}
		return false
	}
	isContinue := func(st ast.Stmt) bool {
		b, ok := st.(*ast.BranchStmt)
		return ok && b.Tok.String() == "continue"
	}
	edgeIn := map[ast.Node]bool{} // if-statements calling the callback
	ast.Inspect(fi.Decl.Body, func(n ast.Node) bool {
		blk, ok := n.(*ast.BlockStmt)
		if !ok {
			return true
		}
		for i, st := range blk.List {
			ifs, ok := st.(*ast.IfStmt)
			if !ok {
				continue
			}
			cond := core.Unparen(ifs.Cond)
			neg := false
			if u, isNot := cond.(*ast.UnaryExpr); isNot && u.Op.String() == "!" {
				neg = true
				cond = core.Unparen(u.X)
			}
			call, ok := cond.(*ast.CallExpr)
			if !ok || !cbSet[core.ObjOf(info, call.Fun)] {
				continue
			}
			edges++
			edgeIn[ifs] = true
			okShape := false
			if len(ifs.Body.List) > 0 && ifs.Else == nil {
				last := ifs.Body.List[len(ifs.Body.List)-1]
				var next ast.Stmt
				if i+1 < len(blk.List) {
					next = blk.List[i+1]
				}
				if !neg {
					okShape = isContinue(last) && next != nil && isStop(next)
				} else {
					okShape = isStop(last) && (next == nil || isContinue(next))
				}
			}
			c.S.Decide(okShape, "C15", "GUARD-CALLBACK", fi.QName()+"/error-edge", c.P.Pos(ifs.Pos()),
				"the callback's answer selects continue (true) or stop (false)",
				"the error edge does not let the callback's result choose between skipping the parameter and stopping")
		}
		return true
	})
	// failure tests: `err != nil` on an error, `!ok` on the flag of a type assertion to spec.Parameter
	failures := 0
	ast.Inspect(fi.Decl.Body, func(n ast.Node) bool {
		ifs, ok := n.(*ast.IfStmt)
		if !ok {
			return true
		}
		kind := ""
		for _, cd := range core.SplitCond(ifs.Cond, false) {
			if x, nonNil, ok := core.NilTest(info, cd); ok && nonNil && core.IsErrorType(info.TypeOf(x)) {
				kind = "error"
			}
			if cd.Kind == core.CondBool && cd.Neg {
				if o := core.ObjOf(info, cd.Expr); o != nil {
					for _, d := range ld.Defs[o] {
						if d.Kind == core.DefMulti && d.Index == 1 {
							if ta, ok := core.Unparen(d.Expr).(*ast.TypeAssertExpr); ok && core.IsSpecType(info.TypeOf(ta.Type), "Parameter") {
								kind = "assertion"
							}
						}
					}
				}
			}
		}
		if kind == "" {
			return true
		}
		failures++
		has := false
		ast.Inspect(ifs.Body, func(m ast.Node) bool {
			if edgeIn[m] {
				has = true
			}
			return true
		})
		c.S.Decide(has, "C15", "GUARD-CALLBACK", fi.QName()+"/failure:"+kind, c.P.Pos(ifs.Pos()),
			"a failed resolution ("+kind+") is handed to the callback", "the branch taken when the $ref resolution fails ("+kind+") does not consult the error callback: the failure is neither reported nor turned into a panic")
		return true
	})
	// the inverted shape: `if err == nil { store; continue }` followed by the callback edge — the edge is reached
	// under the failure condition without sitting inside a failure test
	for nd := range edgeIn {
		for _, cd := range c.conds(fi, nd) {
			if x, nonNil, ok := core.NilTest(info, cd); ok && nonNil && core.IsErrorType(info.TypeOf(x)) {
				failures++
			}
		}
	}
	if edges < 1 || failures < 1 {
		c.S.Decide(false, "C15", "GUARD-CALLBACK", fi.QName()+"/error-edges", c.P.Pos(fi.Decl.Pos()), "",
			fmt.Sprintf("%d failure tests and %d callback edges found in the parameter merge (expected at least one of each)", failures, edges))
	}
	// nil callback = panic
	panics := false
	ast.Inspect(fi.Decl.Body, func(n ast.Node) bool {
		ifs, ok := n.(*ast.IfStmt)
		if !ok {
			return true
		}
		for _, cd := range core.SplitCond(ifs.Cond, false) {
			if x, nonNil, ok := core.NilTest(info, cd); ok && !nonNil && cbSet[core.ObjOf(info, x)] {
				ast.Inspect(ifs.Body, func(m ast.Node) bool {
					if call, ok := m.(*ast.CallExpr); ok && isBuiltin(info, call, "panic") {
						panics = true
					}
					// the default may be a declared function that panics: cb = panicOnError
					if id, ok := m.(*ast.Ident); ok {
						if fo, isFn := info.Uses[id].(*types.Func); isFn {
							if g := c.P.Funcs[fo.Origin()]; g != nil && g.Decl != nil && g.Decl.Body != nil && len(g.Decl.Body.List) > 0 {
								if es, isES := g.Decl.Body.List[0].(*ast.ExprStmt); isES {
									if pc, isCall := es.X.(*ast.CallExpr); isCall && isBuiltin(c.info(g), pc, "panic") {
										panics = true
									}
								}
							}
						}
					}
					return true
				})
			}
		}
		return true
	})
	c.S.Decide(panics, "C15", "GUARD-CALLBACK", fi.QName()+"/nil-callback-panics", c.P.Pos(fi.Decl.Pos()),
		"a nil callback is replaced by one that panics (plain variants)", "a nil error callback is not turned into a panic: the plain variants would return silently")

	// no lookup hands out a parameter list of the document itself: what is returned is built from the merge map
	// (a list of the document still holds the $ref placeholders, and skips the callback)
	c.noRawParamLists(fi)
	// override order in every caller: path-item parameters merged before operation parameters, into the same map
	callers := 0
	for _, cf := range c.P.SortedFuncs() {
		cinfo := c.info(cf)
		type mcall struct {
			call  *ast.CallExpr
			owner string
		}
		var seq []mcall
		for _, call := range calls(cf.Decl.Body) {
			if callee := c.P.StaticCallee(cf, call); callee == nil || callee != fi.Obj {
				continue
			}
			if li >= len(call.Args) {
				continue
			}
			owner := c.listOwner(cf, call.Args[li], 0)
			seq = append(seq, mcall{call, owner})
		}
		if len(seq) == 0 {
			continue
		}
		callers++
		ok := len(seq) == 2 && strings.HasSuffix(seq[0].owner, ".PathItemProps") && strings.HasSuffix(seq[1].owner, ".OperationProps") &&
			seq[0].call.Pos() < seq[1].call.Pos() && core.ObjOf(cinfo, seq[0].call.Args[mi]) != nil &&
			core.ObjOf(cinfo, seq[0].call.Args[mi]) == core.ObjOf(cinfo, seq[1].call.Args[mi])
		var desc []string
		for _, s := range seq {
			desc = append(desc, s.owner[strings.LastIndex(s.owner, ".")+1:])
		}
		c.S.Decide(ok, "C15", "GUARD-OVERRIDE-ORDER", cf.QName(), c.P.Pos(seq[0].call.Pos()),
			"path-item parameters are merged first, operation parameters second, into the same map (the operation's override)",
			"parameters are merged in the order ["+strings.Join(desc, ", ")+"] (expected [PathItemProps, OperationProps] into one map): path-level parameters would override the operation's")
	}
	if callers < 2 {
		c.S.Undecided("C15", "GUARD-OVERRIDE-ORDER", "floor", "-", fmt.Sprintf("%d lookups call the parameter merge (expected 2)", callers))
	}
}

func guardPrecedence(c *Ctx) {
	// Case analysis by abstract evaluation: each precedence function is evaluated once per combination of
	// (operation-level list: nil | empty | non-empty) × (document-level list: nil | empty | non-empty); the
	// document lists it actually iterates must be those the statement prescribes. Robust to helpers, aliases
	// and branch shapes; nothing is executed.
	_, opS := c.P.SpecStruct("Operation")
	opN, _ := c.P.SpecStruct("Operation")
	swN, _ := c.P.SpecStruct("Swagger")
	_ = opS
	if opN == nil || swN == nil {
		c.S.Undecided("C14", "GUARD-PRECEDENCE", "model", "-", "spec.Operation / spec.Swagger not found")
		return
	}
	type spec struct {
		fn, field    string
		nilOverrides bool // true: a non-nil (even empty) operation list overrides (security); false: only a non-empty one (media types)
	}
	for _, sp := range []spec{{"ConsumesFor", "Consumes", false}, {"ProducesFor", "Produces", false}, {"SecurityRequirementsFor", "Security", true}} {
		fi := c.root("Spec." + sp.fn)
		if fi == nil {
			c.S.Undecided("C14", "GUARD-PRECEDENCE", sp.fn, "-", "exported query Spec."+sp.fn+" not found")
			continue
		}
		var bad []string
		cases := 0
		for _, opSt := range []string{"nil", "empty", "nonempty"} {
			for _, docSt := range []string{"nil", "empty", "nonempty"} {
				in := &interp{c: c, assume: map[string]string{".$op." + sp.field: opSt, "." + sp.field: docSt}}
				recv := &aval{k: avStruct, fields: map[string]*aval{}}
				// the receiver's document field
				if st, ok := fi.Obj.Type().(*types.Signature).Recv().Type().(*types.Pointer).Elem().Underlying().(*types.Struct); ok {
					for i := 0; i < st.NumFields(); i++ {
						if core.IsSpecType(st.Field(i).Type(), "Swagger") {
							recv.fields[st.Field(i).Name()] = &aval{k: avDoc, typ: types.NewPointer(swN)}
						}
					}
				}
				op := &aval{k: avDoc, doc: []pstep{{name: "$op", typ: types.NewPointer(opN)}}, typ: types.NewPointer(opN)}
				in.call(fi, recv, []*aval{op})
				cases++
				usesOp, usesDoc := false, false
				for _, r := range in.ranged {
					if r == ".$op."+sp.field {
						usesOp = true
					}
					if r == "."+sp.field {
						usesDoc = true
					}
				}
				opWins := opSt == "nonempty" || sp.nilOverrides && opSt == "empty"
				wantOp := opSt == "nonempty"
				wantDoc := !opWins && docSt == "nonempty"
				if usesOp != wantOp || usesDoc != wantDoc {
					bad = append(bad, fmt.Sprintf("operation %s / document %s: reads operation list=%v document list=%v (expected %v / %v)", opSt, docSt, usesOp, usesDoc, wantOp, wantDoc))
				}
			}
		}
		sort.Strings(bad)
		if len(bad) > 3 {
			bad = append(bad[:3], "…")
		}
		what := "the operation's list is used when non-empty, the document's otherwise"
		if sp.nilOverrides {
			what = "the operation's requirements are used when declared (non-nil, even empty), the document's otherwise"
		}
		c.S.Decide(len(bad) == 0, "C14", "GUARD-PRECEDENCE", "Spec."+sp.fn, c.P.Pos(fi.Decl.Pos()),
			fmt.Sprintf("%s — all %d cases of (nil|empty|non-empty)² evaluated", what, cases), strings.Join(bad, "; "))
	}
	// upper-case discipline of lookups into the operations index
	opsField, _ := getterField(c, "Operations")
	if opsField == nil {
		c.S.Undecided("C14", "ENC-CASE", "anchor", "-", "cannot identify the operations index (Spec.Operations)")
		return
	}
	look := 0
	for _, fi := range c.P.SortedFuncs() {
		if fi.Pkg.PkgPath != core.ModPath {
			continue
		}
		info := c.info(fi)
		ast.Inspect(fi.Decl.Body, func(nd ast.Node) bool {
			ix, ok := nd.(*ast.IndexExpr)
			if !ok {
				return true
			}
			sel, ok := core.Unparen(ix.X).(*ast.SelectorExpr)
			if !ok || core.FieldOf(info, sel) != opsField {
				return true
			}
			// the index expression: a parameter-derived string must be upper-cased; loop keys and the builder's own parameter are fine
			o := core.ObjOf(info, ix.Index)
			viaHelper := false
			if o != nil {
				if !c.P.Locals(fi).Params[o] {
					// a local that holds the normalised method (m := strings.ToUpper(method)) is a lookup by a
					// parameter too; range keys and other locals are not
					if !c.derivedFromParam(fi, ix.Index, 0) {
						return true
					}
				} else if !fi.Obj.Exported() {
					// an unexported helper keyed by its own parameter: a lookup helper when an exported query of the
					// analyzer hands it a value derived from its own parameter; the internal builder otherwise (its
					// constants are checked by ENC-CASE/const)
					if !c.helperFedByQuery(fi, o) {
						return true
					}
					viaHelper = true
				}
			}
			look++
			okc := c.upperCased(fi, ix.Index, 0)
			_ = viaHelper
			c.S.Decide(okc, "C14", "ENC-CASE", fi.QName()+"/lookup", c.P.Pos(ix.Pos()),
				"the method is normalised with strings.ToUpper before the lookup",
				"the operations index is looked up with "+exprStr(ix.Index)+" which is not upper-cased: lookups by lower-case method miss")
			return true
		})
	}
	if look < 1 {
		c.S.Undecided("C14", "ENC-CASE", "floor", "-", "no lookup into the operations index by a method parameter found")
	}
}

func init() {
	register(Rule{
		Name:  "GUARD-LISTING",
		Props: []string{"C14"},
		Doc:   "the id / 'METHOD path' listings and the lookup by id are read off the operations index with the loop's own method and path",
		Run:   guardListing,
	})
}

// guardListing: in every exported *Spec method that ranges over the operations index with nested loops,
// a formatted "METHOD path" string is built from (outer key, inner key) in that order, an id is taken from
// the inner value, and a tuple returned from inside the loops is (outer key, inner key, inner value, …).
func guardListing(c *Ctx) {
	opsField, _ := getterField(c, "Operations")
	if opsField == nil {
		c.S.Undecided("C14", "GUARD-LISTING", "anchor", "-", "cannot identify the operations index")
		return
	}
	n := 0
	// the exported queries and the unexported helpers they share
	listing := core.SortedSet(c.P.Reachable(specQueryMethods(c)...))
	for _, fi := range listing {
		if !strings.HasPrefix(fi.Name(), "Spec.") {
			continue
		}
		info := c.info(fi)
		ast.Inspect(fi.Decl.Body, func(nd ast.Node) bool {
			outer, ok := nd.(*ast.RangeStmt)
			if !ok {
				return true
			}
			sel, ok := core.Unparen(outer.X).(*ast.SelectorExpr)
			if !ok || core.FieldOf(info, sel) != opsField || outer.Key == nil || outer.Value == nil {
				return true
			}
			mKey, mVal := core.ObjOf(info, outer.Key), core.ObjOf(info, outer.Value)
			ast.Inspect(outer.Body, func(m ast.Node) bool {
				inner, ok := m.(*ast.RangeStmt)
				if !ok || core.ObjOf(info, inner.X) != mVal || inner.Key == nil {
					return true
				}
				pKey := core.ObjOf(info, inner.Key)
				var opVal types.Object
				if inner.Value != nil {
					opVal = core.ObjOf(info, inner.Value)
				}
				n++
				var bad []string
				ast.Inspect(inner.Body, func(x ast.Node) bool {
					switch v := x.(type) {
					case *ast.CallExpr:
						callee := c.P.CalleeAny(fi, v)
						// a naming callback handed to a shared helper: it receives the entry's own (method, path, operation)
						if callee == nil {
							if o := core.ObjOf(info, v.Fun); o != nil && c.P.Locals(fi).Params[o] && len(v.Args) >= 2 {
								if core.ObjOf(info, v.Args[0]) != mKey || core.ObjOf(info, v.Args[1]) != pKey || len(v.Args) >= 3 && opVal != nil && core.ObjOf(info, v.Args[2]) != opVal {
									bad = append(bad, "the naming callback receives ("+exprStr(v.Args[0])+", "+exprStr(v.Args[1])+", …) instead of (method, path, operation) of the same index entry")
								}
							}
							return true
						}
						if callee.FullName() != "fmt.Sprintf" || len(v.Args) != 3 {
							return true
						}
						if f, isC := core.ConstString(info, v.Args[0]); !isC || f != "%s %s" {
							bad = append(bad, "listing format is "+exprStr(v.Args[0])+" (expected \"%s %s\")")
						}
						first := core.Unparen(v.Args[1])
						// the upper-cased method may be kept in a local of the outer loop: upper := strings.ToUpper(method)
						if fo := core.ObjOf(info, first); fo != nil && fo != mKey {
							if defs := c.P.Locals(fi).Defs[fo]; len(defs) == 1 && defs[0].Kind == core.DefAssign && defs[0].Pos > outer.Pos() && defs[0].Pos < v.Pos() {
								first = core.Unparen(defs[0].Expr)
							}
						}
						if call, ok := first.(*ast.CallExpr); ok && len(call.Args) == 1 {
							first = core.Unparen(call.Args[0])
						}
						if core.ObjOf(info, first) != mKey || core.ObjOf(info, v.Args[2]) != pKey {
							bad = append(bad, "listing entry is built from ("+exprStr(v.Args[1])+", "+exprStr(v.Args[2])+") instead of (method, path) of the same index entry")
						}
					case *ast.ReturnStmt:
						if len(v.Results) >= 3 && opVal != nil {
							if core.ObjOf(info, v.Results[0]) != mKey || core.ObjOf(info, v.Results[1]) != pKey || core.ObjOf(info, v.Results[2]) != opVal {
								bad = append(bad, "lookup returns ("+exprStr(v.Results[0])+", "+exprStr(v.Results[1])+", "+exprStr(v.Results[2])+") instead of the entry's own (method, path, operation)")
							}
							// guarded by equality of the requested id with the operation's id
							okc := false
							for _, cd := range c.conds(fi, v) {
								if cd.Kind != core.CondBool {
									continue
								}
								if be, ok := core.Unparen(cd.Expr).(*ast.BinaryExpr); ok && (!cd.Neg && be.Op.String() == "==" || cd.Neg && be.Op.String() == "!=") {
									s := exprStr(be.X) + "|" + exprStr(be.Y)
									if strings.Contains(s, opVal.Name()+".ID") {
										okc = true
									}
								}
							}
							if !okc {
								bad = append(bad, "lookup by id returns without comparing the requested id with the operation's id")
							}
						}
					}
					return true
				})
				c.S.Decide(len(bad) == 0, "C14", "GUARD-LISTING", fi.QName(), c.P.Pos(inner.Pos()),
					"entries are read off the operations index with the loop's own method, path and operation",
					strings.Join(bad, "; "))
				return true
			})
			return true
		})
	}
	if n < 1 {
		c.S.Undecided("C14", "GUARD-LISTING", "floor", "-", "no nested loop over the operations index found below the exported queries (3 on the pinned tree)")
	}
	c.S.Note("GUARD-LISTING: %d nested loops over the operations index (3 on the pinned tree; fewer when listings share a helper)", n)
	// ENC-FORMAT: what the queries format comes from the document (paths, methods, ids): it is an operand of the
	// formatting call, never (part of) its format string — a '%' in a path would be read as a verb.
	for _, fi := range specQueryMethods(c) {
		info := c.info(fi)
		k := 0
		for _, call := range calls(fi.Decl.Body) {
			callee := c.P.CalleeAny(fi, call)
			if callee == nil || callee.Pkg() == nil || (callee.Pkg().Path() != "fmt" && callee.Pkg().Path() != "log") || !strings.HasSuffix(callee.Name(), "f") {
				continue
			}
			sig, _ := callee.Type().(*types.Signature)
			if sig == nil || !sig.Variadic() || sig.Params().Len() < 2 {
				continue
			}
			fidx := sig.Params().Len() - 2 // the parameter before the variadic operands
			if fidx >= len(call.Args) || !core.IsString(sig.Params().At(fidx).Type()) {
				continue
			}
			k++
			tv, isC := info.Types[call.Args[fidx]]
			c.S.Decide(isC && tv.Value != nil, "C14", "ENC-FORMAT", fmt.Sprintf("%s/%s#%d", fi.QName(), callee.Name(), k), c.P.Pos(call.Pos()),
				"the format string is a constant; document strings are operands",
				"the format string "+exprStr(call.Args[fidx])+" is not a constant: a path, method or id containing '%' is interpreted as formatting verbs and the listed string no longer agrees with the document")
		}
	}
}

func init() {
	register(Rule{
		Name:  "GUARD-LOOKUPFLAG",
		Props: []string{"C14", "C15"},
		Doc:   "a (value, found) pair returned by a query comes from one and the same comma-ok lookup",
		Run:   guardLookupFlag,
	})
}

// guardLookupFlag: in exported *Spec methods returning (…pointer…, bool), a returned pointer that comes from a
// map lookup must be returned with that lookup's own comma-ok flag (not with the flag of another lookup, and not
// from a lookup taken without comma-ok).
func guardLookupFlag(c *Ctx) {
	n := 0
	// the exported queries and the unexported helpers they delegate the lookup to
	for _, fi := range core.SortedSet(c.P.Reachable(specQueryMethods(c)...)) {
		if fi.Pkg.PkgPath != core.ModPath {
			continue
		}
		sig := fi.Obj.Type().(*types.Signature)
		k := sig.Results().Len()
		if k < 2 || !core.IsBool(sig.Results().At(k-1).Type()) {
			continue
		}
		info := c.info(fi)
		ld := c.P.Locals(fi)
		ast.Inspect(fi.Decl.Body, func(nd ast.Node) bool {
			if _, isLit := nd.(*ast.FuncLit); isLit {
				return false
			}
			r, ok := nd.(*ast.ReturnStmt)
			if !ok || len(r.Results) != k {
				return true
			}
			flag := core.Unparen(r.Results[k-1])
			if tv, isC := info.Types[flag]; isC && tv.Value != nil {
				return true // literal true/false: decided by the surrounding loop/condition
			}
			for i := 0; i < k-1; i++ {
				v := core.Unparen(r.Results[i])
				if !core.IsPointer(info.TypeOf(v)) {
					continue
				}
				n++
				okPair := true
				why := ""
				switch x := v.(type) {
				case *ast.IndexExpr:
					if core.IsMap(info.TypeOf(x.X)) {
						okPair = false
						why = "the value is a map lookup taken without comma-ok (" + exprStr(x) + ") but the flag " + exprStr(flag) + " comes from elsewhere: a missing entry is reported as found with a nil value"
					}
				case *ast.Ident:
					vo := core.ObjOf(info, x)
					for _, d := range ld.Defs[vo] {
						if d.Kind == core.DefMulti && d.Index == 0 {
							if _, isIx := core.Unparen(d.Expr).(*ast.IndexExpr); isIx {
								// the flag must be result 1 of the same statement
								fo := core.ObjOf(info, flag)
								same := false
								for _, fd := range ld.Defs[fo] {
									if fd.Kind == core.DefMulti && fd.Index == 1 && fd.Node == d.Node {
										same = true
									}
								}
								if !same {
									okPair = false
									why = "the value comes from the lookup " + exprStr(d.Expr) + " but the returned flag " + exprStr(flag) + " is not that lookup's comma-ok result"
								}
							}
						}
						if d.Kind == core.DefAssign {
							if ix, isIx := core.Unparen(d.Expr).(*ast.IndexExpr); isIx && core.IsMap(info.TypeOf(ix.X)) {
								okPair = false
								why = "the value is a map lookup taken without comma-ok (" + exprStr(ix) + ")"
							}
						}
					}
				}
				prop := "C14"
				if strings.Contains(fi.Obj.Name(), "Param") {
					prop = "C15"
				}
				for _, p := range []string{prop, "C15"} {
					if p == "C15" && prop == "C15" && p != prop {
						continue
					}
					c.S.Decide(okPair, p, "GUARD-LOOKUPFLAG", fi.QName(), c.P.Pos(r.Pos()),
						"the returned value and its found-flag come from the same comma-ok lookup", why)
					if prop == "C15" {
						break
					}
				}
			}
			return true
		})
	}
	if n < 1 {
		c.S.Undecided("C14", "GUARD-LOOKUPFLAG", "floor", "-", "no (pointer, bool) query returning a looked-up value found (expected OperationFor)")
	}
}

// listOwner: the struct owning the field a []spec.Parameter argument is read from ("…PathItemProps",
// "…OperationProps"); a parameter of the enclosing function is followed to the arguments of its callers, which
// must agree.
func (c *Ctx) listOwner(fi *core.FuncInfo, e ast.Expr, depth int) string {
	if depth > 3 {
		return "?"
	}
	info := c.info(fi)
	e = core.Unparen(e)
	if sel, ok := e.(*ast.SelectorExpr); ok {
		if fv := core.FieldOf(info, sel); fv != nil {
			return core.OwnerStruct(c.P, fv)
		}
	}
	if o := core.ObjOf(info, e); o != nil {
		if idx, isParam := c.paramIndexOf(fi, o); isParam {
			owner := ""
			for _, caller := range c.P.SortedFuncs() {
				for _, call := range calls(caller.Decl.Body) {
					if c.P.StaticCallee(caller, call) != fi.Obj || idx >= len(call.Args) {
						continue
					}
					w := c.listOwner(caller, call.Args[idx], depth+1)
					if owner != "" && owner != w {
						return "?"
					}
					owner = w
				}
			}
			if owner != "" {
				return owner
			}
			return "?"
		}
	}
	if p := c.P.PathOf(fi, e, true); p != nil {
		for i := len(p.Steps) - 1; i >= 0; i-- {
			if p.Steps[i].Field != nil {
				return core.OwnerStruct(c.P, p.Steps[i].Field)
			}
		}
	}
	return "?"
}

// sameParamValue: the two locals hold the same parameter value (one is a plain copy of the other).
func (c *Ctx) sameParamValue(fi *core.FuncInfo, a, b types.Object) bool {
	if a == nil || b == nil {
		return false
	}
	if a == b {
		return true
	}
	info := c.info(fi)
	ld := c.P.Locals(fi)
	copyOf := func(x, y types.Object) bool {
		for _, d := range ld.Defs[x] {
			switch d.Kind {
			case core.DefAssign:
				if core.ObjOf(info, d.Expr) == y {
					return true
				}
				// element of a ranged/indexed list held in y's source: x := list[i] and y ranged over list
			}
		}
		return false
	}
	return copyOf(a, b) || copyOf(b, a)
}

// resolvedParamValue: the expression (at the given statement) is a parameter that is not a placeholder:
//   - its $ref is known to be empty by a dominating test, or
//   - it is the object obtained by asserting the resolved pointer to spec.Parameter, under the assertion's ok flag
//     and after the error test, or
//   - it is the first result of a helper called under `err == nil`, all of whose nil-error returns return such a value.
func (c *Ctx) resolvedParamValue(fi *core.FuncInfo, v ast.Expr, at ast.Node, depth int) bool {
	if depth > 3 {
		return false
	}
	info := c.info(fi)
	ld := c.P.Locals(fi)
	vo := core.ObjOf(info, v)
	if vo == nil {
		return false
	}
	conds := c.conds(fi, at)
	resolveLocal := func(x ast.Expr) ast.Expr {
		for i := 0; i < 3; i++ {
			o := core.ObjOf(info, x)
			if o == nil {
				break
			}
			defs := ld.Defs[o]
			if len(defs) != 1 || defs[0].Kind != core.DefAssign {
				break
			}
			x = core.Unparen(defs[0].Expr)
		}
		return x
	}
	var assertOK, noErr bool
	var okOf, errOf ast.Expr // the expressions whose success the flags witness
	for _, cd := range conds {
		if x, empty, ok := core.EmptyTest(info, cd); ok && empty {
			rx := resolveLocal(x)
			isRef := false
			ast.Inspect(rx, func(n ast.Node) bool {
				if sel, ok := n.(*ast.SelectorExpr); ok && sel.Sel.Name == "Ref" && core.IsSpecType(info.TypeOf(sel), "Ref") {
					if id := rootIdent(sel.X); id != nil && c.sameParamValue(fi, core.ObjOf(info, id), vo) {
						isRef = true
					}
				}
				return true
			})
			if isRef {
				return true
			}
		}
		if cd.Kind == core.CondBool {
			if o := core.ObjOf(info, cd.Expr); o != nil && !cd.Neg {
				for _, d := range ld.Defs[o] {
					if d.Kind == core.DefMulti && d.Index == 1 {
						if ta, ok := core.Unparen(d.Expr).(*ast.TypeAssertExpr); ok && core.IsSpecType(info.TypeOf(ta.Type), "Parameter") {
							assertOK = true
							okOf = d.Expr
						}
					}
				}
			}
			if x, nonNil, ok := core.NilTest(info, cd); ok && !nonNil && core.IsErrorType(info.TypeOf(x)) {
				noErr = true
				if eo := core.ObjOf(info, x); eo != nil {
					for _, d := range ld.Defs[eo] {
						if d.Kind == core.DefMulti && d.Pos < at.Pos() {
							errOf = d.Expr
						}
					}
				}
			}
		}
	}
	// a join just before the statement: `if <v's $ref is not empty> { …; v = <resolved> }` followed by the use —
	// the value is the ref-free one when the branch is skipped and the resolved one when it is taken
	if blk, isBlk := c.parents(fi)[at].(*ast.BlockStmt); isBlk {
		for i, st := range blk.List {
			if st != at || i == 0 {
				continue
			}
			ifs, isIf := blk.List[i-1].(*ast.IfStmt)
			if !isIf || ifs.Else != nil || ifs.Init != nil {
				break
			}
			// skipped branch: the negated condition says that the $ref of the value is empty
			skippedOK := false
			for _, cd := range core.SplitCond(ifs.Cond, true) {
				if x, empty, ok := core.EmptyTest(info, cd); ok && empty {
					ast.Inspect(resolveLocal(x), func(n ast.Node) bool {
						if sel, ok := n.(*ast.SelectorExpr); ok && sel.Sel.Name == "Ref" && core.IsSpecType(info.TypeOf(sel), "Ref") {
							if id := rootIdent(sel.X); id != nil && c.sameParamValue(fi, core.ObjOf(info, id), vo) {
								skippedOK = true
							}
						}
						return true
					})
				}
			}
			// taken branch: every top-level assignment to the value stores a resolved one
			takenOK, assigns := true, 0
			for _, bs := range ifs.Body.List {
				as, isAs := bs.(*ast.AssignStmt)
				if !isAs || len(as.Lhs) != 1 || len(as.Rhs) != 1 || core.ObjOf(info, as.Lhs[0]) != vo {
					continue
				}
				assigns++
				if !c.resolvedParamValue(fi, as.Rhs[0], as, depth+1) {
					takenOK = false
				}
			}
			if skippedOK && takenOK && assigns > 0 {
				return true
			}
		}
	}
	// the value's reaching definitions (the last one before the statement, through one plain copy)
	lastDef := func(o types.Object) *core.Def {
		var best *core.Def
		for i, d := range ld.Defs[o] {
			if d.Pos <= at.Pos() && (best == nil || d.Pos > best.Pos) {
				best = &ld.Defs[o][i]
			}
		}
		return best
	}
	d := lastDef(vo)
	if d == nil {
		return false
	}
	if d.Kind == core.DefAssign {
		if ro := core.ObjOf(info, d.Expr); ro != nil {
			if rd := lastDef(ro); rd != nil {
				d = rd
			}
		}
	}
	if d.Kind != core.DefMulti || d.Index != 0 {
		return false
	}
	switch x := core.Unparen(d.Expr).(type) {
	case *ast.TypeAssertExpr:
		// the object the $ref designates is a parameter — which may itself be a $ref (a shared parameter that refers to
		// another one): it is a resolved value only when its own $ref has been tested empty, and that case returned
		// above. (Defect F28: such a parameter was handed out as a nameless placeholder.)
		_ = assertOK && noErr && okOf == d.Expr && core.IsSpecType(info.TypeOf(x.Type), "Parameter")
		return false
	case *ast.CallExpr:
		if !noErr || errOf != d.Expr {
			return false
		}
		callee := c.P.StaticCallee(fi, x)
		g := c.P.Funcs[callee]
		if callee == nil || g == nil || g.Decl == nil || g.Decl.Body == nil {
			return false
		}
		all, n := true, 0
		ast.Inspect(g.Decl.Body, func(m ast.Node) bool {
			if _, isLit := m.(*ast.FuncLit); isLit {
				return false
			}
			ret, ok := m.(*ast.ReturnStmt)
			if !ok {
				return true
			}
			if len(ret.Results) != 2 {
				all = false
				return true
			}
			if !core.IsNilExpr(c.info(g), ret.Results[1]) {
				return true // error return: the caller's error edge handles it
			}
			n++
			if !c.resolvedParamValue(g, ret.Results[0], ret, depth+1) {
				all = false
			}
			return true
		})
		return all && n > 0
	}
	return false
}

func init() {
	register(Rule{
		Name:  "GUARD-DUPSKIP",
		Props: []string{"C14"},
		Doc:   "in a loop collecting entries into the map it returns, the branch taken for a key already collected skips that element (continue) and does not leave the loop",
		Run:   guardDupSkip,
	})
}

// guardDupSkip: `if _, seen := result[k]; seen { … }` inside a loop that stores into result, result being returned:
// the body must end the iteration (continue, or simply nothing more to do), never the loop (break, return, goto):
// the elements after a duplicate would be dropped from the answer.
func guardDupSkip(c *Ctx) {
	n := 0
	for _, fi := range specQueryMethods(c) {
		info := c.info(fi)
		pm := c.parents(fi)
		ord := 0
		ast.Inspect(fi.Decl.Body, func(nd ast.Node) bool {
			ifs, ok := nd.(*ast.IfStmt)
			if !ok {
				return true
			}
			// the membership test
			var m ast.Expr
			for _, cd := range core.SplitCond(ifs.Cond, false) {
				if cd.Kind != core.CondBool || cd.Neg {
					continue
				}
				// the flag itself, or one operand of a disjunction (name == "" || seen)
				var visit func(e ast.Expr)
				visit = func(e ast.Expr) {
					e = core.Unparen(e)
					if be, ok := e.(*ast.BinaryExpr); ok && be.Op == token.LOR {
						visit(be.X)
						visit(be.Y)
						return
					}
					if mm, _, isLookup := c.commaOkLookup(fi, e); isLookup {
						m = mm
					}
				}
				visit(cd.Expr)
			}
			mo := core.ObjOf(info, m)
			if m == nil || mo == nil || !c.flowsToReturn(fi, m) {
				return true
			}
			// the enclosing loop stores into the same map
			loop := pm.Enclosing(ifs, func(n ast.Node) bool {
				switch n.(type) {
				case *ast.RangeStmt, *ast.ForStmt:
					return true
				}
				return false
			})
			if loop == nil {
				return true
			}
			stores := false
			ast.Inspect(loop, func(k ast.Node) bool {
				if as, ok := k.(*ast.AssignStmt); ok {
					for _, l := range as.Lhs {
						if ix, ok := core.Unparen(l).(*ast.IndexExpr); ok && core.ObjOf(info, ix.X) == mo {
							stores = true
						}
					}
				}
				return true
			})
			if !stores {
				return true
			}
			n++
			ord++
			leaves := ""
			ast.Inspect(ifs.Body, func(k ast.Node) bool {
				switch x := k.(type) {
				case *ast.FuncLit, *ast.RangeStmt, *ast.ForStmt, *ast.SwitchStmt, *ast.SelectStmt:
					return false
				case *ast.BranchStmt:
					if x.Tok == token.BREAK || x.Tok == token.GOTO {
						leaves = x.Tok.String()
					}
				case *ast.ReturnStmt:
					leaves = "return"
				}
				return true
			})
			k := fi.QName() + "/seen"
			if ord > 1 {
				k = fmt.Sprintf("%s#%d", k, ord)
			}
			c.S.Decide(leaves == "", "C14", "GUARD-DUPSKIP", k, c.P.Pos(ifs.Pos()),
				"a key already collected only ends the current iteration",
				"the branch taken when the key is already in the result leaves the loop ("+leaves+"): the elements that follow a duplicate are missing from the answer")
			return true
		})
	}
	if n < 1 {
		c.S.Note("GUARD-DUPSKIP: no duplicate-skipping collecting loop in the query methods (one on the pinned tree: SecurityDefinitionsFor); the rule is vacuous for other ways of writing the loop")
	}
}

// noRawParamLists (C15, GUARD-PLACEHOLDER/returns): in every function (and function literal) that can reach the
// parameter merge and returns []spec.Parameter, no return statement returns a list read from the document (a path
// through spec-model fields rooted at a parameter, the receiver or a loop variable over the document).
func (c *Ctx) noRawParamLists(merge *core.FuncInfo) {
	n := 0
	for _, fi := range c.P.SortedFuncs() {
		if fi.Pkg.PkgPath != core.ModPath || !c.P.Reachable(fi)[merge] {
			continue
		}
		info := c.info(fi)
		ord := 0
		var visit func(body *ast.BlockStmt, ft *ast.FuncType)
		visit = func(body *ast.BlockStmt, ft *ast.FuncType) {
			returnsList := false
			if ft.Results != nil && len(ft.Results.List) >= 1 {
				if t := info.TypeOf(ft.Results.List[0].Type); t != nil {
					if sl, ok := t.Underlying().(*types.Slice); ok && core.IsSpecType(sl.Elem(), "Parameter") {
						returnsList = true
					}
				}
			}
			ast.Inspect(body, func(nd ast.Node) bool {
				switch x := nd.(type) {
				case *ast.FuncLit:
					visit(x.Body, x.Type)
					return false
				case *ast.ReturnStmt:
					if !returnsList || len(x.Results) < 1 {
						return true
					}
					n++
					e := core.Unparen(x.Results[0])
					raw := false
					if p := c.P.PathOf(fi, e, true); p != nil && len(p.Steps) > 0 {
						last := p.Steps[len(p.Steps)-1]
						if last.Field != nil && isSpecField(last.Field) && core.IsSlice(last.Field.Type()) {
							raw = true
						}
					}
					ord++
					k := fi.QName() + "/returns"
					if ord > 1 {
						k = fmt.Sprintf("%s#%d", k, ord)
					}
					c.S.Decide(!raw, "C15", "GUARD-PLACEHOLDER", k, c.P.Pos(x.Pos()),
						"the list returned is built from the merged map",
						"the lookup returns "+exprStr(e)+", a parameter list of the document itself: its $ref entries are still unresolved placeholders, dangling ones are neither reported to the callback nor turned into a panic")
				}
				return true
			})
		}
		visit(fi.Decl.Body, fi.Decl.Type)
	}
	if n < 2 {
		c.S.Note("GUARD-PLACEHOLDER/returns: fewer than two list-returning exits found above the parameter merge")
	}
}

func init() {
	register(Rule{
		Name:  "GUARD-OPFOUND",
		Props: []string{"C15"},
		Doc:   "parameters are merged into the result of a lookup only once the operation asked for is known to exist",
		Run:   guardOpFound,
	})
}

// guardOpFound (C15): "asking for a method, path or operation id that designates no operation yields an empty
// result". Every call of the merge function in a lookup therefore happens under a fact that establishes the
// operation: the flag of a (*spec.Operation, bool) lookup, a non-nil test of an operation, or the match of an
// operation's id. For a merge inside a local closure the fact is looked for at every call of the closure.
func guardOpFound(c *Ctx) {
	merge, _, _, _ := c.paramMergeFn()
	if merge == nil {
		c.S.Undecided("C15", "GUARD-OPFOUND", "anchor", "-", "no parameter merge function found")
		return
	}
	isOpIn := func(info *types.Info, e ast.Expr) bool {
		t := info.TypeOf(e)
		return t != nil && core.IsPointer(t) && core.IsSpecType(t, "Operation")
	}
	opFact := func(fi *core.FuncInfo, at ast.Node) bool {
		info := c.info(fi)
		for _, cd := range c.conds(fi, at) {
			if cd.Kind != core.CondBool {
				continue
			}
			e := core.Unparen(cd.Expr)
			// the flag of a (operation, found) pair
			if o := core.ObjOf(info, e); o != nil && !cd.Neg {
				for _, d := range c.P.Locals(fi).Defs[o] {
					if d.Kind != core.DefMulti || d.Index < 1 {
						continue
					}
					// (operation, …, found) := lookup(…): the flag of a tuple whose first member is the operation
					if call, ok := core.Unparen(d.Expr).(*ast.CallExpr); ok {
						if tup, isTup := info.TypeOf(call).(*types.Tuple); isTup && d.Index < tup.Len() && core.IsBool(tup.At(d.Index).Type()) && core.IsPointer(tup.At(0).Type()) && core.IsSpecType(tup.At(0).Type(), "Operation") {
							return true
						}
					}
					if d.Index != 1 {
						continue
					}
					// op, ok := index[method][path]
					if ix, ok := core.Unparen(d.Expr).(*ast.IndexExpr); ok && isOpIn(info, ix) {
						return true
					}
				}
			}
			if x, nonNil, ok := core.NilTest(info, cd); ok && nonNil && isOpIn(info, x) {
				return true
			}
			// <operation>.ID == <requested id>
			if be, ok := e.(*ast.BinaryExpr); ok && (be.Op == token.EQL && !cd.Neg || be.Op == token.NEQ && cd.Neg) {
				for _, side := range []ast.Expr{be.X, be.Y} {
					if sel, isSel := core.Unparen(side).(*ast.SelectorExpr); isSel && sel.Sel.Name == "ID" && isOpIn(info, sel.X) {
						return true
					}
				}
			}
		}
		return false
	}
	// established: the fact holds at the node, or — for a local closure or an unexported helper — at every place
	// the closure / helper is called from
	var established func(fi *core.FuncInfo, at ast.Node, depth int) (bool, string)
	established = func(fi *core.FuncInfo, at ast.Node, depth int) (bool, string) {
		if opFact(fi, at) {
			return true, ""
		}
		if depth > 3 {
			return false, ""
		}
		info := c.info(fi)
		pm := c.parents(fi)
		if lit, _ := pm.Enclosing(at, func(nd ast.Node) bool { _, l := nd.(*ast.FuncLit); return l }).(*ast.FuncLit); lit != nil {
			var litObj types.Object
			if as, isAs := pm[lit].(*ast.AssignStmt); isAs && len(as.Lhs) == 1 {
				litObj = core.ObjOf(info, as.Lhs[0])
			}
			if litObj == nil {
				return false, ""
			}
			sites := 0
			for _, use := range calls(fi.Decl.Body) {
				if core.ObjOf(info, use.Fun) != litObj {
					continue
				}
				sites++
				if ok, _ := established(fi, use, depth+1); !ok {
					return false, " (closure called at " + c.P.Pos(use.Pos()) + " without such a fact)"
				}
			}
			return sites > 0, ""
		}
		if fi.Obj.Exported() {
			return false, ""
		}
		sites := 0
		for _, caller := range c.P.SortedFuncs() {
			for _, use := range calls(caller.Decl.Body) {
				if c.P.StaticCallee(caller, use) != fi.Obj {
					continue
				}
				sites++
				if ok, _ := established(caller, use, depth+1); !ok {
					return false, " (" + fi.Name() + " is called at " + c.P.Pos(use.Pos()) + " without such a fact)"
				}
			}
		}
		return sites > 0, ""
	}
	n := 0
	for _, fi := range c.P.SortedFuncs() {
		if fi == merge {
			continue
		}
		k := 0
		for _, call := range calls(fi.Decl.Body) {
			if c.P.StaticCallee(fi, call) != merge.Obj {
				continue
			}
			n++
			k++
			ok, where := established(fi, call, 0)
			c.S.Decide(ok, "C15", "GUARD-OPFOUND", fmt.Sprintf("%s/merge#%d", fi.QName(), k), c.P.Pos(call.Pos()),
				"parameters are merged only once the operation asked for is known to exist (found flag, non-nil operation, or id match)",
				"parameters are merged into the result although nothing establishes that the operation asked for exists"+where+": a method, path or id that designates no operation yields the path-level parameters instead of an empty result")
		}
	}
	if n < 3 {
		c.S.Undecided("C15", "GUARD-OPFOUND", "floor", "-", fmt.Sprintf("only %d merge calls found in the lookups (confirmed by hand: 4)", n))
	}
}

// upperCased: the expression is strings.ToUpper(…), a local defined only by such expressions, a key of a range
// over the operations index, or a parameter of an unexported function every call site of which passes such a value.
func (c *Ctx) upperCased(fi *core.FuncInfo, e ast.Expr, depth int) bool {
	if depth > 4 {
		return false
	}
	info := c.info(fi)
	e = core.Unparen(e)
	if sv, isConst := core.ConstString(info, e); isConst {
		return sv == strings.ToUpper(sv) // the builder's own method constants
	}
	if call, ok := e.(*ast.CallExpr); ok {
		callee := c.P.CalleeAny(fi, call)
		return callee != nil && callee.FullName() == "strings.ToUpper"
	}
	o := core.ObjOf(info, e)
	if o == nil {
		return false
	}
	ld := c.P.Locals(fi)
	if ld.Params[o] {
		idx, isParam := c.paramIndexOf(fi, o)
		if !isParam || fi.Obj.Exported() {
			return false
		}
		sites := 0
		for _, cs := range c.P.CG().In[fi.Obj] {
			if cs.Call == nil || cs.Caller == nil || c.P.StaticCallee(cs.Caller, cs.Call) != fi.Obj || idx >= len(cs.Call.Args) {
				continue
			}
			sites++
			if !c.upperCased(cs.Caller, cs.Call.Args[idx], depth+1) {
				return false
			}
		}
		return sites > 0
	}
	defs := ld.Defs[o]
	if len(defs) == 0 {
		return false
	}
	for _, d := range defs {
		switch d.Kind {
		case core.DefAssign:
			if !c.upperCased(fi, d.Expr, depth+1) {
				return false
			}
		case core.DefRangeKey:
			// keys of the index itself are upper case (ENC-CASE/const)
			sel, ok := core.Unparen(d.Expr).(*ast.SelectorExpr)
			if !ok || !core.IsMap(info.TypeOf(sel)) {
				return false
			}
		default:
			return false
		}
	}
	return true
}

// derivedFromParam: a local whose definitions are computed from a parameter of the function.
func (c *Ctx) derivedFromParam(fi *core.FuncInfo, e ast.Expr, depth int) bool {
	if depth > 3 {
		return false
	}
	info := c.info(fi)
	o := core.ObjOf(info, e)
	if o == nil {
		return false
	}
	ld := c.P.Locals(fi)
	if ld.Params[o] {
		return true
	}
	for _, d := range ld.Defs[o] {
		if d.Kind != core.DefAssign {
			continue
		}
		found := false
		ast.Inspect(d.Expr, func(n ast.Node) bool {
			if id, ok := n.(*ast.Ident); ok {
				if po := info.Uses[id]; po != nil && ld.Params[po] {
					found = true
				}
			}
			return true
		})
		if found {
			return true
		}
	}
	return false
}

// helperFedByQuery: some exported method of the analyzer calls the helper with an argument derived from its own
// parameter at the position of o.
func (c *Ctx) helperFedByQuery(fi *core.FuncInfo, o types.Object) bool {
	idx, isParam := c.paramIndexOf(fi, o)
	if !isParam {
		return false
	}
	for _, cs := range c.P.CG().In[fi.Obj] {
		if cs.Call == nil || cs.Caller == nil || !cs.Caller.Obj.Exported() || idx >= len(cs.Call.Args) {
			continue
		}
		if c.P.StaticCallee(cs.Caller, cs.Call) != fi.Obj {
			continue
		}
		arg := core.Unparen(cs.Call.Args[idx])
		if call, isCall := arg.(*ast.CallExpr); isCall && len(call.Args) == 1 {
			arg = core.Unparen(call.Args[0])
		}
		if c.derivedFromParam(cs.Caller, arg, 0) {
			return true
		}
	}
	return false
}
