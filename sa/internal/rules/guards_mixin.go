package rules

// guards (E9) for Mixin (C17, C18) and FixEmptyResponseDescriptions (C19):
// a store happens only under the condition the property states. Conditions
// are the structural path conditions of core.PathConds.

import (
	"fmt"
	"go/ast"
	"go/token"
	"go/types"
	"sort"
	"strings"

	"verif/sa/internal/core"
)

func init() {
	register(Rule{
		Name:  "GUARD-MIXIN",
		Props: []string{"C17", "C18"},
		Doc:   "primary-wins stores, collision reporting, fill-if-empty, de-duplicated appends, id rename only on collision of a non-empty id",
		Run:   guardMixin,
	})
	register(Rule{
		Name:  "GUARD-FIXER",
		Props: []string{"C19"},
		Doc:   "the only store to Response.Description is guarded by emptiness and by the $ref test and stores a non-empty constant",
		Run:   guardFixer,
	})
}

type pmCache map[*core.FuncInfo]core.Parents

var pmCaches = map[*core.Program]pmCache{}

func (c *Ctx) parents(fi *core.FuncInfo) core.Parents {
	cacheMu.Lock()
	defer cacheMu.Unlock()
	pc := pmCaches[c.P]
	if pc == nil {
		pc = pmCache{}
		pmCaches[c.P] = pc
	}
	if pm, ok := pc[fi]; ok {
		return pm
	}
	pm := core.ParentMap(fi.Decl)
	pc[fi] = pm
	return pm
}

func (c *Ctx) conds(fi *core.FuncInfo, n ast.Node) []core.Cond {
	return core.PathConds(fi.Pkg.TypesInfo, c.parents(fi), n, nil)
}

// commaOkLookup: ident is defined by `_, ident := M[K]`; returns M and K.
func (c *Ctx) commaOkLookup(fi *core.FuncInfo, e ast.Expr) (ast.Expr, ast.Expr, bool) {
	o := core.ObjOf(fi.Pkg.TypesInfo, e)
	if o == nil {
		return nil, nil, false
	}
	for _, d := range c.P.Locals(fi).Defs[o] {
		if d.Kind == core.DefMulti && d.Index == 1 {
			if ix, ok := core.Unparen(d.Expr).(*ast.IndexExpr); ok {
				return ix.X, ix.Index, true
			}
		}
	}
	return nil, nil, false
}

func sameExpr(a, b ast.Expr) bool { return exprStr(a) == exprStr(b) }

// firstParamRooted: the path of e is rooted at parameter index idx of fi.
func (c *Ctx) paramRooted(fi *core.FuncInfo, e ast.Expr, idx int) bool {
	p := c.P.PathOf(fi, e, true)
	if p == nil || p.Root == nil {
		return false
	}
	sig := fi.Obj.Type().(*types.Signature)
	if idx >= sig.Params().Len() {
		return false
	}
	return sig.Params().At(idx) == p.Root
}

func guardMixin(c *Ctx) {
	mix := c.need("C17", "GUARD-MIXIN", "", "Mixin")
	if mix == nil {
		return
	}
	reach := core.SortedSet(c.P.Reachable(mix))
	nWins, nColl, nFill, nDedup := 0, 0, 0, 0
	for _, fi := range reach {
		info := c.info(fi)
		ast.Inspect(fi.Decl.Body, func(n ast.Node) bool {
			as, ok := n.(*ast.AssignStmt)
			if !ok {
				return true
			}
			for i, l := range as.Lhs {
				l = core.Unparen(l)
				var rhs ast.Expr
				if len(as.Lhs) == len(as.Rhs) {
					rhs = as.Rhs[i]
				}
				switch lx := l.(type) {
				case *ast.IndexExpr:
					// keyed store into a map reached from the first parameter (the primary)
					if !core.IsMap(info.TypeOf(lx.X)) || !c.paramRooted(fi, lx.X, 0) {
						continue
					}
					if mt := info.TypeOf(lx.X).Underlying().(*types.Map); core.IsBool(mt.Elem()) {
						continue // id set, handled by C18 rules
					}
					nWins++
					ok := false
					for _, cd := range c.conds(fi, as) {
						if cd.Kind != core.CondBool || !cd.Neg {
							continue
						}
						if m, k, isLookup := c.commaOkLookup(fi, cd.Expr); isLookup && sameExpr(m, lx.X) && sameExpr(k, lx.Index) {
							ok = true
						}
					}
					c.S.Decide(ok, "C17", "GUARD-PRIMARYWINS", fi.QName()+"/"+exprStr(lx.X), c.P.Pos(as.Pos()),
						"stored only when the key is absent from the primary",
						"store "+exprStr(l)+" is not guarded by the absence of that key in the same map: an entry of the primary (or of an earlier mixin) can be overwritten")
				case *ast.Ident:
					// a list-merging helper: target = append(target, v) on its own list parameter, returned to a
					// caller that assigns it to a list of the primary
					po := core.ObjOf(info, lx)
					if _, isParam := c.paramIndexOf(fi, po); po == nil || !isParam || !core.IsSlice(po.Type()) || !c.returnsOwnListParam(fi) {
						continue
					}
					call, ok := core.Unparen(rhs).(*ast.CallExpr)
					if !ok || rhs == nil || !isBuiltin(info, call, "append") || len(call.Args) < 2 || core.ObjOf(info, call.Args[0]) != po {
						continue
					}
					feedsPrimary := false
					for _, caller := range reach {
						for _, cc := range calls(caller.Decl.Body) {
							if c.P.StaticCallee(caller, cc) != fi.Obj {
								continue
							}
							if as2, isAs := c.parents(caller)[cc].(*ast.AssignStmt); isAs && len(as2.Lhs) == 1 {
								if sel, isSel := core.Unparen(as2.Lhs[0]).(*ast.SelectorExpr); isSel && c.paramRooted(caller, sel, 0) {
									feedsPrimary = true
								}
							}
						}
					}
					if !feedsPrimary {
						continue
					}
					nDedup++
					okD := c.dedupGuard(fi, as, lx)
					c.S.Decide(okD, "C17", "GUARD-DEDUP", fi.QName()+"/"+po.Name(), c.P.Pos(as.Pos()),
						"appended only when a search of the same list found nothing",
						"append to the list parameter "+po.Name()+" (a list of the primary at the call sites) is not controlled by a search of that list: duplicates are added")
				case *ast.StarExpr:
					// a fill helper: *target = v where callers pass &primary.Field
					po := core.ObjOf(info, lx.X)
					pi, isParam := c.paramIndexOf(fi, po)
					if po == nil || !isParam {
						continue
					}
					fillsPrimary := false
					for _, caller := range reach {
						for _, call := range calls(caller.Decl.Body) {
							if c.P.StaticCallee(caller, call) != fi.Obj || pi >= len(call.Args) {
								continue
							}
							if u, ok := core.Unparen(call.Args[pi]).(*ast.UnaryExpr); ok && u.Op == token.AND {
								if sel, ok := core.Unparen(u.X).(*ast.SelectorExpr); ok && c.paramRooted(caller, sel, 0) {
									fillsPrimary = true
								}
							}
						}
					}
					if !fillsPrimary {
						continue
					}
					nFill++
					ok := false
					for _, cd := range c.conds(fi, as) {
						if x, nonNil, isNil := core.NilTest(info, cd); isNil && !nonNil && sameExpr(x, lx) {
							ok = true
						}
						if x, empty, isE := core.EmptyTest(info, cd); isE && empty && sameExpr(x, lx) {
							ok = true
						}
					}
					c.S.Decide(ok, "C17", "GUARD-FILLEMPTY", fi.QName()+"/*"+po.Name(), c.P.Pos(as.Pos()),
						"the helper fills its target only when empty",
						"the helper stores through "+exprStr(lx)+" (a field of the primary at its call sites) without testing that it is empty/nil: a value of the primary can be overwritten")
				case *ast.SelectorExpr:
					fv := core.FieldOf(info, lx)
					if fv == nil || !c.paramRooted(fi, lx, 0) || fv.Pkg() == nil || fv.Pkg().Path() != core.SpecPath {
						continue
					}
					if !c.isPrimaryParam(mix, fi, reach, 0) {
						continue // the first parameter of this helper does not receive (a part of) the primary
					}
					t := fv.Type()
					switch {
					case core.IsSlice(t):
						// list field handed to a merging helper and assigned its result: primary.L = helper(primary.L, m.L);
						// the append inside the helper is checked there (GUARD-DEDUP on a list parameter)
						if call, ok := core.Unparen(rhs).(*ast.CallExpr); ok && !isBuiltin(info, call, "append") {
							if callee := c.P.StaticCallee(fi, call); callee != nil && c.P.Funcs[callee] != nil && c.returnsOwnListParam(c.P.Funcs[callee]) {
								deleg := false
								for _, a := range call.Args {
									if sameExpr(a, lx) {
										deleg = true
									}
								}
								if deleg {
									continue
								}
							}
						}
						// list field: append must be controlled by a search of the same list
						if call, ok := core.Unparen(rhs).(*ast.CallExpr); ok && isBuiltin(info, call, "append") {
							nDedup++
							ok := c.dedupGuard(fi, as, lx)
							c.S.Decide(ok, "C17", "GUARD-DEDUP", fi.QName()+"/"+exprStr(lx), c.P.Pos(as.Pos()),
								"appended only when a search of the same list found nothing",
								"append to "+exprStr(lx)+" is not controlled by a search of that list: duplicates are added")
							continue
						}
						fallthrough
					default:
						takesField := func(e ast.Expr) bool {
							call, ok := core.Unparen(e).(*ast.CallExpr)
							if !ok {
								return false
							}
							for _, a := range call.Args {
								if sameExpr(a, lx) {
									return true
								}
							}
							return false
						}
						if rhs == nil {
							// tuple assignment from a merge helper taking the same field: delegated
							if len(as.Rhs) == 1 && takesField(as.Rhs[0]) {
								continue
							}
						} else if o := core.ObjOf(info, rhs); o != nil {
							// the same through a local: merged, skipped := helper(primary.F, m.F); primary.F = merged
							if defs := c.P.Locals(fi).Defs[o]; len(defs) == 1 && (defs[0].Kind == core.DefMulti || defs[0].Kind == core.DefAssign) && takesField(defs[0].Expr) {
								continue
							}
						}
						nFill++
						ok := false
						// primary.F = orEmpty(primary.F): a helper that returns its argument unless it is nil/empty
						if call, isCall := core.Unparen(rhs).(*ast.CallExpr); isCall && rhs != nil {
							for ai, a := range call.Args {
								if g := c.P.Funcs[c.P.StaticCallee(fi, call)]; g != nil && sameExpr(a, lx) && c.returnsParamUnlessEmpty(g, ai) {
									ok = true
								}
							}
						}
						for _, cd := range c.conds(fi, as) {
							if x, nonNil, isNil := core.NilTest(info, cd); isNil && !nonNil && sameExpr(x, lx) {
								ok = true
							}
							if x, empty, isE := core.EmptyTest(info, cd); isE && empty && sameExpr(x, lx) {
								ok = true
							}
						}
						c.S.Decide(ok, "C17", "GUARD-FILLEMPTY", fi.QName()+"/"+exprStr(lx), c.P.Pos(as.Pos()),
							"filled only when empty in the primary",
							"store to "+exprStr(lx)+" is not guarded by that field being empty/nil: a value of the primary can be overwritten")
						// the converse: the fill is reached whenever the field is empty in the primary — no nil/empty test of ANOTHER
						// part of either document (an enclosing branch or an earlier guard that leaves) stands in its way
						if ok {
							_, lsuf := rootedSuffix(info, lx)
							foreign := ""
							for _, cd := range c.conds(fi, as) {
								x, _, isT := core.NilTest(info, cd)
								if !isT {
									x, _, isT = core.EmptyTest(info, cd)
								}
								if !isT {
									continue
								}
								root, suf := rootedSuffix(info, x)
								if root == nil || suf == "" || lsuf == "" || !c.P.Locals(fi).Params[root] {
									continue
								}
								if suf == lsuf || strings.HasPrefix(lsuf, suf+".") || strings.HasPrefix(suf, lsuf+".") {
									continue
								}
								foreign = exprStr(x)
							}
							c.S.Decide(foreign == "", "C17", "GUARD-FILLEMPTY", fi.QName()+"/"+exprStr(lx)+"/reached", c.P.Pos(as.Pos()),
								"the fill depends on no other part of either document being present",
								"the fill of "+exprStr(lx)+" is reached only under a nil/empty test of "+foreign+", another part of the documents: a mixin that lacks that part never contributes "+exprStr(lx))
						}
					}
				}
			}
			return true
		})
		// collision reporting: in every merge loop of a reporting function, each path through the
		// loop body either stores/appends the entry into the primary or appends exactly one entry
		// to the returned list (never both, never neither).
		if c.functionReports(fi) {
			ast.Inspect(fi.Decl.Body, func(n ast.Node) bool {
				rs, ok := n.(*ast.RangeStmt)
				if !ok {
					return true
				}
				// the loop ranges over something rooted at a parameter other than the first (the mixin side)
				p := c.P.PathOf(fi, rs.X, true)
				sig := fi.Obj.Type().(*types.Signature)
				if p == nil || p.Root == nil || sig.Params().Len() < 2 || p.Root != sig.Params().At(1) {
					return true
				}
				isStore := func(st ast.Stmt) bool {
					as, ok := st.(*ast.AssignStmt)
					if !ok || len(as.Lhs) != 1 {
						return false
					}
					switch lx := core.Unparen(as.Lhs[0]).(type) {
					case *ast.IndexExpr:
						return core.IsMap(info.TypeOf(lx.X)) && c.paramRooted(fi, lx.X, 0)
					case *ast.SelectorExpr:
						if len(as.Rhs) == 1 {
							if call, ok := core.Unparen(as.Rhs[0]).(*ast.CallExpr); ok && isBuiltin(info, call, "append") {
								return c.paramRooted(fi, lx, 0)
							}
						}
					}
					return false
				}
				isReport := func(st ast.Stmt) bool {
					as, ok := st.(*ast.AssignStmt)
					if !ok || len(as.Lhs) != 1 || len(as.Rhs) != 1 {
						return false
					}
					call, ok := core.Unparen(as.Rhs[0]).(*ast.CallExpr)
					if !ok || !isBuiltin(info, call, "append") || len(call.Args) < 2 || !sameExpr(as.Lhs[0], call.Args[0]) {
						return false
					}
					if _, isField := core.Unparen(as.Lhs[0]).(*ast.SelectorExpr); isField {
						return false
					}
					sl, ok := info.TypeOf(as.Lhs[0]).Underlying().(*types.Slice)
					return ok && core.IsString(sl.Elem())
				}
				paths := enumPaths(info, rs.Body.List, isStore, isReport)
				hasStore := false
				for _, pt := range paths {
					if pt.a > 0 {
						hasStore = true
					}
				}
				if !hasStore {
					return true
				}
				nColl++
				var bad []string
				for _, pt := range paths {
					if pt.a+pt.b != 1 {
						bad = append(bad, fmt.Sprintf("a path through the loop body merges %d entries and reports %d collisions", pt.a, pt.b))
					}
				}
				sort.Strings(bad)
				if len(bad) > 2 {
					bad = bad[:2]
				}
				c.S.Decide(len(bad) == 0, "C17", "GUARD-COLLISION", fi.QName()+"/range "+exprStr(rs.X), c.P.Pos(rs.Pos()),
					fmt.Sprintf("each of the %d paths through the merge loop either merges the entry or reports exactly one collision", len(paths)),
					strings.Join(bad, "; ")+": the returned list does not have exactly one entry per collision")
				return true
			})
		}
	}
	floor := func(n, min int, rule string) {
		if n < min {
			c.S.Undecided("C17", rule, "floor", "-", fmt.Sprintf("only %d instances found (confirmed by hand: %d)", n, min))
		}
	}
	// floors: one instance each is the minimum that keeps a rule from passing vacuously; generic helpers
	// (mergeEntries[M], appendMissing, fillEmpty) legitimately fold the 6 / 8 / 15 / 5 instances of the pinned tree
	floor(nWins, 1, "GUARD-PRIMARYWINS")
	floor(nColl, 1, "GUARD-COLLISION")
	floor(nFill, 1, "GUARD-FILLEMPTY")
	floor(nDedup, 1, "GUARD-DEDUP")

	c.skipFlow(reach)
	c.mixinSections(mix)
	c.opIDRules(reach)
	c.mapEquality(reach)
	c.staleAliases(reach)
}

func isBuiltin(info *types.Info, call *ast.CallExpr, name string) bool {
	id, ok := core.Unparen(call.Fun).(*ast.Ident)
	if !ok {
		return false
	}
	b, ok := info.Uses[id].(*types.Builtin)
	return ok && b.Name() == name
}

// searchedList: ident is a bool flag set to true inside a range over some list; returns the list.
func (c *Ctx) searchedList(fi *core.FuncInfo, id ast.Expr) ast.Expr {
	o := core.ObjOf(fi.Pkg.TypesInfo, id)
	if o == nil || !core.IsBool(o.Type()) {
		return nil
	}
	pm := c.parents(fi)
	for _, d := range c.P.Locals(fi).Defs[o] {
		if d.Kind != core.DefAssign {
			continue
		}
		if tv, ok := fi.Pkg.TypesInfo.Types[d.Expr]; !ok || tv.Value == nil || tv.Value.String() != "true" {
			continue
		}
		if r := pm.Enclosing(d.Node, func(n ast.Node) bool { _, ok := n.(*ast.RangeStmt); return ok }); r != nil {
			return r.(*ast.RangeStmt).X
		}
	}
	return nil
}

// functionReports: the function returns a []string that is a variable (named
// result or local), as opposed to the constant empty literal of the merge
// helpers that by design do not report collisions.
func (c *Ctx) functionReports(fi *core.FuncInfo) bool {
	sig := fi.Obj.Type().(*types.Signature)
	if sig.Results().Len() == 0 {
		return false
	}
	last := sig.Results().At(sig.Results().Len() - 1)
	sl, ok := last.Type().Underlying().(*types.Slice)
	if !ok || !core.IsString(sl.Elem()) {
		return false
	}
	found := false
	ast.Inspect(fi.Decl.Body, func(n ast.Node) bool {
		if _, isLit := n.(*ast.FuncLit); isLit {
			return false
		}
		r, ok := n.(*ast.ReturnStmt)
		if !ok {
			return true
		}
		if len(r.Results) == 0 {
			found = true // bare return of named results
			return true
		}
		if _, isLit := core.Unparen(r.Results[len(r.Results)-1]).(*ast.CompositeLit); !isLit {
			found = true
		}
		return true
	})
	return found
}

// flagResetPerIteration: the bool flag is declared or set to false inside the innermost loop enclosing `at`
// that does not itself contain the search (so a hit for one element does not leak into the next).
func (c *Ctx) flagResetPerIteration(fi *core.FuncInfo, flag ast.Expr, at ast.Node) bool {
	info := fi.Pkg.TypesInfo
	o := core.ObjOf(info, flag)
	if o == nil {
		return false
	}
	pm := c.parents(fi)
	outer := pm.Enclosing(pm[at], func(n ast.Node) bool {
		switch n.(type) {
		case *ast.RangeStmt, *ast.ForStmt:
			return true
		}
		return false
	})
	if outer == nil {
		return true
	}
	var body *ast.BlockStmt
	switch x := outer.(type) {
	case *ast.RangeStmt:
		body = x.Body
	case *ast.ForStmt:
		body = x.Body
	}
	for _, d := range c.P.Locals(fi).Defs[o] {
		inside := d.Pos >= body.Pos() && d.Pos <= body.End()
		if !inside {
			continue
		}
		if d.Kind == core.DefZero {
			return true
		}
		if d.Kind == core.DefAssign {
			if tv, ok := info.Types[d.Expr]; ok && tv.Value != nil && tv.Value.String() == "false" {
				// at the top level of the loop body (not inside the search loop)
				if blk, ok := pm[d.Node].(*ast.BlockStmt); ok && blk == body {
					return true
				}
			}
		}
	}
	return false
}

// dedupGuard: the append statement is controlled by !found where found is set in a range over the same list.
func (c *Ctx) dedupGuard(fi *core.FuncInfo, as *ast.AssignStmt, list ast.Expr) bool {
	for _, cd := range c.conds(fi, as) {
		if cd.Kind != core.CondBool || !cd.Neg {
			continue
		}
		if lst := c.searchedList(fi, cd.Expr); lst != nil && sameExpr(lst, list) {
			return c.flagResetPerIteration(fi, cd.Expr, as)
		}
		// helper form: !contains(list, v)
		if call, ok := core.Unparen(cd.Expr).(*ast.CallExpr); ok {
			for _, a := range call.Args {
				if sameExpr(a, list) {
					return true
				}
			}
		}
	}
	return false
}

// skipFlow: every []string result of a module call made below Mixin reaches the returned list.
func (c *Ctx) skipFlow(reach []*core.FuncInfo) {
	n := 0
	for _, fi := range reach {
		info := c.info(fi)
		pm := c.parents(fi)
		for _, call := range calls(fi.Decl.Body) {
			cands, _ := c.P.Callees(fi, call)
			if len(cands) == 0 || c.P.Funcs[cands[0]] == nil {
				continue
			}
			callee := cands[0]
			sig := callee.Type().(*types.Signature)
			if sig.Results().Len() == 0 {
				continue
			}
			last := sig.Results().At(sig.Results().Len() - 1).Type()
			sl, ok := last.Underlying().(*types.Slice)
			if !ok || !core.IsString(sl.Elem()) {
				continue
			}
			// a helper that returns (an extension of) one of its own list parameters transforms a list of the
			// document, it does not report collisions: appendMissing(primary.Consumes, m.Consumes)
			if cf := c.P.Funcs[callee]; cf != nil && c.returnsOwnListParam(cf) {
				continue
			}
			// only functions that themselves return a []string participate
			fsig := fi.Obj.Type().(*types.Signature)
			if fsig.Results().Len() == 0 {
				continue
			}
			n++
			ok = false
			parent := pm[call]
			switch p := parent.(type) {
			case *ast.CallExpr:
				// append(skipped, f(...)...)
				if isBuiltin(info, p, "append") && p.Ellipsis.IsValid() {
					if as, isAs := pm[p].(*ast.AssignStmt); isAs && len(as.Lhs) == 1 && sameExpr(as.Lhs[0], p.Args[0]) {
						ok = c.flowsToReturn(fi, as.Lhs[0])
					}
				}
			case *ast.ReturnStmt:
				ok = true
			case *ast.AssignStmt:
				// v = f(...) or x, v = f(...): v must later be spread-appended to the returned list or be the returned list
				idx := sig.Results().Len() - 1
				if len(p.Lhs) == sig.Results().Len() {
					v := p.Lhs[idx]
					ok = c.flowsToReturn(fi, v) || c.spreadAppended(fi, v)
				}
			}
			c.S.Decide(ok, "C17", "GUARD-SKIPFLOW", fi.QName()+"/"+callee.Name(), c.P.Pos(call.Pos()),
				"collisions reported by the callee reach the returned list",
				"the collision list returned by "+callee.Name()+" is dropped: those collisions are missing from Mixin's result")
		}
	}
	if n < 4 {
		c.S.Undecided("C17", "GUARD-SKIPFLOW", "floor", "-", fmt.Sprintf("only %d collision-list hand-overs found (confirmed by hand: 16)", n))
	}
	// the returned list is never overwritten after something was collected into it
	for _, fi := range reach {
		if !c.functionReports(fi) {
			continue
		}
		info := c.info(fi)
		type ev struct {
			pos  token.Pos
			acc  bool
			text string
		}
		byVar := map[types.Object][]ev{}
		ast.Inspect(fi.Decl.Body, func(nd ast.Node) bool {
			as, ok := nd.(*ast.AssignStmt)
			if !ok {
				return true
			}
			for i, l := range as.Lhs {
				o := core.ObjOf(info, l)
				if o == nil || !c.flowsToReturn(fi, l) {
					continue
				}
				sl, ok := o.Type().Underlying().(*types.Slice)
				if !ok || !core.IsString(sl.Elem()) {
					continue
				}
				acc := false
				if len(as.Lhs) == len(as.Rhs) {
					if call, ok := core.Unparen(as.Rhs[i]).(*ast.CallExpr); ok && isBuiltin(info, call, "append") && len(call.Args) > 0 && core.ObjOf(info, call.Args[0]) == o {
						acc = true
					}
				}
				byVar[o] = append(byVar[o], ev{as.Pos(), acc, exprStr(l)})
			}
			return true
		})
		for o, evs := range byVar {
			sort.Slice(evs, func(i, j int) bool { return evs[i].pos < evs[j].pos })
			seenAcc := false
			bad := token.NoPos
			for _, e := range evs {
				if e.acc {
					seenAcc = true
				} else if seenAcc {
					bad = e.pos
				}
			}
			c.S.Decide(bad == token.NoPos, "C17", "GUARD-SKIPFLOW", fi.QName()+"/no-overwrite/"+o.Name(), c.P.Pos(fi.Decl.Pos()),
				"the collision list is only ever extended once something has been collected",
				"the collision list "+o.Name()+" is overwritten at "+c.P.Pos(bad)+" after collisions were already appended to it: those are lost from Mixin's result")
		}
	}
}

// flowsToReturn: the variable is a named result, or is returned by some return statement.
func (c *Ctx) flowsToReturn(fi *core.FuncInfo, v ast.Expr) bool {
	info := fi.Pkg.TypesInfo
	o := core.ObjOf(info, v)
	if o == nil {
		return false
	}
	if res := fi.Decl.Type.Results; res != nil {
		for _, fl := range res.List {
			for _, nm := range fl.Names {
				if info.Defs[nm] == o {
					return true
				}
			}
		}
	}
	found := false
	ast.Inspect(fi.Decl.Body, func(n ast.Node) bool {
		if r, ok := n.(*ast.ReturnStmt); ok {
			for _, x := range r.Results {
				if core.ObjOf(info, x) == o {
					found = true
				}
				// return flag || other: the flag is an operand of a disjunction
				if core.IsBool(o.Type()) {
					var visit func(e ast.Expr)
					visit = func(e ast.Expr) {
						e = core.Unparen(e)
						if be, ok := e.(*ast.BinaryExpr); ok && be.Op == token.LOR {
							visit(be.X)
							visit(be.Y)
							return
						}
						if id, ok := e.(*ast.Ident); ok && info.Uses[id] == o {
							found = true
						}
					}
					visit(x)
				}
			}
		}
		return true
	})
	return found
}

// spreadAppended: v appears as `R = append(R, v...)` with R flowing to the return.
func (c *Ctx) spreadAppended(fi *core.FuncInfo, v ast.Expr) bool {
	info := fi.Pkg.TypesInfo
	o := core.ObjOf(info, v)
	if o == nil {
		return false
	}
	found := false
	ast.Inspect(fi.Decl.Body, func(n ast.Node) bool {
		as, ok := n.(*ast.AssignStmt)
		if !ok || len(as.Lhs) != 1 || len(as.Rhs) != 1 {
			return true
		}
		call, ok := core.Unparen(as.Rhs[0]).(*ast.CallExpr)
		if !ok || !isBuiltin(info, call, "append") || !call.Ellipsis.IsValid() || len(call.Args) != 2 {
			return true
		}
		if core.ObjOf(info, call.Args[1]) == o && sameExpr(as.Lhs[0], call.Args[0]) && c.flowsToReturn(fi, as.Lhs[0]) {
			found = true
		}
		return true
	})
	return found
}

// mixinSections: every section named in C17 is written below Mixin (outside the initialiser).
func (c *Ctx) mixinSections(mix *core.FuncInfo) {
	e := effects(c)
	want := []string{
		".Paths.Paths[*]", ".Definitions[*]", ".Parameters[*]", ".Responses[*]", ".SecurityDefinitions[*]",
		".Consumes", ".Produces", ".Schemes", ".Tags", ".Security",
		".Host", ".BasePath", ".Info", ".ExternalDocs", ".Extensions[*]",
		".Info.Description", ".Info.Title", ".Info.TermsOfService", ".Info.Version", ".Info.Contact", ".Info.License",
		".ExternalDocs.Description", ".ExternalDocs.URL",
	}
	have := map[string]bool{}
	for _, w := range e.sortedWrites(mix) {
		if w.root != "param" || w.param != 0 {
			continue
		}
		// writes whose value is a fresh make() under a nil guard are initialisation, not merging
		if strings.HasPrefix(w.valueOf, "make(") || strings.HasPrefix(w.valueOf, "&spec.Paths{") {
			continue
		}
		have[w.relString()] = true
	}
	for _, s := range want {
		c.S.Decide(have[s], "C17", "COV-MIXIN-SECTIONS", "primary"+s, c.P.Pos(mix.Decl.Pos()),
			"merged from the mixins", "nothing reachable from Mixin stores into primary"+s+": that section of the mixins is never merged")
	}
}

// opIDRules (C18): rename only on collision of a non-empty id, record afterwards, primary ids collected.
func (c *Ctx) opIDRules(reach []*core.FuncInfo) {
	n := 0
	// check decides the clauses for one assignment of an operation id: `as` in fi assigns `sel` (the Operation.ID
	// member, or — inside a helper that receives the id — the parameter holding it)
	var check func(fi *core.FuncInfo, as *ast.AssignStmt, sel ast.Expr, key string, callerNonEmpty bool)
	check = func(fi *core.FuncInfo, as *ast.AssignStmt, sel ast.Expr, key string, callerNonEmpty bool) {
		info := c.info(fi)
		pm := c.parents(fi)
		{
			{
				var seenCond, nonEmpty bool
				var idSet ast.Expr
				for _, cd := range c.conds(fi, as) {
					if cd.Kind != core.CondBool {
						continue
					}
					if ix, ok := core.Unparen(cd.Expr).(*ast.IndexExpr); ok && !cd.Neg && sameExpr(ix.Index, sel) {
						if mt, ok := info.TypeOf(ix.X).Underlying().(*types.Map); ok && core.IsBool(mt.Elem()) {
							seenCond = true
							idSet = ix.X
						}
					}
					if m, k, isLookup := c.commaOkLookup(fi, cd.Expr); isLookup && !cd.Neg && sameExpr(k, sel) {
						seenCond = true
						idSet = m
					}
					if x, empty, ok := core.EmptyTest(info, cd); ok && !empty && sameExpr(x, sel) {
						nonEmpty = true
					}
				}
				nonEmpty = nonEmpty || callerNonEmpty
				c.S.Decide(seenCond, "C18", "GUARD-RENAME", key+"/only-on-collision", c.P.Pos(as.Pos()),
					"the id is changed only when it is already in the set of seen ids",
					"the operation id is rewritten without testing that it collides with a seen id")
				c.S.Decide(nonEmpty, "C18", "GUARD-RENAME", key+"/non-empty", c.P.Pos(as.Pos()),
					"an empty id is never renamed",
					"the rename is not guarded by the id being non-empty: the empty id is recorded as seen, so an operation without operationId is given the id \"Mixin<N>\"")
				// the new id mentions the old id, a constant tag and the mixin index
				rhs := exprStr(as.Rhs[0])
				hasOld := strings.Contains(rhs, exprStr(sel))
				hasConst := false
				ast.Inspect(as.Rhs[0], func(m ast.Node) bool {
					if e, ok := m.(ast.Expr); ok {
						if s, ok := core.ConstString(info, e); ok && strings.Contains(s, "Mixin") {
							hasConst = true
						}
					}
					return true
				})
				hasIdx := false
				ast.Inspect(as.Rhs[0], func(m ast.Node) bool {
					if id, ok := m.(*ast.Ident); ok {
						if o := info.Uses[id]; o != nil && c.P.Locals(fi).Params[o] {
							if b, ok := o.Type().Underlying().(*types.Basic); ok && b.Info()&types.IsInteger != 0 {
								hasIdx = true
							}
						}
					}
					return true
				})
				// a suffix prepared once in a local: suffix := "Mixin" + strconv.Itoa(mixIndex)
				ast.Inspect(as.Rhs[0], func(m ast.Node) bool {
					id, ok := m.(*ast.Ident)
					if !ok {
						return true
					}
					o := info.Uses[id]
					if o == nil || c.P.Locals(fi).Params[o] {
						return true
					}
					defs := c.P.Locals(fi).Defs[o]
					if len(defs) != 1 || defs[0].Kind != core.DefAssign {
						return true
					}
					ast.Inspect(defs[0].Expr, func(k ast.Node) bool {
						if e, isE := k.(ast.Expr); isE {
							if sv, isC := core.ConstString(info, e); isC && strings.Contains(sv, "Mixin") {
								hasConst = true
							}
						}
						if lid, isId := k.(*ast.Ident); isId {
							if lo := info.Uses[lid]; lo != nil && c.P.Locals(fi).Params[lo] {
								if b, isB := lo.Type().Underlying().(*types.Basic); isB && b.Info()&types.IsInteger != 0 {
									hasIdx = true
								}
							}
						}
						return true
					})
					return true
				})
				if as.Tok == token.ADD_ASSIGN {
					hasOld = true // id += suffix keeps the old id
				}
				// a suffix prepared by the caller: follow the parameter to the arguments at the call sites
				ast.Inspect(as.Rhs[0], func(m ast.Node) bool {
					id, ok := m.(*ast.Ident)
					if !ok {
						return true
					}
					po := info.Uses[id]
					idx, isParam := c.paramIndexOf(fi, po)
					if po == nil || !isParam {
						return true
					}
					for _, caller := range reach {
						cinfo := c.info(caller)
						for _, call := range calls(caller.Decl.Body) {
							if c.P.StaticCallee(caller, call) != fi.Obj || idx >= len(call.Args) {
								continue
							}
							arg := call.Args[idx]
							if o := core.ObjOf(cinfo, arg); o != nil {
								if defs := c.P.Locals(caller).Defs[o]; len(defs) == 1 && defs[0].Kind == core.DefAssign {
									arg = defs[0].Expr
								}
							}
							ast.Inspect(arg, func(k ast.Node) bool {
								if e, ok := k.(ast.Expr); ok {
									if sv, ok := core.ConstString(cinfo, e); ok && strings.Contains(sv, "Mixin") {
										hasConst = true
									}
								}
								if aid, ok := k.(*ast.Ident); ok {
									if o := cinfo.Uses[aid]; o != nil && c.P.Locals(caller).Params[o] {
										if b, ok := o.Type().Underlying().(*types.Basic); ok && b.Info()&types.IsInteger != 0 {
											hasIdx = true
										}
									}
								}
								return true
							})
						}
					}
					return true
				})
				c.S.Decide(hasOld && hasConst && hasIdx, "C18", "GUARD-RENAME", key+"/new-name", c.P.Pos(as.Pos()),
					"new id = old id + \"Mixin\" + mixin index", "the new id "+rhs+" is not built from the old id, the \"Mixin\" tag and the mixin index")
				// recorded afterwards: a later sibling in the loop body stores IDSET[<id>] = true
				recorded := false
				if idSet != nil {
					loop := pm.Enclosing(as, func(x ast.Node) bool {
						switch x.(type) {
						case *ast.RangeStmt, *ast.ForStmt:
							return true
						}
						return false
					})
					var iterBody []ast.Stmt
					if rs, ok := loop.(*ast.RangeStmt); ok {
						iterBody = rs.Body.List
					} else if fs, ok := loop.(*ast.ForStmt); ok {
						iterBody = fs.Body.List // the index form of the same loop
					} else if loop == nil {
						iterBody = fi.Decl.Body.List // a helper called once per operation: its body is the iteration
					}
					if iterBody != nil {
						after := false
						for _, st := range iterBody {
							if pm.IsAncestor(st, as) {
								after = true
								continue
							}
							if !after {
								continue
							}
							if a2, ok := st.(*ast.AssignStmt); ok && len(a2.Lhs) == 1 {
								if ix, ok := core.Unparen(a2.Lhs[0]).(*ast.IndexExpr); ok && sameExpr(ix.X, idSet) && sameExpr(ix.Index, sel) {
									recorded = true
								}
							}
						}
						// every way of leaving the iteration before the recording is the empty-id test and nothing else:
						// a non-empty id that does not collide must be recorded too
						for _, st := range iterBody {
							if pm.IsAncestor(st, as) {
								break
							}
							leaves := false
							ast.Inspect(st, func(k ast.Node) bool {
								switch x := k.(type) {
								case *ast.FuncLit, *ast.RangeStmt, *ast.ForStmt:
									return false
								case *ast.BranchStmt:
									if x.Tok == token.CONTINUE || x.Tok == token.BREAK || x.Tok == token.GOTO {
										leaves = true
									}
								case *ast.ReturnStmt:
									leaves = true
								}
								return true
							})
							if !leaves {
								continue
							}
							onlyEmpty := false
							if ifs, ok := st.(*ast.IfStmt); ok && ifs.Else == nil && ifs.Init == nil {
								onlyEmpty = true
								for _, cd := range core.SplitCond(ifs.Cond, false) {
									if x, empty, ok := core.EmptyTest(info, cd); !ok || !empty || !sameExpr(x, sel) {
										onlyEmpty = false
									}
								}
							}
							if !onlyEmpty {
								recorded = false
							}
						}
					}
				}
				c.S.Decide(recorded, "C18", "GUARD-RENAME", key+"/recorded", c.P.Pos(as.Pos()),
					"the (possibly renamed) id is recorded as seen for every merged operation",
					"after the rename the id is not recorded in the set of seen ids on every path: a later mixin can reuse it")
			}
		}
	}
	for _, fi := range reach {
		info := c.info(fi)
		ast.Inspect(fi.Decl.Body, func(nd ast.Node) bool {
			as, ok := nd.(*ast.AssignStmt)
			if !ok || len(as.Lhs) != 1 || len(as.Rhs) != 1 {
				return true
			}
			sel, ok := core.Unparen(as.Lhs[0]).(*ast.SelectorExpr)
			if !ok {
				return true
			}
			fv := core.FieldOf(info, sel)
			if fv == nil || fv.Name() != "ID" || !strings.HasSuffix(core.OwnerStruct(c.P, fv), ".OperationProps") {
				return true
			}
			n++
			key := fi.QName() + "/" + exprStr(sel)
			// op.ID = set.reserve(op.ID, idx): the clauses are decided inside the helper, on the parameter that holds
			// the id; the non-empty clause at the call site
			if call, isCall := core.Unparen(as.Rhs[0]).(*ast.CallExpr); isCall {
				if h := c.P.Funcs[c.P.StaticCallee(fi, call)]; h != nil && h.Decl != nil && h.Decl.Body != nil {
					for ai, a := range call.Args {
						if !sameExpr(a, sel) {
							continue
						}
						po := paramObj(h, ai)
						hinfo := c.info(h)
						callerNonEmpty := false
						for _, cd := range c.conds(fi, as) {
							if x, empty, ok := core.EmptyTest(info, cd); ok && !empty && sameExpr(x, sel) {
								callerNonEmpty = true
							}
						}
						done := false
						ast.Inspect(h.Decl.Body, func(m ast.Node) bool {
							has, ok := m.(*ast.AssignStmt)
							if !ok || len(has.Lhs) != 1 || len(has.Rhs) != 1 || done {
								return true
							}
							if id, isID := core.Unparen(has.Lhs[0]).(*ast.Ident); isID && po != nil && core.ObjOf(hinfo, id) == types.Object(po) {
								check(h, has, id, key, callerNonEmpty)
								done = true
							}
							return true
						})
						if done {
							return true
						}
					}
				}
			}
			check(fi, as, sel, key, false)
			return true
		})
	}
	if n < 1 {
		c.S.Undecided("C18", "GUARD-RENAME", "floor", "-", "no store to Operation.ID found below Mixin")
	}
	// ids are recorded (and renamed) only for path items that are actually merged: inside a loop over the
	// mixin's paths, every insertion into the id set is dominated by the absence of that path in the primary
	for _, fi := range reach {
		info := c.info(fi)
		sig := fi.Obj.Type().(*types.Signature)
		if sig.Params().Len() < 2 {
			continue
		}
		ast.Inspect(fi.Decl.Body, func(nd ast.Node) bool {
			rs, ok := nd.(*ast.RangeStmt)
			if !ok || rs.Key == nil {
				return true
			}
			p := c.P.PathOf(fi, rs.X, true)
			if p == nil || p.Root != sig.Params().At(1) || !core.IsMap(info.TypeOf(rs.X)) {
				return true
			}
			ast.Inspect(rs.Body, func(m ast.Node) bool {
				var as ast.Node
				switch x := m.(type) {
				case *ast.AssignStmt:
					if len(x.Lhs) != 1 {
						return true
					}
					ix, ok := core.Unparen(x.Lhs[0]).(*ast.IndexExpr)
					if !ok {
						return true
					}
					mt, ok := info.TypeOf(ix.X).Underlying().(*types.Map)
					if !ok || !core.IsBool(mt.Elem()) {
						return true
					}
					as = x
				case *ast.CallExpr:
					// a helper that inserts into the id set it is handed
					callee := c.P.StaticCallee(fi, x)
					g := c.P.Funcs[callee]
					if callee == nil || g == nil || g.Decl == nil || g.Decl.Body == nil {
						return true
					}
					inserts := false
					gsig := callee.Type().(*types.Signature)
					ginfo := c.info(g)
					for i := 0; i < gsig.Params().Len() && i < len(x.Args); i++ {
						po := gsig.Params().At(i)
						mt, isMap := po.Type().Underlying().(*types.Map)
						if !isMap || !core.IsBool(mt.Elem()) {
							continue
						}
						ast.Inspect(g.Decl.Body, func(k ast.Node) bool {
							if a2, ok := k.(*ast.AssignStmt); ok {
								for _, l := range a2.Lhs {
									if ix, ok := core.Unparen(l).(*ast.IndexExpr); ok && core.ObjOf(ginfo, ix.X) == po {
										inserts = true
									}
								}
							}
							return true
						})
					}
					if !inserts {
						return true
					}
					as = x
				default:
					return true
				}
				guarded := false
				for _, cd := range core.PathConds(info, c.parents(fi), as, rs) {
					if cd.Kind != core.CondBool || !cd.Neg {
						continue
					}
					if mm, kk, isLookup := c.commaOkLookup(fi, cd.Expr); isLookup && c.paramRooted(fi, mm, 0) && core.ObjOf(info, kk) == core.ObjOf(info, rs.Key) {
						guarded = true
					}
				}
				c.S.Decide(guarded, "C18", "GUARD-RENAME", fi.QName()+"/recorded-only-when-merged", c.P.Pos(as.Pos()),
					"an id is recorded as seen only for operations of a path item that is merged into the primary",
					"the id set is extended at "+c.P.Pos(as.Pos())+" for operations of path items that are skipped (the path already exists in the primary): a later mixin is renamed although nothing in the merged document collides with it")
				return true
			})
			return true
		})
	}
	// the ids of the primary are collected before merging: some function below Mixin fills a map[string]bool
	// from the ID of every operation of every path item of its parameter, and Mixin calls it on the primary
	// before the loop over mixins.
	mix := c.root("Mixin")
	if mix == nil {
		return
	}
	info := c.info(mix)
	var firstLoop token.Pos
	ast.Inspect(mix.Decl.Body, func(nd ast.Node) bool {
		if r, ok := nd.(*ast.RangeStmt); ok && firstLoop == 0 {
			firstLoop = r.Pos()
		}
		return true
	})
	collected := false
	for _, call := range calls(mix.Decl.Body) {
		if call.Pos() > firstLoop && firstLoop != 0 {
			continue
		}
		callee := c.P.StaticCallee(mix, call)
		if callee == nil || c.P.Funcs[callee] == nil || len(call.Args) != 1 {
			continue
		}
		sig := callee.Type().(*types.Signature)
		if sig.Results().Len() != 1 {
			continue
		}
		if mt, ok := sig.Results().At(0).Type().Underlying().(*types.Map); ok && core.IsBool(mt.Elem()) {
			if o := core.ObjOf(info, call.Args[0]); o != nil && o == mix.Obj.Type().(*types.Signature).Params().At(0) {
				collected = true
			}
		}
	}
	c.S.Decide(collected, "C18", "GUARD-IDS-COLLECTED", "Mixin", c.P.Pos(mix.Decl.Pos()),
		"the ids of the primary are collected before the first mixin is merged",
		"Mixin does not collect the primary's operation ids before merging")
	_ = sort.Strings
}

func guardFixer(c *Ctx) {
	fix := c.need("C19", "GUARD-FIXER", "", "FixEmptyResponseDescriptions")
	if fix == nil {
		return
	}
	n := 0
	for _, fi := range core.SortedSet(c.P.Reachable(fix)) {
		info := c.info(fi)
		ast.Inspect(fi.Decl.Body, func(nd ast.Node) bool {
			as, ok := nd.(*ast.AssignStmt)
			if !ok || len(as.Lhs) != 1 || len(as.Rhs) != 1 {
				return true
			}
			sel, ok := core.Unparen(as.Lhs[0]).(*ast.SelectorExpr)
			if !ok {
				return true
			}
			fv := core.FieldOf(info, sel)
			if fv == nil || fv.Name() != "Description" || !strings.HasSuffix(core.OwnerStruct(c.P, fv), ".ResponseProps") {
				return true
			}
			n++
			key := fi.QName() + "/" + exprStr(sel)
			var emptyOK, refOK bool
			for _, cd := range c.conds(fi, as) {
				if x, empty, ok := core.EmptyTest(info, cd); ok && empty && sameExpr(x, sel) {
					emptyOK = true
				}
				// a condition establishing "this response is not a $ref", in one of the idioms of the code base:
				// <r>.Ref.String() == ""   or   <r>.Ref[.Ref].GetURL() == nil
				if cd.Kind == core.CondBool && strings.Contains(exprStr(cd.Expr), exprStr(sel.X)+".Ref") {
					if x, empty, ok := core.EmptyTest(info, cd); ok && empty && strings.HasSuffix(exprStr(x), ".String()") {
						refOK = true
					}
					if x, nonNil, ok := core.NilTest(info, cd); ok && !nonNil && strings.HasSuffix(exprStr(x), ".GetURL()") {
						refOK = true
					}
				}
			}
			c.S.Decide(emptyOK, "C19", "GUARD-DESC", key+"/only-empty", c.P.Pos(as.Pos()),
				"stored only when the description is empty", "the description is overwritten without testing that it is empty")
			c.S.Decide(refOK, "C19", "GUARD-DESC", key+"/not-ref", c.P.Pos(as.Pos()),
				"stored only when the response's $ref is absent (Ref.String() == \"\" or Ref.GetURL() == nil)",
				"the description is set without establishing that the response is not a $ref by one of the accepted tests (Ref.String() == \"\", Ref.GetURL() == nil): some $ref responses (e.g. whole-document references) get a description")
			s, isConst := core.ConstString(info, as.Rhs[0])
			c.S.Decide(isConst && s != "", "C19", "GUARD-DESC", key+"/non-empty-constant", c.P.Pos(as.Pos()),
				"the stored value is the non-empty constant "+fmt.Sprintf("%q", s)+" (a second call stores nothing)",
				"the stored description is not a non-empty constant: the call may not be idempotent or may leave descriptions empty")
			return true
		})
	}
	// the sections are handled independently: the loop over one section of the document is not conditional
	// on another section (e.g. shared responses must be fixed even when there are no paths)
	for _, fi := range core.SortedSet(c.P.Reachable(fix)) {
		info := c.info(fi)
		sig := fi.Obj.Type().(*types.Signature)
		if sig.Params().Len() == 0 {
			continue
		}
		p0 := sig.Params().At(0)
		// a part of the first parameter handed to a fixing call: fix(rs.Default)
		ordCall := 0
		ast.Inspect(fi.Decl.Body, func(nd ast.Node) bool {
			call, ok := nd.(*ast.CallExpr)
			if !ok {
				return true
			}
			callee := c.P.StaticCallee(fi, call)
			if callee == nil || c.P.Funcs[callee] == nil {
				return true
			}
			for _, a := range call.Args {
				p := c.P.PathOf(fi, a, true)
				if p == nil || p.Root != p0 || len(p.Steps) == 0 || p.Steps[0].Field == nil {
					continue
				}
				own := p.Steps[0].Name
				var foreign []string
				for _, cd := range c.conds(fi, call) {
					if cd.Kind != core.CondBool {
						continue
					}
					if divergesFrom(c, fi, info, cd.Expr, p) {
						foreign = append(foreign, exprStr(cd.Expr))
					}
				}
				ordCall++
				c.S.Decide(len(foreign) == 0, "C19", "GUARD-SECTIONS", fmt.Sprintf("%s/call#%d %s", fi.QName(), ordCall, own), c.P.Pos(call.Pos()),
					"this part is fixed whatever the other parts contain",
					"fixing "+exprStr(a)+" is conditional on another part of the same object ("+strings.Join(foreign, ", ")+"): it is not fixed when that part is absent or empty")
			}
			return true
		})
		ast.Inspect(fi.Decl.Body, func(nd ast.Node) bool {
			rs, ok := nd.(*ast.RangeStmt)
			if !ok {
				return true
			}
			p := c.P.PathOf(fi, rs.X, true)
			if p == nil || p.Root != p0 || len(p.Steps) == 0 || p.Steps[0].Field == nil {
				return true
			}
			var foreign []string
			for _, cd := range c.conds(fi, rs) {
				if cd.Kind != core.CondBool {
					continue
				}
				if divergesFrom(c, fi, info, cd.Expr, p) {
					foreign = append(foreign, exprStr(cd.Expr))
				}
			}
			c.S.Decide(len(foreign) == 0, "C19", "GUARD-SECTIONS", fi.QName()+"/range "+exprStr(rs.X), c.P.Pos(rs.Pos()),
				"this section is walked whatever the other sections contain",
				"the walk over "+exprStr(rs.X)+" is conditional on another section of the document ("+strings.Join(foreign, ", ")+"): its responses are not fixed when that section is absent")
			return true
		})
	}
	if n != 1 {
		c.S.Decide(false, "C19", "GUARD-DESC", "single-store", "-", "", fmt.Sprintf("%d stores to Response.Description below FixEmptyResponseDescriptions (expected exactly one)", n))
	} else {
		c.S.Hold("C19", "GUARD-DESC", "single-store", "-", "exactly one store to Response.Description")
	}
}

// returnsParamUnlessEmpty: a function each of whose returns is its idx-th parameter itself, or happens under a
// test that the parameter is nil / empty (where it returns a fresh value instead).
func (c *Ctx) returnsParamUnlessEmpty(g *core.FuncInfo, idx int) bool {
	sig := g.Obj.Type().(*types.Signature)
	if idx >= sig.Params().Len() || sig.Results().Len() != 1 || g.Decl == nil || g.Decl.Body == nil {
		return false
	}
	info := c.info(g)
	var param types.Object
	if po := paramObj(g, idx); po != nil {
		param = po
	}
	if param == nil {
		return false
	}
	ok, n := true, 0
	ast.Inspect(g.Decl.Body, func(nd ast.Node) bool {
		if _, isLit := nd.(*ast.FuncLit); isLit {
			return false
		}
		ret, isRet := nd.(*ast.ReturnStmt)
		if !isRet || len(ret.Results) != 1 {
			return true
		}
		n++
		if core.ObjOf(info, ret.Results[0]) == param {
			return true
		}
		underEmpty := false
		for _, cd := range c.conds(g, ret) {
			if x, nonNil, isNil := core.NilTest(info, cd); isNil && !nonNil && core.ObjOf(info, x) == param {
				underEmpty = true
			}
			if x, empty, isE := core.EmptyTest(info, cd); isE && empty && core.ObjOf(info, x) == param {
				underEmpty = true
			}
		}
		if !underEmpty {
			ok = false
		}
		return true
	})
	return ok && n >= 2
}

// divergesFrom reports whether cond reads a part of the object that target belongs to which is neither an ancestor
// of target nor below it: `v.Ref.String() != ""` for the target `v.Get.Responses` (a sibling part), but not
// `v.Get != nil` or `s.Paths != nil` (ancestors) nor `len(v.Get.Responses.StatusCodeResponses) > 0` (below).
func divergesFrom(c *Ctx, fi *core.FuncInfo, info *types.Info, cond ast.Expr, target *core.Path) bool {
	div := false
	ast.Inspect(cond, func(m ast.Node) bool {
		sel, ok := m.(*ast.SelectorExpr)
		if !ok || core.FieldOf(info, sel) == nil {
			return true
		}
		q := c.P.PathOf(fi, sel, true)
		if q == nil || q.Root == nil || q.Root != target.Root {
			return true
		}
		if !target.HasPrefix(q) && !q.HasPrefix(target) {
			div = true
		}
		return true
	})
	return div
}

// pathSum counts two kinds of events along one structured path.
type pathSum struct {
	a, b int
	done bool // left the enclosing loop body (continue/break/return)
}

// enumPaths enumerates the acyclic paths through a statement list (inner
// loops are taken zero or one time), counting statements matching isA / isB.
func enumPaths(info *types.Info, list []ast.Stmt, isA, isB func(ast.Stmt) bool) []pathSum {
	paths := []pathSum{{}}
	for _, st := range list {
		var next []pathSum
		for _, p := range paths {
			if p.done {
				next = append(next, p)
				continue
			}
			for _, q := range stmtPaths(info, st, isA, isB) {
				next = append(next, pathSum{a: p.a + q.a, b: p.b + q.b, done: q.done})
			}
		}
		paths = next
		if len(paths) > 4096 {
			break
		}
	}
	return paths
}

func stmtPaths(info *types.Info, st ast.Stmt, isA, isB func(ast.Stmt) bool) []pathSum {
	switch x := st.(type) {
	case *ast.BlockStmt:
		return enumPaths(info, x.List, isA, isB)
	case *ast.IfStmt:
		out := enumPaths(info, x.Body.List, isA, isB)
		if x.Else != nil {
			out = append(out, stmtPaths(info, x.Else, isA, isB)...)
		} else {
			out = append(out, pathSum{})
		}
		return out
	case *ast.ForStmt:
		out := []pathSum{{}}
		for _, p := range enumPaths(info, x.Body.List, isA, isB) {
			out = append(out, pathSum{a: p.a, b: p.b})
		}
		return out
	case *ast.RangeStmt:
		out := []pathSum{{}}
		for _, p := range enumPaths(info, x.Body.List, isA, isB) {
			out = append(out, pathSum{a: p.a, b: p.b})
		}
		return out
	case *ast.SwitchStmt:
		var out []pathSum
		hasDefault := false
		for _, cl := range x.Body.List {
			cc := cl.(*ast.CaseClause)
			if cc.List == nil {
				hasDefault = true
			}
			out = append(out, enumPaths(info, cc.Body, isA, isB)...)
		}
		if !hasDefault {
			out = append(out, pathSum{})
		}
		return out
	case *ast.ReturnStmt:
		return []pathSum{{done: true}}
	case *ast.BranchStmt:
		return []pathSum{{done: true}}
	case *ast.LabeledStmt:
		return stmtPaths(info, x.Stmt, isA, isB)
	}
	p := pathSum{}
	if isA(st) {
		p.a = 1
	}
	if isB(st) {
		p.b = 1
	}
	return []pathSum{p}
}

// mapEquality (C17, GUARD-MAPEQ — the "one-sided comparison" shape): a bool function of two maps of the same type
// that ranges over one of them looking the keys up in the other decides inclusion, not equality, unless it also
// compares the two lengths or ranges over the other map too. Used as the duplicate test of a merge, it drops an
// entry that is a strict superset of one already present (and reports a collision that is none).
func (c *Ctx) mapEquality(reach []*core.FuncInfo) {
	n := 0
	for _, fi := range reach {
		sig := fi.Obj.Type().(*types.Signature)
		if sig.Params().Len() != 2 || sig.Results().Len() != 1 || !core.IsBool(sig.Results().At(0).Type()) {
			continue
		}
		a, b := sig.Params().At(0), sig.Params().At(1)
		if !core.IsMap(a.Type()) || !types.Identical(a.Type(), b.Type()) {
			continue
		}
		info := c.info(fi)
		ranged := map[types.Object]bool{}
		lenCompared := false
		ast.Inspect(fi.Decl.Body, func(nd ast.Node) bool {
			switch x := nd.(type) {
			case *ast.RangeStmt:
				if o := core.ObjOf(info, x.X); o == a || o == b {
					ranged[o] = true
				}
			case *ast.BinaryExpr:
				isLen := func(e ast.Expr, of types.Object) bool {
					call, ok := core.Unparen(e).(*ast.CallExpr)
					return ok && isBuiltin(info, call, "len") && len(call.Args) == 1 && core.ObjOf(info, call.Args[0]) == of
				}
				if (x.Op == token.EQL || x.Op == token.NEQ) && (isLen(x.X, a) && isLen(x.Y, b) || isLen(x.X, b) && isLen(x.Y, a)) {
					lenCompared = true
				}
			}
			return true
		})
		// element-wise comparison of two slices inside the predicate: for i := range x { … y[i] … } needs len(x) == len(y)
		sliceBad := ""
		ast.Inspect(fi.Decl.Body, func(nd ast.Node) bool {
			rs, ok := nd.(*ast.RangeStmt)
			if !ok || rs.Key == nil || !core.IsSlice(info.TypeOf(rs.X)) {
				return true
			}
			ko := core.ObjOf(info, rs.Key)
			var other ast.Expr
			ast.Inspect(rs.Body, func(m ast.Node) bool {
				if ix, ok := m.(*ast.IndexExpr); ok && core.ObjOf(info, ix.Index) == ko && ko != nil && core.IsSlice(info.TypeOf(ix.X)) && !sameExpr(ix.X, rs.X) {
					other = ix.X
				}
				return true
			})
			if other == nil {
				return true
			}
			compared := false
			ast.Inspect(fi.Decl.Body, func(m ast.Node) bool {
				be, ok := m.(*ast.BinaryExpr)
				if !ok || be.Op != token.EQL && be.Op != token.NEQ {
					return true
				}
				lenOf := func(e, of ast.Expr) bool {
					call, ok := core.Unparen(e).(*ast.CallExpr)
					return ok && isBuiltin(info, call, "len") && len(call.Args) == 1 && sameExpr(call.Args[0], of)
				}
				if lenOf(be.X, rs.X) && lenOf(be.Y, other) || lenOf(be.X, other) && lenOf(be.Y, rs.X) {
					compared = true
				}
				return true
			})
			if !compared {
				sliceBad = "the lists " + exprStr(rs.X) + " and " + exprStr(other) + " are compared element by element over the first one only, their lengths are never compared: a list that merely starts like the other counts as equal"
			}
			return true
		})
		if len(ranged) == 0 {
			continue
		}
		n++
		if sliceBad != "" {
			c.S.Violate("C17", "GUARD-MAPEQ", fi.QName()+"/lists", c.P.Pos(fi.Decl.Pos()), sliceBad+" — the merge drops such an entry as a duplicate and reports a collision that is none")
		}
		ok := lenCompared || len(ranged) == 2
		c.S.Decide(ok, "C17", "GUARD-MAPEQ", fi.QName(), c.P.Pos(fi.Decl.Pos()),
			"the comparison of the two maps is two-sided (both lengths, or both directions)",
			fi.Name()+" ranges over one of its two maps only and never compares their lengths: it answers true when the first is included in the second, so the merge treats an entry that extends an existing one as a duplicate — it is dropped and reported as a collision")
	}
	if n == 0 {
		c.S.Note("GUARD-MAPEQ: no hand-written comparison of two maps below Mixin (the pinned tree uses reflect.DeepEqual)")
	}
}

// isPrimaryParam: the first parameter of fi receives the primary document or a part of it: fi is Mixin, or at every
// call site below Mixin the first argument is rooted at the first parameter of a caller for which the same holds.
func (c *Ctx) isPrimaryParam(mix, fi *core.FuncInfo, reach []*core.FuncInfo, depth int) bool {
	if fi == mix {
		return true
	}
	if depth > 4 {
		return false
	}
	sites := 0
	for _, caller := range reach {
		for _, call := range calls(caller.Decl.Body) {
			fns, _ := c.P.Callees(caller, call)
			hit := false
			for _, fn := range fns {
				if fn == fi.Obj {
					hit = true
				}
			}
			if !hit {
				continue
			}
			sites++
			if len(call.Args) == 0 || !c.paramRooted(caller, call.Args[0], 0) || !c.isPrimaryParam(mix, caller, reach, depth+1) {
				// a call through a table of steps passes the loop's own arguments: accept `step(primary, m)`
				return false
			}
		}
	}
	return sites > 0
}

// staleAliases (C17/C18, GUARD-STALEALIAS): two shapes of "the map written is not the map the caller sees".
//   - a result variable (or any variable that flows to a return) is assigned from a map variable that is re-made
//     afterwards: result = primary; …; primary = make(…); primary[k] = v — the returned map is the old (nil) one;
//   - a map parameter is re-made inside the function and then stored into: the caller's map never sees the stores
//     (the id set shared by the mixins).
func (c *Ctx) staleAliases(reach []*core.FuncInfo) {
	n := 0
	for _, fi := range reach {
		info := c.info(fi)
		type asg struct {
			lhs, rhs types.Object
			pos      token.Pos
			remake   bool
			node     *ast.AssignStmt
		}
		var list []asg
		ast.Inspect(fi.Decl.Body, func(nd ast.Node) bool {
			as, ok := nd.(*ast.AssignStmt)
			if !ok || len(as.Lhs) != len(as.Rhs) {
				return true
			}
			for i, l := range as.Lhs {
				lo := core.ObjOf(info, l)
				if _, isID := core.Unparen(l).(*ast.Ident); !isID || lo == nil || !core.IsMap(lo.Type()) {
					continue
				}
				a := asg{lhs: lo, pos: as.Pos(), node: as}
				r := core.Unparen(as.Rhs[i])
				if ro := core.ObjOf(info, r); ro != nil {
					if _, isID := r.(*ast.Ident); isID {
						a.rhs = ro
					}
				}
				if call, ok := r.(*ast.CallExpr); ok && isBuiltin(info, call, "make") {
					a.remake = true
				}
				if _, ok := r.(*ast.CompositeLit); ok {
					a.remake = true
				}
				list = append(list, a)
			}
			return true
		})
		storesInto := func(o types.Object, after token.Pos) bool {
			found := false
			ast.Inspect(fi.Decl.Body, func(nd ast.Node) bool {
				if as, ok := nd.(*ast.AssignStmt); ok && as.Pos() > after {
					for _, l := range as.Lhs {
						if ix, ok := core.Unparen(l).(*ast.IndexExpr); ok && core.ObjOf(info, ix.X) == o {
							found = true
						}
					}
				}
				return true
			})
			return found
		}
		for _, rm := range list {
			if !rm.remake || rm.node.Tok != token.ASSIGN {
				continue
			}
			// (2) a parameter re-made and stored into
			if _, isParam := c.paramIndexOf(fi, rm.lhs); isParam && storesInto(rm.lhs, rm.pos) {
				n++
				c.S.Violate("C18", "GUARD-STALEALIAS", fi.QName()+"/param "+types.TypeString(rm.lhs.Type(), nil), c.P.Pos(rm.pos),
					"the map parameter "+rm.lhs.Name()+" is re-made inside "+fi.Name()+" and then stored into: the caller's map never sees those entries — the ids recorded while merging one mixin are forgotten for the next, and two mixins can bring the same operation id")
			}
			// (1) an earlier alias of the re-made variable flows to a return and is not refreshed
			for _, al := range list {
				if al.rhs != rm.lhs || al.pos >= rm.pos || al.lhs == rm.lhs {
					continue
				}
				if !c.flowsToReturnObj(fi, al.lhs) || !storesInto(rm.lhs, rm.pos) {
					continue
				}
				refreshed := false
				for _, later := range list {
					if later.lhs == al.lhs && later.rhs == rm.lhs && later.pos > rm.pos {
						refreshed = true
					}
				}
				if refreshed {
					continue
				}
				n++
				c.S.Violate("C17", "GUARD-STALEALIAS", fi.QName()+"/"+al.lhs.Name(), c.P.Pos(al.pos),
					al.lhs.Name()+" is taken from "+rm.lhs.Name()+" before "+rm.lhs.Name()+" is re-made at "+c.P.Pos(rm.pos)+" and is returned without being refreshed: the entries stored afterwards go into a map the caller never receives (extensions of a mixin are lost when the primary has none)")
			}
		}
	}
	if n == 0 {
		c.S.Hold("C17", "GUARD-STALEALIAS", "Mixin", "-", "no map is returned or shared through a variable captured before the map was re-made")
	}
}

// flowsToReturnObj: the variable is a named result or appears in a return statement.
func (c *Ctx) flowsToReturnObj(fi *core.FuncInfo, o types.Object) bool {
	info := c.info(fi)
	if res := fi.Decl.Type.Results; res != nil {
		for _, fl := range res.List {
			for _, nm := range fl.Names {
				if info.Defs[nm] == o {
					return true
				}
			}
		}
	}
	found := false
	ast.Inspect(fi.Decl.Body, func(n ast.Node) bool {
		if r, ok := n.(*ast.ReturnStmt); ok {
			for _, x := range r.Results {
				if core.ObjOf(info, x) == o {
					found = true
				}
			}
		}
		return true
	})
	return found
}

// returnsOwnListParam: every return of the function returns one of its own slice parameters (possibly reassigned
// from append on itself): a list transformer, not a reporter of collisions.
func (c *Ctx) returnsOwnListParam(fi *core.FuncInfo) bool {
	info := c.info(fi)
	n, all := 0, true
	ast.Inspect(fi.Decl.Body, func(nd ast.Node) bool {
		if _, isLit := nd.(*ast.FuncLit); isLit {
			return false
		}
		r, ok := nd.(*ast.ReturnStmt)
		if !ok {
			return true
		}
		n++
		if len(r.Results) != 1 {
			all = false
			return true
		}
		o := core.ObjOf(info, r.Results[0])
		if _, isParam := c.paramIndexOf(fi, o); o == nil || !isParam || !core.IsSlice(o.Type()) {
			all = false
		}
		return true
	})
	return n > 0 && all
}

// rootedSuffix: for a selector chain x.A.B (through parentheses, * and &) the object of x and ".A.B".
func rootedSuffix(info *types.Info, e ast.Expr) (types.Object, string) {
	suf := ""
	for {
		switch v := core.Unparen(e).(type) {
		case *ast.SelectorExpr:
			suf = "." + v.Sel.Name + suf
			e = v.X
		case *ast.StarExpr:
			e = v.X
		case *ast.UnaryExpr:
			if v.Op != token.AND {
				return nil, ""
			}
			e = v.X
		case *ast.Ident:
			return core.ObjOf(info, v), suf
		default:
			return nil, ""
		}
	}
}
