package rules

// guards (E9) for the schema classifier (C20): flag coherence decided from the
// defining expressions of the flags (propositional abstraction, truth table
// enumerated by the checker), $ref transparency (every flag is copied from the
// resolved target and only the simple-schema recomputation follows).

import (
	"fmt"
	"go/ast"
	"go/constant"
	"go/token"
	"go/types"
	"os"
	"sort"
	"strings"

	"verif/sa/internal/core"
)

func init() {
	register(Rule{
		Name:  "GUARD-SCHEMA",
		Props: []string{"C20"},
		Doc:   "flag implications and exclusions from the flags' defining expressions; inherits copies every flag; nothing but the simple-schema recomputation follows the copy",
		Run:   guardSchema,
	})
}

// prop formula
type pf struct {
	op   byte // 'a' atom, '!' not, '&' and, '|' or, 't' true, 'f' false
	atom string
	l, r *pf
}

func pAnd(a, b *pf) *pf { return &pf{op: '&', l: a, r: b} }
func pNot(a *pf) *pf    { return &pf{op: '!', l: a} }

func (p *pf) String() string {
	if p == nil {
		return "<nil>"
	}
	switch p.op {
	case 'a':
		return "[" + p.atom + "]"
	case 't':
		return "T"
	case 'f':
		return "F"
	case '!':
		return "!" + p.l.String()
	}
	return "(" + p.l.String() + " " + string(p.op) + " " + p.r.String() + ")"
}

func (p *pf) atoms(out map[string]bool) {
	switch p.op {
	case 'a':
		out[p.atom] = true
	case '!':
		p.l.atoms(out)
	case '&', '|':
		p.l.atoms(out)
		p.r.atoms(out)
	}
}

func (p *pf) eval(env map[string]bool) bool {
	switch p.op {
	case 'a':
		return env[p.atom]
	case '!':
		return !p.l.eval(env)
	case '&':
		return p.l.eval(env) && p.r.eval(env)
	case '|':
		return p.l.eval(env) || p.r.eval(env)
	case 't':
		return true
	}
	return false
}

type flagDef struct {
	fi    *core.FuncInfo
	as    *ast.AssignStmt
	rhs   ast.Expr
	recv  string
	conds []core.Cond
}

type schemaGuards struct {
	c      *Ctx
	st     *types.Struct
	named  *types.Named
	defs   map[*types.Var][]flagDef  // non-copy assignments per bool field
	copies map[*types.Var]bool       // fields copied by inherits
	subst  map[types.Object]substArg // parameters of helpers being expanded -> the argument in the caller
	// flags kept as bits of an integer member: per member, per bit, the condition under which the bit is set
	bits     map[*types.Var]map[uint64]*pf
	bitsDone bool
	busy     map[*types.Var]bool // multi-definition flags being expanded
}

// collectBits reads the definitions of the integer members of the analysed-schema record that are used as sets of
// flags: `a.F = cond(c1, bit1) | cond(c2, bit2) | …` and `if c { a.F |= bit }`, where cond is a module helper of the
// shape `if p { return v }; return 0`. A member with a definition it cannot read is left out (its tests stay opaque
// atoms).
func (g *schemaGuards) collectBits() {
	if g.bitsDone {
		return
	}
	g.bitsDone = true
	g.bits = map[*types.Var]map[uint64]*pf{}
	isBitField := func(fv *types.Var) bool {
		if fv == nil {
			return false
		}
		for i := 0; i < g.st.NumFields(); i++ {
			if g.st.Field(i) == fv {
				b, ok := fv.Type().Underlying().(*types.Basic)
				return ok && b.Info()&types.IsInteger != 0
			}
		}
		return false
	}
	opaque := map[*types.Var]bool{}
	constBit := func(info *types.Info, e ast.Expr) (uint64, bool) {
		if tv, ok := info.Types[e]; ok && tv.Value != nil {
			if v, exact := constant.Uint64Val(constant.ToInt(tv.Value)); exact {
				return v, true
			}
		}
		return 0, false
	}
	for _, fi := range g.c.P.SortedFuncs() {
		if fi.Pkg.PkgPath != core.ModPath {
			continue
		}
		info := g.c.info(fi)
		ast.Inspect(fi.Decl.Body, func(n ast.Node) bool {
			as, ok := n.(*ast.AssignStmt)
			if !ok || len(as.Lhs) != 1 || len(as.Rhs) != 1 {
				return true
			}
			sel, ok := core.Unparen(as.Lhs[0]).(*ast.SelectorExpr)
			if !ok {
				return true
			}
			fv := core.FieldOf(info, sel)
			if !isBitField(fv) {
				return true
			}
			if rs, ok := core.Unparen(as.Rhs[0]).(*ast.SelectorExpr); ok && core.FieldOf(info, rs) == fv {
				return true // the wholesale copy of inherits
			}
			if as.Tok != token.ASSIGN && as.Tok != token.OR_ASSIGN && as.Tok != token.DEFINE {
				opaque[fv] = true
				return true
			}
			recv := exprStr(sel.X)
			// the conditions of the statement
			var stmtCond *pf
			for _, cd := range g.c.conds(fi, as) {
				if cd.Kind != core.CondBool {
					continue
				}
				cf := g.exprFormula(fi, cd.Expr, recv, 1)
				if cf == nil {
					opaque[fv] = true
					return true
				}
				if cd.Neg {
					cf = pNot(cf)
				}
				if stmtCond == nil {
					stmtCond = cf
				} else {
					stmtCond = pAnd(stmtCond, cf)
				}
			}
			var terms func(e ast.Expr) bool
			terms = func(e ast.Expr) bool {
				e = core.Unparen(e)
				if be, isBin := e.(*ast.BinaryExpr); isBin && be.Op == token.OR {
					return terms(be.X) && terms(be.Y)
				}
				var cond *pf
				bit, isConst := constBit(info, e)
				if !isConst {
					call, isCall := e.(*ast.CallExpr)
					if !isCall || len(call.Args) != 2 {
						return false
					}
					h := g.c.P.Funcs[g.c.P.StaticCallee(fi, call)]
					if h == nil || !isCondValueHelper(g.c, h) {
						return false
					}
					b, okb := constBit(info, call.Args[1])
					if !okb {
						return false
					}
					bit = b
					cond = g.exprFormula(fi, call.Args[0], recv, 1)
					if cond == nil {
						return false
					}
				}
				if bit == 0 {
					return true
				}
				if cond == nil {
					cond = &pf{op: 't'}
				}
				if stmtCond != nil {
					cond = pAnd(stmtCond, cond)
				}
				if g.bits[fv] == nil {
					g.bits[fv] = map[uint64]*pf{}
				}
				// one formula per single bit of the value
				for b := uint64(1); b != 0 && b <= bit; b <<= 1 {
					if bit&b == 0 {
						continue
					}
					if old := g.bits[fv][b]; old != nil {
						g.bits[fv][b] = &pf{op: '|', l: old, r: cond}
					} else {
						g.bits[fv][b] = cond
					}
				}
				return true
			}
			if !terms(as.Rhs[0]) {
				opaque[fv] = true
			}
			return true
		})
	}
	for fv := range opaque {
		delete(g.bits, fv)
	}
}

// isCondValueHelper: func(c bool, v T) T { if c { return v }; return 0 }.
func isCondValueHelper(c *Ctx, h *core.FuncInfo) bool {
	if h.Decl == nil || h.Decl.Body == nil || len(h.Decl.Body.List) != 2 {
		return false
	}
	info := c.info(h)
	p0, p1 := paramObj(h, 0), paramObj(h, 1)
	ifs, ok := h.Decl.Body.List[0].(*ast.IfStmt)
	if !ok || p0 == nil || p1 == nil || ifs.Else != nil || core.ObjOf(info, ifs.Cond) != types.Object(p0) || len(ifs.Body.List) != 1 {
		return false
	}
	r1, ok1 := ifs.Body.List[0].(*ast.ReturnStmt)
	r2, ok2 := h.Decl.Body.List[1].(*ast.ReturnStmt)
	if !ok1 || !ok2 || len(r1.Results) != 1 || len(r2.Results) != 1 || core.ObjOf(info, r1.Results[0]) != types.Object(p1) {
		return false
	}
	tv, isC := info.Types[r2.Results[0]]
	return isC && tv.Value != nil && tv.Value.String() == "0"
}

// maskFormula: the member has one of the bits of the mask set.
func (g *schemaGuards) maskFormula(fv *types.Var, mask uint64) *pf {
	g.collectBits()
	defs, ok := g.bits[fv]
	if !ok {
		return nil
	}
	var res *pf
	for b := uint64(1); b != 0 && b <= mask; b <<= 1 {
		if mask&b == 0 {
			continue
		}
		f := defs[b]
		if f == nil {
			f = &pf{op: 'f'}
		}
		if res == nil {
			res = f
		} else {
			res = &pf{op: '|', l: res, r: f}
		}
	}
	if res == nil {
		res = &pf{op: 'f'}
	}
	return res
}

// bitTest: e is `<recv>.<member> & <mask> != 0` (or == 0); returns the member, the mask expression and the polarity.
func (g *schemaGuards) bitTest(info *types.Info, e ast.Expr) (*types.Var, ast.Expr, bool, bool) {
	be, ok := core.Unparen(e).(*ast.BinaryExpr)
	if !ok || be.Op != token.NEQ && be.Op != token.EQL {
		return nil, nil, false, false
	}
	if tv, isC := info.Types[be.Y]; !isC || tv.Value == nil || tv.Value.String() != "0" {
		return nil, nil, false, false
	}
	and, ok := core.Unparen(be.X).(*ast.BinaryExpr)
	if !ok || and.Op != token.AND {
		return nil, nil, false, false
	}
	for _, pr := range [][2]ast.Expr{{and.X, and.Y}, {and.Y, and.X}} {
		if sel, isSel := core.Unparen(pr[0]).(*ast.SelectorExpr); isSel {
			if fv := core.FieldOf(info, sel); fv != nil {
				if b, isB := fv.Type().Underlying().(*types.Basic); isB && b.Info()&types.IsInteger != 0 {
					return fv, pr[1], be.Op == token.NEQ, true
				}
			}
		}
	}
	return nil, nil, false, false
}

type substArg struct {
	fi   *core.FuncInfo
	e    ast.Expr
	recv string
}

func guardSchema(c *Ctx) {
	o := c.P.Pkg("").Types.Scope().Lookup("AnalyzedSchema")
	if o == nil {
		c.S.Undecided("C20", "GUARD-SCHEMA", "anchor", "-", "type AnalyzedSchema not found")
		return
	}
	named := o.Type().(*types.Named)
	st := named.Underlying().(*types.Struct)
	g := &schemaGuards{c: c, st: st, named: named, defs: map[*types.Var][]flagDef{}, copies: map[*types.Var]bool{}}
	var flags []*types.Var
	for i := 0; i < st.NumFields(); i++ {
		if core.IsBool(st.Field(i).Type()) {
			flags = append(flags, st.Field(i))
		}
	}
	// flags kept as the bits of an integer member count as flags too (the member must be inherited like them)
	g.collectBits()
	nBits := 0
	for i := 0; i < st.NumFields(); i++ {
		if bits, ok := g.bits[st.Field(i)]; ok && len(bits) > 0 {
			flags = append(flags, st.Field(i))
			nBits += len(bits) - 1
		}
	}
	byName := map[string]*types.Var{}
	for _, f := range flags {
		byName[f.Name()] = f
	}
	// collect assignments
	var inherits, wholeCopyIn *core.FuncInfo
	for _, fi := range c.P.SortedFuncs() {
		if fi.Pkg.PkgPath != core.ModPath {
			continue
		}
		info := c.info(fi)
		ast.Inspect(fi.Decl.Body, func(n ast.Node) bool {
			as, ok := n.(*ast.AssignStmt)
			if !ok || len(as.Lhs) != len(as.Rhs) {
				return true
			}
			// *a = *other: every member is copied at once (the context members are restored by the caller's code)
			if len(as.Lhs) == 1 {
				if ls, isStar := core.Unparen(as.Lhs[0]).(*ast.StarExpr); isStar {
					if rs, isStar2 := core.Unparen(as.Rhs[0]).(*ast.StarExpr); isStar2 &&
						types.Identical(core.Deref(info.TypeOf(ls.X)), named) && types.Identical(core.Deref(info.TypeOf(rs.X)), named) && !sameExpr(ls.X, rs.X) {
						for _, f := range flags {
							g.copies[f] = true
						}
						inherits = fi
						wholeCopyIn = fi
						return true
					}
				}
			}
			for i, l := range as.Lhs {
				sel, ok := core.Unparen(l).(*ast.SelectorExpr)
				if !ok {
					continue
				}
				fv := core.FieldOf(info, sel)
				if fv == nil || byName[fv.Name()] != fv {
					continue
				}
				if rs, ok := core.Unparen(as.Rhs[i]).(*ast.SelectorExpr); ok && core.FieldOf(info, rs) == fv {
					// a.F = other.F : the wholesale copy
					g.copies[fv] = true
					inherits = fi
					continue
				}
				if fi == wholeCopyIn {
					// a flag re-assigned after the whole copy is not inherited
					delete(g.copies, fv)
				}
				g.defs[fv] = append(g.defs[fv], flagDef{fi: fi, as: as, rhs: as.Rhs[i], recv: exprStr(sel.X), conds: c.conds(fi, as)})
			}
			return true
		})
	}
	// COV-INHERITS
	if inherits == nil {
		c.S.Violate("C20", "COV-INHERITS", "inherits", "-", "no function copies the classification flags from the analysis of the $ref target: a schema that is only a $ref does not classify like its target")
	} else {
		var missing []string
		for _, f := range flags {
			if !g.copies[f] {
				missing = append(missing, f.Name())
			}
		}
		c.S.Decide(len(missing) == 0, "C20", "COV-INHERITS", inherits.QName(), c.P.Pos(inherits.Decl.Pos()),
			fmt.Sprintf("all %d flags are copied from the analysis of the $ref target", len(flags)),
			"flags not copied from the $ref target: "+strings.Join(missing, ", ")+" — a schema that is only a $ref classifies differently from the schema it refers to")
		if len(flags)+nBits < 15 {
			c.S.Undecided("C20", "COV-INHERITS", "floor", "-", fmt.Sprintf("only %d flags (bool members and bits of flag sets) in AnalyzedSchema (expected 17)", len(flags)+nBits))
		}
	}

	// GUARD-SIMPLEDEF
	if f := byName["IsSimpleSchema"]; f != nil {
		ds := g.defs[f]
		ok := len(ds) == 1
		detail := fmt.Sprintf("%d defining assignments of IsSimpleSchema (expected 1)", len(ds))
		if ok {
			got := map[string]bool{}
			okShape := true
			var walk func(e ast.Expr)
			walk = func(e ast.Expr) {
				e = core.Unparen(e)
				if be, isB := e.(*ast.BinaryExpr); isB && be.Op == token.LOR {
					walk(be.X)
					walk(be.Y)
					return
				}
				if sel, isS := e.(*ast.SelectorExpr); isS && exprStr(sel.X) == ds[0].recv {
					got[sel.Sel.Name] = true
					return
				}
				okShape = false
			}
			walk(ds[0].rhs)
			want := []string{"IsKnownType", "IsSimpleArray", "IsSimpleMap"}
			for _, w := range want {
				if !got[w] {
					okShape = false
				}
			}
			if len(got) != len(want) || len(ds[0].conds) != 0 {
				okShape = false
			}
			ok = okShape
			detail = "IsSimpleSchema is defined as " + exprStr(ds[0].rhs) + " (expected exactly IsKnownType || IsSimpleArray || IsSimpleMap, unconditionally)"
		}
		pos := "-"
		if len(ds) > 0 {
			pos = c.P.Pos(ds[0].as.Pos())
		}
		c.S.Decide(ok, "C20", "GUARD-SIMPLEDEF", "IsSimpleSchema", pos, "simple-schema = known-type ∨ simple-array ∨ simple-map, unconditionally", detail)
	}

	// GUARD-FLAGIMPL
	for _, pr := range [][2]string{{"IsSimpleArray", "IsArray"}, {"IsSimpleMap", "IsMap"}} {
		f := byName[pr[0]]
		if f == nil {
			continue
		}
		for i, d := range g.defs[f] {
			info := c.info(d.fi)
			ok := false
			// a constant false store is fine
			if tv, isC := info.Types[d.rhs]; isC && tv.Value != nil && tv.Value.String() == "false" {
				ok = true
			}
			for _, cd := range d.conds {
				if cd.Kind == core.CondBool && !cd.Neg {
					if sel, isS := core.Unparen(cd.Expr).(*ast.SelectorExpr); isS && sel.Sel.Name == pr[1] && exprStr(sel.X) == d.recv {
						ok = true
					}
				}
			}
			c.S.Decide(ok, "C20", "GUARD-FLAGIMPL", fmt.Sprintf("%s=>%s/%s#%d", pr[0], pr[1], d.fi.Name(), i+1), c.P.Pos(d.as.Pos()),
				pr[0]+" is only set where "+pr[1]+" holds",
				pr[0]+" is assigned ("+exprStr(d.rhs)+") on a path where "+pr[1]+" is not known to hold: "+pr[0]+" would no longer imply "+pr[1])
		}
		if len(g.defs[f]) == 0 {
			c.S.Undecided("C20", "GUARD-FLAGIMPL", pr[0], "-", "no defining assignment found")
		}
	}

	// GUARD-EXCL
	for _, pr := range [][2]string{{"IsMap", "IsExtendedObject"}, {"IsTuple", "IsTupleWithExtra"}, {"IsArray", "IsTuple"}} {
		fa, fb := g.formulaOf(byName[pr[0]]), g.formulaOf(byName[pr[1]])
		key := pr[0] + "^" + pr[1]
		if fa == nil || fb == nil {
			c.S.Undecided("C20", "GUARD-EXCL", key, "-", "the defining expression of a flag left the recognised shapes (single assignment of a boolean expression)")
			continue
		}
		atoms := map[string]bool{}
		fa.atoms(atoms)
		fb.atoms(atoms)
		names := make([]string, 0, len(atoms))
		for a := range atoms {
			names = append(names, a)
		}
		sort.Strings(names)
		if len(names) > 16 {
			c.S.Undecided("C20", "GUARD-EXCL", key, "-", fmt.Sprintf("%d atoms: truth table too large", len(names)))
			continue
		}
		var witness string
		for m := 0; m < 1<<len(names); m++ {
			env := map[string]bool{}
			for i, a := range names {
				env[a] = m&(1<<i) != 0
			}
			if fa.eval(env) && fb.eval(env) {
				var tr []string
				for _, a := range names {
					if env[a] {
						tr = append(tr, a)
					}
				}
				witness = strings.Join(tr, " ∧ ")
				break
			}
		}
		c.S.Decide(witness == "", "C20", "GUARD-EXCL", key, "-",
			fmt.Sprintf("mutually exclusive for all %d valuations of %d atoms", 1<<len(names), len(names)),
			pr[0]+" and "+pr[1]+" can both be true, e.g. when "+witness)
	}

	// ORDER: in Schema(), everything that writes a flag other than IsSimpleSchema precedes the call that copies the flags
	g.orderRule(inherits, byName)
}

// formulaOf builds the propositional definition of a flag: path conditions ∧ RHS of its single defining assignment.
func (g *schemaGuards) formulaOf(f *types.Var) *pf {
	if f == nil {
		return nil
	}
	ds := g.defs[f]
	if len(ds) > 1 {
		return g.multiDefFormula(ds, 0)
	}
	if len(ds) != 1 {
		return nil
	}
	return g.defFormula(ds[0], 0)
}

// multiDefFormula: a flag assigned at several places of one function, on paths that exclude each other (a guard
// clause storing constants and returning, then the general case): the flag is the disjunction of (path ∧ value) over
// the stores. The exclusion is checked on the truth table of the path conditions; anything else is not abstracted.
func (g *schemaGuards) multiDefFormula(ds []flagDef, depth int) *pf {
	if len(ds) > 4 {
		return nil
	}
	var conds, vals []*pf
	for _, d := range ds {
		if d.fi != ds[0].fi || d.recv != ds[0].recv {
			return nil
		}
		var cf *pf = &pf{op: 't'}
		for _, cd := range d.conds {
			if cd.Kind != core.CondBool {
				continue
			}
			f := g.exprFormula(d.fi, cd.Expr, d.recv, depth)
			if f == nil {
				return nil
			}
			if cd.Neg {
				f = pNot(f)
			}
			cf = pAnd(cf, f)
		}
		v := g.exprFormula(d.fi, d.rhs, d.recv, depth)
		if v == nil {
			return nil
		}
		conds, vals = append(conds, cf), append(vals, v)
	}
	atoms := map[string]bool{}
	for _, cf := range conds {
		cf.atoms(atoms)
	}
	names := make([]string, 0, len(atoms))
	for a := range atoms {
		names = append(names, a)
	}
	sort.Strings(names)
	if len(names) > 14 {
		return nil
	}
	for m := 0; m < 1<<len(names); m++ {
		env := map[string]bool{}
		for i, a := range names {
			env[a] = m&(1<<i) != 0
		}
		n := 0
		for _, cf := range conds {
			if cf.eval(env) {
				n++
			}
		}
		if n > 1 {
			return nil // two stores on one path: the later one wins, which this abstraction does not order
		}
	}
	var res *pf
	for i := range conds {
		t := pAnd(conds[i], vals[i])
		if res == nil {
			res = t
		} else {
			res = &pf{op: '|', l: res, r: t}
		}
	}
	return res
}

// closedFormula: every atom speaks about the schema under analysis (or is a flag), none about another value.
func closedFormula(f *pf) bool {
	atoms := map[string]bool{}
	f.atoms(atoms)
	for a := range atoms {
		if !strings.HasPrefix(a, "$.") && !strings.HasPrefix(a, "len($.") && !strings.HasPrefix(a, "flag ") {
			return false
		}
	}
	return true
}

func (g *schemaGuards) defFormula(d flagDef, depth int) *pf {
	res := g.exprFormula(d.fi, d.rhs, d.recv, depth)
	if res == nil {
		return nil
	}
	for _, cd := range d.conds {
		if cd.Kind != core.CondBool {
			continue
		}
		cf := g.exprFormula(d.fi, cd.Expr, d.recv, depth)
		if cf == nil {
			return nil
		}
		if cd.Neg {
			cf = pNot(cf)
		}
		res = pAnd(cf, res)
	}
	return res
}

func (g *schemaGuards) exprFormula(fi *core.FuncInfo, e ast.Expr, recv string, depth int) *pf {
	if depth > 6 {
		return &pf{op: 'a', atom: exprStr(e)}
	}
	info := g.c.info(fi)
	e = core.Unparen(e)
	if tv, ok := info.Types[e]; ok && tv.Value != nil {
		if tv.Value.String() == "true" {
			return &pf{op: 't'}
		}
		if tv.Value.String() == "false" {
			return &pf{op: 'f'}
		}
	}
	switch x := e.(type) {
	case *ast.UnaryExpr:
		if x.Op == token.NOT {
			if l := g.exprFormula(fi, x.X, recv, depth); l != nil {
				return pNot(l)
			}
			return nil
		}
	case *ast.BinaryExpr:
		switch x.Op {
		case token.LAND, token.LOR:
			l, r := g.exprFormula(fi, x.X, recv, depth), g.exprFormula(fi, x.Y, recv, depth)
			if l == nil || r == nil {
				return nil
			}
			if x.Op == token.LAND {
				return &pf{op: '&', l: l, r: r}
			}
			return &pf{op: '|', l: l, r: r}
		case token.GTR, token.GEQ, token.LSS, token.LEQ, token.EQL, token.NEQ:
			// len(e) compared with 0 / 1: one atom "len(e) > 0" and its negation, whatever the spelling
			if lc, isCall := core.Unparen(x.X).(*ast.CallExpr); isCall && isBuiltin(info, lc, "len") && len(lc.Args) == 1 {
				if tv, isC := info.Types[x.Y]; isC && tv.Value != nil {
					k := tv.Value.String()
					positive, known := false, false
					switch {
					case k == "0" && (x.Op == token.GTR || x.Op == token.NEQ), k == "1" && x.Op == token.GEQ:
						positive, known = true, true
					case k == "0" && (x.Op == token.EQL || x.Op == token.LEQ), k == "1" && x.Op == token.LSS:
						positive, known = false, true
					}
					if known {
						a := &pf{op: 'a', atom: "len(" + g.canon(fi, lc.Args[0], recv) + ") > 0"}
						if !positive {
							return pNot(a)
						}
						return a
					}
				}
			}
			if x.Op != token.EQL && x.Op != token.NEQ {
				break
			}
			if core.IsNilExpr(info, x.Y) {
				a := &pf{op: 'a', atom: g.canon(fi, x.X, recv) + " != nil"}
				if x.Op == token.EQL {
					return pNot(a)
				}
				return a
			}
			// a.features&mask != 0 with a constant (or substituted) mask
			if fv, maskE, positive, isTest := g.bitTest(info, x); isTest {
				mfi, me := fi, maskE
				if sub, ok := g.subst[core.ObjOf(info, core.Unparen(maskE))]; ok {
					mfi, me = sub.fi, sub.e
				}
				if tv, isC := g.c.info(mfi).Types[me]; isC && tv.Value != nil {
					if mask, exact := constant.Uint64Val(constant.ToInt(tv.Value)); exact {
						if mf := g.maskFormula(fv, mask); mf != nil {
							if !positive {
								return pNot(mf)
							}
							return mf
						}
					}
				}
			}
		}
	case *ast.Ident:
		if sub, ok := g.subst[core.ObjOf(info, x)]; ok {
			return g.exprFormula(sub.fi, sub.e, sub.recv, depth+1)
		}
		// local bool with a single definition
		if o := core.ObjOf(info, x); o != nil && core.IsBool(o.Type()) {
			defs := g.c.P.Locals(fi).Defs[o]
			if len(defs) == 1 && defs[0].Kind == core.DefAssign {
				return g.exprFormula(fi, defs[0].Expr, recv, depth+1)
			}
		}
	case *ast.SelectorExpr:
		if fv := core.FieldOf(info, x); fv != nil && core.IsBool(fv.Type()) && exprStr(x.X) == recv {
			if ds := g.defs[fv]; len(ds) == 1 {
				sub := g.defFormula(ds[0], depth+1)
				if sub != nil {
					return sub
				}
			} else if len(ds) > 1 && !g.busy[fv] {
				if g.busy == nil {
					g.busy = map[*types.Var]bool{}
				}
				g.busy[fv] = true
				sub := g.multiDefFormula(ds, depth+1)
				delete(g.busy, fv)
				if sub != nil && closedFormula(sub) {
					return sub
				}
			}
			return &pf{op: 'a', atom: "flag " + fv.Name()}
		}
	case *ast.CallExpr:
		// allowsOrDescribes(sch.AdditionalItems): expand a single-return boolean helper function, its parameters
		// standing for the arguments
		if _, isSel := core.Unparen(x.Fun).(*ast.SelectorExpr); !isSel {
			if callee := g.c.P.StaticCallee(fi, x); callee != nil {
				if cf := g.c.P.Funcs[callee]; cf != nil && cf.Decl.Recv == nil && cf.Decl.Body != nil && returnsOneBool(callee) {
					{
						sig := callee.Type().(*types.Signature)
						if g.subst == nil {
							g.subst = map[types.Object]substArg{}
						}
						var bound []types.Object
						for i := 0; i < sig.Params().Len() && i < len(x.Args); i++ {
							po := sig.Params().At(i)
							if _, busy := g.subst[po]; busy {
								continue // recursion: leave the inner occurrence opaque
							}
							g.subst[po] = substArg{fi, x.Args[i], recv}
							bound = append(bound, po)
						}
						res := g.bodyFormula(cf, "", depth+1)
						for _, po := range bound {
							delete(g.subst, po)
						}
						if res != nil {
							return res
						}
					}
				}
			}
		}
		// a.has(mask): a single-return boolean method of the same receiver with parameters standing for the arguments
		if sel, ok := x.Fun.(*ast.SelectorExpr); ok && exprStr(sel.X) == recv && len(x.Args) > 0 {
			if callee := g.c.P.StaticCallee(fi, x); callee != nil {
				if cf := g.c.P.Funcs[callee]; cf != nil && cf.Decl.Body != nil && cf.Decl.Recv != nil && returnsOneBool(callee) {
					{
						sig := callee.Type().(*types.Signature)
						if g.subst == nil {
							g.subst = map[types.Object]substArg{}
						}
						var bound []types.Object
						for i := 0; i < sig.Params().Len() && i < len(x.Args); i++ {
							po := sig.Params().At(i)
							if _, busy := g.subst[po]; busy {
								continue
							}
							g.subst[po] = substArg{fi, x.Args[i], recv}
							bound = append(bound, po)
						}
						crecv := ""
						if len(cf.Decl.Recv.List[0].Names) == 1 {
							crecv = cf.Decl.Recv.List[0].Names[0].Name
						}
						res := g.bodyFormula(cf, crecv, depth+1)
						for _, po := range bound {
							delete(g.subst, po)
						}
						if res != nil {
							return res
						}
					}
				}
			}
		}
		// a.isObjectType(): expand a single-return boolean method of the same receiver
		if sel, ok := x.Fun.(*ast.SelectorExpr); ok && exprStr(sel.X) == recv && len(x.Args) == 0 {
			if callee := g.c.P.StaticCallee(fi, x); callee != nil {
				if cf := g.c.P.Funcs[callee]; cf != nil && cf.Decl.Body != nil && returnsOneBool(callee) {
					crecv := ""
					if cf.Decl.Recv != nil && len(cf.Decl.Recv.List[0].Names) == 1 {
						crecv = cf.Decl.Recv.List[0].Names[0].Name
					}
					if res := g.bodyFormula(cf, crecv, depth+1); res != nil {
						return res
					}
				}
			}
		}
	}
	return &pf{op: 'a', atom: g.canon(fi, e, recv)}
}

func returnsOneBool(f *types.Func) bool {
	sig, ok := f.Type().(*types.Signature)
	return ok && sig.Results().Len() == 1 && core.IsBool(sig.Results().At(0).Type())
}

// bodyFormula abstracts the body of a boolean helper: a sequence of guard clauses `if c { return v }`, definitions
// of locals (resolved where they are used), searches `for _, x := range [...]T{e1, …} { if c(x) { return v } }` over
// a literal list, and a final `return w` — as the chain ite(c1, v1, ite(c2, v2, … w)). Anything else: nil (opaque).
func (g *schemaGuards) bodyFormula(cf *core.FuncInfo, crecv string, depth int) *pf {
	stmts := cf.Decl.Body.List
	info := g.c.info(cf)
	ite := func(c, v, rest *pf) *pf {
		if c == nil || v == nil || rest == nil {
			return nil
		}
		return &pf{op: '|', l: pAnd(c, v), r: pAnd(pNot(c), rest)}
	}
	guardClause := func(st ast.Stmt) (cond, val ast.Expr, ok bool) {
		ifs, isIf := st.(*ast.IfStmt)
		if !isIf || ifs.Init != nil || ifs.Else != nil || len(ifs.Body.List) != 1 {
			return nil, nil, false
		}
		ret, isRet := ifs.Body.List[0].(*ast.ReturnStmt)
		if !isRet || len(ret.Results) != 1 {
			return nil, nil, false
		}
		return ifs.Cond, ret.Results[0], true
	}
	var build func(i int) *pf
	build = func(i int) *pf {
		if i >= len(stmts) {
			return nil
		}
		switch st := stmts[i].(type) {
		case *ast.ReturnStmt:
			if len(st.Results) != 1 {
				return nil
			}
			return g.exprFormula(cf, st.Results[0], crecv, depth)
		case *ast.AssignStmt:
			if st.Tok != token.DEFINE {
				return nil
			}
			for _, l := range st.Lhs {
				if o := core.ObjOf(info, l); o == nil || len(g.c.P.Locals(cf).Defs[o]) != 1 {
					return nil
				}
			}
			return build(i + 1)
		case *ast.IfStmt:
			cond, val, ok := guardClause(st)
			if !ok {
				return nil
			}
			return ite(g.exprFormula(cf, cond, crecv, depth), g.exprFormula(cf, val, crecv, depth), build(i+1))
		case *ast.RangeStmt:
			lit, isLit := core.Unparen(st.X).(*ast.CompositeLit)
			val, isId := st.Value.(*ast.Ident)
			if !isLit || !isId || st.Tok != token.DEFINE || len(st.Body.List) != 1 || len(lit.Elts) == 0 || len(lit.Elts) > 16 {
				return nil
			}
			if k, isK := st.Key.(*ast.Ident); st.Key != nil && (!isK || k.Name != "_") {
				return nil
			}
			cond, ret, ok := guardClause(st.Body.List[0])
			vo := info.Defs[val]
			if !ok || vo == nil {
				return nil
			}
			rest := build(i + 1)
			if g.subst == nil {
				g.subst = map[types.Object]substArg{}
			}
			for k := len(lit.Elts) - 1; k >= 0; k-- {
				if _, isKV := lit.Elts[k].(*ast.KeyValueExpr); isKV {
					return nil
				}
				g.subst[vo] = substArg{cf, lit.Elts[k], crecv}
				rest = ite(g.exprFormula(cf, cond, crecv, depth), g.exprFormula(cf, ret, crecv, depth), rest)
				delete(g.subst, vo)
			}
			return rest
		}
		return nil
	}
	return build(0)
}

// canon renders an expression with local aliases of receiver-rooted paths resolved, so that atoms from
// different methods (and from code using local aliases) unify: `items != nil` with items := a.schema.Items
// becomes "$.schema.Items != nil".
func (g *schemaGuards) canon(fi *core.FuncInfo, e ast.Expr, recv string) string {
	info := g.c.info(fi)
	e = core.Unparen(e)
	if id, isId := e.(*ast.Ident); isId {
		if sub, ok := g.subst[core.ObjOf(info, id)]; ok {
			return g.canon(sub.fi, sub.e, sub.recv)
		}
	}
	if p := g.c.P.PathOf(fi, e, true); p != nil && p.Root != nil {
		if id, ok := rootOfRecv(fi); ok && p.Root == info.Defs[id] {
			return "$" + p.StepsString()
		}
		// a parameter of a helper being expanded stands for the caller's argument
		if sub, ok := g.subst[p.Root]; ok {
			return g.canon(sub.fi, sub.e, sub.recv) + p.StepsString()
		}
	}
	switch x := e.(type) {
	case *ast.CallExpr:
		var args []string
		for _, a := range x.Args {
			args = append(args, g.canon(fi, a, recv))
		}
		if sel, ok := core.Unparen(x.Fun).(*ast.SelectorExpr); ok {
			if _, isSel := info.Selections[sel]; isSel {
				return g.canon(fi, sel.X, recv) + "." + sel.Sel.Name + "(" + strings.Join(args, ",") + ")"
			}
		}
		return exprStr(x.Fun) + "(" + strings.Join(args, ",") + ")"
	case *ast.BinaryExpr:
		return g.canon(fi, x.X, recv) + " " + x.Op.String() + " " + g.canon(fi, x.Y, recv)
	case *ast.SelectorExpr:
		if _, isSel := info.Selections[x]; isSel {
			return g.canon(fi, x.X, recv) + "." + x.Sel.Name
		}
	}
	return normRecv(exprStr(e), recv)
}

func rootOfRecv(fi *core.FuncInfo) (*ast.Ident, bool) {
	if fi.Decl.Recv == nil || len(fi.Decl.Recv.List) != 1 || len(fi.Decl.Recv.List[0].Names) != 1 {
		return nil, false
	}
	return fi.Decl.Recv.List[0].Names[0], true
}

// normRecv rewrites the receiver name to a canonical one so that atoms from different methods unify.
func normRecv(s, recv string) string {
	if recv == "" {
		return s
	}
	return strings.ReplaceAll(" "+s, " "+recv+".", " $.")[1:]
}

func (g *schemaGuards) orderRule(inherits *core.FuncInfo, byName map[string]*types.Var) {
	c := g.c
	schemaFn := c.root("Schema")
	if schemaFn == nil || inherits == nil {
		return
	}
	e := effects(c)
	reachesInherits := func(fi *core.FuncInfo) bool { return c.P.Reachable(fi)[inherits] }
	var copyCall *core.SeqCall
	type fc struct {
		at     core.SeqCall
		callee *core.FuncInfo
	}
	var seq []fc
	sequenceOf := func(fn *core.FuncInfo) {
		seq, copyCall = nil, nil
		// calls in execution order; a loop over a table of steps is expanded to the steps in table order
		for _, sc := range c.P.CallSequence(fn) {
			sc := sc
			if c.P.Funcs[sc.Callee] == nil {
				continue
			}
			cf := c.P.Funcs[sc.Callee]
			seq = append(seq, fc{sc, cf})
			if cf != schemaFn && reachesInherits(cf) && !c.P.Reachable(cf)[schemaFn] || cf == inherits {
				copyCall = &sc
			}
		}
		// the call that copies: the one whose callee reaches inherits directly (inferFromRef)
		for i := range seq {
			for _, cs := range c.P.CG().Out[seq[i].callee.Obj] {
				if cs.Callee == inherits.Obj {
					copyCall = &seq[i].at
				}
			}
		}
	}
	sequenceOf(schemaFn)
	if copyCall == nil {
		// the steps may live in a method the constructor delegates to (Schema -> a.analyze())
		first := append([]fc{}, seq...)
		for _, s := range first {
			if s.callee == schemaFn {
				continue
			}
			sequenceOf(s.callee)
			if copyCall != nil {
				break
			}
		}
	}
	if copyCall == nil {
		c.S.Undecided("C20", "GUARD-COPYORDER", "Schema", "-", "cannot find the call in Schema() that copies the flags of the $ref target")
		return
	}
	var late, lateNonSimple []string
	for _, s := range seq {
		flagsWritten := map[string]bool{}
		for _, w := range e.sortedWrites(s.callee) {
			if w.root != "param" || w.param != -1 || len(w.via) > 0 && w.fn == inherits {
				continue
			}
			if w.fn == inherits {
				continue
			}
			if fv := w.finalField(); fv != nil && byName[fv.Name()] == fv {
				flagsWritten[fv.Name()] = true
			}
		}
		if len(flagsWritten) == 0 {
			continue
		}
		if copyCall.Before(s.at) {
			for fl := range flagsWritten {
				late = append(late, s.callee.Obj.Name()+" writes "+fl)
				if fl != "IsSimpleSchema" {
					lateNonSimple = append(lateNonSimple, s.callee.Obj.Name()+" writes "+fl)
				}
			}
		}
	}
	sort.Strings(lateNonSimple)
	c.S.Decide(len(lateNonSimple) == 0 && len(late) >= 1, "C20", "GUARD-COPYORDER", "Schema", c.P.Pos(copyCall.Call.Pos()),
		"after the flags are copied from the $ref target only the simple-schema recomputation runs ("+strings.Join(late, ", ")+")",
		"after the flags are copied from the $ref target, "+strings.Join(lateNonSimple, "; ")+" (or the simple-schema recomputation is missing): a $ref no longer classifies like its target, and flag-guarded dereferences run on copied flags")
}

func init() {
	register(Rule{
		Name:  "GUARD-DOCRULES",
		Props: []string{"C20", "C03"},
		Doc:   "the documented complexity rules hold for the flags' defining expressions: objects with properties, allOf compositions and tuples are complex; primitives, arrays, maps and empty objects are not (truth-table evaluation on characteristic valuations)",
		Run:   guardDocRules,
	})
}

type docRule struct {
	name    string
	trues   []string // regular-expression-free patterns: canonical atom must contain all space-separated parts
	complex bool
}

// characteristic schemas, as the set of atoms that are true (every other atom of the defining expressions is false)
var docRules = []docRule{
	{"empty object", nil, false},
	{"object with properties", []string{"len($.schema.Properties)"}, true},
	{"object with properties and additionalProperties", []string{"len($.schema.Properties)", "$.schema.AdditionalProperties != nil", "$.schema.AdditionalProperties.Allows"}, true},
	{"allOf composition", []string{"len($.schema.AllOf)"}, true},
	{"allOf composition with additionalProperties", []string{"len($.schema.AllOf)", "$.schema.AdditionalProperties != nil", "$.schema.AdditionalProperties.Allows"}, true},
	{"allOf composition with additionalProperties schema", []string{"len($.schema.AllOf)", "$.schema.AdditionalProperties != nil", "$.schema.AdditionalProperties.Schema != nil"}, true},
	{"map (additionalProperties: true)", []string{"$.schema.AdditionalProperties != nil", "$.schema.AdditionalProperties.Allows"}, false},
	{"map of schemas", []string{"$.schema.AdditionalProperties != nil", "$.schema.AdditionalProperties.Schema != nil"}, false},
	{"string", []string{"$.schema.Type != nil", "len($.schema.Type)", `$.schema.Type.Contains("string")`}, false},
	{"integer", []string{"$.schema.Type != nil", "len($.schema.Type)", `$.schema.Type.Contains("integer")`}, false},
	{"array of schemas", []string{"$.schema.Type != nil", "len($.schema.Type)", `$.schema.Type.Contains("array")`, "$.schema.Items != nil", "$.schema.Items.Schema != nil"}, false},
	{"array without items", []string{"$.schema.Type != nil", "len($.schema.Type)", `$.schema.Type.Contains("array")`}, false},
	{"tuple", []string{"$.schema.Type != nil", "len($.schema.Type)", `$.schema.Type.Contains("array")`, "$.schema.Items != nil", "$.schema.Items.Schemas != nil", "len($.schema.Items.Schemas)"}, true},
	{"tuple with additionalItems", []string{"$.schema.Type != nil", "len($.schema.Type)", `$.schema.Type.Contains("array")`, "$.schema.Items != nil", "$.schema.Items.Schemas != nil", "len($.schema.Items.Schemas)", "$.schema.AdditionalItems != nil", "$.schema.AdditionalItems.Allows"}, true},
}

func guardDocRules(c *Ctx) {
	o := c.P.Pkg("").Types.Scope().Lookup("AnalyzedSchema")
	cx := c.complexFn()
	if o == nil || cx == nil || len(cx.Decl.Body.List) != 1 {
		c.S.Undecided("C20", "GUARD-DOCRULES", "anchor", "-", "AnalyzedSchema / isAnalyzedAsComplex not found in the expected form")
		return
	}
	ret, ok := cx.Decl.Body.List[0].(*ast.ReturnStmt)
	if !ok || len(ret.Results) != 1 {
		c.S.Undecided("C20", "GUARD-DOCRULES", "anchor", "-", "isAnalyzedAsComplex is not a single-return predicate")
		return
	}
	named := o.Type().(*types.Named)
	st := named.Underlying().(*types.Struct)
	g := &schemaGuards{c: c, st: st, named: named, defs: map[*types.Var][]flagDef{}, copies: map[*types.Var]bool{}}
	byName := map[string]*types.Var{}
	for i := 0; i < st.NumFields(); i++ {
		if core.IsBool(st.Field(i).Type()) {
			byName[st.Field(i).Name()] = st.Field(i)
		}
	}
	for _, fi := range c.P.SortedFuncs() {
		if fi.Pkg.PkgPath != core.ModPath {
			continue
		}
		info := c.info(fi)
		ast.Inspect(fi.Decl.Body, func(n ast.Node) bool {
			as, ok := n.(*ast.AssignStmt)
			if !ok || len(as.Lhs) != len(as.Rhs) {
				return true
			}
			for i, l := range as.Lhs {
				sel, ok := core.Unparen(l).(*ast.SelectorExpr)
				if !ok {
					continue
				}
				fv := core.FieldOf(info, sel)
				if fv == nil || byName[fv.Name()] != fv {
					continue
				}
				if rs, ok := core.Unparen(as.Rhs[i]).(*ast.SelectorExpr); ok && core.FieldOf(info, rs) == fv {
					continue
				}
				g.defs[fv] = append(g.defs[fv], flagDef{fi: fi, as: as, rhs: as.Rhs[i], recv: exprStr(sel.X), conds: c.conds(fi, as)})
			}
			return true
		})
	}
	recv := cx.Decl.Recv.List[0].Names[0].Name
	f := g.exprFormula(cx, ret.Results[0], recv, 0)
	if f == nil {
		c.S.Undecided("C20", "GUARD-DOCRULES", "formula", "-", "cannot abstract isAnalyzedAsComplex")
		return
	}
	// axioms from GUARD-FLAGIMPL: a multi-definition flag implies its base flag
	axioms := map[string]*pf{}
	for _, pr := range [][2]string{{"IsSimpleArray", "IsArray"}, {"IsSimpleMap", "IsMap"}} {
		if bf := g.formulaOf(byName[pr[1]]); bf != nil {
			axioms["flag "+pr[0]] = bf
		}
	}
	if os.Getenv("VERIF_DEBUG") == "doc" {
		fmt.Fprintf(os.Stderr, "DOC-DEBUG complex = %s\n", f.String())
		for _, n := range []string{"IsMap", "IsExtendedObject", "IsArray", "IsTuple", "IsTupleWithExtra", "IsKnownType"} {
			if ff := g.formulaOf(byName[n]); ff != nil {
				fmt.Fprintf(os.Stderr, "DOC-DEBUG %s = %s\n", n, ff.String())
			} else {
				fmt.Fprintf(os.Stderr, "DOC-DEBUG %s = <none> (%d defs)\n", n, len(g.defs[byName[n]]))
			}
		}
	}
	atoms := map[string]bool{}
	f.atoms(atoms)
	for _, a := range axioms {
		a.atoms(atoms)
	}
	var names, flagAtoms []string
	for a := range atoms {
		if strings.HasPrefix(a, "flag ") {
			flagAtoms = append(flagAtoms, a)
		} else {
			names = append(names, a)
		}
	}
	sort.Strings(names)
	sort.Strings(flagAtoms)
	if len(flagAtoms) > 6 {
		c.S.Undecided("C20", "GUARD-DOCRULES", "formula", "-", "too many unexpanded flags")
		return
	}
	decided := 0
	for _, r := range docRules {
		env := map[string]bool{}
		missing := ""
		for _, want := range r.trues {
			found := false
			for _, a := range names {
				if a == want || strings.HasPrefix(a, want+" >") || strings.HasPrefix(a, want+" !=") {
					// "len(x) > 0", "len(x) >= 1", "len(x) != 0" all say non-empty
					env[a] = true
					found = true
				}
			}
			if !found {
				missing = want
			}
		}
		if missing != "" {
			// the defining expressions do not look at that fact at all: the classification cannot depend on it.
			// The rule is still evaluated (the missing atom plays no part); it counts towards the floor only when
			// every atom was found, so that a re-spelling the abstraction does not follow fails as undecided
			// rather than passing on too few rules
			c.S.Note("GUARD-DOCRULES: rule %q evaluated without %s, which does not occur in the defining expressions", r.name, missing)
		} else {
			decided++
		}
		okAll := true
		for m := 0; m < 1<<len(flagAtoms); m++ {
			e2 := map[string]bool{}
			for k, v := range env {
				e2[k] = v
			}
			consistent := true
			for i, fa := range flagAtoms {
				e2[fa] = m&(1<<i) != 0
			}
			for fa, base := range axioms {
				if e2[fa] && !base.eval(e2) {
					consistent = false
				}
			}
			if !consistent {
				continue
			}
			if f.eval(e2) != r.complex {
				okAll = false
			}
		}
		word := map[bool]string{true: "complex", false: "not complex"}
		for _, prop := range []string{"C20", "C03"} {
			c.S.Decide(okAll, prop, "GUARD-DOCRULES", r.name, c.P.Pos(cx.Decl.Pos()),
				"classified as "+word[r.complex]+" by the flags' defining expressions",
				"a schema that is "+r.name+" is classified as "+word[!r.complex]+" by the flags' defining expressions (documented: "+word[r.complex]+")"+missingNote(missing))
		}
	}
	if decided < 8 {
		c.S.Undecided("C20", "GUARD-DOCRULES", "floor", "-", fmt.Sprintf("only %d of %d documented rules could be matched to atoms of the defining expressions", decided, len(docRules)))
	}
	// the same for the individual flags the complexity rule is made of: what a map, a known type and an extended
	// object are, at characteristic valuations
	for _, r := range docFlagRules {
		fv := byName[r.flag]
		ff := g.formulaOf(fv)
		if fv == nil || ff == nil {
			c.S.Note("GUARD-DOCRULES: flag %s has no single defining expression; rule %q not evaluated", r.flag, r.name)
			continue
		}
		fa := map[string]bool{}
		ff.atoms(fa)
		env := map[string]bool{}
		var free []string
		for a := range fa {
			if strings.HasPrefix(a, "flag ") {
				free = append(free, a)
				continue
			}
			for _, want := range r.trues {
				if a == want || strings.HasPrefix(a, want+" >") || strings.HasPrefix(a, want+" !=") {
					env[a] = true
				}
			}
		}
		sort.Strings(free)
		if len(free) > 6 {
			continue
		}
		okAll := true
		for m := 0; m < 1<<len(free); m++ {
			e2 := map[string]bool{}
			for k, v := range env {
				e2[k] = v
			}
			for i, a := range free {
				e2[a] = m&(1<<i) != 0
			}
			if ff.eval(e2) != r.expect {
				okAll = false
			}
		}
		c.S.Decide(okAll, "C20", "GUARD-DOCRULES", r.flag+"/"+r.name, c.P.Pos(fv.Pos()),
			fmt.Sprintf("%s is %v for %s", r.flag, r.expect, r.name),
			fmt.Sprintf("the defining expression of %s yields %v for a schema that is %s (documented: %v): schemas of that shape are classified differently from what the rules say, and so is everything that contains them", r.flag, !r.expect, r.name, r.expect))
	}
}

// docFlagRules: characteristic valuations for the flags behind the complexity rule. `trues` lists the facts of the
// schema that hold (all others are false).
var docFlagRules = []struct {
	name   string
	trues  []string
	flag   string
	expect bool
}{
	{"an empty object closed by additionalProperties: false", []string{"$.schema.AdditionalProperties != nil"}, "IsMap", false},
	{"an empty object closed by additionalProperties: false", []string{"$.schema.AdditionalProperties != nil"}, "IsExtendedObject", false},
	{"an object with properties closed by additionalProperties: false", []string{"len($.schema.Properties)", "$.schema.AdditionalProperties != nil"}, "IsExtendedObject", false},
	{"an object with properties closed by additionalProperties: false", []string{"len($.schema.Properties)", "$.schema.AdditionalProperties != nil"}, "IsMap", false},
	{"a map (additionalProperties: true)", []string{"$.schema.AdditionalProperties != nil", "$.schema.AdditionalProperties.Allows"}, "IsMap", true},
	{"a map of schemas", []string{"$.schema.AdditionalProperties != nil", "$.schema.AdditionalProperties.Schema != nil"}, "IsMap", true},
	{"an object with properties and additionalProperties: true", []string{"len($.schema.Properties)", "$.schema.AdditionalProperties != nil", "$.schema.AdditionalProperties.Allows"}, "IsExtendedObject", true},
	{"an object with properties and additionalProperties: true", []string{"len($.schema.Properties)", "$.schema.AdditionalProperties != nil", "$.schema.AdditionalProperties.Allows"}, "IsMap", false},
	{"an allOf composition with additionalProperties: true", []string{"len($.schema.AllOf)", "$.schema.AdditionalProperties != nil", "$.schema.AdditionalProperties.Allows"}, "IsMap", false},
	{"an object with properties only", []string{"len($.schema.Properties)"}, "IsMap", false},
	{"an object with properties only", []string{"len($.schema.Properties)"}, "IsExtendedObject", false},
}

func missingNote(atom string) string {
	if atom == "" {
		return ""
	}
	return "; the defining expressions never look at " + atom
}
