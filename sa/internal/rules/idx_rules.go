package rules

// Rules over the events of indexeval: every index the analyzer builds is
// complete (every position of the document model, read from go/types),
// keyed by the JSON pointer of the owner of what it registers, guarded only
// by the non-emptiness of what it registers, mirrored in the "all" view and
// exposed by the matching getter.

import (
	"fmt"
	"go/ast"
	"go/types"
	"sort"
	"strings"

	"verif/sa/internal/core"
)

func init() {
	register(Rule{
		Name:  "IDX",
		Props: []string{"C11", "C12", "C13", "C14"},
		Doc:   "abstract evaluation of the index-building code: coverage of every model position, key = JSON pointer of owner, guards, all-views, getters",
		Run:   idxRules,
	})
}

var getterSem = map[string][]string{
	"ParameterPatterns":       {"Parameter.Pattern"},
	"HeaderPatterns":          {"Header.Pattern"},
	"ItemsPatterns":           {"Items.Pattern"},
	"SchemaPatterns":          {"Schema.Pattern"},
	"AllPatterns":             {"Header.Pattern", "Items.Pattern", "Parameter.Pattern", "Schema.Pattern"},
	"ParameterEnums":          {"Parameter.Enum"},
	"HeaderEnums":             {"Header.Enum"},
	"ItemsEnums":              {"Items.Enum"},
	"SchemaEnums":             {"Schema.Enum"},
	"AllEnums":                {"Header.Enum", "Items.Enum", "Parameter.Enum", "Schema.Enum"},
	"AllDefinitionReferences": {"Schema.Ref"},
	"AllParameterReferences":  {"Parameter.Ref"},
	"AllResponseReferences":   {"Response.Ref"},
	"AllPathItemReferences":   {"PathItem.Ref"},
	"AllItemsReferences":      {"Items.Ref"},
	"AllReferences":           {"Items.Ref", "Parameter.Ref", "PathItem.Ref", "Response.Ref", "Schema.Ref"},
	"AllRefs":                 {"Items.Ref", "Parameter.Ref", "PathItem.Ref", "Response.Ref", "Schema.Ref"},
	"AllDefinitions":          {"Schema.Reg"},
	"SchemasWithAllOf":        {"Schema.AllOfReg"},
	"Operations":              {"Operation.Index"},
	"RequiredConsumes":        {"Media.Consumes"},
	"RequiredProduces":        {"Media.Produces"},
	"RequiredSecuritySchemes": {"Security.Scheme"},
}

func propForSem(sem string) string {
	switch {
	case strings.HasSuffix(sem, ".Pattern"), strings.HasSuffix(sem, ".Enum"):
		return "C13"
	case strings.HasSuffix(sem, ".Ref"):
		return "C11"
	case strings.HasPrefix(sem, "Schema."):
		return "C12"
	}
	return "C14"
}

type evInfo struct {
	ev     *event
	sem    string // Kind.Facet
	owner  []pstep
	shape  string // owner shape
	cshape string // collapsed (method abstracted)
	method string
}

func ownerKind(doc []pstep) string {
	if len(doc) == 0 {
		return "Swagger"
	}
	_, n := core.NamedOf(doc[len(doc)-1].typ)
	return n
}

func collapseShape(shape string, methods []string) (string, string) {
	const pfx = "Paths.Paths[*]."
	if !strings.HasPrefix(shape, pfx) {
		return shape, ""
	}
	rest := shape[len(pfx):]
	seg := rest
	tail := ""
	if i := strings.IndexAny(rest, ".["); i >= 0 {
		seg, tail = rest[:i], rest[i:]
	}
	if inSet(methods, seg) {
		return pfx + "{M}" + tail, seg
	}
	return shape, ""
}

func classify(ev *event, methods []string) *evInfo {
	ei := &evInfo{ev: ev}
	v := ev.val
	switch {
	case v != nil && v.k == avDoc && len(v.doc) > 0 && !v.doc[len(v.doc)-1].index &&
		inSet([]string{"Pattern", "Enum", "Ref"}, v.doc[len(v.doc)-1].name):
		ei.owner = v.doc[:len(v.doc)-1]
		ei.sem = ownerKind(ei.owner) + "." + v.doc[len(v.doc)-1].name
	case v != nil && v.k == avStruct && v.fields["Schema"] != nil && v.fields["Schema"].k == avDoc:
		ei.owner = v.fields["Schema"].doc
		ei.sem = "Schema.Reg"
	case v != nil && v.k == avDoc && ownerKind(v.doc) == "Operation" && len(ev.keys) == 2:
		ei.owner = v.doc
		ei.sem = "Operation.Index"
	case len(ev.keys) == 1 && ev.keys[0].k == avDoc && len(ev.keys[0].doc) >= 2 && ev.keys[0].doc[len(ev.keys[0].doc)-1].index:
		d := ev.keys[0].doc
		switch d[len(d)-2].name {
		case "Consumes":
			ei.sem = "Media.Consumes"
		case "Produces":
			ei.sem = "Media.Produces"
		default:
			return nil
		}
		ei.owner = d[:len(d)-2]
	default:
		return nil
	}
	ei.shape = docString(ei.owner)
	ei.cshape, ei.method = collapseShape(ei.shape, methods)
	return ei
}

// getterField returns the unique module map field read by an exported *Spec method.
func getterField(c *Ctx, name string) (*types.Var, *core.FuncInfo) {
	fi := c.root("Spec." + name)
	if fi == nil {
		return nil, nil
	}
	info := c.info(fi)
	var found []*types.Var
	ast.Inspect(fi.Decl.Body, func(n ast.Node) bool {
		sel, ok := n.(*ast.SelectorExpr)
		if !ok {
			return true
		}
		fv := core.FieldOf(info, sel)
		if fv == nil || fv.Pkg() == nil || fv.Pkg().Path() != core.ModPath || !core.IsMap(fv.Type()) {
			return true
		}
		for _, f := range found {
			if f == fv {
				return true
			}
		}
		found = append(found, fv)
		return true
	})
	if len(found) != 1 {
		return nil, fi
	}
	return found[0], fi
}

func sameToks(a, b []string) bool {
	if len(a) != len(b) {
		return false
	}
	for i := range a {
		if a[i] != b[i] {
			return false
		}
	}
	return true
}

// onlyEscapeDiffers: token lists agree except {raw:Ln} where {esc:Ln} is expected.
func onlyEscapeDiffers(got, want []string) bool {
	if len(got) != len(want) {
		return false
	}
	diff := false
	for i := range got {
		if got[i] == want[i] {
			continue
		}
		if strings.HasPrefix(want[i], "{esc:") && got[i] == "{raw:"+want[i][5:] {
			diff = true
			continue
		}
		return false
	}
	return diff
}

func idxRules(c *Ctx) {
	in, newFn := runIndexEval(c)
	if in == nil || newFn == nil {
		c.S.Undecided("C11", "IDX", "anchor/New", "-", "analysis.New not found")
		return
	}
	methods, mtags := c.P.Methods()
	// classify events
	var infos []*evInfo
	byField := map[*types.Var][]*evInfo{}
	for i := range in.events {
		ev := &in.events[i]
		ei := classify(ev, methods)
		if ei == nil {
			// security schemes: key is the raw key of a range over a Security[*] map
			if len(ev.keys) == 1 && ev.keys[0].k == avStr && !ev.keys[0].isConst && ev.keys[0].loop > 0 {
				lp := in.loops[ev.keys[0].loop-1].path
				if i := strings.LastIndex(lp, ".Security["); i >= 0 {
					ei = &evInfo{ev: ev, sem: "Security.Scheme"}
					ei.shape = strings.TrimPrefix(loopShape(lp[:i]), ".")
					if ei.shape == "" {
						ei.shape = "<root>"
					}
					ei.cshape, ei.method = collapseShape(ei.shape, methods)
				}
			}
		}
		if ei == nil {
			continue
		}
		infos = append(infos, ei)
		byField[ev.field] = append(byField[ev.field], ei)
	}
	// AllOfReg refinement: a struct-valued field all of whose events are guarded by nonempty(<schema>.AllOf)
	for f, eis := range byField {
		all := len(eis) > 0
		for _, ei := range eis {
			if ei.sem != "Schema.Reg" {
				all = false
				break
			}
			want := docStringLoops(ei.owner) + ".AllOf"
			has := false
			for _, ft := range ei.ev.facts {
				if ft.kind == "nonempty" && ft.path == want {
					has = true
				}
			}
			if !has {
				all = false
				break
			}
		}
		if all {
			for _, ei := range byField[f] {
				ei.sem = "Schema.AllOfReg"
			}
		}
	}
	c.S.Note("IDX: %d store events evaluated from analysis.New, %d classified, %d symbolic loops", len(in.events), len(infos), len(in.loops))
	if len(infos) < 1500 {
		c.S.Undecided("C11", "IDX", "floor/events", "-", fmt.Sprintf("only %d index events could be evaluated (confirmed by hand: >2500); the abstract evaluation lost track of the index-building code", len(infos)))
	}

	// ---- A. getters ------------------------------------------------------
	semOfField := map[*types.Var]map[string]bool{}
	for f, eis := range byField {
		semOfField[f] = map[string]bool{}
		for _, ei := range eis {
			semOfField[f][ei.sem] = true
		}
	}
	fieldFor := map[string]*types.Var{} // sem (single) -> category field
	allFieldFor := map[string]*types.Var{}
	gnames := make([]string, 0, len(getterSem))
	for g := range getterSem {
		gnames = append(gnames, g)
	}
	sort.Strings(gnames)
	for _, g := range gnames {
		want := getterSem[g]
		prop := propForSem(want[0])
		fv, fi := getterField(c, g)
		if fi == nil {
			c.S.Undecided(prop, "IDX-GETTER", g, "-", "exported query method Spec."+g+" not found")
			continue
		}
		if fv == nil {
			c.S.Undecided(prop, "IDX-GETTER", g, c.P.Pos(fi.Decl.Pos()), "cannot identify the single index map read by Spec."+g)
			continue
		}
		var got []string
		for s := range semOfField[fv] {
			got = append(got, s)
		}
		sort.Strings(got)
		ok := sameToks(got, want)
		c.S.Decide(ok, prop, "IDX-GETTER", g, c.P.Pos(fi.Decl.Pos()),
			"reads index "+fv.Name()+" which holds exactly "+strings.Join(want, ","),
			fmt.Sprintf("Spec.%s reads index %q whose registrations are {%s}; expected {%s}", g, fv.Name(), strings.Join(got, ","), strings.Join(want, ",")))
		if len(want) == 1 {
			if _, dup := fieldFor[want[0]]; !dup {
				fieldFor[want[0]] = fv
			}
		} else {
			for _, w := range want {
				if _, dup := allFieldFor[w]; !dup {
					allFieldFor[w] = fv
				}
			}
		}
	}

	// ---- B/D. key and guard per (field, collapsed owner shape) -----------
	type grp struct {
		field  *types.Var
		sem    string
		cshape string
	}
	groups := map[grp][]*evInfo{}
	for _, ei := range infos {
		g := grp{ei.ev.field, ei.sem, ei.cshape}
		groups[g] = append(groups[g], ei)
	}
	gkeys := make([]grp, 0, len(groups))
	for g := range groups {
		gkeys = append(gkeys, g)
	}
	sort.Slice(gkeys, func(i, j int) bool {
		a, b := gkeys[i], gkeys[j]
		if a.field.Name() != b.field.Name() {
			return a.field.Name() < b.field.Name()
		}
		if a.cshape != b.cshape {
			return a.cshape < b.cshape
		}
		return a.sem < b.sem
	})
	for _, g := range gkeys {
		eis := groups[g]
		prop := propForSem(g.sem)
		keyName := g.field.Name() + "@" + g.cshape
		first := eis[0]
		pos := c.P.Pos(first.ev.pos)
		switch {
		case strings.HasPrefix(g.sem, "Media."), g.sem == "Security.Scheme":
			continue
		case g.sem == "Operation.Index":
			idxOps(c, eis, mtags, keyName)
			continue
		}
		var keyBad, guardBad []string
		for _, ei := range eis {
			want := jsonTokens(ei.owner)
			k := ei.ev.keys[0]
			m := ei.method
			if m == "" {
				m = "-"
			}
			switch {
			case k.k != avKey || !known(k):
				keyBad = append(keyBad, fmt.Sprintf("[%s] key %s cannot be evaluated", m, keyString(k)))
			case !k.hash:
				keyBad = append(keyBad, fmt.Sprintf("[%s] key %s lacks the leading '#'", m, keyString(k)))
			case sameToks(k.toks, want):
			case onlyEscapeDiffers(k.toks, want):
				// reported per splice site below (ENC-SPLICE)
			default:
				keyBad = append(keyBad, fmt.Sprintf("[%s] key %s but the owner %s has JSON pointer #/%s", m, keyString(k), ei.shape, strings.Join(want, "/")))
			}
			if msg := guardProblem(ei); msg != "" {
				guardBad = append(guardBad, "["+m+"] "+msg)
			}
			// schema registrations: Ref built from the same key, TopLevel flag
			if ei.sem == "Schema.Reg" || ei.sem == "Schema.AllOfReg" {
				if r := ei.ev.val.fields["Ref"]; r != nil && r.k == avRef && k.k == avKey {
					if !(r.hash == k.hash && sameToks(r.toks, k.toks)) {
						keyBad = append(keyBad, fmt.Sprintf("[%s] SchemaRef.Ref is created from %s but the entry is keyed %s", m, keyString(r), keyString(k)))
					}
				} else if r != nil {
					keyBad = append(keyBad, fmt.Sprintf("[%s] SchemaRef.Ref (%s) is not created from the entry key", m, keyString(r)))
				}
				if s := ei.ev.val.fields["Schema"]; s != nil && s.k == avDoc {
					if tl := ei.ev.val.fields["TopLevel"]; tl != nil && tl.k == avBool {
						isTop := ei.shape == "Definitions[*]"
						if tl.b != isTop {
							keyBad = append(keyBad, fmt.Sprintf("[%s] TopLevel evaluates to %v for a schema at %s", m, tl.b, ei.shape))
						}
					} else if tl != nil {
						keyBad = append(keyBad, fmt.Sprintf("[%s] TopLevel of a schema at %s is not decided by the position alone (it depends on a name of the document or cannot be evaluated)", m, ei.shape))
					}
				}
			}
		}
		uniq := func(xs []string) []string {
			sort.Strings(xs)
			var out []string
			for i, x := range xs {
				if i == 0 || xs[i-1] != x {
					out = append(out, x)
				}
			}
			if len(out) > 2 {
				out = append(out[:2], fmt.Sprintf("… (%d more)", len(out)-2))
			}
			return out
		}
		c.S.Decide(len(keyBad) == 0, prop, "IDX-KEY", keyName, pos,
			fmt.Sprintf("%d registrations keyed by the JSON pointer of their owner", len(eis)), strings.Join(uniq(keyBad), "; "))
		c.S.Decide(len(guardBad) == 0, prop, "IDX-GUARD", keyName, pos,
			"registered exactly when the registered value is non-empty", strings.Join(uniq(guardBad), "; "))
	}

	// ---- ENC-SPLICE: per symbolic loop whose string key is spliced into index keys ----
	type spl struct {
		esc, raw int
		props    map[string]bool
		example  string
	}
	splices := map[string]*spl{}
	var splOrder []string
	for _, ei := range infos {
		if len(ei.ev.keys) == 0 || ei.ev.keys[0].k != avKey {
			continue
		}
		for _, t := range ei.ev.keys[0].toks {
			var id int
			var raw bool
			if n, _ := fmt.Sscanf(t, "{esc:L%d}", &id); n == 1 {
			} else if n, _ := fmt.Sscanf(t, "{raw:L%d}", &id); n == 1 {
				raw = true
			} else {
				continue
			}
			li := in.loops[id-1]
			k := li.fn.QName() + "/range " + li.expr
			if splices[k] == nil {
				splices[k] = &spl{props: map[string]bool{}}
				splOrder = append(splOrder, k)
			}
			sp := splices[k]
			sp.props[propForSem(ei.sem)] = true
			if raw {
				sp.raw++
				if sp.example == "" {
					sp.example = keyString(ei.ev.keys[0]) + " registered in " + ei.ev.field.Name() + " at " + c.P.Pos(li.pos)
				}
			} else {
				sp.esc++
			}
		}
	}
	sort.Strings(splOrder)
	for _, k := range splOrder {
		sp := splices[k]
		for _, prop := range []string{"C11", "C12", "C13"} {
			if !sp.props[prop] {
				continue
			}
			c.S.Decide(sp.raw == 0, prop, "ENC-SPLICE", k, "-",
				fmt.Sprintf("the map key is pointer-escaped in all %d index keys built from it", sp.esc),
				fmt.Sprintf("the raw map key is spliced unescaped into %d index keys (e.g. %s): a name containing '/' or '~' yields a pointer that designates another owner or nothing", sp.raw, sp.example))
		}
	}

	// ---- C. coverage of the model positions -------------------------------
	type facetReq struct {
		facet string
		sem   string
	}
	reqs := map[string][]facetReq{
		"Parameter": {{"Ref", "Parameter.Ref"}, {"Pattern", "Parameter.Pattern"}, {"Enum", "Parameter.Enum"}},
		"Header":    {{"Pattern", "Header.Pattern"}, {"Enum", "Header.Enum"}},
		"Response":  {{"Ref", "Response.Ref"}},
		"Items":     {{"Ref", "Items.Ref"}, {"Pattern", "Items.Pattern"}, {"Enum", "Items.Enum"}},
		"PathItem":  {{"Ref", "PathItem.Ref"}},
		"Schema":    {{"Reg", "Schema.Reg"}, {"Ref", "Schema.Ref"}, {"Pattern", "Schema.Pattern"}, {"Enum", "Schema.Enum"}, {"AllOfReg", "Schema.AllOfReg"}},
		"Operation": {{"Index", "Operation.Index"}},
	}
	exemptCover := map[string]string{
		"Parameters[*]/Ref": "a shared parameter that is itself a $ref is outside C11's quantifier and is not supported by spec.ExpandSpec (DESIGN §0.1)",
		"Responses[*]/Ref":  "a shared response that is itself a $ref is outside C11's quantifier and is not supported by spec.ExpandSpec (DESIGN §0.1)",
	}
	have := map[string]map[string]bool{} // field|sem|cshape -> methods
	for _, ei := range infos {
		k := ei.ev.field.Name() + "|" + ei.sem + "|" + ei.cshape
		if have[k] == nil {
			have[k] = map[string]bool{}
		}
		have[k][ei.method] = true
	}
	positions := modelPositions(c.P)
	type cpos struct {
		kind    string
		cshape  string
		methods map[string]bool
	}
	cposs := map[string]*cpos{}
	for _, mp := range positions {
		cs, m := collapseShape(mp.shape, methods)
		k := mp.kind + "|" + cs
		if cposs[k] == nil {
			cposs[k] = &cpos{kind: mp.kind, cshape: cs, methods: map[string]bool{}}
		}
		cposs[k].methods[m] = true
	}
	ck := make([]string, 0, len(cposs))
	for k := range cposs {
		ck = append(ck, k)
	}
	sort.Strings(ck)
	covered := 0
	for _, k := range ck {
		cp := cposs[k]
		for _, rq := range reqs[cp.kind] {
			prop := propForSem(rq.sem)
			key := cp.kind + "." + rq.facet + "@" + cp.cshape
			if why, ok := exemptCover[cp.cshape+"/"+rq.facet]; ok {
				c.S.Exempt(prop, "IDX-COVER", key, "-", why)
				continue
			}
			fv := fieldFor[rq.sem]
			if fv == nil {
				c.S.Undecided(prop, "IDX-COVER", key, "-", "no getter-resolved index for "+rq.sem)
				continue
			}
			got := have[fv.Name()+"|"+rq.sem+"|"+cp.cshape]
			var missing []string
			for m := range cp.methods {
				if !got[m] {
					if m == "" {
						m = "(position)"
					}
					missing = append(missing, m)
				}
			}
			sort.Strings(missing)
			covered++
			c.S.Decide(len(missing) == 0, prop, "IDX-COVER", key, c.P.Pos(newFn.Decl.Pos()),
				"registered in "+fv.Name(),
				fmt.Sprintf("%s of a %s at %s is never registered in index %q (missing: %s)", rq.facet, cp.kind, cp.cshape, fv.Name(), strings.Join(missing, ",")))
		}
	}
	if covered < 60 {
		c.S.Undecided("C11", "IDX-COVER", "floor", "-", fmt.Sprintf("only %d position×facet obligations derived from the spec model (confirmed by hand: 70+)", covered))
	}

	// ---- G. schema walk: every schema-bearing keyword below every schema entry ----
	regField := fieldFor["Schema.Reg"]
	leaves := c.P.SchemaLeaves()
	exemptLeaf := map[string]string{"Dependencies": "C11's statement lists the keywords it covers; `dependencies` is not one of them"}
	if regField != nil {
		entryShapes := map[string]bool{}
		shapeSet := map[string]bool{}
		for _, ei := range byField[regField] {
			shapeSet[ei.shape] = true
		}
		for _, mp := range positions {
			if mp.kind == "Schema" {
				entryShapes[mp.shape] = true
			}
		}
		for _, lf := range leaves {
			key := "SchemaProps." + lf.Path
			if why, ok := exemptLeaf[lf.Field]; ok {
				c.S.Exempt("C11", "IDX-SCHEMAWALK", key, "-", why)
				c.S.Exempt("C12", "IDX-SCHEMAWALK", key, "-", why)
				continue
			}
			var missing []string
			for es := range entryShapes {
				if !shapeSet[es] {
					continue // reported by IDX-COVER
				}
				if !shapeSet[es+"."+lf.Path] {
					cs, _ := collapseShape(es, methods)
					missing = append(missing, cs)
				}
			}
			sort.Strings(missing)
			if len(missing) > 3 {
				missing = append(missing[:3], "…")
			}
			for _, prop := range []string{"C11", "C12"} {
				c.S.Decide(len(missing) == 0, prop, "IDX-SCHEMAWALK", key, c.P.Pos(newFn.Decl.Pos()),
					"descended into and registered under its JSON pointer",
					"schemas held by "+lf.Path+" are not walked below "+strings.Join(missing, ", ")+": their $refs, patterns and enums are invisible to the analyzer")
			}
		}
		if len(leaves) < 12 {
			c.S.Undecided("C11", "IDX-SCHEMAWALK", "floor", "-", "fewer schema-bearing positions in spec.SchemaProps than expected (12)")
		}
	}

	// ---- E. all-views -------------------------------------------------------
	for sem, cat := range fieldFor {
		allF := allFieldFor[sem]
		if allF == nil || !(strings.HasSuffix(sem, ".Pattern") || strings.HasSuffix(sem, ".Enum") || strings.HasSuffix(sem, ".Ref")) {
			continue
		}
		allSet := map[string]bool{}
		for _, ei := range byField[allF] {
			allSet[keyString(ei.ev.keys[0])+"="+docStringLoops(ei.ev.val.doc)] = true
		}
		missing := 0
		var ex string
		for _, ei := range byField[cat] {
			if ei.sem != sem {
				continue
			}
			k := keyString(ei.ev.keys[0]) + "=" + docStringLoops(ei.ev.val.doc)
			if !allSet[k] {
				missing++
				ex = ei.shape
			}
		}
		c.S.Decide(missing == 0, propForSem(sem), "IDX-ALLVIEW", sem, "-",
			"every registration in "+cat.Name()+" is mirrored in "+allF.Name()+" under the same key",
			fmt.Sprintf("%d registrations in %q are not mirrored in the all-view %q with the same key and value (e.g. at %s)", missing, cat.Name(), allF.Name(), ex))
	}

	// ---- I. unions (C14) ------------------------------------------------------
	for _, sem := range []string{"Media.Consumes", "Media.Produces", "Security.Scheme"} {
		fv := fieldFor[sem]
		if fv == nil {
			continue
		}
		got := map[string]map[string]bool{}
		for _, ei := range byField[fv] {
			if ei.sem != sem {
				continue
			}
			if got[ei.cshape] == nil {
				got[ei.cshape] = map[string]bool{}
			}
			got[ei.cshape][ei.method] = true
		}
		c.S.Decide(got["<root>"][""], "C14", "IDX-UNION", sem+"@document", "-", "document-level list is part of the union",
			"the document-level "+sem+" list is not added to the required set")
		var missing []string
		for _, m := range methods {
			if !got["Paths.Paths[*].{M}"][m] {
				missing = append(missing, m)
			}
		}
		c.S.Decide(len(missing) == 0, "C14", "IDX-UNION", sem+"@operations", "-", "operation-level lists of all methods are part of the union",
			"operation-level "+sem+" lists are not added to the required set for "+strings.Join(missing, ","))
	}
}

func loopShape(s string) string {
	// ".Paths.Paths[L5].Get" -> ".Paths.Paths[*].Get"
	var sb strings.Builder
	for i := 0; i < len(s); i++ {
		if s[i] == '[' {
			j := strings.IndexByte(s[i:], ']')
			sb.WriteString("[*]")
			i += j
			continue
		}
		sb.WriteByte(s[i])
	}
	return sb.String()
}

// guardProblem checks the facts under which a registration happens.
func guardProblem(ei *evInfo) string {
	var valPath, required string
	switch {
	case strings.HasSuffix(ei.sem, ".Pattern"), strings.HasSuffix(ei.sem, ".Enum"), strings.HasSuffix(ei.sem, ".Ref"):
		valPath = docStringLoops(ei.ev.val.doc)
		required = valPath
	case ei.sem == "Schema.Reg":
		valPath = docStringLoops(ei.owner)
	case ei.sem == "Schema.AllOfReg":
		valPath = docStringLoops(ei.owner)
		required = valPath + ".AllOf"
	default:
		return ""
	}
	hasReq := required == ""
	for _, f := range ei.ev.facts {
		switch f.kind {
		case "range":
			continue
		case "opaque":
			if f.readsDoc {
				return "registration depends on the document through an unexpected condition: " + f.text
			}
			continue
		case "nonempty":
			if f.path == required {
				hasReq = true
				continue
			}
			if strings.HasPrefix(valPath, f.path) {
				continue
			}
			return "registration also requires " + f.String()
		case "nonnil":
			if strings.HasPrefix(valPath, f.path) || f.path == required {
				continue
			}
			return "registration also requires " + f.String()
		case "eq":
			// e.g. param.In == "body" guarding the body schema
			i := strings.LastIndex(f.path, ".")
			if i > 0 && strings.HasPrefix(valPath, f.path[:i]) && strings.HasSuffix(f.path, ".In") && f.extra == "body" {
				continue
			}
			return "registration also requires " + f.String()
		default:
			return "registration happens only under " + f.String()
		}
	}
	if !hasReq {
		return "registered without testing that " + loopShape(required) + " is non-empty: empty values are reported"
	}
	return ""
}

// idxOps checks the operations index: method constant ↔ field tag, path key ↔ the path item's own key.
func idxOps(c *Ctx, eis []*evInfo, mtags map[string]string, keyName string) {
	var bad []string
	seen := map[string]bool{}
	for _, ei := range eis {
		seen[ei.method] = true
		mk, pk := ei.ev.keys[0], ei.ev.keys[1]
		want := strings.ToUpper(mtags[ei.method])
		if !(mk.k == avStr && mk.isConst && mk.s == want) {
			bad = append(bad, fmt.Sprintf("operation %s is indexed under method %s (expected %q)", ei.method, keyString(mk), want))
		}
		// path key must be the raw key of the loop that produced the path item
		okPath := false
		if pk.k == avStr && !pk.isConst {
			for _, st := range ei.owner {
				if st.index && st.loop == pk.loop {
					okPath = true
				}
			}
		}
		if !okPath {
			bad = append(bad, fmt.Sprintf("operation %s is indexed under path key %s which is not the key of its path item", ei.method, keyString(pk)))
		}
		for _, f := range ei.ev.facts {
			switch f.kind {
			case "range":
			case "nonnil":
				if !strings.HasPrefix(docStringLoops(ei.owner), f.path) {
					bad = append(bad, "indexing of "+ei.method+" also requires "+f.String())
				}
			case "opaque":
				if f.readsDoc {
					bad = append(bad, "indexing of "+ei.method+" depends on "+f.text)
				}
			default:
				bad = append(bad, "indexing of "+ei.method+" happens only under "+f.String())
			}
		}
	}
	sort.Strings(bad)
	c.S.Decide(len(bad) == 0, "C14", "IDX-OPS", keyName, c.P.Pos(eis[0].ev.pos),
		"each operation is indexed under its own upper-case method and its path item's key, for every non-nil operation",
		strings.Join(bad, "; "))
}
