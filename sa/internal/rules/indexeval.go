package rules

// indexeval: an abstract interpreter for the index-building code reachable
// from analysis.New. It evaluates the analyzer's functions over abstract
// values — document positions (access paths from the *spec.Swagger root),
// key token lists, loop keys and indices — inlining module calls (recursion
// bounded at depth 2) and records one event per store into an index map.
// Nothing is executed: branches are all taken (except conditions over two
// constants), loops are evaluated once with a symbolic key/index.

import (
	"fmt"
	"go/ast"
	"go/token"
	"go/types"
	"reflect"
	"sort"
	"strconv"
	"strings"

	"verif/sa/internal/core"
)

type avKind int

const (
	avUnknown avKind = iota
	avDoc
	avKey
	avStr
	avInt
	avStruct
	avRef
	avNil
	avBool
	avList
	avIdx  // a reference to (an element of) an index map held in a module struct field
	avFunc // a function literal with the frame it was written in (accessors kept in tables)
)

type pstep struct {
	field  *types.Var
	name   string
	tag    string // json token; "" = flattened
	index  bool
	loop   int // loop id, 0 = unknown index
	isMap  bool
	intKey bool
	desc   string
	typ    types.Type // type of the value after this step
}

type aval struct {
	k       avKind
	doc     []pstep
	typ     types.Type
	toks    []string
	hash    bool
	s       string
	isConst bool
	loop    int
	add     string
	fields  map[string]*aval
	b       bool
	desc    string
	strOf   bool         // result of .String() on a doc value
	elems   []*aval      // avList elements
	ekeys   []*aval      // avList keys (map literals)
	idxFld  *types.Var   // avIdx: the index field
	idxKeys []*aval      // avIdx: keys applied so far
	lit     *ast.FuncLit // avFunc
	litFr   *frame       // avFunc: the frame the literal closes over
}

func unknown(desc string) *aval { return &aval{k: avUnknown, desc: desc} }

type fact struct {
	kind     string // nonnil nil nonempty empty eq neq range opaque
	path     string
	extra    string
	readsDoc bool
	text     string
}

func (f fact) String() string {
	if f.kind == "opaque" {
		return "opaque(" + f.text + ")"
	}
	if f.extra != "" {
		return f.kind + "(" + f.path + "," + f.extra + ")"
	}
	return f.kind + "(" + f.path + ")"
}

type event struct {
	field *types.Var
	keys  []*aval
	val   *aval
	facts []fact
	pos   token.Pos
	fn    *core.FuncInfo
	chain string
}

type loopInfo struct {
	path  string
	isMap bool
	pos   token.Pos
	fn    *core.FuncInfo
	expr  string
}

type frame struct {
	fi   *core.FuncInfo
	env  map[types.Object]*aval
	rets []*aval
}

type interp struct {
	assume map[string]string // document path -> nil | empty | nonempty (case analysis of the precedence functions)
	ranged []string          // document lists actually iterated
	c      *Ctx
	events []event
	loops  []loopInfo
	facts  []fact
	stack  []*core.FuncInfo
	notes  map[string]bool
	steps  int

	lastRHS ast.Expr // the source expression of the value being stored (store)
	pkgVars map[*types.Var]*aval
}

// taglessLookup: fields of go-openapi/spec structs that carry no json tag but
// are resolved by a custom JSONLookup (read from the spec sources).
var taglessLookup = map[string]string{
	"ResponsesProps.Default": "default",
}

func (in *interp) note(s string) {
	if in.notes == nil {
		in.notes = map[string]bool{}
	}
	in.notes[s] = true
}

// docString renders a document path shape (loops abstracted).
func docString(doc []pstep) string {
	var sb strings.Builder
	for _, s := range doc {
		if s.index {
			sb.WriteString("[*]")
		} else {
			if sb.Len() > 0 {
				sb.WriteString(".")
			}
			sb.WriteString(s.name)
		}
	}
	if sb.Len() == 0 {
		return "<root>"
	}
	return sb.String()
}

// docStringLoops renders a document path with loop ids (identity of the element).
func docStringLoops(doc []pstep) string {
	var sb strings.Builder
	for _, s := range doc {
		if s.index {
			fmt.Fprintf(&sb, "[L%d]", s.loop)
		} else {
			sb.WriteString("." + s.name)
		}
	}
	return sb.String()
}

// jsonTokens is the JSON pointer of a document position, as tokens.
func jsonTokens(doc []pstep) []string {
	var out []string
	for _, s := range doc {
		switch {
		case s.index && s.loop == 0:
			out = append(out, "{?index:"+s.desc+"}")
		case s.index && s.isMap && !s.intKey:
			out = append(out, fmt.Sprintf("{esc:L%d}", s.loop))
		case s.index:
			out = append(out, fmt.Sprintf("{idx:L%d}", s.loop))
		case s.tag != "":
			out = append(out, s.tag)
		}
	}
	return out
}

func keyString(v *aval) string {
	if v == nil {
		return "<nil>"
	}
	switch v.k {
	case avKey, avRef:
		h := ""
		if v.hash {
			h = "#"
		}
		return h + "/" + strings.Join(v.toks, "/")
	case avStr:
		if v.isConst {
			return fmt.Sprintf("%q", v.s)
		}
		return fmt.Sprintf("{raw:L%d}", v.loop)
	case avInt:
		return fmt.Sprintf("{int:L%d}%s", v.loop, v.add)
	case avDoc:
		return "doc:" + docString(v.doc)
	case avBool:
		return fmt.Sprintf("%v", v.b)
	}
	return "{?" + v.desc + "}"
}

func escapeConst(s string) string {
	s = strings.ReplaceAll(s, "~", "~0")
	return strings.ReplaceAll(s, "/", "~1")
}

// toToks converts a value used as a path segment into tokens.
func toToks(v *aval) []string {
	switch v.k {
	case avKey:
		return v.toks
	case avStr:
		if v.isConst {
			var out []string
			for _, p := range strings.Split(v.s, "/") {
				if p != "" {
					out = append(out, p)
				}
			}
			return out
		}
		return []string{fmt.Sprintf("{raw:L%d}", v.loop)}
	}
	return []string{"{?" + v.desc + "}"}
}

func fieldTag(sel *types.Selection) string {
	t := sel.Recv()
	idx := sel.Index()
	for n, i := range idx {
		t = core.Deref(t)
		st, ok := t.Underlying().(*types.Struct)
		if !ok {
			return ""
		}
		if n == len(idx)-1 {
			_, name := core.NamedOf(t)
			tag := reflect.StructTag(st.Tag(i)).Get("json")
			if tag == "" {
				return taglessLookup[name+"."+st.Field(i).Name()]
			}
			nm := strings.Split(tag, ",")[0]
			if nm == "-" {
				return ""
			}
			return nm
		}
		t = st.Field(i).Type()
	}
	return ""
}

// run evaluates fn with the given receiver and arguments.
func (in *interp) call(fi *core.FuncInfo, recv *aval, args []*aval) *aval {
	n := 0
	for _, s := range in.stack {
		if s == fi {
			n++
		}
	}
	if n >= 2 || len(in.stack) > 14 {
		return unknown("recursion bound")
	}
	in.steps++
	if in.steps > 200000 {
		return unknown("step bound")
	}
	fr := &frame{fi: fi, env: map[types.Object]*aval{}}
	info := fi.Pkg.TypesInfo
	if fi.Decl.Recv != nil && len(fi.Decl.Recv.List) == 1 && len(fi.Decl.Recv.List[0].Names) == 1 {
		if o := info.Defs[fi.Decl.Recv.List[0].Names[0]]; o != nil && recv != nil {
			// a value receiver is a copy: stores into its members stay in the callee
			if _, isPtr := o.Type().Underlying().(*types.Pointer); !isPtr && recv.k == avStruct {
				cp := *recv
				cp.fields = map[string]*aval{}
				for k, v := range recv.fields {
					cp.fields[k] = v
				}
				recv = &cp
			}
			fr.env[o] = recv
		}
	}
	i := 0
	for _, f := range fi.Decl.Type.Params.List {
		for _, nm := range f.Names {
			if o := info.Defs[nm]; o != nil && i < len(args) {
				fr.env[o] = args[i]
			}
			i++
		}
		if len(f.Names) == 0 {
			i++
		}
	}
	in.stack = append(in.stack, fi)
	nf := len(in.facts)
	in.block(fr, fi.Decl.Body.List)
	in.facts = in.facts[:nf]
	in.stack = in.stack[:len(in.stack)-1]
	// join of returns: prefer a document value, then any known value
	var best *aval
	for _, r := range fr.rets {
		if r == nil {
			continue
		}
		if best == nil || (best.k == avNil || best.k == avUnknown) && r.k != avNil && r.k != avUnknown {
			best = r
		}
	}
	if best == nil {
		return unknown("no return")
	}
	return best
}

func (in *interp) chain() string {
	var names []string
	for _, s := range in.stack {
		names = append(names, s.Obj.Name())
	}
	return strings.Join(names, ">")
}

// block evaluates statements; returns true when control always leaves.
func (in *interp) block(fr *frame, list []ast.Stmt) bool {
	pushed := len(in.facts)
	defer func() { in.facts = in.facts[:pushed] }()
	for _, st := range list {
		if in.stmt(fr, st) {
			return true
		}
	}
	return false
}

func (in *interp) stmt(fr *frame, st ast.Stmt) bool {
	info := fr.fi.Pkg.TypesInfo
	switch s := st.(type) {
	case *ast.BlockStmt:
		return in.block(fr, s.List)
	case *ast.ExprStmt:
		in.eval(fr, s.X)
	case *ast.DeclStmt:
		if gd, ok := s.Decl.(*ast.GenDecl); ok {
			for _, sp := range gd.Specs {
				vs, ok := sp.(*ast.ValueSpec)
				if !ok {
					continue
				}
				for i, nm := range vs.Names {
					o := info.Defs[nm]
					if o == nil {
						continue
					}
					if i < len(vs.Values) {
						fr.env[o] = in.eval(fr, vs.Values[i])
					} else {
						fr.env[o] = unknown("zero " + nm.Name)
					}
				}
			}
		}
	case *ast.AssignStmt:
		in.assign(fr, s)
	case *ast.IncDecStmt:
	case *ast.ReturnStmt:
		for _, r := range s.Results {
			fr.rets = append(fr.rets, in.eval(fr, r))
		}
		return true
	case *ast.BranchStmt:
		return s.Tok == token.BREAK || s.Tok == token.CONTINUE || s.Tok == token.GOTO
	case *ast.IfStmt:
		nf := len(in.facts)
		if s.Init != nil {
			in.stmt(fr, s.Init)
		}
		val, known := in.constCond(fr, s.Cond)
		var thenLeaves, elseLeaves bool
		thenTaken, elseTaken := !known || val, !known || !val
		if thenTaken {
			in.facts = append(in.facts, in.condFacts(fr, s.Cond, false)...)
			thenLeaves = in.block(fr, s.Body.List)
			in.facts = in.facts[:nf]
		}
		if s.Else != nil && elseTaken {
			in.facts = append(in.facts, in.condFacts(fr, s.Cond, true)...)
			elseLeaves = in.stmt(fr, s.Else)
			in.facts = in.facts[:nf]
		}
		switch {
		case known && val:
			return thenLeaves
		case known && !val:
			return s.Else != nil && elseLeaves
		}
		if thenLeaves && s.Else == nil {
			// the rest of the enclosing block runs under the negated condition
			in.facts = append(in.facts, in.condFacts(fr, s.Cond, true)...)
			return false
		}
		if s.Else != nil && elseLeaves && !thenLeaves {
			in.facts = append(in.facts, in.condFacts(fr, s.Cond, false)...)
			return false
		}
		return thenLeaves && s.Else != nil && elseLeaves
	case *ast.RangeStmt:
		in.rangeStmt(fr, s)
	case *ast.ForStmt:
		// for i := 0; i < len(X); i++ { … }  visits every element of X exactly like  for i := range X
		if rs := indexLoop(fr.fi.Pkg.TypesInfo, s); rs != nil {
			in.rangeStmt(fr, rs)
			return false
		}
		if s.Init != nil {
			in.stmt(fr, s.Init)
		}
		nf := len(in.facts)
		// for cur := x; cur != nil; cur = cur.next { … }: iterative descent, evaluated to the recursion bound (2)
		rounds := 1
		if in.chases(fr, s) {
			rounds = 2
		}
		for r := 0; r < rounds; r++ {
			if s.Cond != nil {
				in.facts = append(in.facts, in.condFacts(fr, s.Cond, false)...)
			}
			in.block(fr, s.Body.List)
			if rounds > 1 && s.Post != nil {
				in.stmt(fr, s.Post)
			}
		}
		in.facts = in.facts[:nf]
	case *ast.SwitchStmt:
		if s.Init != nil {
			in.stmt(fr, s.Init)
		}
		var earlier []ast.Expr // conditions of the clauses above (tagless switch): false when a later clause runs
		for _, cl := range s.Body.List {
			cc := cl.(*ast.CaseClause)
			nf := len(in.facts)
			if s.Tag == nil {
				for _, prev := range earlier {
					in.facts = append(in.facts, in.condFacts(fr, prev, true)...)
				}
				earlier = append(earlier, cc.List...)
			}
			if s.Tag == nil && len(cc.List) == 1 {
				in.facts = append(in.facts, in.condFacts(fr, cc.List[0], false)...)
			} else if len(cc.List) > 0 {
				in.facts = append(in.facts, fact{kind: "opaque", text: "switch case", readsDoc: in.readsDoc(fr, s.Tag)})
			}
			in.block(fr, cc.Body)
			in.facts = in.facts[:nf]
		}
	case *ast.TypeSwitchStmt:
		for _, cl := range s.Body.List {
			in.block(fr, cl.(*ast.CaseClause).Body)
		}
	case *ast.LabeledStmt:
		return in.stmt(fr, s.Stmt)
	case *ast.DeferStmt:
		in.eval(fr, s.Call)
	case *ast.GoStmt:
		in.eval(fr, s.Call)
	}
	return false
}

func (in *interp) assign(fr *frame, s *ast.AssignStmt) {
	info := fr.fi.Pkg.TypesInfo
	var rhs []*aval
	if len(s.Lhs) == len(s.Rhs) {
		for _, r := range s.Rhs {
			rhs = append(rhs, in.eval(fr, r))
		}
	} else {
		v := in.eval(fr, s.Rhs[0])
		rhs = append(rhs, v)
		for i := 1; i < len(s.Lhs); i++ {
			rhs = append(rhs, unknown("multi"))
		}
	}
	for i, l := range s.Lhs {
		l = core.Unparen(l)
		switch x := l.(type) {
		case *ast.Ident:
			if x.Name == "_" {
				continue
			}
			o := info.Defs[x]
			if o == nil {
				o = info.Uses[x]
			}
			if o != nil {
				if s.Tok == token.ASSIGN || s.Tok == token.DEFINE {
					fr.env[o] = rhs[i]
				} else {
					fr.env[o] = unknown("op-assign")
				}
			}
		case *ast.IndexExpr:
			in.lastRHS = nil
			if len(s.Lhs) == len(s.Rhs) {
				in.lastRHS = s.Rhs[i]
			}
			in.store(fr, x, rhs[i], s.Pos())
			in.lastRHS = nil
		case *ast.SelectorExpr:
			// field assignment on an abstract struct
			base := in.eval(fr, x.X)
			if base != nil && base.k == avStruct {
				base.fields[x.Sel.Name] = rhs[i]
			}
		}
	}
}

// store records `X.f[k1]([k2]) = v` when f is a map field declared in the module.
func (in *interp) store(fr *frame, ix *ast.IndexExpr, v *aval, pos token.Pos) {
	info := fr.fi.Pkg.TypesInfo
	var keys []*aval
	var cur ast.Expr = ix
	for {
		i, ok := core.Unparen(cur).(*ast.IndexExpr)
		if !ok {
			break
		}
		keys = append([]*aval{in.eval(fr, i.Index)}, keys...)
		cur = i.X
	}
	var fv *types.Var
	switch b := core.Unparen(cur).(type) {
	case *ast.SelectorExpr:
		fv = core.FieldOf(info, b)
	case *ast.Ident:
		// a local or a parameter holding (an element of) an index map: m := s.index[k]; m[k2] = v
		if bv := in.eval(fr, b); bv != nil && bv.k == avIdx {
			fv = bv.idxFld
			keys = append(append([]*aval{}, bv.idxKeys...), keys...)
		}
	}
	if fv == nil || fv.Pkg() == nil || !strings.HasPrefix(fv.Pkg().Path(), core.ModPath) {
		return
	}
	// storing a fresh map held in a local under index[k]: the local now designates index[k]
	{
		if id, isID := core.Unparen(in.lastRHS).(*ast.Ident); isID && in.lastRHS != nil && core.IsMap(info.TypeOf(id)) {
			if o := info.Uses[id]; o != nil {
				fr.env[o] = &aval{k: avIdx, idxFld: fv, idxKeys: keys}
			}
		}
	}
	in.events = append(in.events, event{
		field: fv, keys: keys, val: v, facts: append([]fact{}, in.facts...), pos: pos, fn: fr.fi, chain: in.chain(),
	})
}

// chases: the loop variable is a document value advanced by the post statement (v = v.field).
func (in *interp) chases(fr *frame, s *ast.ForStmt) bool {
	init, ok := s.Init.(*ast.AssignStmt)
	if !ok || len(init.Lhs) != 1 {
		return false
	}
	post, ok := s.Post.(*ast.AssignStmt)
	if !ok || len(post.Lhs) != 1 || len(post.Rhs) != 1 || post.Tok != token.ASSIGN {
		return false
	}
	info := fr.fi.Pkg.TypesInfo
	iv := identOf(init.Lhs[0])
	pv := identOf(post.Lhs[0])
	if iv == nil || pv == nil || info.ObjectOf(iv) == nil || info.ObjectOf(iv) != info.ObjectOf(pv) {
		return false
	}
	v := fr.env[info.ObjectOf(iv)]
	return v != nil && v.k == avDoc
}

// indexLoop recognises the full index loop `for i := 0; i < len(X); i++` whose body does not assign i and
// rewrites it as the equivalent range statement (nil otherwise).
func indexLoop(info *types.Info, s *ast.ForStmt) *ast.RangeStmt {
	init, ok := s.Init.(*ast.AssignStmt)
	if !ok || init.Tok != token.DEFINE || len(init.Lhs) != 1 || len(init.Rhs) != 1 {
		return nil
	}
	iv, ok := init.Lhs[0].(*ast.Ident)
	if !ok {
		return nil
	}
	io := info.Defs[iv]
	if rs := reverseIndexLoop(info, s, init, iv, io); rs != nil {
		return rs
	}
	if tv, ok := info.Types[init.Rhs[0]]; !ok || tv.Value == nil || tv.Value.String() != "0" {
		return nil
	}
	cond, ok := core.Unparen(s.Cond).(*ast.BinaryExpr)
	if !ok || cond.Op != token.LSS || info.Uses[identOf(cond.X)] != io || io == nil {
		return nil
	}
	lc, ok := core.Unparen(cond.Y).(*ast.CallExpr)
	if !ok || len(lc.Args) != 1 {
		return nil
	}
	if id, isID := core.Unparen(lc.Fun).(*ast.Ident); !isID || id.Name != "len" {
		return nil
	} else if _, isB := info.Uses[id].(*types.Builtin); !isB {
		return nil
	}
	post, ok := s.Post.(*ast.IncDecStmt)
	if !ok || post.Tok != token.INC || info.Uses[identOf(post.X)] != io {
		return nil
	}
	assigned := false
	ast.Inspect(s.Body, func(n ast.Node) bool {
		switch x := n.(type) {
		case *ast.AssignStmt:
			for _, l := range x.Lhs {
				if id := identOf(l); id != nil && info.Uses[id] == io {
					assigned = true
				}
			}
		case *ast.IncDecStmt:
			if id := identOf(x.X); id != nil && info.Uses[id] == io {
				assigned = true
			}
		case *ast.UnaryExpr:
			if x.Op == token.AND {
				if id := identOf(x.X); id != nil && info.Uses[id] == io {
					assigned = true
				}
			}
		}
		return true
	})
	if assigned {
		return nil
	}
	return &ast.RangeStmt{For: s.For, Key: iv, Tok: token.DEFINE, X: lc.Args[0], Body: s.Body}
}

// reverseIndexLoop: `for i := len(X)-1; i >= 0; i--` visits the same elements as `for i := range X`; the
// analyses built on the interpreter do not depend on the order of registrations.
func reverseIndexLoop(info *types.Info, s *ast.ForStmt, init *ast.AssignStmt, iv *ast.Ident, io types.Object) *ast.RangeStmt {
	if io == nil {
		return nil
	}
	sub, ok := core.Unparen(init.Rhs[0]).(*ast.BinaryExpr)
	if !ok || sub.Op != token.SUB {
		return nil
	}
	if tv, ok := info.Types[sub.Y]; !ok || tv.Value == nil || tv.Value.String() != "1" {
		return nil
	}
	lc, ok := core.Unparen(sub.X).(*ast.CallExpr)
	if !ok || len(lc.Args) != 1 {
		return nil
	}
	if id := identOf(lc.Fun); id == nil || id.Name != "len" {
		return nil
	} else if _, isB := info.Uses[id].(*types.Builtin); !isB {
		return nil
	}
	cond, ok := core.Unparen(s.Cond).(*ast.BinaryExpr)
	if !ok || cond.Op != token.GEQ || identOf(cond.X) == nil || info.Uses[identOf(cond.X)] != io {
		return nil
	}
	if tv, ok := info.Types[cond.Y]; !ok || tv.Value == nil || tv.Value.String() != "0" {
		return nil
	}
	post, ok := s.Post.(*ast.IncDecStmt)
	if !ok || post.Tok != token.DEC || identOf(post.X) == nil || info.Uses[identOf(post.X)] != io {
		return nil
	}
	assigned := false
	ast.Inspect(s.Body, func(n ast.Node) bool {
		switch x := n.(type) {
		case *ast.AssignStmt:
			for _, l := range x.Lhs {
				if id := identOf(l); id != nil && info.Uses[id] == io {
					assigned = true
				}
			}
		case *ast.IncDecStmt:
			if id := identOf(x.X); id != nil && info.Uses[id] == io {
				assigned = true
			}
		}
		return true
	})
	if assigned {
		return nil
	}
	return &ast.RangeStmt{For: s.For, Key: iv, Tok: token.DEFINE, X: lc.Args[0], Body: s.Body}
}

func identOf(e ast.Expr) *ast.Ident {
	id, _ := core.Unparen(e).(*ast.Ident)
	return id
}

func (in *interp) rangeStmt(fr *frame, s *ast.RangeStmt) {
	info := fr.fi.Pkg.TypesInfo
	x := in.eval(fr, s.X)
	var keyV, valV *aval
	nf := len(in.facts)
	bindVar := func(e ast.Expr, v *aval) {
		if e == nil {
			return
		}
		id, ok := core.Unparen(e).(*ast.Ident)
		if !ok || id.Name == "_" {
			return
		}
		o := info.Defs[id]
		if o == nil {
			o = info.Uses[id]
		}
		if o != nil {
			fr.env[o] = v
		}
	}
	if x != nil && x.k == avList {
		for i, el := range x.elems {
			if i < len(x.ekeys) {
				bindVar(s.Key, x.ekeys[i])
			} else {
				bindVar(s.Key, &aval{k: avInt, isConst: true, s: fmt.Sprint(i)})
			}
			bindVar(s.Value, el)
			in.block(fr, s.Body.List)
			in.facts = in.facts[:nf]
		}
		return
	}
	if x != nil && x.k == avDoc {
		if st, has := in.assume[docStringLoops(x.doc)]; has {
			if st != "nonempty" {
				return // nothing to iterate under this case
			}
		}
		in.ranged = append(in.ranged, docStringLoops(x.doc))
		t := info.TypeOf(s.X)
		li := loopInfo{path: docStringLoops(x.doc), pos: s.Pos(), fn: fr.fi, expr: exprStr(s.X)}
		step := pstep{index: true}
		var elem types.Type
		switch u := t.Underlying().(type) {
		case *types.Map:
			li.isMap = true
			step.isMap = true
			if b, ok := u.Key().Underlying().(*types.Basic); ok && b.Info()&types.IsInteger != 0 {
				step.intKey = true
			}
			elem = u.Elem()
		case *types.Slice:
			elem = u.Elem()
		case *types.Array:
			elem = u.Elem()
		}
		in.loops = append(in.loops, li)
		id := len(in.loops)
		step.loop = id
		step.typ = elem
		if step.isMap && !step.intKey {
			keyV = &aval{k: avStr, loop: id}
		} else {
			keyV = &aval{k: avInt, loop: id}
		}
		valV = &aval{k: avDoc, doc: append(append([]pstep{}, x.doc...), step), typ: elem}
		in.facts = append(in.facts, fact{kind: "range", path: docString(x.doc)})
	} else {
		keyV, valV = unknown("range key"), unknown("range value")
	}
	bind := func(e ast.Expr, v *aval) {
		if e == nil {
			return
		}
		id, ok := core.Unparen(e).(*ast.Ident)
		if !ok || id.Name == "_" {
			return
		}
		o := info.Defs[id]
		if o == nil {
			o = info.Uses[id]
		}
		if o != nil {
			fr.env[o] = v
		}
	}
	bind(s.Key, keyV)
	bind(s.Value, valV)
	in.block(fr, s.Body.List)
	in.facts = in.facts[:nf]
}

// constCond decides conditions whose value is fixed by the abstract state:
// comparisons of two constants or two fully known keys, abstract booleans,
// and their negation / conjunction / disjunction.
func (in *interp) constCond(fr *frame, e ast.Expr) (bool, bool) {
	e = core.Unparen(e)
	if len(in.assume) > 0 {
		info := fr.fi.Pkg.TypesInfo
		cd := core.Cond{Kind: core.CondBool, Expr: e}
		if x, nonNil, ok := core.NilTest(info, cd); ok {
			if v := in.eval(fr, x); v.k == avDoc {
				if st, has := in.assume[docStringLoops(v.doc)]; has {
					return (st != "nil") == nonNil, true
				}
			}
		}
		if x, empty, ok := core.EmptyTest(info, cd); ok {
			if v := in.eval(fr, x); v.k == avDoc {
				if st, has := in.assume[docStringLoops(v.doc)]; has {
					return (st != "nonempty") == empty, true
				}
			}
		}
	}
	switch x := e.(type) {
	case *ast.UnaryExpr:
		if x.Op == token.NOT {
			v, ok := in.constCond(fr, x.X)
			return !v, ok
		}
	case *ast.BinaryExpr:
		switch x.Op {
		case token.LAND:
			a, ak := in.constCond(fr, x.X)
			b, bk := in.constCond(fr, x.Y)
			if ak && !a || bk && !b {
				return false, true
			}
			return a && b, ak && bk
		case token.LOR:
			a, ak := in.constCond(fr, x.X)
			b, bk := in.constCond(fr, x.Y)
			if ak && a || bk && b {
				return true, true
			}
			return a || b, ak && bk
		case token.EQL, token.NEQ:
			a, b := in.eval(fr, x.X), in.eval(fr, x.Y)
			if a.k == avStr && a.isConst && b.k == avStr && b.isConst {
				return (a.s == b.s) == (x.Op == token.EQL), true
			}
			if (a.k == avKey || a.k == avStr && a.isConst) && (b.k == avKey || b.k == avStr && b.isConst) && known(a) && known(b) {
				if eq, decided := sameTokens(toToks(a), toToks(b)); decided {
					return eq == (x.Op == token.EQL), true
				}
			}
			return false, false
		}
	}
	if v := in.eval(fr, e); v != nil && v.k == avBool {
		return v.b, true
	}
	return false, false
}

func (in *interp) readsDoc(fr *frame, e ast.Expr) bool {
	if e == nil {
		return false
	}
	found := false
	ast.Inspect(e, func(n ast.Node) bool {
		x, ok := n.(ast.Expr)
		if !ok || found {
			return !found
		}
		switch x.(type) {
		case *ast.Ident, *ast.SelectorExpr:
			if v := in.evalQuiet(fr, x); v != nil && (v.k == avDoc || (v.k == avStr || v.k == avInt) && !v.isConst && v.loop > 0) {
				found = true
			}
		}
		return !found
	})
	return found
}

func (in *interp) evalQuiet(fr *frame, e ast.Expr) *aval {
	switch x := core.Unparen(e).(type) {
	case *ast.Ident, *ast.SelectorExpr:
		return in.eval(fr, x)
	}
	return nil
}

// condFacts turns a condition (with polarity) into facts.
func (in *interp) condFacts(fr *frame, e ast.Expr, neg bool) []fact {
	info := fr.fi.Pkg.TypesInfo
	var out []fact
	e = in.simplify(fr, e)
	for _, c := range core.SplitCond(e, neg) {
		// an atom decided by the constants bound in this frame (a flag parameter) carries no information
		if v, ok := in.constCond(fr, c.Expr); ok && v != c.Neg {
			continue
		}
		if x, nonNil, ok := core.NilTest(info, c); ok {
			v := in.eval(fr, x)
			if v.k == avDoc {
				k := "nil"
				if nonNil {
					k = "nonnil"
				}
				out = append(out, fact{kind: k, path: docStringLoops(v.doc)})
				continue
			}
			out = append(out, fact{kind: "opaque", text: exprStr(c.Expr), readsDoc: false})
			continue
		}
		if x, empty, ok := core.EmptyTest(info, c); ok {
			v := in.eval(fr, x)
			if v.k == avDoc {
				k := "nonempty"
				if empty {
					k = "empty"
				}
				out = append(out, fact{kind: k, path: docStringLoops(v.doc)})
				continue
			}
		}
		if be, ok := core.Unparen(c.Expr).(*ast.BinaryExpr); ok && (be.Op == token.EQL || be.Op == token.NEQ) {
			a, b := in.eval(fr, be.X), in.eval(fr, be.Y)
			if a.k == avStr && a.isConst {
				a, b = b, a
			}
			if a.k == avDoc && b.k == avStr && b.isConst {
				k := "eq"
				if (be.Op == token.NEQ) != c.Neg {
					k = "neq"
				}
				out = append(out, fact{kind: k, path: docStringLoops(a.doc), extra: b.s})
				continue
			}
		}
		pol := ""
		if c.Neg {
			pol = "!"
		}
		out = append(out, fact{kind: "opaque", text: pol + exprStr(c.Expr), readsDoc: in.readsDoc(fr, c.Expr)})
	}
	return out
}

// simplify drops the operands of && / || that are decided by constants bound in the frame (flag parameters):
// true && X = X, false || X = X.
func (in *interp) simplify(fr *frame, e ast.Expr) ast.Expr {
	switch x := core.Unparen(e).(type) {
	case *ast.UnaryExpr:
		if x.Op == token.NOT {
			if inner := in.simplify(fr, x.X); inner != x.X {
				return &ast.UnaryExpr{OpPos: x.OpPos, Op: token.NOT, X: inner}
			}
		}
	case *ast.BinaryExpr:
		if x.Op != token.LAND && x.Op != token.LOR {
			return e
		}
		neutral := x.Op == token.LAND // true is neutral for &&, false for ||
		if v, ok := in.constCond(fr, x.X); ok && v == neutral {
			return in.simplify(fr, x.Y)
		}
		if v, ok := in.constCond(fr, x.Y); ok && v == neutral {
			return in.simplify(fr, x.X)
		}
		a, b := in.simplify(fr, x.X), in.simplify(fr, x.Y)
		if a != x.X || b != x.Y {
			return &ast.BinaryExpr{X: a, OpPos: x.OpPos, Op: x.Op, Y: b}
		}
	}
	return e
}

func (in *interp) eval(fr *frame, e ast.Expr) *aval {
	info := fr.fi.Pkg.TypesInfo
	e = core.Unparen(e)
	if tv, ok := info.Types[e]; ok && tv.Value != nil {
		if s, ok := core.ConstString(info, e); ok {
			return &aval{k: avStr, s: s, isConst: true}
		}
		if tv.Value.Kind().String() == "Int" {
			return &aval{k: avInt, isConst: true, s: tv.Value.String()}
		}
		if tv.Value.Kind().String() == "Bool" {
			return &aval{k: avBool, b: tv.Value.String() == "true", isConst: true}
		}
	}
	switch x := e.(type) {
	case *ast.Ident:
		if core.IsNilExpr(info, x) {
			return &aval{k: avNil}
		}
		o := info.Uses[x]
		if o == nil {
			o = info.Defs[x]
		}
		if v, ok := fr.env[o]; ok && v != nil {
			return v
		}
		// a package-level table (a variable with an initialiser, never assigned in the module's functions)
		if pv, isVar := o.(*types.Var); isVar && pv.Pkg() != nil && pv.Parent() == pv.Pkg().Scope() {
			if v := in.pkgVar(fr, pv); v != nil {
				return v
			}
		}
		return unknown("ident " + x.Name)
	case *ast.StarExpr:
		return in.eval(fr, x.X)
	case *ast.UnaryExpr:
		if x.Op == token.AND {
			return in.eval(fr, x.X)
		}
		return unknown("unary")
	case *ast.SelectorExpr:
		sel, ok := info.Selections[x]
		if !ok {
			return unknown("qualified " + x.Sel.Name)
		}
		if sel.Kind() != types.FieldVal {
			return unknown("method value")
		}
		base := in.eval(fr, x.X)
		switch base.k {
		case avStruct:
			if v, ok := base.fields[x.Sel.Name]; ok && v != nil && (v.k != avStruct || !core.IsMap(sel.Obj().Type())) {
				return v
			}
			if fv, isVar := sel.Obj().(*types.Var); isVar && fv.Pkg() != nil && strings.HasPrefix(fv.Pkg().Path(), core.ModPath) && core.IsMap(fv.Type()) {
				return &aval{k: avIdx, idxFld: fv}
			}
			return unknown("field " + x.Sel.Name)
		case avDoc:
			fv := sel.Obj().(*types.Var)
			st := pstep{field: fv, name: fv.Name(), tag: fieldTag(sel), typ: fv.Type()}
			return &aval{k: avDoc, doc: append(append([]pstep{}, base.doc...), st), typ: fv.Type()}
		}
		if fv, isVar := sel.Obj().(*types.Var); isVar && fv.Pkg() != nil && strings.HasPrefix(fv.Pkg().Path(), core.ModPath) && core.IsMap(fv.Type()) {
			return &aval{k: avIdx, idxFld: fv}
		}
		return unknown("field of non-doc " + x.Sel.Name)
	case *ast.IndexExpr:
		base := in.eval(fr, x.X)
		idx := in.eval(fr, x.Index)
		if base.k == avIdx {
			return &aval{k: avIdx, idxFld: base.idxFld, idxKeys: append(append([]*aval{}, base.idxKeys...), idx)}
		}
		if base.k == avList && len(base.ekeys) == 0 && idx.k == avInt && idx.isConst {
			if i, err := strconv.Atoi(idx.s); err == nil && i >= 0 && i < len(base.elems) {
				return base.elems[i]
			}
		}
		if base.k != avDoc {
			return unknown("index of non-doc")
		}
		t := info.TypeOf(x.X)
		st := pstep{index: true}
		var elem types.Type
		switch u := t.Underlying().(type) {
		case *types.Map:
			st.isMap = true
			if b, ok := u.Key().Underlying().(*types.Basic); ok && b.Info()&types.IsInteger != 0 {
				st.intKey = true
			}
			elem = u.Elem()
		case *types.Slice:
			elem = u.Elem()
		}
		st.typ = elem
		if (idx.k == avStr || idx.k == avInt) && !idx.isConst && idx.loop > 0 && idx.add == "" &&
			in.loops[idx.loop-1].path == docStringLoops(base.doc) {
			st.loop = idx.loop
		} else {
			st.desc = keyString(idx)
		}
		return &aval{k: avDoc, doc: append(append([]pstep{}, base.doc...), st), typ: elem}
	case *ast.CompositeLit:
		t := info.TypeOf(x)
		if t != nil {
			switch u := t.Underlying().(type) {
			case *types.Slice, *types.Array:
				l := &aval{k: avList}
				for _, el := range x.Elts {
					if kv, ok := el.(*ast.KeyValueExpr); ok {
						el = kv.Value
					}
					l.elems = append(l.elems, in.eval(fr, el))
				}
				return l
			case *types.Map:
				l := &aval{k: avList}
				for _, el := range x.Elts {
					if kv, ok := el.(*ast.KeyValueExpr); ok {
						l.ekeys = append(l.ekeys, in.eval(fr, kv.Key))
						l.elems = append(l.elems, in.eval(fr, kv.Value))
					}
				}
				return l
			case *types.Struct:
				v := &aval{k: avStruct, fields: map[string]*aval{}}
				for i, el := range x.Elts {
					if kv, ok := el.(*ast.KeyValueExpr); ok {
						if id, ok := kv.Key.(*ast.Ident); ok {
							v.fields[id.Name] = in.eval(fr, kv.Value)
						}
					} else if i < u.NumFields() {
						v.fields[u.Field(i).Name()] = in.eval(fr, el)
					}
				}
				return v
			}
		}
		v := &aval{k: avStruct, fields: map[string]*aval{}}
		for _, el := range x.Elts {
			if kv, ok := el.(*ast.KeyValueExpr); ok {
				if id, ok := kv.Key.(*ast.Ident); ok {
					v.fields[id.Name] = in.eval(fr, kv.Value)
				}
			}
		}
		return v
	case *ast.BinaryExpr:
		a, b := in.eval(fr, x.X), in.eval(fr, x.Y)
		switch x.Op {
		case token.ADD:
			if a.k == avStr && a.isConst && a.s == "#" {
				switch b.k {
				case avKey:
					return &aval{k: avKey, toks: b.toks, hash: true}
				case avStr:
					return &aval{k: avKey, toks: toToks(b), hash: true}
				}
			}
			if a.k == avInt && !a.isConst && b.k == avInt && b.isConst {
				return &aval{k: avInt, loop: a.loop, add: a.add + "+" + b.s}
			}
			if a.k == avStr && b.k == avStr && a.isConst && b.isConst {
				return &aval{k: avStr, isConst: true, s: a.s + b.s}
			}
			return unknown("concat " + keyString(a) + "+" + keyString(b))
		case token.SUB:
			if a.k == avInt && !a.isConst && b.k == avInt && b.isConst {
				return &aval{k: avInt, loop: a.loop, add: a.add + "-" + b.s}
			}
		case token.EQL, token.NEQ:
			if (a.k == avKey || a.k == avStr) && (b.k == avKey || b.k == avStr) && known(a) && known(b) {
				if eq, decided := sameTokens(toToks(a), toToks(b)); decided {
					return &aval{k: avBool, b: eq == (x.Op == token.EQL)}
				}
			}
		}
		return unknown("binary")
	case *ast.CallExpr:
		return in.evalCall(fr, x)
	case *ast.FuncLit:
		return &aval{k: avFunc, lit: x, litFr: fr}
	case *ast.TypeAssertExpr:
		return in.eval(fr, x.X)
	}
	return unknown(fmt.Sprintf("%T", e))
}

// sameTokens compares two token lists that may contain symbolic tokens ({esc:Ln}, {raw:Ln}, {idx:Ln}): equal
// when identical; different when a constant position differs or the lengths differ (no raw token, which could
// hide a '/'); undecided when a symbolic token faces a constant or another symbol (a name of the document can
// spell any constant).
func sameTokens(a, b []string) (eq, decided bool) {
	sym := func(t string) bool { return strings.HasPrefix(t, "{") }
	for _, t := range append(append([]string{}, a...), b...) {
		if strings.HasPrefix(t, "{raw:") && len(a) != len(b) {
			return false, false
		}
	}
	if len(a) != len(b) {
		return false, true
	}
	maybe := false
	for i := range a {
		switch {
		case a[i] == b[i]:
		case sym(a[i]) || sym(b[i]):
			maybe = true
		default:
			return false, true
		}
	}
	if maybe {
		return false, false
	}
	return true, true
}

func known(v *aval) bool {
	for _, t := range toToks(v) {
		if strings.HasPrefix(t, "{?") {
			return false
		}
	}
	return true
}

func (in *interp) evalCall(fr *frame, call *ast.CallExpr) *aval {
	info := fr.fi.Pkg.TypesInfo
	// builtins and conversions
	if id, ok := core.Unparen(call.Fun).(*ast.Ident); ok {
		if b, ok := info.Uses[id].(*types.Builtin); ok {
			for _, a := range call.Args {
				in.eval(fr, a)
			}
			switch b.Name() {
			case "make", "new":
				return &aval{k: avStruct, fields: map[string]*aval{}}
			case "append":
				// a local work list of records or document values: l = append(l, rec)
				if len(call.Args) >= 2 && call.Ellipsis == token.NoPos {
					l := &aval{k: avList}
					if old := in.eval(fr, call.Args[0]); old != nil && old.k == avList && len(old.ekeys) == 0 {
						l.elems = append(l.elems, old.elems...)
					}
					ok := true
					for _, a := range call.Args[1:] {
						v := in.eval(fr, a)
						if v == nil || v.k != avStruct && v.k != avDoc {
							ok = false
						}
						l.elems = append(l.elems, v)
					}
					if ok && len(l.elems) <= 8 {
						return l
					}
				}
			}
			return unknown("builtin " + b.Name())
		}
	}
	if tv, ok := info.Types[call.Fun]; ok && tv.IsType() && len(call.Args) == 1 {
		return in.eval(fr, call.Args[0])
	}
	var args []*aval
	for _, a := range call.Args {
		args = append(args, in.eval(fr, a))
	}
	fns, _ := in.c.P.Callees(fr.fi, call)
	var callee *types.Func
	if len(fns) > 0 {
		callee = fns[0]
	}
	if callee == nil {
		// an accessor kept in a table: keyword.get(schema)
		if fv := in.eval(fr, call.Fun); fv != nil && fv.k == avFunc {
			return in.callLit(fv, args)
		}
		return unknown("dynamic call")
	}
	if cf := in.c.P.Funcs[callee]; cf != nil {
		var recv *aval
		if sel, ok := core.Unparen(call.Fun).(*ast.SelectorExpr); ok {
			if _, isSel := info.Selections[sel]; isSel {
				recv = in.eval(fr, sel.X)
			}
		}
		return in.call(cf, recv, args)
	}
	full := callee.FullName()
	switch full {
	case "path.Join":
		var toks []string
		for _, a := range args {
			toks = append(toks, toToks(a)...)
		}
		return &aval{k: avKey, toks: toks}
	case "path.Base", "path.Dir":
		if len(args) == 1 && (args[0].k == avKey || args[0].k == avStr && args[0].isConst) && known(args[0]) && !args[0].hash {
			toks := toToks(args[0])
			raw := false
			for _, t := range toks {
				if strings.HasPrefix(t, "{raw:") {
					raw = true // may contain '/'
				}
			}
			if len(toks) > 0 && !raw {
				if full == "path.Base" {
					return &aval{k: avKey, toks: []string{toks[len(toks)-1]}}
				}
				return &aval{k: avKey, toks: append([]string{}, toks[:len(toks)-1]...)}
			}
		}
		return unknown(full)
	case "github.com/go-openapi/jsonpointer.Escape":
		a := args[0]
		if a.k == avStr && a.isConst {
			return &aval{k: avKey, toks: []string{escapeConst(a.s)}}
		}
		if a.k == avStr {
			return &aval{k: avKey, toks: []string{fmt.Sprintf("{esc:L%d}", a.loop)}}
		}
		if a.k == avKey && !a.hash {
			var toks []string
			for _, t := range a.toks {
				switch {
				case strings.HasPrefix(t, "{idx:"):
					toks = append(toks, t)
				case strings.HasPrefix(t, "{raw:"):
					toks = append(toks, "{esc:"+t[5:])
				case strings.HasPrefix(t, "{"):
					toks = append(toks, "{escaped-again "+t+"}")
				default:
					toks = append(toks, escapeConst(t))
				}
			}
			if len(toks) == 1 {
				return &aval{k: avKey, toks: toks}
			}
		}
		return &aval{k: avKey, toks: []string{"{?esc " + keyString(a) + "}"}}
	case "strconv.Itoa":
		a := args[0]
		if a.k == avInt && a.isConst {
			return &aval{k: avKey, toks: []string{a.s}}
		}
		if a.k == avInt {
			return &aval{k: avKey, toks: []string{fmt.Sprintf("{idx:L%d}%s", a.loop, a.add)}}
		}
		return &aval{k: avKey, toks: []string{"{?itoa " + keyString(a) + "}"}}
	case "strings.HasPrefix", "strings.HasSuffix":
		a, b := args[0], args[1]
		if (a.k == avKey || a.k == avStr && a.isConst) && (b.k == avKey || b.k == avStr && b.isConst) && known(a) && known(b) {
			as, bs := "/"+strings.Join(toToks(a), "/"), "/"+strings.Join(toToks(b), "/")
			if full == "strings.HasPrefix" {
				return &aval{k: avBool, b: strings.HasPrefix(as, bs)}
			}
			return &aval{k: avBool, b: strings.HasSuffix(as, bs)}
		}
		return unknown("prefix test")
	case "strings.ToLower", "strings.ToUpper":
		a := args[0]
		if a.k == avStr && a.isConst {
			if full == "strings.ToLower" {
				return &aval{k: avStr, isConst: true, s: strings.ToLower(a.s)}
			}
			return &aval{k: avStr, isConst: true, s: strings.ToUpper(a.s)}
		}
		return unknown("case-fold of " + keyString(a))
	case "github.com/go-openapi/spec.MustCreateRef", "github.com/go-openapi/spec.NewRef":
		a := args[0]
		if a.k == avKey {
			return &aval{k: avRef, toks: a.toks, hash: a.hash}
		}
		if a.k == avStr {
			return &aval{k: avRef, toks: toToks(a), hash: false}
		}
		return unknown("ref of " + keyString(a))
	}
	if callee.Name() == "String" && len(call.Args) == 0 {
		if sel, ok := core.Unparen(call.Fun).(*ast.SelectorExpr); ok {
			v := in.eval(fr, sel.X)
			if v.k == avDoc {
				c := *v
				c.strOf = true
				return &c
			}
		}
	}
	// method on a doc value we do not model (GetURL etc.): keep doc-ness for readsDoc
	return unknown("external " + full)
}

// runIndexEval evaluates analysis.New and returns the events.
func runIndexEval(c *Ctx) (*interp, *core.FuncInfo) {
	newFn := c.root("New")
	if newFn == nil {
		return nil, nil
	}
	in := &interp{c: c}
	_, sw := c.P.SpecStruct("Swagger")
	_ = sw
	swN, _ := c.P.SpecStruct("Swagger")
	var rootT types.Type
	if swN != nil {
		rootT = types.NewPointer(swN)
	}
	in.call(newFn, nil, []*aval{{k: avDoc, doc: nil, typ: rootT}})
	return in, newFn
}

// ---- model positions -------------------------------------------------------

// modelPos is a position of the document model that holds an owner kind.
type modelPos struct {
	shape string // e.g. Paths.Paths[*].Get.Parameters[*]
	kind  string // Parameter Response Header Items Schema PathItem Operation
}

// modelPositions walks the spec model from spec.Swagger and lists every
// position holding one of the owner kinds (first-level Items only; schemas
// are not descended: the schema walker is checked separately).
func modelPositions(p *core.Program) []modelPos {
	swN, _ := p.SpecStruct("Swagger")
	if swN == nil {
		return nil
	}
	var out []modelPos
	kinds := map[string]bool{"Parameter": true, "Response": true, "Header": true, "Items": true, "Schema": true, "PathItem": true, "Operation": true}
	var walk func(t types.Type, shape string, depth int, inItems bool)
	walk = func(t types.Type, shape string, depth int, inItems bool) {
		if depth > 14 {
			return
		}
		pp, nm := core.NamedOf(t)
		if pp == core.SpecPath && kinds[nm] {
			if _, isNamedStruct := core.Deref(t).Underlying().(*types.Struct); isNamedStruct {
				out = append(out, modelPos{shape: shape, kind: nm})
				if nm == "Schema" {
					return
				}
				if nm == "Items" {
					if inItems {
						return
					}
					inItems = true
				}
			}
		}
		switch u := core.Deref(t).Underlying().(type) {
		case *types.Struct:
			if pp != core.SpecPath {
				return
			}
			if nm == "Items" && inItems && false {
				return
			}
			for i := 0; i < u.NumFields(); i++ {
				f := u.Field(i)
				if !f.Exported() {
					continue
				}
				fp, fn := core.NamedOf(f.Type())
				if f.Embedded() {
					if fp == core.SpecPath && (fn == "VendorExtensible" || fn == "Refable" || fn == "CommonValidations") {
						continue
					}
					walk(f.Type(), shape, depth+1, inItems)
					continue
				}
				sh := f.Name()
				if shape != "" {
					sh = shape + "." + f.Name()
				}
				if nm == "Items" && f.Name() == "Items" {
					continue // nested items: handled by the recursion of the items walker
				}
				walk(f.Type(), sh, depth+1, inItems)
			}
		case *types.Map:
			walk(u.Elem(), shape+"[*]", depth+1, inItems)
		case *types.Slice:
			walk(u.Elem(), shape+"[*]", depth+1, inItems)
		}
	}
	walk(swN, "", 0, false)
	sort.Slice(out, func(i, j int) bool { return out[i].shape < out[j].shape })
	return out
}

// pkgVar evaluates the initialiser of a package-level variable (a table of records, possibly holding accessors).
// Variables assigned anywhere in the module are not followed.
func (in *interp) pkgVar(fr *frame, pv *types.Var) *aval {
	if in.pkgVars == nil {
		in.pkgVars = map[*types.Var]*aval{}
	}
	if v, ok := in.pkgVars[pv]; ok {
		return v
	}
	in.pkgVars[pv] = nil
	info := fr.fi.Pkg.TypesInfo
	if pv.Pkg() != fr.fi.Pkg.Types {
		return nil
	}
	var init ast.Expr
	for _, f := range fr.fi.Pkg.Syntax {
		for _, d := range f.Decls {
			gd, ok := d.(*ast.GenDecl)
			if !ok || gd.Tok != token.VAR {
				continue
			}
			for _, sp := range gd.Specs {
				vs, ok := sp.(*ast.ValueSpec)
				if !ok || len(vs.Values) != len(vs.Names) {
					continue
				}
				for i, nm := range vs.Names {
					if info.Defs[nm] == types.Object(pv) {
						init = vs.Values[i]
					}
				}
			}
		}
	}
	if init == nil {
		return nil
	}
	// not assigned elsewhere
	for _, g := range in.c.P.SortedFuncs() {
		if g.Pkg != fr.fi.Pkg || g.Decl.Body == nil {
			continue
		}
		assigned := false
		ast.Inspect(g.Decl.Body, func(n ast.Node) bool {
			if as, ok := n.(*ast.AssignStmt); ok {
				for _, l := range as.Lhs {
					if id := rootIdent(l); id != nil && info.Uses[id] == types.Object(pv) {
						assigned = true
					}
				}
			}
			return true
		})
		if assigned {
			return nil
		}
	}
	v := in.eval(&frame{fi: fr.fi, env: map[types.Object]*aval{}}, init)
	in.pkgVars[pv] = v
	return v
}

// callLit interprets a function literal on the given arguments, in the frame it closes over.
func (in *interp) callLit(fv *aval, args []*aval) *aval {
	if len(in.stack) > 14 {
		return unknown("recursion bound")
	}
	in.steps++
	if in.steps > 200000 {
		return unknown("step bound")
	}
	fr := &frame{fi: fv.litFr.fi, env: map[types.Object]*aval{}}
	for k, v := range fv.litFr.env {
		fr.env[k] = v
	}
	info := fr.fi.Pkg.TypesInfo
	i := 0
	for _, f := range fv.lit.Type.Params.List {
		for _, nm := range f.Names {
			if o := info.Defs[nm]; o != nil && i < len(args) {
				fr.env[o] = args[i]
			}
			i++
		}
		if len(f.Names) == 0 {
			i++
		}
	}
	nf := len(in.facts)
	in.block(fr, fv.lit.Body.List)
	in.facts = in.facts[:nf]
	var best *aval
	for _, r := range fr.rets {
		if r == nil {
			continue
		}
		if best == nil || (best.k == avNil || best.k == avUnknown) && r.k != avNil && r.k != avUnknown {
			best = r
		}
	}
	if best == nil {
		return unknown("no return")
	}
	return best
}
