package rules

// keygroups (COV-KEYGROUPS): the flattener visits schemas and pointers in the order delivered by the grouping
// sorter of the sortref package (DepthFirst): every key is put in the group of the last classification predicate
// it satisfies, and only the groups listed in the order table are emitted. A key that satisfies no predicate — or
// whose group is not in the table — silently disappears from the traversal: its inline schema is never named
// (C03), its anonymous pointer never replaced (C02).
//
// The rule evaluates every classification predicate, three-valued, on every *shape* of key the analyzer registers
// in its schema index (the shapes come from the abstract evaluation of analysis.New: constant segments, name
// segments, integer segments) and requires that each shape definitely satisfies at least one predicate whose
// group is emitted. A predicate that consults anything but the segments (a table of the standard library, say)
// evaluates to "unknown" and no longer counts.

import (
	"fmt"
	"go/ast"
	"go/token"
	"go/types"
	"sort"
	"strings"

	"verif/sa/internal/core"
)

func init() {
	register(Rule{
		Name:  "COV-KEYGROUPS",
		Props: []string{"C03", "C02"},
		Doc:   "every shape of key of the schema index falls, for certain, into one emitted group of the depth-first sorter",
		Run:   keyGroups,
	})
}

type tri int

const (
	triUnknown tri = iota
	triTrue
	triFalse
)

func triOf(b bool) tri {
	if b {
		return triTrue
	}
	return triFalse
}

func (t tri) not() tri {
	switch t {
	case triTrue:
		return triFalse
	case triFalse:
		return triTrue
	}
	return triUnknown
}

// sval is an abstract string: a constant, an integer-valued symbol, or an unknown name.
type sval struct {
	konst  string
	isK    bool
	isInt  bool
	known  bool // false: nothing known
	symbol string
}

type predEval struct {
	c     *Ctx
	toks  []sval
	depth int
}

func tokenVals(toks []string) []sval {
	var out []sval
	for _, t := range toks {
		switch {
		case strings.HasPrefix(t, "{idx:"):
			out = append(out, sval{isInt: true, known: true, symbol: t})
		case strings.HasPrefix(t, "{"):
			out = append(out, sval{known: true, symbol: t})
		default:
			// KeyParts unescapes each constant segment (constants contain no escapes)
			out = append(out, sval{konst: t, isK: true, known: true})
		}
	}
	return out
}

type predFrame struct {
	fi       *core.FuncInfo
	info     *types.Info
	recv     types.Object
	closures map[types.Object]*ast.FuncLit
	errNil   map[types.Object]tri  // error variables of strconv.Atoi(<segment>)
	ints     map[types.Object]bool // results of Atoi (value unknown)
}

func (p *predEval) str(fr *predFrame, e ast.Expr) sval {
	e = core.Unparen(e)
	if s, ok := core.ConstString(fr.info, e); ok {
		return sval{konst: s, isK: true, known: true}
	}
	if ix, ok := e.(*ast.IndexExpr); ok && core.ObjOf(fr.info, ix.X) == fr.recv {
		if tv, ok := fr.info.Types[ix.Index]; ok && tv.Value != nil {
			var i int
			if _, err := fmt.Sscanf(tv.Value.String(), "%d", &i); err == nil && i >= 0 && i < len(p.toks) {
				return p.toks[i]
			}
		}
	}
	return sval{}
}

func (p *predEval) num(fr *predFrame, e ast.Expr) (int, bool) {
	e = core.Unparen(e)
	if tv, ok := fr.info.Types[e]; ok && tv.Value != nil {
		var i int
		if _, err := fmt.Sscanf(tv.Value.String(), "%d", &i); err == nil {
			return i, true
		}
	}
	if call, ok := e.(*ast.CallExpr); ok && isBuiltin(fr.info, call, "len") && len(call.Args) == 1 && core.ObjOf(fr.info, call.Args[0]) == fr.recv {
		return len(p.toks), true
	}
	// n := len(s) kept in a local
	if id, ok := e.(*ast.Ident); ok {
		if defs := p.c.P.Locals(fr.fi).Defs[core.ObjOf(fr.info, id)]; len(defs) == 1 && defs[0].Kind == core.DefAssign {
			if _, again := core.Unparen(defs[0].Expr).(*ast.Ident); !again {
				return p.num(fr, defs[0].Expr)
			}
		}
	}
	return 0, false
}

func (p *predEval) expr(fr *predFrame, e ast.Expr) tri {
	e = core.Unparen(e)
	if tv, ok := fr.info.Types[e]; ok && tv.Value != nil && (tv.Value.String() == "true" || tv.Value.String() == "false") {
		return triOf(tv.Value.String() == "true")
	}
	switch x := e.(type) {
	case *ast.UnaryExpr:
		if x.Op == token.NOT {
			return p.expr(fr, x.X).not()
		}
	case *ast.BinaryExpr:
		switch x.Op {
		case token.LAND:
			a := p.expr(fr, x.X)
			if a == triFalse {
				return triFalse
			}
			b := p.expr(fr, x.Y)
			if b == triFalse {
				return triFalse
			}
			if a == triTrue && b == triTrue {
				return triTrue
			}
			return triUnknown
		case token.LOR:
			a := p.expr(fr, x.X)
			if a == triTrue {
				return triTrue
			}
			b := p.expr(fr, x.Y)
			if b == triTrue {
				return triTrue
			}
			if a == triFalse && b == triFalse {
				return triFalse
			}
			return triUnknown
		case token.EQL, token.NEQ:
			// err == nil
			for _, pr := range [][2]ast.Expr{{x.X, x.Y}, {x.Y, x.X}} {
				if core.IsNilExpr(fr.info, pr[1]) {
					if t, ok := fr.errNil[core.ObjOf(fr.info, pr[0])]; ok {
						if x.Op == token.NEQ {
							return t.not()
						}
						return t
					}
				}
			}
			if a, aok := p.num(fr, x.X); aok {
				if b, bok := p.num(fr, x.Y); bok {
					return triOf((a == b) == (x.Op == token.EQL))
				}
			}
			a, b := p.str(fr, x.X), p.str(fr, x.Y)
			if a.known && b.known {
				switch {
				case a.isK && b.isK:
					return triOf((a.konst == b.konst) == (x.Op == token.EQL))
				case a.isInt && b.isK && !allDigits(b.konst), b.isInt && a.isK && !allDigits(a.konst):
					return triOf(x.Op == token.NEQ) // an integer segment never equals a non-numeric constant
				}
			}
			return triUnknown
		case token.GTR, token.LSS, token.GEQ, token.LEQ:
			a, aok := p.num(fr, x.X)
			b, bok := p.num(fr, x.Y)
			if aok && bok {
				switch x.Op {
				case token.GTR:
					return triOf(a > b)
				case token.LSS:
					return triOf(a < b)
				case token.GEQ:
					return triOf(a >= b)
				default:
					return triOf(a <= b)
				}
			}
			return triUnknown
		}
	case *ast.CallExpr:
		// a local closure
		if o := core.ObjOf(fr.info, x.Fun); o != nil {
			if lit, ok := fr.closures[o]; ok && len(x.Args) == 0 {
				return p.body(fr, lit.Body.List)
			}
		}
		// another predicate of the same receiver
		if sel, ok := core.Unparen(x.Fun).(*ast.SelectorExpr); ok && core.ObjOf(fr.info, sel.X) == fr.recv && len(x.Args) == 0 {
			if callee := p.c.P.StaticCallee(fr.fi, x); callee != nil {
				if g := p.c.P.Funcs[callee]; g != nil {
					return p.call(g)
				}
			}
		}
	}
	return triUnknown
}

func allDigits(s string) bool {
	if s == "" {
		return false
	}
	for _, r := range s {
		if r < '0' || r > '9' {
			return false
		}
	}
	return true
}

// body evaluates a statement list to the value it returns.
func (p *predEval) body(fr *predFrame, list []ast.Stmt) tri {
	for _, st := range list {
		switch x := st.(type) {
		case *ast.DeclStmt:
			continue
		case *ast.AssignStmt:
			// closure definition
			if len(x.Lhs) == 1 && len(x.Rhs) == 1 {
				if lit, ok := core.Unparen(x.Rhs[0]).(*ast.FuncLit); ok {
					if o := core.ObjOf(fr.info, x.Lhs[0]); o != nil {
						fr.closures[o] = lit
					}
					continue
				}
			}
			// v, err := strconv.Atoi(<segment>)
			if len(x.Lhs) == 2 && len(x.Rhs) == 1 {
				if call, ok := core.Unparen(x.Rhs[0]).(*ast.CallExpr); ok && len(call.Args) == 1 {
					if cal := p.c.P.CalleeAny(fr.fi, call); cal != nil && cal.FullName() == "strconv.Atoi" {
						v := p.str(fr, call.Args[0])
						t := triUnknown
						switch {
						case v.known && v.isInt:
							t = triTrue
						case v.known && v.isK:
							t = triOf(allDigits(v.konst))
						}
						if o := core.ObjOf(fr.info, x.Lhs[1]); o != nil {
							fr.errNil[o] = t
						}
						continue
					}
				}
			}
			// a plain local definition (n := len(s)): read where it is used
			if x.Tok == token.DEFINE && len(x.Lhs) == 1 && len(x.Rhs) == 1 {
				if o := core.ObjOf(fr.info, x.Lhs[0]); o != nil && len(p.c.P.Locals(fr.fi).Defs[o]) == 1 {
					continue
				}
			}
			return triUnknown
		case *ast.IfStmt:
			if x.Init != nil || x.Else != nil {
				return triUnknown
			}
			switch p.expr(fr, x.Cond) {
			case triTrue:
				return p.body(fr, x.Body.List)
			case triFalse:
				continue
			default:
				return triUnknown
			}
		case *ast.ReturnStmt:
			if len(x.Results) != 1 {
				return triUnknown
			}
			return p.expr(fr, x.Results[0])
		default:
			return triUnknown
		}
	}
	return triUnknown
}

func (p *predEval) call(fi *core.FuncInfo) tri {
	if p.depth > 4 || fi.Decl == nil || fi.Decl.Body == nil || fi.Decl.Recv == nil || len(fi.Decl.Recv.List) != 1 || len(fi.Decl.Recv.List[0].Names) != 1 {
		return triUnknown
	}
	p.depth++
	defer func() { p.depth-- }()
	info := p.c.info(fi)
	fr := &predFrame{fi: fi, info: info, recv: info.Defs[fi.Decl.Recv.List[0].Names[0]], closures: map[types.Object]*ast.FuncLit{}, errNil: map[types.Object]tri{}, ints: map[types.Object]bool{}}
	return p.body(fr, fi.Decl.Body.List)
}

func keyGroups(c *Ctx) {
	// 1. the grouping sorter, by role: a function of the sortref package whose loop assigns a constant group to a
	//    local under classification predicates of the split key and files the key under that group
	type grp struct {
		pred *core.FuncInfo
		name string
	}
	var sorter *core.FuncInfo
	var groups []grp
	var emitted map[string]bool
	for _, fi := range c.P.SortedFuncs() {
		if !strings.HasSuffix(fi.Pkg.PkgPath, "/sortref") {
			continue
		}
		info := c.info(fi)
		var gs []grp
		ast.Inspect(fi.Decl.Body, func(nd ast.Node) bool {
			var cond ast.Expr
			var body []ast.Stmt
			switch x := nd.(type) {
			case *ast.IfStmt:
				cond, body = x.Cond, x.Body.List
			case *ast.CaseClause:
				if len(x.List) == 1 {
					cond, body = x.List[0], x.Body
				}
			}
			if cond == nil || len(body) != 1 {
				return true
			}
			call, ok := core.Unparen(cond).(*ast.CallExpr)
			if !ok || len(call.Args) != 0 {
				return true
			}
			callee := c.P.StaticCallee(fi, call)
			g := c.P.Funcs[callee]
			if callee == nil || g == nil {
				return true
			}
			as, ok := body[0].(*ast.AssignStmt)
			if !ok || len(as.Lhs) != 1 || len(as.Rhs) != 1 {
				return true
			}
			if s, isC := core.ConstString(info, as.Rhs[0]); isC {
				gs = append(gs, grp{g, s})
			}
			return true
		})
		if len(gs) >= 3 {
			sorter, groups = fi, gs
		}
	}
	if sorter == nil {
		c.S.Note("COV-KEYGROUPS: no grouping sorter recognised in the sortref package (groups assigned under classification predicates); rule not applied")
		return
	}
	// the emitted groups: the package-level []string literal ranged over by the sorter
	emitted = map[string]bool{}
	sinfo := c.info(sorter)
	ast.Inspect(sorter.Decl.Body, func(nd ast.Node) bool {
		rs, ok := nd.(*ast.RangeStmt)
		if !ok {
			return true
		}
		o, ok := core.ObjOf(sinfo, rs.X).(*types.Var)
		if !ok || !isPkgLevel(o) {
			return true
		}
		for _, f := range sorter.Pkg.Syntax {
			ast.Inspect(f, func(m ast.Node) bool {
				vs, ok := m.(*ast.ValueSpec)
				if !ok {
					return true
				}
				for i, nm := range vs.Names {
					if sinfo.Defs[nm] == o && i < len(vs.Values) {
						if cl, ok := vs.Values[i].(*ast.CompositeLit); ok {
							for _, el := range cl.Elts {
								if s, isC := core.ConstString(sinfo, el); isC {
									emitted[s] = true
								}
							}
						}
					}
				}
				return true
			})
		}
		return true
	})
	for _, g := range groups {
		c.S.Decide(emitted[g.name], "C03", "COV-KEYGROUPS", "group/"+g.name, c.P.Pos(sorter.Decl.Pos()),
			"the group is in the table of emitted groups",
			"keys classified by "+g.pred.Name()+" are filed under group \""+g.name+"\", which the sorter never emits: they disappear from the traversal")
	}
	// 2. the key shapes of the schema index
	in, _ := runIndexEval(c)
	if in == nil {
		c.S.Undecided("C03", "COV-KEYGROUPS", "model", "-", "the index-building code could not be evaluated")
		return
	}
	shapes := map[string][]string{} // shape -> tokens
	for _, ev := range in.events {
		if len(ev.keys) != 1 || ev.val == nil || ev.val.k != avStruct {
			continue
		}
		if _, tn := core.NamedOf(mapElem(ev.field.Type())); tn != "SchemaRef" {
			continue
		}
		k := ev.keys[0]
		if k.k != avKey || !k.hash || !known(k) {
			continue
		}
		toks := k.toks
		if len(toks) > 5 {
			// only the head of the key is classified (the predicates look at segments 0..4 and their length
			// tests are lower bounds): shapes are named by their first five segments; the shortest key of a
			// shape is the one evaluated
			toks = toks[:5]
		}
		name := "#/" + strings.Join(normaliseLoops(toks), "/")
		if len(k.toks) > 5 {
			name += "/…"
		}
		if old, ok := shapes[name]; ok && len(old) <= len(k.toks) {
			continue
		}
		delete(shapes, name)
		if _, ok := shapes[name]; !ok {
			shapes[name] = append([]string{}, k.toks...)
		}
	}
	names := make([]string, 0, len(shapes))
	for s := range shapes {
		names = append(names, s)
	}
	sort.Strings(names)
	if len(names) < 8 {
		c.S.Undecided("C03", "COV-KEYGROUPS", "floor", "-", fmt.Sprintf("only %d key shapes of the schema index found (confirmed by hand: 8 families)", len(names)))
		return
	}
	for _, nm := range names {
		pe := &predEval{c: c, toks: tokenVals(shapes[nm])}
		var sure, maybe []string
		for _, g := range groups {
			switch pe.call(g.pred) {
			case triTrue:
				if emitted[g.name] {
					sure = append(sure, g.name)
				}
			case triUnknown:
				maybe = append(maybe, g.pred.Name())
			}
		}
		c.S.Decide(len(sure) > 0, "C03", "COV-KEYGROUPS", "shape/"+nm, c.P.Pos(sorter.Decl.Pos()),
			"keys of this shape fall into group "+strings.Join(sure, ","),
			"no classification predicate of "+sorter.Name()+" is certain to accept a key of the shape "+nm+" (undetermined: "+strings.Join(maybe, ", ")+"): such keys can be filed under no emitted group and disappear from the traversal — the inline schema there is never named, a pointer held there never replaced")
	}
}

func mapElem(t types.Type) types.Type {
	if m, ok := t.Underlying().(*types.Map); ok {
		return m.Elem()
	}
	return t
}

// normaliseLoops drops loop ids from symbolic tokens so that shapes of different loops unify.
func normaliseLoops(toks []string) []string {
	out := make([]string, len(toks))
	for i, t := range toks {
		switch {
		case strings.HasPrefix(t, "{idx:"):
			out[i] = "{int}"
		case strings.HasPrefix(t, "{esc:"), strings.HasPrefix(t, "{raw:"):
			out[i] = "{name}"
		default:
			out[i] = t
		}
	}
	return out
}

// ---- PANIC-INDEX -----------------------------------------------------------------------------------------------

func init() {
	register(Rule{
		Name:  "PANIC-INDEX",
		Props: []string{"C09"},
		Doc:   "every constant index into a split key is preceded by a length test that covers it",
		Run:   panicIndex,
	})
}

// panicIndex (C09): the split keys of the sortref package are slices whose length is decided by the document (a
// pointer may stop anywhere). In every method of a named slice type of that package, an index expression s[K] with
// a constant K must be preceded — in the same && chain, in a dominating condition, or through a predicate of the
// same receiver whose truth implies it — by a test establishing len(s) > K; otherwise Flatten panics (index out
// of range) on a key shorter than the method assumes.
func panicIndex(c *Ctx) {
	n := 0
	boundMemo := map[*core.FuncInfo]int{}
	var predBound func(g *core.FuncInfo, depth int) int
	// atomBound: the lower bound on len(recv) that the truth of one atom establishes (0 = nothing)
	atomBound := func(fi *core.FuncInfo, recv types.Object, cd core.Cond, depth int) int {
		info := c.info(fi)
		if cd.Kind != core.CondBool {
			return 0
		}
		e := core.Unparen(cd.Expr)
		lenOfRecv := func(x ast.Expr) bool {
			x = core.Unparen(x)
			// n := len(s) kept in a local
			if id, isId := x.(*ast.Ident); isId {
				if defs := c.P.Locals(fi).Defs[core.ObjOf(info, id)]; len(defs) == 1 && defs[0].Kind == core.DefAssign {
					x = core.Unparen(defs[0].Expr)
				}
			}
			call, ok := x.(*ast.CallExpr)
			return ok && isBuiltin(info, call, "len") && len(call.Args) == 1 && core.ObjOf(info, call.Args[0]) == recv
		}
		num := func(x ast.Expr) (int, bool) {
			if tv, ok := info.Types[core.Unparen(x)]; ok && tv.Value != nil {
				var i int
				if _, err := fmt.Sscanf(tv.Value.String(), "%d", &i); err == nil {
					return i, true
				}
			}
			return 0, false
		}
		if be, ok := e.(*ast.BinaryExpr); ok {
			op := be.Op
			x, y := be.X, be.Y
			if lenOfRecv(y) { // N < len(s)  ==  len(s) > N
				x, y = y, x
				switch op {
				case token.LSS:
					op = token.GTR
				case token.LEQ:
					op = token.GEQ
				case token.GTR:
					op = token.LSS
				case token.GEQ:
					op = token.LEQ
				}
			}
			if lenOfRecv(x) {
				if v, ok := num(y); ok {
					if !cd.Neg {
						switch op {
						case token.GTR:
							return v + 1
						case token.GEQ:
							return v
						case token.EQL:
							return v
						}
					} else {
						switch op { // !(len < v) = len >= v ; !(len <= v) = len > v
						case token.LSS:
							return v
						case token.LEQ:
							return v + 1
						}
					}
				}
			}
			return 0
		}
		if call, ok := e.(*ast.CallExpr); ok && !cd.Neg {
			if sel, ok := core.Unparen(call.Fun).(*ast.SelectorExpr); ok && core.ObjOf(info, sel.X) == recv {
				if callee := c.P.StaticCallee(fi, call); callee != nil {
					if g := c.P.Funcs[callee]; g != nil {
						return predBound(g, depth+1)
					}
				}
			}
		}
		return 0
	}
	recvOf := func(fi *core.FuncInfo) types.Object {
		if fi.Decl.Recv == nil || len(fi.Decl.Recv.List) != 1 || len(fi.Decl.Recv.List[0].Names) != 1 {
			return nil
		}
		return c.info(fi).Defs[fi.Decl.Recv.List[0].Names[0]]
	}
	// predBound: the truth of predicate g implies len(recv) >= bound
	predBound = func(g *core.FuncInfo, depth int) int {
		if b, ok := boundMemo[g]; ok {
			return b
		}
		boundMemo[g] = 0
		if depth > 4 || g.Decl == nil || g.Decl.Body == nil {
			return 0
		}
		recv := recvOf(g)
		if recv == nil {
			return 0
		}
		// every return that may be true contributes; the bound is the minimum over them
		best, first := 0, true
		ast.Inspect(g.Decl.Body, func(nd ast.Node) bool {
			if _, isLit := nd.(*ast.FuncLit); isLit {
				return false
			}
			ret, ok := nd.(*ast.ReturnStmt)
			if !ok || len(ret.Results) != 1 {
				return true
			}
			if tv, isC := c.info(g).Types[ret.Results[0]]; isC && tv.Value != nil && tv.Value.String() == "false" {
				return true
			}
			b := 0
			for _, cd := range core.SplitCond(ret.Results[0], false) {
				if v := atomBound(g, recv, cd, depth); v > b {
					b = v
				}
			}
			for _, cd := range c.conds(g, ret) {
				if v := atomBound(g, recv, cd, depth); v > b {
					b = v
				}
			}
			if first || b < best {
				best, first = b, false
			}
			return true
		})
		boundMemo[g] = best
		return best
	}
	for _, fi := range c.P.SortedFuncs() {
		if !strings.HasSuffix(fi.Pkg.PkgPath, "/sortref") {
			continue
		}
		recv := recvOf(fi)
		if recv == nil || !core.IsSlice(recv.Type()) {
			continue
		}
		info := c.info(fi)
		pm := c.parents(fi)
		ord := 0
		// bound established at a node: dominating statement conditions + the left operands of enclosing && chains;
		// inside a function literal bound to a local, the conditions at the literal's call sites
		var boundAt func(node ast.Node, depth int) int
		boundAt = func(node ast.Node, depth int) int {
			b := 0
			for _, cd := range c.conds(fi, node) {
				if v := atomBound(fi, recv, cd, 0); v > b {
					b = v
				}
			}
			child := node
			for p := pm[node]; p != nil; child, p = p, pm[p] {
				if be, ok := p.(*ast.BinaryExpr); ok && be.Op == token.LAND && be.Y == child {
					for _, cd := range core.SplitCond(be.X, false) {
						if v := atomBound(fi, recv, cd, 0); v > b {
							b = v
						}
					}
				}
				// the right operand of || runs when the left one is false: len(s) <= 4 || s[3] != x
				if be, ok := p.(*ast.BinaryExpr); ok && be.Op == token.LOR && be.Y == child {
					for _, cd := range core.SplitCond(be.X, true) {
						if v := atomBound(fi, recv, cd, 0); v > b {
							b = v
						}
					}
				}
				if lit, ok := p.(*ast.FuncLit); ok && depth < 2 {
					// the literal's call sites
					if as, ok := pm[lit].(*ast.AssignStmt); ok && len(as.Lhs) == 1 {
						lo := core.ObjOf(info, as.Lhs[0])
						min, any := 0, false
						ast.Inspect(fi.Decl.Body, func(m ast.Node) bool {
							if call, ok := m.(*ast.CallExpr); ok && core.ObjOf(info, call.Fun) == lo && lo != nil {
								v := boundAt(call, depth+1)
								if !any || v < min {
									min, any = v, true
								}
							}
							return true
						})
						if any && min > b {
							b = min
						}
					}
					break
				}
				if _, isStmt := p.(ast.Stmt); isStmt {
					// keep climbing: conds() already covers statements; && chains only live inside expressions
					if _, isExprStmt := p.(*ast.ExprStmt); !isExprStmt {
						if _, isRet := p.(*ast.ReturnStmt); !isRet {
							if _, isAs := p.(*ast.AssignStmt); !isAs {
								if _, isIf := p.(*ast.IfStmt); !isIf {
									continue
								}
							}
						}
					}
				}
			}
			return b
		}
		ast.Inspect(fi.Decl.Body, func(nd ast.Node) bool {
			ix, ok := nd.(*ast.IndexExpr)
			if !ok || core.ObjOf(info, ix.X) != recv {
				return true
			}
			tv, isC := info.Types[ix.Index]
			if !isC || tv.Value == nil {
				return true
			}
			var k int
			if _, err := fmt.Sscanf(tv.Value.String(), "%d", &k); err != nil {
				return true
			}
			n++
			ord++
			b := boundAt(ix, 0)
			c.S.Decide(b >= k+1, "C09", "PANIC-INDEX", fmt.Sprintf("%s/index#%d", fi.QName(), ord), c.P.Pos(ix.Pos()),
				fmt.Sprintf("len >= %d is established before index %d is read", b, k),
				fmt.Sprintf("index %d of the split key is read where only len >= %d is established: a key with %d segments or fewer (a pointer that stops at an operation's responses object, say) makes this panic with index out of range, and Flatten crashes", k, b, k))
			return true
		})
	}
	if n < 5 {
		c.S.Note("PANIC-INDEX: fewer than five constant indexes into split keys found (about fifteen on the pinned tree)")
	}
}
