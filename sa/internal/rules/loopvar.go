package rules

// loopvar (LOOPVAR-ADDR): under Go < 1.22 semantics (the `go` directive of the module's go.mod decides, not the
// toolchain) the variables of a range clause are shared by all iterations. Taking the address of such a variable
// and handing it to something that keeps the pointer makes every kept pointer designate the same variable, which
// holds the value of the last iteration: an index of *spec.Schema built that way maps every key of the ranged map
// to one schema.
//
// The rule inspects every `&v` (and every pointer-receiver method call on v) where v is the key or value variable
// of a range statement itself — a per-iteration copy `v := v` declares a different variable and is not matched —
// and decides, with a retention summary of the module's functions, whether the pointer is kept beyond the
// iteration.

import (
	"fmt"
	"go/ast"
	"go/token"
	"go/types"
	"os"
	"path/filepath"
	"regexp"
	"strconv"

	"verif/sa/internal/core"
)

func init() {
	register(Rule{
		Name:  "LOOPVAR",
		Props: []string{"C12", "C01", "C17"},
		Doc:   "the address of a range variable shared by all iterations (go.mod < 1.22) is never kept beyond the iteration",
		Run:   loopvarRules,
	})
}

var goDirective = regexp.MustCompile(`(?m)^go\s+(\d+)\.(\d+)`)

// sharedLoopVars: does the module's go directive select the pre-1.22 loop variable semantics?
func sharedLoopVars(root string) (bool, string) {
	b, err := os.ReadFile(filepath.Join(root, "go.mod"))
	if err != nil {
		return true, "go.mod unreadable: assuming shared loop variables"
	}
	m := goDirective.FindSubmatch(b)
	if m == nil {
		return true, "no go directive: language version defaults to shared loop variables"
	}
	maj, _ := strconv.Atoi(string(m[1]))
	min, _ := strconv.Atoi(string(m[2]))
	v := fmt.Sprintf("go %d.%d", maj, min)
	return maj == 1 && min < 22, v
}

type retention struct {
	c    *Ctx
	memo map[string]int // 0 unknown, 1 in progress, 2 no, 3 yes
}

// retains: does fi keep the pointer passed as parameter idx (-1 = receiver) beyond its own activation?
func (r *retention) retains(fi *core.FuncInfo, idx int, depth int) bool {
	if fi == nil || fi.Decl == nil || fi.Decl.Body == nil {
		return true // unknown callee: assume it keeps the pointer
	}
	key := fmt.Sprintf("%s|%d", fi.QName(), idx)
	switch r.memo[key] {
	case 1, 2:
		return false
	case 3:
		return true
	}
	if depth > 8 {
		return true
	}
	r.memo[key] = 1
	po := paramObj(fi, idx)
	res := false
	if po != nil {
		res = r.keeps(fi, fi.Decl.Body, map[types.Object]bool{po: true}, depth)
	}
	if res {
		r.memo[key] = 3
	} else {
		r.memo[key] = 2
	}
	return res
}

// keeps: inside body, is (an alias of) the pointer stored somewhere that outlives the activation / iteration?
func (r *retention) keeps(fi *core.FuncInfo, body ast.Node, alias map[types.Object]bool, depth int) bool {
	c := r.c
	info := c.info(fi)
	// one-level local aliases: q := p
	for changed := true; changed; {
		changed = false
		ast.Inspect(body, func(n ast.Node) bool {
			as, ok := n.(*ast.AssignStmt)
			if !ok || len(as.Lhs) != len(as.Rhs) {
				return true
			}
			for i, l := range as.Lhs {
				lo := core.ObjOf(info, l)
				if lo == nil || alias[lo] {
					continue
				}
				if _, isIdent := core.Unparen(l).(*ast.Ident); !isIdent {
					continue
				}
				if ro := core.ObjOf(info, as.Rhs[i]); ro != nil && alias[ro] {
					if _, isIdent := core.Unparen(as.Rhs[i]).(*ast.Ident); isIdent {
						alias[lo] = true
						changed = true
					}
				}
			}
			return true
		})
	}
	is := func(e ast.Expr) bool {
		id, ok := core.Unparen(e).(*ast.Ident)
		return ok && alias[core.ObjOf(info, id)]
	}
	kept := false
	ast.Inspect(body, func(n ast.Node) bool {
		if kept {
			return false
		}
		switch x := n.(type) {
		case *ast.CompositeLit:
			for _, el := range x.Elts {
				if kv, ok := el.(*ast.KeyValueExpr); ok {
					el = kv.Value
				}
				if is(el) {
					kept = true
				}
			}
		case *ast.AssignStmt:
			if len(x.Lhs) != len(x.Rhs) {
				return true
			}
			for i, l := range x.Lhs {
				if !is(x.Rhs[i]) {
					continue
				}
				switch core.Unparen(l).(type) {
				case *ast.SelectorExpr, *ast.IndexExpr, *ast.StarExpr:
					kept = true
				case *ast.Ident:
					// a variable declared outside the body (outer accumulator, package variable)
					if o := core.ObjOf(info, l); o != nil && !alias[o] && (o.Pos() < body.Pos() || o.Pos() > body.End()) {
						kept = true
					}
				}
			}
		case *ast.SendStmt:
			if is(x.Value) {
				kept = true
			}
		case *ast.GoStmt:
			for _, a := range x.Call.Args {
				if is(a) {
					kept = true
				}
			}
		case *ast.CallExpr:
			if isBuiltin(info, x, "append") {
				for _, a := range x.Args[1:] {
					if is(a) {
						kept = true
					}
				}
				return true
			}
			fns, lits := c.P.Callees(fi, x)
			for i, a := range x.Args {
				if !is(a) {
					continue
				}
				if len(fns) == 0 && len(lits) == 0 {
					if _, isConv := info.Types[x.Fun]; isConv && info.Types[x.Fun].IsType() {
						continue
					}
					if id, ok := core.Unparen(x.Fun).(*ast.Ident); ok {
						if _, isB := info.Uses[id].(*types.Builtin); isB {
							continue
						}
					}
					kept = true // dynamic call
					continue
				}
				for _, callee := range fns {
					g := c.P.Funcs[callee]
					if g == nil {
						// external: readers of the standard library and of go-openapi do not keep their argument,
						// except the listed mutators/constructors (none takes the address of a loop variable today)
						continue
					}
					if r.retains(g, i, depth+1) {
						kept = true
					}
				}
			}
			// method call with the pointer as receiver
			if sel, ok := core.Unparen(x.Fun).(*ast.SelectorExpr); ok && is(sel.X) {
				for _, callee := range fns {
					if g := c.P.Funcs[callee]; g != nil && r.retains(g, -1, depth+1) {
						kept = true
					}
				}
			}
		case *ast.FuncLit:
			// a closure that mentions the pointer and escapes is not tracked: treated as keeping it when it is
			// passed to go/defer or stored (rare; none today)
		}
		return true
	})
	return kept
}

func loopvarRules(c *Ctx) {
	shared, ver := sharedLoopVars(c.P.Root)
	if !shared {
		c.S.Hold("C12", "LOOPVAR-ADDR", "language-version", "go.mod", "the module's go directive ("+ver+") gives every iteration its own loop variables")
		return
	}
	r := &retention{c: c, memo: map[string]int{}}
	sites := 0
	for _, fi := range c.P.SortedFuncs() {
		info := c.info(fi)
		prop := c.propForFunc(fi, "C12")
		if prop != "C17" && prop != "C12" {
			prop = "C12"
		}
		if flat := c.root("Flatten"); flat != nil && c.P.Reachable(flat)[fi] {
			if nw := c.root("New"); nw == nil || !c.P.Reachable(nw)[fi] {
				prop = "C01"
			}
		}
		ord := map[string]int{}
		ast.Inspect(fi.Decl.Body, func(n ast.Node) bool {
			rs, ok := n.(*ast.RangeStmt)
			if !ok || rs.Tok != token.DEFINE {
				return true
			}
			vars := map[types.Object]bool{}
			for _, e := range []ast.Expr{rs.Key, rs.Value} {
				if id, ok := e.(*ast.Ident); ok && id.Name != "_" {
					if o := info.Defs[id]; o != nil {
						vars[o] = true
					}
				}
			}
			if len(vars) == 0 {
				return true
			}
			// &v sites in the body, v being the range variable itself
			ast.Inspect(rs.Body, func(m ast.Node) bool {
				var v types.Object
				var at ast.Node
				how := ""
				switch x := m.(type) {
				case *ast.UnaryExpr:
					if x.Op == token.AND {
						if id, ok := core.Unparen(x.X).(*ast.Ident); ok && vars[info.Uses[id]] {
							v, at, how = info.Uses[id], x, "&"+id.Name
						}
					}
				case *ast.CallExpr:
					// v.M() with a pointer receiver takes &v implicitly
					if sel, ok := core.Unparen(x.Fun).(*ast.SelectorExpr); ok {
						if id, ok := core.Unparen(sel.X).(*ast.Ident); ok && vars[info.Uses[id]] {
							if s := info.Selections[sel]; s != nil && s.Kind() == types.MethodVal {
								if sig, ok := s.Obj().Type().(*types.Signature); ok && sig.Recv() != nil && core.IsPointer(sig.Recv().Type()) && !core.IsPointer(info.Uses[id].Type()) {
									if g := c.P.Funcs[s.Obj().(*types.Func).Origin()]; g != nil && r.retains(g, -1, 0) {
										v, at, how = info.Uses[id], x, id.Name+"."+sel.Sel.Name+"() (pointer receiver)"
									}
								}
							}
						}
					}
				}
				if v == nil {
					return true
				}
				sites++
				kept := false
				if _, isCall := at.(*ast.CallExpr); isCall {
					kept = true
				} else {
					kept = r.addrKept(fi, rs.Body, at.(*ast.UnaryExpr))
				}
				base := fi.QName() + "/range-var " + types.TypeString(v.Type(), func(p *types.Package) string { return p.Name() })
				ord[base]++
				k := base
				if ord[base] > 1 {
					k = fmt.Sprintf("%s#%d", base, ord[base])
				}
				c.S.Decide(!kept, prop, "LOOPVAR-ADDR", k, c.P.Pos(at.Pos()),
					"the pointer to the shared loop variable is only read during the iteration",
					how+" takes the address of a range variable that all iterations share ("+ver+" in go.mod) and the pointer is kept beyond the iteration: every entry registered by this loop designates the same variable, holding the last element visited — add a per-iteration copy (v := v) or index the collection")
				return true
			})
			return true
		})
	}
	if sites < 2 {
		c.S.Undecided("C12", "LOOPVAR-ADDR", "floor", "-", fmt.Sprintf("only %d addresses of range variables found (confirmed by hand: 3 in the analyzer)", sites))
	}
}

// addrKept: is the pointer produced by this &v kept beyond the iteration?
func (r *retention) addrKept(fi *core.FuncInfo, body *ast.BlockStmt, addr *ast.UnaryExpr) bool {
	c := r.c
	info := c.info(fi)
	pm := c.parents(fi)
	parent := pm[addr]
	for {
		if p, ok := parent.(*ast.ParenExpr); ok {
			parent = pm[p]
			continue
		}
		break
	}
	switch x := parent.(type) {
	case *ast.CallExpr:
		if isBuiltin(info, x, "append") {
			return true
		}
		fns, lits := c.P.Callees(fi, x)
		if len(fns) == 0 && len(lits) == 0 {
			return true
		}
		for i, a := range x.Args {
			if core.Unparen(a) != ast.Expr(addr) {
				continue
			}
			for _, callee := range fns {
				g := c.P.Funcs[callee]
				if g == nil {
					continue // external readers (see keeps)
				}
				if r.retains(g, i, 0) {
					return true
				}
			}
		}
		return false
	case *ast.AssignStmt:
		// p := &v : follow the local inside the loop body; stored elsewhere: kept
		for i, rhs := range x.Rhs {
			if core.Unparen(rhs) != ast.Expr(addr) || i >= len(x.Lhs) {
				continue
			}
			if id, ok := core.Unparen(x.Lhs[i]).(*ast.Ident); ok {
				if o := core.ObjOf(info, id); o != nil && o.Pos() >= body.Pos() && o.Pos() <= body.End() {
					return r.keeps(fi, body, map[types.Object]bool{o: true}, 0)
				}
			}
			return true
		}
	case *ast.KeyValueExpr, *ast.CompositeLit, *ast.ReturnStmt, *ast.SendStmt:
		return true
	case *ast.SelectorExpr, *ast.StarExpr:
		return false // (&v).f : read
	}
	return false
}
