package rules

// lostupdate (E10): a struct copied out of a map or slice and then modified
// must be written back to the same container and key.

import (
	"fmt"
	"go/ast"
	"go/token"
	"go/types"

	"verif/sa/internal/core"
)

func init() {
	register(Rule{
		Name:  "LOST-UPDATE",
		Props: []string{"C19", "C01"},
		Doc:   "a modified copy of a map/slice element is stored back into its container under the same key",
		Run:   lostUpdate,
	})
}

func lostUpdate(c *Ctx) {
	e := effects(c)
	count := map[string]int{}
	for _, fi := range c.P.SortedFuncs() {
		prop := ""
		switch {
		case c.below(fi, "FixEmptyResponseDescriptions"):
			prop = "C19"
		case c.below(fi, "Flatten") && !c.onSpec(fi) && !c.below(fi, "Schema"):
			prop = "C01"
		default:
			continue
		}
		info := c.info(fi)
		ld := c.P.Locals(fi)
		pm := c.parents(fi)
		for o, defs := range ld.Defs {
			v, ok := o.(*types.Var)
			if !ok || len(defs) != 1 {
				continue
			}
			if _, isStruct := v.Type().Underlying().(*types.Struct); !isStruct {
				continue
			}
			// only elements of the document model (a go-openapi/spec struct): copies of the module's own
			// bookkeeping values are routinely modified for local use
			if pp, _ := core.NamedOf(v.Type()); pp != core.SpecPath {
				continue
			}
			var container, key ast.Expr
			d := defs[0]
			switch d.Kind {
			case core.DefRangeVal:
				rs := d.Node.(*ast.RangeStmt)
				container, key = rs.X, rs.Key
			case core.DefAssign:
				ix, ok := core.Unparen(d.Expr).(*ast.IndexExpr)
				if !ok {
					continue
				}
				container, key = ix.X, ix.Index
			default:
				continue
			}
			ct := info.TypeOf(container)
			if ct == nil || !(core.IsMap(ct) || core.IsSlice(ct)) || key == nil {
				continue
			}
			// modifications of the copy
			var mods []ast.Node
			ast.Inspect(fi.Decl.Body, func(n ast.Node) bool {
				switch x := n.(type) {
				case *ast.AssignStmt:
					for _, l := range x.Lhs {
						if sel, ok := core.Unparen(l).(*ast.SelectorExpr); ok {
							if rootIdent(sel) != nil && info.Uses[rootIdent(sel)] == o {
								mods = append(mods, x)
							}
						}
					}
				case *ast.CallExpr:
					callee := c.P.StaticCallee(fi, x)
					if callee == nil || c.P.Funcs[callee] == nil {
						return true
					}
					for i, a := range x.Args {
						u, ok := core.Unparen(a).(*ast.UnaryExpr)
						if !ok || u.Op != token.AND || core.ObjOf(info, u.X) != o {
							continue
						}
						for _, w := range e.sortedWrites(c.P.Funcs[callee]) {
							if w.root == "param" && w.param == i {
								mods = append(mods, x)
								break
							}
						}
					}
				}
				return true
			})
			if len(mods) == 0 {
				continue
			}
			count[prop]++
			// write-backs: container[key] = v
			var wbs []*ast.AssignStmt
			ast.Inspect(fi.Decl.Body, func(n ast.Node) bool {
				as, ok := n.(*ast.AssignStmt)
				if !ok || len(as.Lhs) != 1 || len(as.Rhs) != 1 {
					return true
				}
				ix, ok := core.Unparen(as.Lhs[0]).(*ast.IndexExpr)
				if !ok || core.ObjOf(info, as.Rhs[0]) != o {
					return true
				}
				if sameExpr(ix.X, container) && sameExpr(ix.Index, key) {
					wbs = append(wbs, as)
				}
				return true
			})
			ok2 := true
			why := ""
			for _, m := range mods {
				covered := false
				mc := condSet(core.PathConds(info, pm, m, nil))
				for _, wb := range wbs {
					if wb.Pos() < m.Pos() {
						continue
					}
					wc := condSet(core.PathConds(info, pm, wb, nil))
					sub := true
					for k := range wc {
						if !mc[k] {
							sub = false
						}
					}
					if sub {
						covered = true
					}
				}
				if !covered {
					ok2 = false
					why = fmt.Sprintf("the modification at %s is not followed by %s[%s] = %s under the same conditions", c.P.Pos(m.Pos()), exprStr(container), exprStr(key), o.Name())
				}
			}
			c.S.Decide(ok2, prop, "LOST-UPDATE", fi.QName()+"/"+o.Name()+"<-"+exprStr(container), c.P.Pos(d.Pos),
				"the modified copy is written back to "+exprStr(container)+"["+exprStr(key)+"]",
				o.Name()+" is a copy of an element of "+exprStr(container)+"; "+why+": the change is lost")
		}
	}
	// the one-statement form: M[k] = fix(M[k]) — the copy handed to the helper by value comes back and is stored
	// where it was taken from
	for _, fi := range c.P.SortedFuncs() {
		prop := ""
		switch {
		case c.below(fi, "FixEmptyResponseDescriptions"):
			prop = "C19"
		case c.below(fi, "Flatten") && !c.onSpec(fi) && !c.below(fi, "Schema"):
			prop = "C01"
		default:
			continue
		}
		info := c.info(fi)
		ast.Inspect(fi.Decl.Body, func(n ast.Node) bool {
			as, ok := n.(*ast.AssignStmt)
			if !ok || len(as.Lhs) != 1 || len(as.Rhs) != 1 {
				return true
			}
			ix, ok := core.Unparen(as.Lhs[0]).(*ast.IndexExpr)
			call, isCall := core.Unparen(as.Rhs[0]).(*ast.CallExpr)
			if !ok || !isCall || !core.IsMap(info.TypeOf(ix.X)) {
				return true
			}
			for _, a := range call.Args {
				if sameExpr(a, ix) && c.P.Funcs[c.P.StaticCallee(fi, call)] != nil {
					count[prop]++
					c.S.Hold(prop, "LOST-UPDATE", fi.QName()+"/"+exprStr(ix.X)+"<-"+exprStr(call.Fun), c.P.Pos(as.Pos()),
						"the element is handed to "+exprStr(call.Fun)+" by value and the result is stored back under the same key")
				}
			}
			return true
		})
	}
	// floors: at least one instance each (two and four on the pinned tree; a shared helper legitimately merges them)
	if count["C19"] < 1 {
		c.S.Undecided("C19", "LOST-UPDATE", "floor", "-", "no modified copy of a map element found in the fixer (two on the pinned tree)")
	}
	if count["C01"] < 1 {
		c.S.Undecided("C01", "LOST-UPDATE", "floor", "-", "no modified copy of a container element found in the rewriters (four on the pinned tree)")
	}
}

func rootIdent(e ast.Expr) *ast.Ident {
	for {
		switch x := core.Unparen(e).(type) {
		case *ast.Ident:
			return x
		case *ast.SelectorExpr:
			e = x.X
		case *ast.IndexExpr:
			e = x.X
		case *ast.StarExpr:
			e = x.X
		default:
			return nil
		}
	}
}

func condSet(cs []core.Cond) map[string]bool {
	out := map[string]bool{}
	for _, c := range cs {
		switch c.Kind {
		case core.CondBool:
			out[fmt.Sprintf("b:%v:%s", c.Neg, exprStr(c.Expr))] = true
		case core.CondRange:
			out["r:"+exprStr(c.Expr)] = true
		case core.CondCase, core.CondTypeCase:
			s := "c:"
			if c.Expr != nil {
				s += exprStr(c.Expr)
			}
			for _, v := range c.Values {
				s += "|" + exprStr(v)
			}
			out[s] = true
		}
	}
	return out
}
