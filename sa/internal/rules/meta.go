package rules

// PropMeta is the per-property text that goes into evidence.
type PropMeta struct {
	Explanation string
	NotDecided  []string
	Assumptions []string
}

var metas = map[string]PropMeta{}

// Meta returns the evidence text for a property.
func Meta(prop string) PropMeta {
	m, ok := metas[prop]
	if !ok {
		return PropMeta{Explanation: "static rules over the type-checked source of /repo; see DESIGN.md §4 " + prop}
	}
	return m
}
