package rules

// PropMeta is the per-property text that goes into evidence.
type PropMeta struct {
	Explanation string
	NotDecided  []string
	Assumptions []string
}

var idxAssume = []string{
	"documents are values of the go-openapi/spec model (finite trees of the struct types read from go/types)",
	"jsonpointer resolves tokens through the json struct tags and the JSONLookup methods of go-openapi/spec (ResponsesProps.Default is 'default'; Paths.Paths, StatusCodeResponses, SchemaOrArray and SchemaOrBool members are flattened)",
	"jsonpointer.Escape is the only escaper needed for a map key to become one pointer token; path.Join does not alter tokens free of '.', '..' and empty segments (the alphabet of C01 excludes those names)",
	"the abstract evaluation takes every branch (except conditions over two constants or fully known keys), evaluates each loop body once with a symbolic key/index, inlines module calls and bounds recursion at depth 2; a construct it cannot model yields an unknown value that is reported, never silently accepted as equal",
}

var metas = map[string]PropMeta{
	"C01": {
		Explanation: "PIPE-CLONE, LOST-UPDATE (rewriters), ENC-MAPKEY and ENC-CMP (rewriters and flatten.go), REF-EQ, ENC-FRAGSPLIT, ENC-CONSUMER, ENC-SUBSTR, PIPE-REBASE, LOOPVAR-ADDR, REF-BASENAME, SYNC-RECORD. Each is a necessary condition: violating it changes the meaning of some bundle in W. ENC-ROOTEDCLEAN, EFFECT-SHORTCIRCUIT.",
		NotDecided:  []string{"bisimulation of the $ref-unfolded documents", "that a re-pointed $ref designates the same schema", "normalize.RebaseRef's path arithmetic", "OAIGen de-duplication", "that paths/operations/parameters are otherwise untouched"},
		Assumptions: []string{"string encodings: N raw name, T pointer-escaped token, P joined tokens, K '#'+P, U URL-escaped K; signatures of jsonpointer.Escape/Unescape, path.Join/Base/Dir, url.PathUnescape, Ref.String as read from their sources; names contain no '%'"},
	},
	"C02": {
		Explanation: "PIPE-ORDER on Flatten (phases identified by what they reach: spec.ExpandSpec, sortref.ReverseIndex, replace.UpdateRefWithSchema) REF-CANONICAL on every $ref written into the root document, GUARD-EMPTYNAME in the naming loop, SYNC-RECORD (a record resolved twice is refreshed in full), PIPE-RERUN, REF-EQ-RESOLVED and NAME-TOTAL on the function that collects the candidate names (never an empty list).",
		NotDecided:  []string{"spec.ExpandSpec removing every non-schema $ref", "reaching the import and pointer fixpoints", "absence of $refs the analyzer does not see (C11)"},
		Assumptions: []string{"the single transient non-canonical write (stripOAIGenForRef re-pointing parents to the first parent) is followed by pointer naming, as its return value requests"},
	},
	"C03": {
		Explanation: "PIPE-SAVE-NAME, PIPE-WHOWRITES-DEFS, GUARD-UNIQ, GUARD-COMPLEXMOVE, GUARD-COMPLEXDEF, GUARD-REINLINE, GUARD-DOCRULES, COV-KEYGROUPS, NAME-TOTAL, PIPE-ORDER/inline, COV-METHODSET. ENC-NUMRENDER.",
		NotDecided:  []string{"that every position is visited (C11/C12)", "the re-iteration fixpoint after de-duplication re-inlines a complex schema"},
		Assumptions: []string{"strings.EqualFold is the case-insensitive comparison meant by the statement"},
	},
	"C04": {
		Explanation: "PIPE-HOLDERS (value and parent kinds; every *spec.Schema member of the model read from the types), GUARD-PLANNED, SYNC-ENTRY, ENC-REFARG (known finding), ENC-PREFIXSEP, PIPE-ABSJOIN, ENC-FRAGSPLIT, ENC-CONSUMER, PIPE-MODEGUARD (the call sites of one phase test the same mode options).",
		NotDecided:  []string{"that Flatten returns nil on every bundle of W", "failures that originate in the dependency go-openapi/spec (spec.ExpandSpec on a remote shared response used twice whose schema reaches a recursive definition: witness/clean_tree/dep_expand_aux_response_twice)"},
		Assumptions: []string{"the kinds of value jsonpointer.Get can return for an analyzer key are *Schema, Schema, *SchemaOrArray, *SchemaOrBool, and the containers of a by-value schema are Definitions, map[string]Schema, []Schema, *SchemaOrArray, SchemaProperties (read from go-openapi/spec)"},
	},
	"C06": {
		Explanation: "ENC-MAPKEY in removeUnusedSinglePass, TERM-PROGRESS, PIPE-ORDER/clearShared and /removeUnused, PIPE-NOREFILL. TERM-PROGRESS/loop (the repeat loop runs exactly while the pass reports progress). ENC-MAPKEY reads pointers spelled with + and path.Base of a multi-domain local.",
		NotDecided:  []string{"that the reference list is complete (C11)", "meaning preservation (C01)"},
		Assumptions: []string{"names contain no '%' (url.PathUnescape is then the inverse of the escaping done by Ref.String)"},
	},
	"C07": {
		Explanation: "ORD-LOOP over every unordered loop below Flatten, ORD-SINK over every use of an order-tainted slice or field, ORD-TOTAL (distinct elements are separated) and ORD-STRICT (strict weak order, by exhaustive evaluation over the orderings of the compared terms) over every comparator that sorts below Flatten. ORD-CARRIED.",
		NotDecided:  []string{"three loops frozen as assumptions (see exempt obligations)", "comparators outside the modelled fragment (a comparison between different terms, a call to another comparator): ORD-STRICT then emits a note, no verdict", "byte-identical serialisation"},
		Assumptions: []string{"Go map iteration order is the only source of nondeterminism (single goroutine, no time or randomness below Flatten)", "distinct iterations of a loop over a map write distinct keys when the key is the loop variable"},
	},
	"C09": {
		Explanation: "NIL-DEREF (with lookup pairs and typed-nil identity), TERM-REC, TERM-THREAD, TERM-SELFINLINE, TERM-VISITED/COUNTER (fixpoint loops inventoried as exempt), ERR-PROP/ERR-DROP, ERR-RESOLVE-SKIPPED, COV-EXPANDOPTS, PANIC-UNREACH, PANIC-INDEX, PANIC-SLICEBOUND, PANIC-BOUNDARY (the calls into the resolvers of go-openapi/spec run under a recover that returns an error), COV-ALLREFS, TERM-IMPORT-PROGRESS, ENC-MUSTREF (known finding). NIL-ALLOC, GUARD-COMMAOK.",
		NotDecided:  []string{"termination of importReferences and stripPointersAndOAIGen", "index and slice bounds other than constant indexes into split keys and parameters used as slice bounds", "panics inside jsonpointer and swag, and inside go-openapi/spec outside the five resolver calls covered by PANIC-BOUNDARY", "which load fails at run time"},
		Assumptions: []string{"a call does not nil-out a field of a value it receives", "documents are finite trees"},
	},
	"C10": {
		Explanation: "Typestate E/S/T (unchanged since entry / in sync / stale) propagated through every function below Flatten with one summary over success exits and one over error exits per function: the branch `err != nil` of a module call is entered in the callee's error-exit state, so an error branch that returns changes nothing and one that falls through (an error downgraded to a warning) is followed. Events: stores into document storage and in-place external mutators (stale), the rebuild method on the Spec handed to Flatten (sync), reads of Spec's index fields or query methods on that Spec (need sync when nothing was mutated yet in the function). Fresh analyzers (New(opts.Swagger()), the partial analyzer of importNewRef) are other objects and change nothing. SYNC-RELOAD-EQ-NEW: the re-analysis makes the calls New makes, and New stores nothing into the analyzer outside them.",
		NotDecided:  []string{"that the caller's Spec was in sync when handed to Flatten (assumed)", "equality of answers is derived from 'the last event is a re-analysis identical to New'; the analyzer's own completeness is C11–C14"},
		Assumptions: []string{"mutator set complete: write-effect summaries plus the external table (spec.ExpandSpec/ExpandSchema, swag.FromDynamicJSON, AddExtension)", "index reads after a phase's own mutations are by design (snapshot iteration) and are not constrained"},
	},
	"C11": {
		Explanation: "Abstract evaluation of analysis.New over a symbolic document. For every position of the spec model that can hold a parameter, response, header, items, path item, operation or schema (enumerated from go/types) and for every schema-bearing field of spec.SchemaProps, the rules decide: a $ref there is registered in the index of its kind (the index is identified by the exported getter that reads it), under exactly the JSON pointer of its holder, mirrored in the all-view, and under no other condition than the $ref being non-empty.",
		NotDecided:  []string{"multiplicity when two holders map to one key (excluded for C01's alphabet by ENC-SPLICE)", "shared parameters/responses that are themselves $refs (exempt: outside the quantifier, unsupported by spec.ExpandSpec)", "`dependencies` (not in C11's keyword list)"},
		Assumptions: idxAssume,
	},
	"C12": {
		Explanation: "Abstract evaluation of analysis.New: every schema registration is keyed by the JSON pointer of the schema it stores — constant segments equal the json tags, map keys are pointer-escaped, indices are the loop's own — at every model position and below every schema-bearing keyword (recursion step checked at depth 2); SchemaRef.Ref is built from the same key; TopLevel is true exactly at Definitions[*]; the allOf view is guarded exactly by len(AllOf)>0.",
		NotDecided:  []string{"net/url round-tripping of the fragment (trusted)", "consumer side (replace.getPointerFromKey) is decided under C04/C01 rules"},
		Assumptions: idxAssume,
	},
	"C13": {
		Explanation: "Abstract evaluation of analysis.New: for each owner kind at each model position, pattern and enum are registered in the category index read by the matching exported getter and in the all-view, under the owner's JSON pointer, guarded exactly by non-emptiness.",
		NotDecided:  []string{"nothing beyond the trusted base: the rules cover every position of the model"},
		Assumptions: idxAssume,
	},
	"C15": {
		Explanation: "Nil-guard dataflow over the four lookups (sources: pointer/map fields of go-openapi/spec structs, map lookups of *spec.T without comma-ok), guard rules on the merge function found by role (takes []spec.Parameter, map[string]spec.Parameter, callback), ordering of the two merge calls in each lookup, GUARD-OPFOUND (every merge happens under a fact that establishes the operation asked for, followed to the call sites of closures and unexported helpers), ENC-OVERRIDEKEY (no x-… extension and no non-injective function of the name in the override key: known finding at swag.ToGoName), exhaustiveness of the id lookup over the seven methods. GUARD-RESOLVE (whole pointer), GUARD-COMMAOK.",
		NotDecided:  []string{"what jsonpointer returns for exotic $ref targets (trusted base)"},
		Assumptions: []string{"a call does not nil-out a field of a value it receives", "function results and parameters of exported functions are not maybe-nil sources (only optional fields of the loaded document are)"},
	},
	"C17": {
		Explanation: "Guard-dominance rules over structural path conditions for every store into the primary reachable from Mixin, structured path enumeration of each reporting merge loop, flow of every helper's collision list into the result, coverage of the sections named in the statement (from write-effect summaries), write set rooted at the primary only, nil-guard dataflow including initPrimary's ensures-summary. GUARD-COMMAOK, EFFECT-SHORTCIRCUIT. GUARD-FILLEMPTY/reached (no fill is conditioned on another part of either document).",
		NotDecided:  []string{"reflect.DeepEqual on security requirements", "exact collision count for inputs where one key collides in several helpers at once beyond one entry per colliding key per helper"},
		Assumptions: []string{"range over a slice visits mixins in order (language semantics)", "a call does not nil-out a field of a value it receives"},
	},
	"C18": {
		Explanation: "Exhaustiveness of the operation enumerator over PathItemProps, and guard/ordering rules at the single rename site: only on collision, only for non-empty ids, new id built from old id + 'Mixin' + index, recorded afterwards on every path, primary ids collected first. ENC-NUMRENDER.",
		NotDecided:  []string{"uniqueness when the precondition of the statement is violated"},
		Assumptions: []string{"ids are compared as Go strings"},
	},
	"C19": {
		Explanation: "COV-METHODS, NIL-DEREF, GUARD-DESC, LOST-UPDATE and WRITESET over FixEmptyResponseDescriptions and everything it reaches. EFFECT-SHORTCIRCUIT, GUARD-COMMAOK.",
		NotDecided:  []string{},
		Assumptions: []string{"Ref.GetURL() != nil characterises a $ref response (go-openapi/jsonreference)"},
	},
	"C20": {
		Explanation: "TERM-REC over the SCC {Schema, inferMap, inferArray, inferFromRef} with measures chosen by search (schema being classified); GUARD-SIMPLEDEF, GUARD-FLAGIMPL, GUARD-EXCL (truth table over the atoms of the defining expressions, has* flags and helper predicates expanded), COV-INHERITS, GUARD-COPYORDER (write-effect summaries of the calls following the copy). PIPE-REFEXPAND (the target of a $ref is fully expanded before it is classified). GUARD-ROUNDTRIP (no flag tests a list of the schema against nil).",
		NotDecided:  []string{"agreement of the classification with the documented rules on concrete schemas", "spec.ExpandSchema behaviour (trusted)"},
		Assumptions: []string{"flags start false (zero value) and are assigned once outside the wholesale copy", "the schema graph reachable through $ref is finite, so a visited set of $ref strings bounds the recursion"},
	},
	"C16": {
		Explanation: "Write-effect summaries: for New and each of the exported *Spec methods, the transitive set of stores (assignments to fields/elements/pointees, delete, in-place external mutators such as sort.* and spec.Expand*) is computed with targets as access paths; stores into locals created in the call and into value copies are dropped; what remains must be empty. No goroutine/channel operation is reachable; the pattern/enum getters return maps allocated in the call.",
		NotDecided:  []string{"element slices shared by the cloned enum maps (outside the statement)", "thread-safety of the read-only external callees (trusted base)"},
		Assumptions: []string{
			"alias resolution is by access path: a local is followed through all of its definitions; closures share their enclosing function's variables; calls through function-typed parameters (ErrorOnParamFunc) are the caller's responsibility",
			"external callees are classified by two tables read from their sources (mutating: spec.ExpandSpec/ExpandSchema, swag.FromDynamicJSON, AddExtension, sort.*; read-only: jsonpointer, jsonreference, fmt, strings, path, strconv, swag name helpers); any other external callee receiving caller-visible pointer-like data makes the obligation undecided",
			"the caller publishes the *Spec to other goroutines safely after New returns",
		},
	},
	"C05": {
		Explanation: "PIPE-EXPANDMODE (the expander's SkipSchemas option is `!opts.Expand`, followed from the ExpandOptions literal through the helper's parameter to the call), PIPE-ORDER for the three phases that remove $refs in Expand mode, REF-CANONICAL on every $ref written into the root document. Necessary conditions only.",
		NotDecided:  []string{"which $refs spec.ExpandSpec leaves (another module; depends on the cycle structure of the bundle)", "no $ref at all on an acyclic bundle", "byte-for-byte reproducibility (see C07)", "meaning preservation (see C01)"},
		Assumptions: []string{"spec.ExpandSpec expands schema $refs when SkipSchemas is false (read from its source, not analysed)"},
	},
	"C14": {
		Explanation: "Abstract evaluation of analysis.New for the operations index and the required-media/security unions, exhaustiveness over the seven *spec.Operation fields, upper-case discipline of insertion and lookup, the nil-vs-empty guard shape of the precedence functions, ENC-FORMAT (document strings are operands of formatting calls, never format strings), GUARD-INHERIT and GUARD-NOFILTER. ENC-RAWKEY, ENC-SPLITJOIN.",
		NotDecided:  []string{"the values of the precedence/union tables on concrete lists (value-level)", "OperationForName on duplicate or empty ids (outside the quantifier)"},
		Assumptions: idxAssume,
	},
}

// Meta returns the evidence text for a property.
func Meta(prop string) PropMeta {
	m, ok := metas[prop]
	if !ok {
		return PropMeta{Explanation: "static rules over the type-checked source of /repo; see DESIGN.md §4 " + prop}
	}
	return m
}
