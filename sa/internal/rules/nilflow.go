package rules

// nilflow (E2): optional parts of the spec model are tested before use.
//
// A structured forward flow over each function body carries the set of access
// paths known non-nil. Sources of maybe-nil are deliberately narrow: (a) a
// pointer-typed field of a go-openapi/spec struct (absent in JSON ⇒ nil), and
// map-typed fields of those structs for stores; (b) a map index with pointer
// element taken without comma-ok; (c) the variable of a pointer-typed
// type-switch case when the switched value comes from Ref.GetPointer().Get
// (typed nil). Unguarded uses rooted at a parameter of an unexported function
// become requirements checked at every call site (summaries to a fixpoint).

import (
	"fmt"
	"go/ast"
	"go/token"
	"go/types"
	"sort"
	"strings"

	"verif/sa/internal/core"
)

func init() {
	register(Rule{
		Name:  "NIL",
		Props: []string{"C09", "C15", "C17", "C19"},
		Doc:   "optional parts of the spec model are nil-tested before use (flow-sensitive, interprocedural summaries)",
		Run:   nilRules,
	})
}

type nstate map[string]bool

func (s nstate) clone() nstate {
	o := nstate{}
	for k := range s {
		o[k] = true
	}
	return o
}

func intersect(a, b nstate) nstate {
	o := nstate{}
	for k := range a {
		if b[k] {
			o[k] = true
		}
	}
	return o
}

// nilReq is an entry requirement of a function: parameter (index, -1 = receiver) + relative path must be non-nil.
type nilReq struct {
	param  int
	rel    string // "" = the parameter itself, else ".Paths.Paths"
	origin string // description of the original use
	pos    token.Pos
	fn     *core.FuncInfo
	store  bool
}

func (r nilReq) key() string { return fmt.Sprintf("%d|%s", r.param, r.rel) }

type nilViol struct {
	fn     *core.FuncInfo
	pos    token.Pos
	what   string
	origin string
}

type nilEngine struct {
	c        *Ctx
	reqs     map[*core.FuncInfo]map[string]nilReq
	ensures  map[*core.FuncInfo][]string // relative facts "<paramIdx>|.rel" non-nil on every exit
	flagImpl map[*types.Var][]string     // bool field -> relative paths (from the struct value) that are non-nil when the flag is true
	viols    map[string]nilViol
	exempt   map[string]nilViol
	held     map[string]nilViol
	uses     int
}

type nilFn struct {
	e       *nilEngine
	fi      *core.FuncInfo
	info    *types.Info
	params  map[types.Object]int
	exits   []nstate
	typeSw  map[types.Object]bool         // type-switch vars that may be typed nil
	pairVal map[types.Object]types.Object // found-flag of a (pointer, bool) lookup call -> the pointer it vouches for
	pairPtr map[types.Object]bool         // pointers obtained together with a found-flag
	collect bool
	reqSink map[string]nilReq
	// closures: requirements on the parameters of function literals bound to locals, checked at their call sites
	litParams map[types.Object]litParam
	litReqs   map[*ast.FuncLit]map[string]nilReq
}

type litParam struct {
	lit *ast.FuncLit
	idx int
}

func nilRules(c *Ctx) {
	e := &nilEngine{c: c, reqs: map[*core.FuncInfo]map[string]nilReq{}, ensures: map[*core.FuncInfo][]string{},
		flagImpl: map[*types.Var][]string{}, viols: map[string]nilViol{}, exempt: map[string]nilViol{}, held: map[string]nilViol{}}
	e.computeFlagImpl()
	funcs := c.P.SortedFuncs()
	// fixpoint over summaries
	for iter := 0; iter < 8; iter++ {
		changed := false
		for _, fi := range funcs {
			nr, ens := e.analyze(fi, false)
			if len(nr) != len(e.reqs[fi]) {
				changed = true
			}
			e.reqs[fi] = nr
			if strings.Join(ens, ",") != strings.Join(e.ensures[fi], ",") {
				changed = true
			}
			e.ensures[fi] = ens
		}
		if !changed {
			break
		}
	}
	// final pass collecting violations
	e.viols = map[string]nilViol{}
	e.uses = 0
	for _, fi := range funcs {
		e.analyzeCollect(fi)
	}
	keys := make([]string, 0, len(e.viols))
	for k := range e.viols {
		keys = append(keys, k)
	}
	sort.Strings(keys)
	for _, k := range keys {
		v := e.viols[k]
		prop := nilProp(c, v.fn)
		c.S.Violate(prop, "NIL-DEREF", k, c.P.Pos(v.pos), v.what)
	}
	ekeys := make([]string, 0, len(e.exempt))
	for k := range e.exempt {
		ekeys = append(ekeys, k)
	}
	sort.Strings(ekeys)
	for _, k := range ekeys {
		v := e.exempt[k]
		c.S.Exempt(nilProp(c, v.fn), "NIL-DEREF", k, c.P.Pos(v.pos), v.what)
	}
	hkeys := make([]string, 0, len(e.held))
	for k := range e.held {
		hkeys = append(hkeys, k)
	}
	sort.Strings(hkeys)
	for _, k := range hkeys {
		if _, bad := e.viols[k]; bad {
			continue
		}
		v := e.held[k]
		c.S.Hold(nilProp(c, v.fn), "NIL-DEREF", k, c.P.Pos(v.pos), v.what)
	}
	// one holding obligation per analysed function and property, with the number of guarded uses
	perProp := map[string]int{}
	for _, fi := range funcs {
		perProp[nilProp(c, fi)]++
	}
	for _, p := range []string{"C09", "C15", "C17", "C19"} {
		c.S.Hold(p, "NIL-DEREF", "scope/"+p, "-", fmt.Sprintf("%d functions attributed to %s analysed; %d uses of optional spec parts examined in the module", perProp[p], p, e.uses))
	}
	if e.uses < 60 {
		c.S.Undecided("C09", "NIL-DEREF", "floor", "-", fmt.Sprintf("only %d uses of optional spec parts were recognised (confirmed by hand: >100)", e.uses))
	}
	// ensures summaries that other rules rely on (reported for evidence)
	for _, fi := range funcs {
		if len(e.ensures[fi]) > 0 && fi.Obj.Name() != "" {
			c.S.Note("NIL ensures %s: %s", fi.QName(), strings.Join(e.ensures[fi], " "))
		}
	}
}

func nilProp(c *Ctx, fi *core.FuncInfo) string {
	// attribution by role (call-graph position and receiver type), not by source file
	switch {
	case c.below(fi, "FixEmptyResponseDescriptions"):
		return "C19"
	case c.onSpec(fi):
		if fi.Obj.Exported() || strings.Contains(fi.Obj.Name(), "param") || strings.Contains(fi.Obj.Name(), "Param") {
			if c.below(fi, "New") {
				return "C09"
			}
			return "C15"
		}
		return "C09"
	case c.below(fi, "Mixin"):
		return "C17"
	}
	return "C09"
}

// computeFlagImpl: a bool field F of a module struct all of whose non-copy
// assignments are conjunctions containing `P != nil` (or another such flag)
// implies nonnil(P) when true.
func (e *nilEngine) computeFlagImpl() {
	type asg struct {
		recv    string
		recvObj types.Object
		rhs     ast.Expr
		fi      *core.FuncInfo
	}
	byField := map[*types.Var][]asg{}
	for _, fi := range e.c.P.SortedFuncs() {
		info := fi.Pkg.TypesInfo
		ast.Inspect(fi.Decl.Body, func(n ast.Node) bool {
			as, ok := n.(*ast.AssignStmt)
			if !ok || len(as.Lhs) != len(as.Rhs) {
				return true
			}
			for i, l := range as.Lhs {
				sel, ok := core.Unparen(l).(*ast.SelectorExpr)
				if !ok {
					continue
				}
				fv := core.FieldOf(info, sel)
				if fv == nil || !core.IsBool(fv.Type()) || fv.Pkg() == nil || !strings.HasPrefix(fv.Pkg().Path(), core.ModPath) {
					continue
				}
				byField[fv] = append(byField[fv], asg{recv: exprStr(sel.X), recvObj: core.ObjOf(info, sel.X), rhs: as.Rhs[i], fi: fi})
			}
			return true
		})
	}
	// iterate to close under flag-to-flag implications
	for iter := 0; iter < 4; iter++ {
		for fv, asgs := range byField {
			var common map[string]bool
			for _, a := range asgs {
				info := a.fi.Pkg.TypesInfo
				// copy from another value of the same field: x.F = y.F
				if sel, ok := core.Unparen(a.rhs).(*ast.SelectorExpr); ok && core.FieldOf(info, sel) == fv {
					continue
				}
				got := map[string]bool{}
				for _, cnd := range core.SplitCond(a.rhs, false) {
					if x, nonNil, ok := core.NilTest(info, cnd); ok && nonNil {
						// resolve local aliases: items := a.schema.Items; items != nil
						if p := e.c.P.PathOf(a.fi, x, true); p != nil && p.Root != nil && p.Root == a.recvObj && len(p.Steps) > 0 {
							got[p.StepsString()] = true
						}
						continue
					}
					if !cnd.Neg {
						if sel, ok := core.Unparen(cnd.Expr).(*ast.SelectorExpr); ok && exprStr(sel.X) == a.recv {
							if other := core.FieldOf(info, sel); other != nil {
								for _, r := range e.flagImpl[other] {
									got[r] = true
								}
							}
						}
					}
				}
				if common == nil {
					common = got
				} else {
					for k := range common {
						if !got[k] {
							delete(common, k)
						}
					}
				}
			}
			var rels []string
			for k := range common {
				rels = append(rels, k)
			}
			sort.Strings(rels)
			e.flagImpl[fv] = rels
		}
	}
}

func (e *nilEngine) newFn(fi *core.FuncInfo) *nilFn {
	f := &nilFn{e: e, fi: fi, info: fi.Pkg.TypesInfo, params: map[types.Object]int{}, typeSw: map[types.Object]bool{}}
	if fi.Decl.Recv != nil {
		for _, fl := range fi.Decl.Recv.List {
			for _, n := range fl.Names {
				if o := f.info.Defs[n]; o != nil {
					f.params[o] = -1
				}
			}
		}
	}
	i := 0
	for _, fl := range fi.Decl.Type.Params.List {
		if len(fl.Names) == 0 {
			i++
		}
		for _, n := range fl.Names {
			if o := f.info.Defs[n]; o != nil {
				f.params[o] = i
			}
			i++
		}
	}
	// typed-nil type switch variables: switch x := v.(type) where v comes from <Ref>.GetPointer().Get(...)
	ld := e.c.P.Locals(fi)
	for o, defs := range ld.Defs {
		for _, d := range defs {
			if d.Kind != core.DefTypeSwitch || d.Expr == nil || !core.IsPointer(o.Type()) {
				continue
			}
			if f.fromRefPointerGet(d.Expr, 0) {
				f.typeSw[o] = true
			}
		}
	}
	// (pointer, found) pairs returned by a lookup function of the module: v, ok := s.Lookup(…)
	f.pairVal, f.pairPtr = map[types.Object]types.Object{}, map[types.Object]bool{}
	ast.Inspect(fi.Decl.Body, func(n ast.Node) bool {
		as, ok := n.(*ast.AssignStmt)
		if !ok || len(as.Rhs) != 1 || len(as.Lhs) < 2 {
			return true
		}
		call, ok := core.Unparen(as.Rhs[0]).(*ast.CallExpr)
		if !ok {
			return true
		}
		callee := e.c.P.StaticCallee(fi, call)
		if callee == nil || e.c.P.Funcs[callee] == nil {
			return true
		}
		res := callee.Type().(*types.Signature).Results()
		if res.Len() != len(as.Lhs) || !core.IsBool(res.At(res.Len()-1).Type()) {
			return true
		}
		okObj := core.ObjOf(f.info, as.Lhs[len(as.Lhs)-1])
		if okObj == nil {
			return true
		}
		for i := 0; i < res.Len()-1; i++ {
			if !core.IsPointer(res.At(i).Type()) {
				continue
			}
			if vo := core.ObjOf(f.info, as.Lhs[i]); vo != nil {
				f.pairVal[okObj] = vo
				f.pairPtr[vo] = true
			}
		}
		return true
	})
	return f
}

// fromRefPointerGet: e (an identifier) is assigned from X.GetPointer().Get(...).
func (f *nilFn) fromRefPointerGet(e ast.Expr, depth int) bool {
	if depth > 3 {
		return false
	}
	o := core.ObjOf(f.info, e)
	if o == nil {
		return false
	}
	for _, d := range f.e.c.P.Locals(f.fi).Defs[o] {
		call, ok := core.Unparen(d.Expr).(*ast.CallExpr)
		if !ok {
			continue
		}
		sel, ok := core.Unparen(call.Fun).(*ast.SelectorExpr)
		if !ok || sel.Sel.Name != "Get" {
			continue
		}
		inner, ok := core.Unparen(sel.X).(*ast.CallExpr)
		if !ok {
			continue
		}
		isel, ok := core.Unparen(inner.Fun).(*ast.SelectorExpr)
		if ok && isel.Sel.Name == "GetPointer" {
			return true
		}
	}
	return false
}

func (e *nilEngine) analyze(fi *core.FuncInfo, collect bool) (map[string]nilReq, []string) {
	f := e.newFn(fi)
	f.collect = collect
	reqs := map[string]nilReq{}
	f.reqSink = reqs
	st, term := f.stmts(fi.Decl.Body.List, nstate{})
	if !term {
		f.exits = append(f.exits, st)
	}
	// ensures: facts about param-rooted paths on every exit
	var ens []string
	if len(f.exits) > 0 {
		common := f.exits[0]
		for _, x := range f.exits[1:] {
			common = intersect(common, x)
		}
		for k := range common {
			if strings.HasPrefix(k, "P") {
				ens = append(ens, k)
			}
		}
		sort.Strings(ens)
	}
	return reqs, ens
}

func (e *nilEngine) analyzeCollect(fi *core.FuncInfo) {
	e.analyze(fi, true)
}

// ---- keys -----------------------------------------------------------------

// key returns the fact key of a path-like expression ("" when it has none).
func (f *nilFn) key(e ast.Expr) string {
	// the variable of a pointer-typed type-switch case is not the switched interface value: `v != nil` says
	// nothing about a typed nil pointer inside v — never follow that alias
	if id, ok := core.Unparen(e).(*ast.Ident); ok {
		o := f.info.Uses[id]
		if o == nil {
			o = f.info.Defs[id]
		}
		if o != nil && f.typeSw[o] {
			return f.rootKey(o)
		}
	}
	p := f.e.c.P.PathOf(f.fi, e, true)
	if p == nil || p.Root == nil {
		// the alias chain ends in a literal or a call: fall back to the local variable itself
		p = f.e.c.P.PathOf(f.fi, e, false)
	}
	if p == nil || p.Root == nil {
		return ""
	}
	return f.rootKey(p.Root) + p.StepsString()
}

func (f *nilFn) rootKey(o types.Object) string {
	if i, ok := f.params[o]; ok {
		return fmt.Sprintf("P%d", i)
	}
	if lp, ok := f.litParams[o]; ok {
		return fmt.Sprintf("C%d@%d", lp.idx, lp.lit.Pos())
	}
	return fmt.Sprintf("L%s@%d", o.Name(), o.Pos())
}

func isSpecField(v *types.Var) bool {
	return v != nil && v.Pkg() != nil && v.Pkg().Path() == core.SpecPath
}

// sourceKind classifies e as a maybe-nil source: "" (not a source), "field",
// "index", "typednil", "param".
func (f *nilFn) sourceKind(e ast.Expr, forStore bool) string {
	e = core.Unparen(e)
	t := f.info.TypeOf(e)
	if t == nil {
		return ""
	}
	if !forStore && !core.IsPointer(t) {
		return ""
	}
	if forStore && !core.IsMap(t) {
		return ""
	}
	if id, ok := e.(*ast.Ident); ok {
		o := f.info.Uses[id]
		if o == nil {
			o = f.info.Defs[id]
		}
		if o != nil {
			if f.typeSw[o] {
				return "typednil"
			}
			if f.pairPtr[o] && !forStore {
				return "lookup"
			}
			if _, isParam := f.params[o]; isParam && !forStore {
				return "param"
			}
			if _, isLit := f.litParams[o]; isLit && !forStore {
				return "param"
			}
		}
	}
	if f.indexSource(e, 0) {
		return "index"
	}
	p := f.e.c.P.PathOf(f.fi, e, true)
	if p == nil || p.Root == nil {
		// alias chain ending in a call result or a literal: classify on the local itself
		p = f.e.c.P.PathOf(f.fi, e, false)
	}
	if p != nil && p.Root != nil && len(p.Steps) > 0 {
		last := p.Steps[len(p.Steps)-1]
		if last.Field != nil && isSpecField(last.Field) {
			if forStore && core.IsMap(last.Field.Type()) {
				return "field"
			}
			if !forStore && core.IsPointer(last.Field.Type()) {
				return "field"
			}
		}
	}
	return ""
}

func (f *nilFn) indexSource(e ast.Expr, depth int) bool {
	if depth > 3 {
		return false
	}
	switch x := core.Unparen(e).(type) {
	case *ast.IndexExpr:
		if m, ok := f.info.TypeOf(x.X).Underlying().(*types.Map); ok && core.IsPointer(m.Elem()) {
			if pp, _ := core.NamedOf(m.Elem()); pp == core.SpecPath {
				return true
			}
		}
	case *ast.Ident:
		o := f.info.Uses[x]
		if o == nil {
			return false
		}
		defs := f.e.c.P.Locals(f.fi).Defs[o]
		if len(defs) == 1 && defs[0].Kind == core.DefAssign {
			return f.indexSource(defs[0].Expr, depth+1)
		}
	}
	return false
}

// use examines one dereference / store / hand-over of expression e.
func (f *nilFn) use(e ast.Expr, st nstate, forStore bool, what string, pos token.Pos) {
	kind := f.sourceKind(e, forStore)
	if kind == "" {
		return
	}
	f.e.uses++
	k := f.key(e)
	if k != "" && st[k] || kind == "index" && st["X"+exprStr(e)] {
		if f.collect && kind != "param" {
			f.e.held[f.fi.QName()+"/"+exprStr(e)] = nilViol{fn: f.fi, pos: pos, what: "tested non-nil on every path reaching its " + what}
		}
		return
	}
	f.unguarded(e, k, kind, what, pos, forStore)
}

func (f *nilFn) unguarded(e ast.Expr, k, kind, what string, pos token.Pos, store bool) {
	f.unguardedAt(e, k, kind, what, pos, store, what)
}

// nilExempt: frozen, one construct each, with the reason (DESIGN §3.2).
var nilExempt = map[string]string{
	"internal/flatten/replace.UpdateRefWithSchema/refable.Schema":             "the key comes from the analyzer's index, which registers `<holder>/items` and `<holder>/additionalProperties` only when .Schema is non-nil (analyzeSchema); sibling UpdateRef guards it; no failing input exists for analyzer-produced keys",
	"internal/flatten/replace.rewriteParentRef/container.StatusCodeResponses": "the key `…/responses/<code>/schema` is produced by the analyzer from an existing entry of this very map, so the map is non-nil",
}

// structuralExempt: the two frozen exemptions of the rewriters, recognised by construct rather than by name:
// inside the replace package, through a holder obtained by a type switch on a value resolved from an analyzer
// key, (1) storing into <responses>.StatusCodeResponses and (2) dereferencing <schemaOrX>.Schema.
func (f *nilFn) structuralExempt(e ast.Expr, store bool) (string, bool) {
	if !strings.HasSuffix(f.fi.Pkg.PkgPath, "/internal/flatten/replace") {
		return "", false
	}
	sel, ok := core.Unparen(e).(*ast.SelectorExpr)
	if !ok {
		return "", false
	}
	// the holder is a type-switch variable, or a parameter that receives one
	holder := core.ObjOf(f.info, sel.X)
	if holder == nil {
		return "", false
	}
	fromSwitch := false
	for _, d := range f.e.c.P.Locals(f.fi).Defs[holder] {
		if d.Kind == core.DefTypeSwitch {
			fromSwitch = true
			// the reason given holds for values resolved from an analyzer key only: a value resolved from a $ref
			// of the document (Ref.GetPointer().Get) can designate an `items` / `additionalProperties` without schema
			if vo := core.ObjOf(f.info, d.Expr); vo != nil {
				for _, vd := range f.e.c.P.Locals(f.fi).Defs[vo] {
					if call, ok := core.Unparen(vd.Expr).(*ast.CallExpr); ok {
						if callee := f.e.c.P.CalleeAny(f.fi, call); callee != nil && f.e.c.P.Funcs[callee] == nil {
							fromSwitch = false
						}
					}
				}
			}
		}
	}
	if _, isParam := f.params[holder]; isParam {
		fromSwitch = true
	}
	if !fromSwitch {
		return "", false
	}
	switch {
	case store && sel.Sel.Name == "StatusCodeResponses" && core.IsSpecType(f.info.TypeOf(sel.X), "Responses"):
		return nilExempt["internal/flatten/replace.rewriteParentRef/container.StatusCodeResponses"], true
	case !store && sel.Sel.Name == "Schema" && (core.IsSpecType(f.info.TypeOf(sel.X), "SchemaOrArray") || core.IsSpecType(f.info.TypeOf(sel.X), "SchemaOrBool")):
		return nilExempt["internal/flatten/replace.UpdateRefWithSchema/refable.Schema"], true
	}
	return "", false
}

func (f *nilFn) unguardedAt(e ast.Expr, k, kind, what string, pos token.Pos, store bool, short string) {
	if why, ok := f.structuralExempt(e, store); ok {
		f.e.exempt[f.fi.QName()+"/"+exprStr(e)] = nilViol{fn: f.fi, pos: pos, what: why}
		return
	}
	origin := fmt.Sprintf("%s: %s of %s", f.fi.QName(), what, exprStr(e))
	if strings.HasPrefix(k, "C") {
		// rooted at a parameter of a local closure: a requirement on its call sites
		var idx int
		var lpos int
		rest := k
		rel := ""
		if i := strings.IndexAny(k, ".["); i >= 0 {
			rest, rel = k[:i], k[i:]
		}
		if n, _ := fmt.Sscanf(rest, "C%d@%d", &idx, &lpos); n == 2 {
			for _, lp := range f.litParams {
				if int(lp.lit.Pos()) == lpos {
					if f.litReqs[lp.lit] == nil {
						f.litReqs[lp.lit] = map[string]nilReq{}
					}
					r := nilReq{param: idx, rel: rel, origin: origin, pos: pos, fn: f.fi, store: store}
					if _, ok := f.litReqs[lp.lit][r.key()]; !ok {
						f.litReqs[lp.lit][r.key()] = r
					}
					return
				}
			}
		}
		return
	}
	if strings.HasPrefix(k, "P") {
		// rooted at a parameter
		idx, rel := splitParamKey(k)
		exported := f.fi.Obj.Exported()
		if !exported || rel == "" {
			r := nilReq{param: idx, rel: rel, origin: origin, pos: pos, fn: f.fi, store: store}
			if old, ok := f.e.reqs[f.fi][r.key()]; ok {
				r = old
			}
			if _, ok := f.reqSink[r.key()]; !ok {
				f.reqSink[r.key()] = r
			}
			return
		}
	}
	if kind == "param" {
		return
	}
	if !f.collect {
		return
	}
	if why, ok := f.structuralExempt(e, store); ok {
		f.e.exempt[f.fi.QName()+"/"+exprStr(e)] = nilViol{fn: f.fi, pos: pos, what: why}
		return
	}
	msg := fmt.Sprintf("%s may be nil here (optional part of the document model, %s) and is not tested on this path: %s", exprStr(e), kindText(kind), what)
	f.e.viols[f.fi.QName()+"/"+exprStr(e)+"/"+short] = nilViol{fn: f.fi, pos: pos, what: msg, origin: origin}
}

func kindText(k string) string {
	switch k {
	case "field":
		return "pointer or map field of a go-openapi/spec struct"
	case "index":
		return "map lookup without comma-ok"
	case "typednil":
		return "typed nil returned by jsonpointer Get for an absent optional keyword"
	case "lookup":
		return "pointer returned together with a found-flag, used before the flag is tested"
	}
	return k
}

func splitParamKey(k string) (int, string) {
	var idx int
	rest := k[1:]
	end := 0
	for end < len(rest) && (rest[end] == '-' || rest[end] >= '0' && rest[end] <= '9') {
		end++
	}
	fmt.Sscanf(rest[:end], "%d", &idx)
	return idx, rest[end:]
}

// ---- conditions ---------------------------------------------------------------

func (f *nilFn) condFacts(e ast.Expr, neg bool) []string {
	var out []string
	for _, c := range core.SplitCond(e, neg) {
		if x, nonNil, ok := core.NilTest(f.info, c); ok {
			if nonNil {
				if k := f.key(x); k != "" {
					out = append(out, k)
				}
				out = append(out, "X"+exprStr(x))
			}
			continue
		}
		if !c.Neg {
			// flag-mediated guard
			if sel, ok := core.Unparen(c.Expr).(*ast.SelectorExpr); ok {
				if fv := core.FieldOf(f.info, sel); fv != nil {
					if rels := f.e.flagImpl[fv]; len(rels) > 0 {
						if bk := f.key(sel.X); bk != "" {
							for _, r := range rels {
								out = append(out, bk+r)
							}
						}
					}
				}
			}
			// the found-flag of a (pointer, found) lookup vouches for the pointer
			if id, ok := core.Unparen(c.Expr).(*ast.Ident); ok {
				if vo := f.pairVal[f.info.Uses[id]]; vo != nil {
					out = append(out, f.rootKey(vo))
				}
			}
			// local bool defined as a conjunction
			if id, ok := core.Unparen(c.Expr).(*ast.Ident); ok {
				if o := f.info.Uses[id]; o != nil {
					defs := f.e.c.P.Locals(f.fi).Defs[o]
					if len(defs) == 1 && defs[0].Kind == core.DefAssign && core.IsBool(o.Type()) {
						out = append(out, f.condFacts(defs[0].Expr, false)...)
					}
				}
			}
		}
	}
	return out
}

// ---- statements -----------------------------------------------------------------

func (f *nilFn) stmts(list []ast.Stmt, st nstate) (nstate, bool) {
	for _, s := range list {
		var term bool
		st, term = f.stmt(s, st)
		if term {
			return st, true
		}
	}
	return st, false
}

func with(st nstate, facts []string) nstate {
	o := st.clone()
	for _, k := range facts {
		o[k] = true
	}
	return o
}

func (f *nilFn) kill(st nstate, prefix string) {
	if prefix == "" {
		return
	}
	for k := range st {
		if k == prefix || strings.HasPrefix(k, prefix+".") || strings.HasPrefix(k, prefix+"[") {
			delete(st, k)
		}
	}
}

func (f *nilFn) freshRHS(e ast.Expr) bool {
	switch x := core.Unparen(e).(type) {
	case *ast.UnaryExpr:
		if x.Op == token.AND {
			if _, ok := core.Unparen(x.X).(*ast.CompositeLit); ok {
				return true
			}
		}
	case *ast.CompositeLit:
		return true
	case *ast.CallExpr:
		if id, ok := core.Unparen(x.Fun).(*ast.Ident); ok {
			if b, ok := f.info.Uses[id].(*types.Builtin); ok && (b.Name() == "make" || b.Name() == "new") {
				return true
			}
		}
	}
	return false
}

func (f *nilFn) assignedKeys(n ast.Node) []string {
	var out []string
	ast.Inspect(n, func(x ast.Node) bool {
		switch s := x.(type) {
		case *ast.AssignStmt:
			for _, l := range s.Lhs {
				if id, ok := core.Unparen(l).(*ast.Ident); ok {
					if o := core.ObjOf(f.info, id); o != nil {
						out = append(out, f.rootKey(o))
					}
					continue
				}
				if k := f.key(l); k != "" {
					out = append(out, k)
				}
			}
		case *ast.RangeStmt:
			for _, l := range []ast.Expr{s.Key, s.Value} {
				if l == nil {
					continue
				}
				if o := core.ObjOf(f.info, l); o != nil {
					out = append(out, f.rootKey(o))
				}
			}
		}
		return true
	})
	return out
}

func (f *nilFn) stmt(s ast.Stmt, st nstate) (nstate, bool) {
	switch x := s.(type) {
	case *ast.BlockStmt:
		return f.stmts(x.List, st)
	case *ast.ExprStmt:
		f.expr(x.X, st)
		f.applyEnsures(x.X, st)
		if call, ok := x.X.(*ast.CallExpr); ok {
			if id, ok := core.Unparen(call.Fun).(*ast.Ident); ok {
				if b, ok := f.info.Uses[id].(*types.Builtin); ok && b.Name() == "panic" {
					return st, true
				}
			}
		}
	case *ast.DeclStmt:
		if gd, ok := x.Decl.(*ast.GenDecl); ok {
			for _, sp := range gd.Specs {
				if vs, ok := sp.(*ast.ValueSpec); ok {
					for _, v := range vs.Values {
						f.expr(v, st)
					}
				}
			}
		}
	case *ast.AssignStmt:
		for _, r := range x.Rhs {
			f.expr(r, st)
		}
		for _, r := range x.Rhs {
			f.applyEnsures(r, st)
		}
		for i, l := range x.Lhs {
			l = core.Unparen(l)
			switch lx := l.(type) {
			case *ast.IndexExpr:
				f.expr(lx.X, st)
				f.expr(lx.Index, st)
				if core.IsMap(f.info.TypeOf(lx.X)) {
					f.use(lx.X, st, true, "store into map", lx.Pos())
				}
			case *ast.SelectorExpr:
				f.expr(lx.X, st)
				if core.IsPointer(f.info.TypeOf(lx.X)) {
					f.use(lx.X, st, false, "field store", lx.Pos())
				}
			case *ast.StarExpr:
				f.expr(lx.X, st)
				f.use(lx.X, st, false, "store through pointer", lx.Pos())
			}
			// kill and gen
			var k string
			if id, ok := l.(*ast.Ident); ok {
				if o := core.ObjOf(f.info, id); o != nil {
					k = f.rootKey(o)
				}
			} else {
				k = f.key(l)
			}
			if k == "" {
				continue
			}
			st = st.clone()
			f.kill(st, k)
			if len(x.Lhs) == len(x.Rhs) {
				r := x.Rhs[i]
				if f.freshRHS(r) {
					st[k] = true
					// &T{F: make(...)} also makes k.F non-nil
					if u, ok := core.Unparen(r).(*ast.UnaryExpr); ok {
						if cl, ok := core.Unparen(u.X).(*ast.CompositeLit); ok {
							for _, el := range cl.Elts {
								if kv, ok := el.(*ast.KeyValueExpr); ok && f.freshRHS(kv.Value) {
									if id, ok := kv.Key.(*ast.Ident); ok {
										st[k+"."+id.Name] = true
									}
								}
							}
						}
					}
				} else if rk := f.key(r); rk != "" && st[rk] {
					st[k] = true
				}
			}
		}
	case *ast.IncDecStmt:
		f.expr(x.X, st)
	case *ast.ReturnStmt:
		for _, r := range x.Results {
			f.expr(r, st)
		}
		f.exits = append(f.exits, st)
		return st, true
	case *ast.BranchStmt:
		return st, true
	case *ast.IfStmt:
		if x.Init != nil {
			st, _ = f.stmt(x.Init, st)
		}
		f.expr(x.Cond, st)
		thenSt, thenT := f.stmts(x.Body.List, with(st, f.condFacts(x.Cond, false)))
		elseSt, elseT := with(st, f.condFacts(x.Cond, true)), false
		if x.Else != nil {
			elseSt, elseT = f.stmt(x.Else, elseSt)
		}
		switch {
		case thenT && elseT:
			return st, true
		case thenT:
			return elseSt, false
		case elseT:
			return thenSt, false
		}
		return intersect(thenSt, elseSt), false
	case *ast.ForStmt:
		if x.Init != nil {
			st, _ = f.stmt(x.Init, st)
		}
		head := st.clone()
		for _, k := range f.assignedKeys(x.Body) {
			f.kill(head, k)
		}
		if x.Post != nil {
			for _, k := range f.assignedKeys(x.Post) {
				f.kill(head, k)
			}
		}
		body := head
		if x.Cond != nil {
			f.expr(x.Cond, head)
			body = with(head, f.condFacts(x.Cond, false))
		}
		f.stmts(x.Body.List, body)
		return head, false
	case *ast.RangeStmt:
		f.expr(x.X, st)
		head := st.clone()
		for _, k := range f.assignedKeys(x.Body) {
			f.kill(head, k)
		}
		body := head.clone()
		if core.IsMap(f.info.TypeOf(x.X)) {
			if k := f.key(x.X); k != "" {
				body[k] = true
			}
		}
		// a loop over the keys collected from a map (keys = append(keys, k) inside `for k := range M`, possibly
		// sorted): the body runs only when M has an entry, so M is not nil there
		if m := f.keysCollectedFrom(x.X); m != nil {
			if k := f.key(m); k != "" {
				body[k] = true
			}
		}
		f.stmts(x.Body.List, body)
		return head, false
	case *ast.SwitchStmt:
		if x.Init != nil {
			st, _ = f.stmt(x.Init, st)
		}
		if x.Tag != nil {
			f.expr(x.Tag, st)
		}
		var outs []nstate
		hasDefault := false
		neg := st
		for _, cl := range x.Body.List {
			cc := cl.(*ast.CaseClause)
			if cc.List == nil {
				hasDefault = true
			}
			cst := neg
			if x.Tag == nil && len(cc.List) == 1 {
				f.expr(cc.List[0], neg)
				cst = with(neg, f.condFacts(cc.List[0], false))
				neg = with(neg, f.condFacts(cc.List[0], true))
			}
			o, t := f.stmts(cc.Body, cst)
			if !t {
				outs = append(outs, o)
			}
		}
		if !hasDefault {
			outs = append(outs, neg)
		}
		if len(outs) == 0 {
			return st, true
		}
		res := outs[0]
		for _, o := range outs[1:] {
			res = intersect(res, o)
		}
		return res, false
	case *ast.TypeSwitchStmt:
		if x.Init != nil {
			st, _ = f.stmt(x.Init, st)
		}
		var outs []nstate
		for _, cl := range x.Body.List {
			cc := cl.(*ast.CaseClause)
			o, t := f.stmts(cc.Body, st.clone())
			if !t {
				outs = append(outs, o)
			}
		}
		outs = append(outs, st)
		res := outs[0]
		for _, o := range outs[1:] {
			res = intersect(res, o)
		}
		return res, false
	case *ast.LabeledStmt:
		return f.stmt(x.Stmt, st)
	case *ast.DeferStmt:
		f.expr(x.Call, st)
	case *ast.GoStmt:
		f.expr(x.Call, st)
	}
	return st, false
}

// applyEnsures adds the callee's exit facts for calls appearing in e.
func (f *nilFn) applyEnsures(e ast.Expr, st nstate) {
	call, ok := core.Unparen(e).(*ast.CallExpr)
	if !ok {
		return
	}
	callee := f.e.c.P.StaticCallee(f.fi, call)
	if callee == nil {
		return
	}
	cf := f.e.c.P.Funcs[callee]
	if cf == nil {
		return
	}
	for _, en := range f.e.ensures[cf] {
		idx, rel := splitParamKey(en)
		var arg ast.Expr
		if idx == -1 {
			if sel, ok := core.Unparen(call.Fun).(*ast.SelectorExpr); ok {
				arg = sel.X
			}
		} else if idx < len(call.Args) {
			arg = call.Args[idx]
		}
		if arg == nil {
			continue
		}
		if k := f.key(arg); k != "" {
			st[k+rel] = true
		}
	}
}

// ---- expressions ---------------------------------------------------------------

func (f *nilFn) expr(e ast.Expr, st nstate) {
	if e == nil {
		return
	}
	switch x := core.Unparen(e).(type) {
	case *ast.BinaryExpr:
		switch x.Op {
		case token.LAND:
			f.expr(x.X, st)
			f.expr(x.Y, with(st, f.condFacts(x.X, false)))
			return
		case token.LOR:
			f.expr(x.X, st)
			f.expr(x.Y, with(st, f.condFacts(x.X, true)))
			return
		}
		f.expr(x.X, st)
		f.expr(x.Y, st)
	case *ast.UnaryExpr:
		f.expr(x.X, st)
	case *ast.StarExpr:
		f.expr(x.X, st)
		f.use(x.X, st, false, "dereference", x.Pos())
	case *ast.SelectorExpr:
		f.expr(x.X, st)
		if sel, ok := f.info.Selections[x]; ok && sel.Kind() == types.FieldVal {
			if core.IsPointer(f.info.TypeOf(x.X)) {
				f.use(x.X, st, false, "field "+x.Sel.Name, x.Pos())
			}
		}
	case *ast.IndexExpr:
		f.expr(x.X, st)
		f.expr(x.Index, st)
	case *ast.SliceExpr:
		f.expr(x.X, st)
	case *ast.TypeAssertExpr:
		f.expr(x.X, st)
	case *ast.CompositeLit:
		for _, el := range x.Elts {
			if kv, ok := el.(*ast.KeyValueExpr); ok {
				f.expr(kv.Value, st)
			} else {
				f.expr(el, st)
			}
		}
	case *ast.FuncLit:
		if f.litParams == nil {
			f.litParams = map[types.Object]litParam{}
			f.litReqs = map[*ast.FuncLit]map[string]nilReq{}
		}
		i := 0
		for _, fl := range x.Type.Params.List {
			if len(fl.Names) == 0 {
				i++
			}
			for _, nm := range fl.Names {
				if o := f.info.Defs[nm]; o != nil {
					f.litParams[o] = litParam{lit: x, idx: i}
				}
				i++
			}
		}
		sub := *f
		sub.exits = nil
		sub.stmts(x.Body.List, st.clone())
	case *ast.CallExpr:
		f.call(x, st)
	case *ast.KeyValueExpr:
		f.expr(x.Value, st)
	}
}

func (f *nilFn) call(call *ast.CallExpr, st nstate) {
	// receiver / function expression
	var recvExpr ast.Expr
	if sel, ok := core.Unparen(call.Fun).(*ast.SelectorExpr); ok {
		if s, ok := f.info.Selections[sel]; ok {
			recvExpr = sel.X
			f.expr(sel.X, st)
			// value-receiver method through a pointer dereferences it
			if s.Kind() == types.MethodVal && core.IsPointer(f.info.TypeOf(sel.X)) {
				if fn, ok := s.Obj().(*types.Func); ok {
					if sig, ok := fn.Type().(*types.Signature); ok && sig.Recv() != nil && !core.IsPointer(sig.Recv().Type()) {
						f.use(sel.X, st, false, "call of value-receiver method "+sel.Sel.Name, sel.Pos())
					}
				}
			}
		} else {
			f.expr(sel.X, st)
		}
	} else {
		f.expr(call.Fun, st)
	}
	for _, a := range call.Args {
		f.expr(a, st)
	}
	fns, closures := f.e.c.P.Callees(f.fi, call)
	for _, lit := range closures {
		reqs := f.litReqs[lit]
		keys := make([]string, 0, len(reqs))
		for k := range reqs {
			keys = append(keys, k)
		}
		sort.Strings(keys)
		for _, rk := range keys {
			r := reqs[rk]
			if r.param < len(call.Args) {
				f.checkReqNamed(call.Args[r.param], r, st, call.Pos(), "the local closure "+exprStr(call.Fun))
			}
		}
	}
	for _, callee := range fns {
		cf := f.e.c.P.Funcs[callee]
		if cf == nil {
			continue
		}
		reqs := f.e.reqs[cf]
		keys := make([]string, 0, len(reqs))
		for k := range reqs {
			keys = append(keys, k)
		}
		sort.Strings(keys)
		for _, rk := range keys {
			r := reqs[rk]
			var arg ast.Expr
			if r.param == -1 {
				arg = recvExpr
			} else if r.param < len(call.Args) {
				arg = call.Args[r.param]
			}
			if arg == nil {
				continue
			}
			f.checkReq(arg, r, st, call.Pos(), cf)
		}
	}
}

// checkReq checks one callee requirement at a call site.
func (f *nilFn) checkReq(arg ast.Expr, r nilReq, st nstate, pos token.Pos, callee *core.FuncInfo) {
	f.checkReqNamed(arg, r, st, pos, callee.Obj.Name())
}

func (f *nilFn) checkReqNamed(arg ast.Expr, r nilReq, st nstate, pos token.Pos, calleeName string) {
	ak := f.key(arg)
	if r.rel == "" {
		// the argument itself must be non-nil: matters only when it is a maybe-nil source
		kind := f.sourceKind(arg, false)
		if kind == "" {
			return
		}
		f.e.uses++
		if ak != "" && st[ak] {
			return
		}
		what := fmt.Sprintf("passed to %s, which uses it without a nil test (%s)", calleeName, r.origin)
		f.unguardedAt(arg, ak, kind, what, pos, false, "passed to "+calleeName)
		return
	}
	if ak == "" {
		return
	}
	f.e.uses++
	if st[ak+r.rel] {
		return
	}
	what := fmt.Sprintf("%s%s is used by %s without a nil test (%s)", exprStr(arg), r.rel, calleeName, r.origin)
	full := ak + r.rel
	if strings.HasPrefix(full, "C") {
		// rooted at a parameter of a local closure: becomes a requirement of that closure
		f.unguardedAt(arg, full, "field", what, pos, r.store, what)
		return
	}
	if strings.HasPrefix(full, "P") {
		idx, rel := splitParamKey(full)
		if !f.fi.Obj.Exported() && strings.Count(rel, ".") <= 3 {
			nr := nilReq{param: idx, rel: rel, origin: r.origin, pos: r.pos, fn: r.fn, store: r.store}
			if old, ok := f.e.reqs[f.fi][nr.key()]; ok {
				nr = old
			}
			if _, ok := f.reqSink[nr.key()]; !ok {
				f.reqSink[nr.key()] = nr
			}
			return
		}
	}
	if !f.collect {
		return
	}
	f.e.viols[f.fi.QName()+"/"+exprStr(arg)+r.rel+"/"+calleeName] = nilViol{fn: f.fi, pos: pos,
		what: fmt.Sprintf("%s may be nil here (optional part of the document model) and is not tested on this path: %s", exprStr(arg)+r.rel, what), origin: r.origin}
}

// keysCollectedFrom: the ranged expression is a local slice every append to which happens in the body of a range
// over one and the same map, appending that loop's key; returns the map expression.
func (f *nilFn) keysCollectedFrom(e ast.Expr) ast.Expr {
	o := core.ObjOf(f.info, e)
	if o == nil || !core.IsSlice(o.Type()) {
		return nil
	}
	if _, isParam := f.params[o]; isParam {
		return nil
	}
	pm := f.e.c.parents(f.fi)
	var from ast.Expr
	ok := true
	n := 0
	for _, d := range f.e.c.P.Locals(f.fi).Defs[o] {
		if d.Kind == core.DefZero {
			continue
		}
		if d.Kind != core.DefAssign || d.Expr == nil {
			return nil
		}
		call, isCall := core.Unparen(d.Expr).(*ast.CallExpr)
		if !isCall {
			return nil
		}
		if isBuiltin(f.info, call, "make") {
			continue
		}
		if !isBuiltin(f.info, call, "append") || len(call.Args) != 2 || core.ObjOf(f.info, call.Args[0]) != o {
			return nil
		}
		rs, _ := pm.Enclosing(call, func(n ast.Node) bool { _, y := n.(*ast.RangeStmt); return y }).(*ast.RangeStmt)
		if rs == nil || rs.Key == nil || !core.IsMap(f.info.TypeOf(rs.X)) || core.ObjOf(f.info, call.Args[1]) != core.ObjOf(f.info, rs.Key) {
			return nil
		}
		if from != nil && !sameExpr(from, rs.X) {
			ok = false
		}
		from = rs.X
		n++
	}
	if !ok || n == 0 {
		return nil
	}
	return from
}
