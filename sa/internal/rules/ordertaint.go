package rules

// ordertaint (E5): map-iteration order never reaches the document. Loops over
// maps (and over slices filled in map order) must have commutative bodies;
// slices filled in such loops are order-tainted until sorted, and tainted
// slices may only be measured, searched, ranged commutatively, sorted, logged
// or accumulated further.

import (
	"fmt"
	"go/ast"
	"go/token"
	"go/types"
	"sort"
	"strings"

	"verif/sa/internal/core"
)

func init() {
	register(Rule{
		Name:  "ORD",
		Props: []string{"C07"},
		Doc:   "no map-iteration order flows into a document mutation or a generated name: unordered loops are commutative, order-tainted slices are sorted before any order-sensitive use",
		Run:   ordRules,
	})
}

// ordExempt: loops the analysis cannot decide, frozen by role with the reason (DESIGN §3.5). The roles are
// structural (what is ranged, what the body does), not names of functions, so that moving a loop into a
// helper neither loses the exemption nor lets it cover a different loop.
var ordExempt = map[string]string{
	"self-insert:tracked-refs": "inserts into the map it ranges over: inserted entries satisfy path == key and are skipped by the same loop; duplicate inserts are field-wise equal (assumed, not decided)",
	"cross-entry:tracked-refs": "the callee has cross-entry effects; the parents fix-up at the end of the callee re-points entries that referred to the removed one (assumed, not decided)",
	"group-first:RefRevIdx":    "first ref seen represents its group: members of a group have equal normalised paths and consumers use only the normalised path, the fragment base name and RebaseRef (assumed, not decided)",
}

// rangedField: the struct field a ranged expression ends in ("context.newRefs"), following local aliases.
func (f *ordFn) rangedField(x ast.Expr) (*types.Var, string) {
	x = core.Unparen(x)
	for i := 0; i < 4; i++ {
		if sel, ok := x.(*ast.SelectorExpr); ok {
			if fv := core.FieldOf(f.info, sel); fv != nil {
				owner := core.OwnerStruct(f.e.c.P, fv)
				if j := strings.LastIndex(owner, "."); j >= 0 {
					owner = owner[j+1:]
				}
				return fv, owner + "." + fv.Name()
			}
			return nil, ""
		}
		id, ok := x.(*ast.Ident)
		if !ok {
			return nil, ""
		}
		o := core.ObjOf(f.info, id)
		defs := f.e.c.P.Locals(f.fi).Defs[o]
		if len(defs) != 1 || defs[0].Kind != core.DefAssign {
			return nil, ""
		}
		x = core.Unparen(defs[0].Expr)
	}
	return nil, ""
}

// isTrackedRefs: the flattener's index of the definitions it created — by type, not by name: a field of a module
// struct of type map[string]*S where S is a module struct carrying the created schema (*spec.Schema) and the list
// of its referers ([]string).
func isTrackedRefs(fv *types.Var) bool {
	if fv == nil || fv.Pkg() == nil || fv.Pkg().Path() != core.ModPath {
		return false
	}
	mt, ok := fv.Type().Underlying().(*types.Map)
	if !ok || !core.IsString(mt.Key()) {
		return false
	}
	pt, ok := mt.Elem().(*types.Pointer)
	if !ok {
		return false
	}
	pp, _ := core.NamedOf(pt.Elem())
	st, ok := pt.Elem().Underlying().(*types.Struct)
	if pp != core.ModPath || !ok {
		return false
	}
	hasSchema, hasList := false, false
	for i := 0; i < st.NumFields(); i++ {
		t := st.Field(i).Type()
		if core.IsPointer(t) && core.IsSpecType(t, "Schema") {
			hasSchema = true
		}
		if sl, ok := t.Underlying().(*types.Slice); ok && core.IsString(sl.Elem()) {
			hasList = true
		}
	}
	return hasSchema && hasList
}

// loopRole classifies a loop into one of the frozen exemption roles ("" when none applies).
func (f *ordFn) loopRole(n ast.Node, body *ast.BlockStmt) string {
	rs, ok := n.(*ast.RangeStmt)
	if !ok {
		return ""
	}
	c := f.e.c
	if fv, _ := f.rangedField(rs.X); fv != nil && isTrackedRefs(fv) {
		name := "tracked-refs"
		self, cross := false, false
		ast.Inspect(body, func(m ast.Node) bool {
			switch x := m.(type) {
			case *ast.AssignStmt:
				for _, l := range x.Lhs {
					if ix, ok := core.Unparen(l).(*ast.IndexExpr); ok {
						if lv, _ := f.rangedField(ix.X); lv == fv {
							self = true
						}
					}
				}
			case *ast.CallExpr:
				fns, _ := c.P.Callees(f.fi, x)
				for _, callee := range fns {
					cf := c.P.Funcs[callee]
					if cf == nil {
						continue
					}
					reach := c.P.Reachable(cf)
					for g := range reach {
						if g.Decl == nil || g.Decl.Body == nil {
							continue
						}
						gf := &ordFn{e: f.e, fi: g, info: g.Pkg.TypesInfo}
						ast.Inspect(g.Decl.Body, func(k ast.Node) bool {
							if r2, ok := k.(*ast.RangeStmt); ok {
								if v2, _ := gf.rangedField(r2.X); v2 == fv {
									cross = true
								}
							}
							return !cross
						})
					}
				}
			}
			return true
		})
		switch {
		case self:
			return "self-insert:" + name
		case cross:
			return "cross-entry:" + name
		}
		return ""
	}
	// grouping of refs by normalised path: the loop fills a map of sortref.RefRevIdx from a map of spec.Ref
	if t := f.info.TypeOf(rs.X); t != nil && core.IsMap(t) {
		if mt, ok := t.Underlying().(*types.Map); ok && core.IsSpecType(mt.Elem(), "Ref") {
			fills := false
			ast.Inspect(body, func(m ast.Node) bool {
				if as, ok := m.(*ast.AssignStmt); ok {
					for _, l := range as.Lhs {
						if ix, ok := core.Unparen(l).(*ast.IndexExpr); ok {
							if lt := f.info.TypeOf(ix.X); lt != nil {
								if lm, ok := lt.Underlying().(*types.Map); ok {
									if _, nm := core.NamedOf(lm.Elem()); nm == "RefRevIdx" {
										fills = true
									}
								}
							}
						}
					}
				}
				return true
			})
			if fills {
				// the assumption (members of a group have equal normalised paths) holds only while the grouping
				// key IS the normalised path: the result of the normaliser applied to the loop's own $ref, unchanged
				keyOK := true
				ast.Inspect(body, func(m ast.Node) bool {
					as, ok := m.(*ast.AssignStmt)
					if !ok {
						return true
					}
					for _, l := range as.Lhs {
						ix, ok := core.Unparen(l).(*ast.IndexExpr)
						if !ok {
							continue
						}
						if lt := f.info.TypeOf(ix.X); lt == nil || !core.IsMap(lt) {
							continue
						}
						k := core.Unparen(ix.Index)
						if o := core.ObjOf(f.info, k); o != nil {
							if defs := f.e.c.P.Locals(f.fi).Defs[o]; len(defs) == 1 && defs[0].Kind == core.DefAssign {
								k = core.Unparen(defs[0].Expr)
							}
						}
						call, isCall := k.(*ast.CallExpr)
						if !isCall {
							keyOK = false
							continue
						}
						callee := f.e.c.P.StaticCallee(f.fi, call)
						if callee == nil || callee.Pkg() == nil || !strings.HasSuffix(callee.Pkg().Path(), "/normalize") {
							keyOK = false
							continue
						}
						usesLoopRef := false
						for _, a := range call.Args {
							if o := core.ObjOf(f.info, a); o != nil && rs.Value != nil && o == core.ObjOf(f.info, rs.Value) {
								usesLoopRef = true
							}
						}
						if !usesLoopRef {
							keyOK = false
						}
					}
					return true
				})
				if keyOK {
					return "group-first:RefRevIdx"
				}
			}
		}
	}
	return ""
}

// rangeDesc names the ranged collection structurally (final field, callee, or type), never by local names.
func (f *ordFn) rangeDesc(x ast.Expr) string {
	if _, name := f.rangedField(x); name != "" {
		return name
	}
	x = core.Unparen(x)
	if call, ok := x.(*ast.CallExpr); ok {
		if callee := f.e.c.P.StaticCallee(f.fi, call); callee != nil {
			return callee.Name() + "()"
		}
	}
	if t := f.info.TypeOf(x); t != nil {
		return types.TypeString(t, func(p *types.Package) string { return p.Name() })
	}
	return "?"
}

type ordEngine struct {
	c            *Ctx
	eff          *effEngine
	retTainted   map[*core.FuncInfo]bool
	retParam     map[*core.FuncInfo]int  // returns (a conversion of) parameter i unsorted: taint passes through
	sorts        map[*core.FuncInfo]bool // sorts its slice parameter / result before returning
	fieldTaint   map[*types.Var]bool
	iterNext     map[*types.Func]bool // methods wrapping reflect.MapIter.Next
	loopsChecked int
	viol         map[string][2]string
	hold         map[string][2]string
	exempt       map[string][2]string
	sinks        map[string][2]string
	roles        map[string]int
}

func ordRules(c *Ctx) {
	flat := c.need("C07", "ORD", "", "Flatten")
	if flat == nil {
		return
	}
	e := &ordEngine{c: c, eff: effects(c), retTainted: map[*core.FuncInfo]bool{}, retParam: map[*core.FuncInfo]int{}, sorts: map[*core.FuncInfo]bool{},
		fieldTaint: map[*types.Var]bool{}, iterNext: map[*types.Func]bool{}, viol: map[string][2]string{}, hold: map[string][2]string{}, exempt: map[string][2]string{}, sinks: map[string][2]string{}, roles: map[string]int{}}
	reach := core.SortedSet(c.P.Reachable(flat))
	// methods that advance a reflect.MapIter
	for _, fi := range c.P.SortedFuncs() {
		for _, cs := range c.P.CG().Out[fi.Obj] {
			if cs.Callee != nil && cs.Callee.FullName() == "(*reflect.MapIter).Next" {
				e.iterNext[fi.Obj] = true
			}
		}
	}
	for _, fi := range reach {
		e.retParam[fi] = -1
	}
	for iter := 0; iter < 6; iter++ {
		changed := false
		nf := len(e.fieldTaint)
		for _, fi := range reach {
			rt, rp, so := e.analyze(fi, false)
			if rt != e.retTainted[fi] || rp != e.retParam[fi] || so != e.sorts[fi] {
				changed = true
			}
			e.retTainted[fi], e.retParam[fi], e.sorts[fi] = rt, rp, so
		}
		if len(e.fieldTaint) != nf {
			changed = true
		}
		if !changed {
			break
		}
	}
	for _, fi := range reach {
		e.analyze(fi, true)
	}
	emit := func(m map[string][2]string, verdict string) {
		keys := make([]string, 0, len(m))
		for k := range m {
			keys = append(keys, k)
		}
		sort.Strings(keys)
		for _, k := range keys {
			rule := "ORD-LOOP"
			if strings.HasPrefix(k, "sink:") {
				rule = "ORD-SINK"
			}
			kk := strings.TrimPrefix(k, "sink:")
			switch verdict {
			case core.Violated:
				c.S.Violate("C07", rule, kk, m[k][0], m[k][1])
			case core.Exempt:
				c.S.Exempt("C07", rule, kk, m[k][0], m[k][1])
			default:
				c.S.Hold("C07", rule, kk, m[k][0], m[k][1])
			}
		}
	}
	for k := range e.viol {
		delete(e.hold, k)
	}
	e.totalOrders(reach)
	emit(e.hold, core.Holds)
	emit(e.exempt, core.Exempt)
	emit(e.viol, core.Violated)
	emit(e.sinks, core.Violated)
	var tf []string
	for f := range e.fieldTaint {
		tf = append(tf, f.Name())
	}
	sort.Strings(tf)
	c.S.Note("ORD: order-tainted fields: %s", strings.Join(tf, ", "))
	var rt []string
	for f, t := range e.retTainted {
		if t {
			rt = append(rt, f.QName())
		}
	}
	sort.Strings(rt)
	c.S.Note("ORD: functions returning order-tainted slices: %s", strings.Join(rt, ", "))
	if e.loopsChecked < 25 {
		c.S.Undecided("C07", "ORD-LOOP", "floor", "-", fmt.Sprintf("only %d unordered loops found below Flatten (confirmed by hand: 30+)", e.loopsChecked))
	}
}

type ordFn struct {
	e       *ordEngine
	fi      *core.FuncInfo
	info    *types.Info
	collect bool
	// taint events per local object: positions where it becomes tainted / sanitised
	taintAt map[types.Object][]token.Pos
	cleanAt map[types.Object][]token.Pos
	ordinal map[string]int
}

func (f *ordFn) tainted(o types.Object, at token.Pos) bool {
	if o == nil {
		return false
	}
	var lastT, lastC token.Pos = -1, -1
	for _, p := range f.taintAt[o] {
		if p <= at && p > lastT {
			lastT = p
		}
	}
	for _, p := range f.cleanAt[o] {
		if p <= at && p > lastC {
			lastC = p
		}
	}
	return lastT >= 0 && lastT > lastC
}

// exprTainted: the slice-valued expression is order-tainted at this point.
func (f *ordFn) exprTainted(x ast.Expr, at token.Pos) bool {
	x = core.Unparen(x)
	switch v := x.(type) {
	case *ast.Ident:
		return f.tainted(core.ObjOf(f.info, v), at)
	case *ast.SelectorExpr:
		if fv := core.FieldOf(f.info, v); fv != nil {
			return f.e.fieldTaint[fv]
		}
	case *ast.IndexExpr:
		// element of a map of tainted slices
		return f.exprTainted(v.X, at)
	case *ast.SliceExpr:
		return f.exprTainted(v.X, at)
	case *ast.CallExpr:
		if tv, ok := f.info.Types[v.Fun]; ok && tv.IsType() && len(v.Args) == 1 {
			return f.exprTainted(v.Args[0], at)
		}
		fns, _ := f.e.c.P.Callees(f.fi, v)
		for _, callee := range fns {
			if cf := f.e.c.P.Funcs[callee]; cf != nil {
				if f.e.retTainted[cf] {
					return true
				}
				if i := f.e.retParam[cf]; i >= 0 && i < len(v.Args) && f.exprTainted(v.Args[i], at) {
					return true
				}
			}
		}
		if isBuiltin(f.info, v, "append") && len(v.Args) > 0 {
			return f.exprTainted(v.Args[0], at)
		}
	}
	return false
}

func isSliceOrMapOfSlices(t types.Type) bool {
	if t == nil {
		return false
	}
	switch u := t.Underlying().(type) {
	case *types.Slice:
		return true
	case *types.Map:
		_, ok := u.Elem().Underlying().(*types.Slice)
		return ok
	}
	return false
}

func (f *ordFn) markTaint(x ast.Expr, at token.Pos) {
	x = core.Unparen(x)
	switch v := x.(type) {
	case *ast.Ident:
		if o := core.ObjOf(f.info, v); o != nil {
			f.taintAt[o] = append(f.taintAt[o], at)
		}
	case *ast.SelectorExpr:
		if fv := core.FieldOf(f.info, v); fv != nil {
			f.e.fieldTaint[fv] = true
		}
	case *ast.IndexExpr:
		f.markTaint(v.X, at)
	}
}

func (f *ordFn) isSortCall(call *ast.CallExpr) (ast.Expr, bool) {
	callee := f.e.c.P.CalleeAny(f.fi, call)
	if callee == nil || len(call.Args) == 0 {
		return nil, false
	}
	full := callee.FullName()
	if strings.HasPrefix(full, "sort.") || strings.HasPrefix(full, "slices.Sort") {
		a := core.Unparen(call.Args[0])
		if c2, ok := a.(*ast.CallExpr); ok && len(c2.Args) == 1 {
			if tv, ok := f.info.Types[c2.Fun]; ok && tv.IsType() {
				a = core.Unparen(c2.Args[0])
			}
		}
		return a, true
	}
	return nil, false
}

// unorderedLoop: a range over a map, a MapIter loop, or a range over an order-tainted slice.
func (f *ordFn) unorderedLoop(n ast.Node) (body *ast.BlockStmt, desc string, key, val types.Object, ok bool) {
	switch x := n.(type) {
	case *ast.RangeStmt:
		t := f.info.TypeOf(x.X)
		if t == nil {
			return
		}
		if x.Key != nil {
			key = core.ObjOf(f.info, x.Key)
		}
		if x.Value != nil {
			val = core.ObjOf(f.info, x.Value)
		}
		if core.IsMap(t) {
			return x.Body, "range " + exprStr(x.X), key, val, true
		}
		if core.IsSlice(t) && f.exprTainted(x.X, x.Pos()) {
			return x.Body, "range " + exprStr(x.X) + " (filled in map order)", key, val, true
		}
	case *ast.ForStmt:
		if x.Cond != nil {
			if call, isCall := core.Unparen(x.Cond).(*ast.CallExpr); isCall {
				if callee := f.e.c.P.StaticCallee(f.fi, call); callee != nil && f.e.iterNext[callee] {
					return x.Body, "for " + exprStr(x.Cond) + " (map iterator)", nil, nil, true
				}
			}
		}
	}
	return
}

func (e *ordEngine) analyze(fi *core.FuncInfo, collect bool) (retTainted bool, retParam int, sortsArg bool) {
	f := &ordFn{e: e, fi: fi, info: fi.Pkg.TypesInfo, collect: collect, taintAt: map[types.Object][]token.Pos{}, cleanAt: map[types.Object][]token.Pos{}, ordinal: map[string]int{}}
	retParam = -1
	// pass 1 (repeated): taint sources and sanitisers
	for round := 0; round < 4; round++ {
		ast.Inspect(fi.Decl.Body, func(n ast.Node) bool {
			// sanitisers
			if call, ok := n.(*ast.CallExpr); ok {
				if a, isSort := f.isSortCall(call); isSort {
					if o := core.ObjOf(f.info, a); o != nil {
						f.cleanAt[o] = appendPos(f.cleanAt[o], call.End())
						if _, isParam := e.eff.paramIndex(fi, o); isParam {
							sortsArg = true
						}
					}
				}
			}
			// multi-value assignment from a call returning an order-tainted slice
			if as, ok := n.(*ast.AssignStmt); ok && len(as.Rhs) == 1 && len(as.Lhs) > 1 {
				if call, isCall := core.Unparen(as.Rhs[0]).(*ast.CallExpr); isCall {
					fns, _ := e.c.P.Callees(fi, call)
					for _, callee := range fns {
						if cf := e.c.P.Funcs[callee]; cf != nil && e.retTainted[cf] {
							for _, l := range as.Lhs {
								if isSliceOrMapOfSlices(f.info.TypeOf(l)) {
									f.markTaintOnce(l, as.Pos())
								}
							}
						}
					}
				}
			}
			// assignments from tainted expressions
			if as, ok := n.(*ast.AssignStmt); ok && len(as.Lhs) == len(as.Rhs) {
				for i, l := range as.Lhs {
					if !isSliceOrMapOfSlices(f.info.TypeOf(l)) {
						continue
					}
					r := core.Unparen(as.Rhs[i])
					// x = append(x, …) handled by loop context below; plain copies propagate taint
					if call, isCall := r.(*ast.CallExpr); isCall && isBuiltin(f.info, call, "append") {
						if len(call.Args) >= 2 && call.Ellipsis.IsValid() && f.exprTainted(call.Args[1], as.Pos()) {
							f.markTaintOnce(l, as.Pos())
						}
						continue
					}
					if f.exprTainted(r, as.Pos()) {
						f.markTaintOnce(l, as.Pos())
					} else if id, isID := core.Unparen(l).(*ast.Ident); isID {
						// a clean re-assignment sanitises (e.g. res := sorted copy)
						if o := core.ObjOf(f.info, id); o != nil && len(f.taintAt[o]) > 0 {
							if call, isCall := r.(*ast.CallExpr); isCall {
								if fns, _ := e.c.P.Callees(fi, call); len(fns) == 1 {
									if cf := e.c.P.Funcs[fns[0]]; cf != nil && e.sorts[cf] {
										f.cleanAt[o] = appendPos(f.cleanAt[o], as.End())
									}
								}
							}
						}
					}
				}
			}
			body, _, _, _, ok := f.unorderedLoop(n)
			if !ok {
				return true
			}
			// appends inside an unordered loop taint their target
			ast.Inspect(body, func(m ast.Node) bool {
				as, ok := m.(*ast.AssignStmt)
				if !ok || len(as.Lhs) != 1 || len(as.Rhs) != 1 {
					return true
				}
				if call, isCall := core.Unparen(as.Rhs[0]).(*ast.CallExpr); isCall && isBuiltin(f.info, call, "append") {
					f.markTaintOnce(as.Lhs[0], as.Pos())
				}
				return true
			})
			return true
		})
	}
	// returns
	ast.Inspect(fi.Decl.Body, func(n ast.Node) bool {
		if _, isLit := n.(*ast.FuncLit); isLit {
			return false
		}
		r, ok := n.(*ast.ReturnStmt)
		if !ok {
			return true
		}
		for _, x := range r.Results {
			if !isSliceOrMapOfSlices(f.info.TypeOf(x)) {
				continue
			}
			if f.exprTainted(x, r.Pos()) {
				retTainted = true
			}
			// returns (a conversion of) a parameter that it did not sort
			y := core.Unparen(x)
			if o := core.ObjOf(f.info, y); o != nil {
				for _, d := range e.c.P.Locals(fi).Defs[o] {
					if d.Kind == core.DefAssign {
						if c2, ok := core.Unparen(d.Expr).(*ast.CallExpr); ok && len(c2.Args) == 1 {
							if tv, ok := f.info.Types[c2.Fun]; ok && tv.IsType() {
								if po := core.ObjOf(f.info, c2.Args[0]); po != nil {
									if i, isParam := e.eff.paramIndex(fi, po); isParam && len(f.cleanAt[o]) == 0 && len(f.cleanAt[po]) == 0 {
										retParam = i
									}
								}
							}
						}
					}
				}
				if i, isParam := e.eff.paramIndex(fi, o); isParam && len(f.cleanAt[o]) == 0 {
					retParam = i
				}
			}
		}
		if len(r.Results) == 0 && fi.Decl.Type.Results != nil {
			for _, fl := range fi.Decl.Type.Results.List {
				for _, nm := range fl.Names {
					if o := f.info.Defs[nm]; o != nil && isSliceOrMapOfSlices(o.Type()) && f.tainted(o, r.Pos()) {
						retTainted = true
					}
				}
			}
		}
		return true
	})
	// a function that sorts its result before returning counts as a sanitiser for its callers
	if !retTainted {
		ast.Inspect(fi.Decl.Body, func(n ast.Node) bool {
			if call, ok := n.(*ast.CallExpr); ok {
				if _, isSort := f.isSortCall(call); isSort {
					sortsArg = true
				}
			}
			return true
		})
	}
	if !collect {
		return
	}
	f.checkLoops()
	f.checkSinks()
	return
}

func appendPos(xs []token.Pos, p token.Pos) []token.Pos {
	for _, x := range xs {
		if x == p {
			return xs
		}
	}
	return append(xs, p)
}

func (f *ordFn) markTaintOnce(x ast.Expr, at token.Pos) {
	x = core.Unparen(x)
	if id, ok := x.(*ast.Ident); ok {
		if o := core.ObjOf(f.info, id); o != nil {
			f.taintAt[o] = appendPos(f.taintAt[o], at)
		}
		return
	}
	f.markTaint(x, at)
}

// ---- loop bodies -------------------------------------------------------------

func (f *ordFn) checkLoops() {
	c := f.e.c
	ast.Inspect(f.fi.Decl.Body, func(n ast.Node) bool {
		body, desc, key, val, ok := f.unorderedLoop(n)
		if !ok {
			return true
		}
		f.e.loopsChecked++
		base := f.fi.QName() + "/" + strings.SplitN(desc, " (", 2)[0]
		if rs, isRange := n.(*ast.RangeStmt); isRange {
			base = f.fi.QName() + "/range " + f.rangeDesc(rs.X)
		}
		f.ordinal[base]++
		k := base
		if f.ordinal[base] > 1 {
			k = fmt.Sprintf("%s#%d", base, f.ordinal[base])
		}
		pos := c.P.Pos(n.Pos())
		if role := f.loopRole(n, body); role != "" {
			f.e.exempt[k] = [2]string{pos, "role " + role + ": " + ordExempt[role]}
			f.e.roles[role]++
			return true
		}
		problems := f.bodyProblems(body, key, val)
		if len(problems) == 0 {
			f.e.hold[k] = [2]string{pos, desc + ": the body is commutative (keyed stores, deletions, constant flags, counters, appends that taint, searches, read-only calls, keyed rewrites)"}
		} else {
			sort.Strings(problems)
			if len(problems) > 3 {
				problems = problems[:3]
			}
			f.e.viol[k] = [2]string{pos, desc + " iterates in an unspecified order and its body is order-sensitive: " + strings.Join(problems, "; ") + " — the output of Flatten can differ between runs"}
		}
		return true
	})
}

func (f *ordFn) declaredIn(o types.Object, body *ast.BlockStmt) bool {
	return o != nil && o.Pos() >= body.Pos() && o.Pos() <= body.End()
}

// derivedFromLoopVar: the expression's root is the loop key/value variable or a local defined inside the body.
func (f *ordFn) rootedInLoop(x ast.Expr, body *ast.BlockStmt, key, val types.Object) bool {
	id := rootIdent(x)
	if id == nil {
		return false
	}
	o := core.ObjOf(f.info, id)
	return o != nil && (o == key || o == val || f.declaredIn(o, body))
}

func (f *ordFn) bodyProblems(body *ast.BlockStmt, key, val types.Object) []string {
	c := f.e.c
	var out []string
	// maps looked up in the body
	lookups := map[string][]ast.Expr{}
	ast.Inspect(body, func(n ast.Node) bool {
		if ix, ok := n.(*ast.IndexExpr); ok && core.IsMap(f.info.TypeOf(ix.X)) {
			lookups[exprStr(ix.X)] = append(lookups[exprStr(ix.X)], ix.Index)
		}
		return true
	})
	ast.Inspect(body, func(n ast.Node) bool {
		switch x := n.(type) {
		case *ast.FuncLit:
			return false
		case *ast.AssignStmt:
			for i, l := range x.Lhs {
				l = core.Unparen(l)
				var rhs ast.Expr
				if len(x.Lhs) == len(x.Rhs) {
					rhs = x.Rhs[i]
				}
				isAppend := false
				if call, ok := core.Unparen(rhs).(*ast.CallExpr); ok && rhs != nil && isBuiltin(f.info, call, "append") {
					isAppend = true
				}
				switch lx := l.(type) {
				case *ast.Ident:
					o := core.ObjOf(f.info, lx)
					if lx.Name == "_" || o == nil || f.declaredIn(o, body) || o == key || o == val || x.Tok == token.DEFINE && f.info.Defs[lx] != nil {
						continue
					}
					if isAppend || x.Tok != token.ASSIGN && x.Tok != token.DEFINE {
						if core.IsString(o.Type()) && x.Tok == token.ADD_ASSIGN {
							out = append(out, "string "+lx.Name+" is accumulated in iteration order at "+c.P.Pos(x.Pos()))
						}
						continue
					}
					if rhs != nil {
						if tv, ok := f.info.Types[rhs]; ok && tv.Value != nil {
							continue // constant flag
						}
						if core.IsNilExpr(f.info, rhs) {
							continue
						}
						// monotone boolean accumulation: x = x || y, x = x && y
						if be, ok := core.Unparen(rhs).(*ast.BinaryExpr); ok && (be.Op == token.LOR || be.Op == token.LAND) && (core.ObjOf(f.info, be.X) == o || core.ObjOf(f.info, be.Y) == o) {
							continue
						}
					}
					if core.IsErrorType(o.Type()) {
						continue
					}
					// a search flag: `if found = <cond>; found { break }` (or the test right after the assignment):
					// the loop is left as soon as the flag is raised, so at the end it says "some element satisfies
					// cond", whatever the order
					if core.IsBool(o.Type()) && f.isSearchFlag(body, x, o) {
						continue
					}
					out = append(out, "outer variable "+lx.Name+" is overwritten with an iteration-dependent value at "+c.P.Pos(x.Pos())+" (last writer wins)")
				case *ast.IndexExpr:
					if !core.IsMap(f.info.TypeOf(lx.X)) {
						if !f.rootedInLoop(lx.X, body, key, val) {
							out = append(out, "element store "+exprStr(l)+" into an outer slice at "+c.P.Pos(x.Pos()))
						}
						continue
					}
					// accumulation m[k] = append(m[k], v): commutative up to the order of the slice, which is tainted
					if isAppend {
						if call := core.Unparen(rhs).(*ast.CallExpr); len(call.Args) > 0 && sameExpr(call.Args[0], l) {
							continue
						}
					}
					// a key computed from the loop variable through a function that is not injective (case folding,
					// name mangling, trimming, base names): two elements can land on one key, and which one stays is
					// decided by the iteration order
					if fn := f.nonInjectiveIn(lx.Index, body, key, val); fn != "" {
						out = append(out, "the store "+exprStr(l)+" at "+c.P.Pos(x.Pos())+" keys the element by "+fn+"(…) of the loop variable, which is not injective: colliding elements overwrite each other in iteration order (last writer wins)")
						continue
					}
					// keyed store: fine unless the same map is also looked up with another key
					ko := core.ObjOf(f.info, lx.Index)
					keyIsLoopVar := ko != nil && (ko == key || ko == val)
					for _, lk := range lookups[exprStr(lx.X)] {
						if lk == lx.Index {
							continue
						}
						if keyIsLoopVar && core.ObjOf(f.info, lk) == ko {
							continue
						}
						if _, isConst := f.info.Types[lk]; isConst && f.info.Types[lk].Value != nil {
							continue
						}
						out = append(out, "map "+exprStr(lx.X)+" is both looked up and stored under keys that are not the loop variable at "+c.P.Pos(x.Pos())+" (first/last writer wins on collisions)")
						break
					}
				case *ast.SelectorExpr, *ast.StarExpr:
					if f.rootedInLoop(l, body, key, val) || isAppend {
						continue
					}
					if rhs != nil {
						if tv, ok := f.info.Types[rhs]; ok && tv.Value != nil {
							continue
						}
					}
					out = append(out, "field "+exprStr(l)+" of an outer object is overwritten with an iteration-dependent value at "+c.P.Pos(x.Pos()))
				}
			}
		case *ast.ReturnStmt:
			for _, r := range x.Results {
				if core.IsErrorType(f.info.TypeOf(r)) || core.IsNilExpr(f.info, r) {
					continue
				}
				if tv, ok := f.info.Types[r]; ok && tv.Value != nil {
					continue
				}
				if id, ok := core.Unparen(r).(*ast.Ident); ok {
					if o := core.ObjOf(f.info, id); o != nil && !f.declaredIn(o, body) && o != key && o != val {
						continue
					}
				}
				if core.IsBool(f.info.TypeOf(r)) {
					continue
				}
				// returning while an error is pending is an error exit
				if f.isErrReturn(x) {
					continue
				}
				out = append(out, "returns the iteration-dependent value "+exprStr(r)+" at "+c.P.Pos(x.Pos())+" (first match wins)")
			}
		case *ast.CallExpr:
			if p := f.callProblem(x, body, key, val); p != "" {
				out = append(out, p)
			}
		}
		return true
	})
	return out
}

// isSearchFlag: the assignment to the bool flag is the init statement of `if flag { leave }`, or is immediately
// followed by such an if, directly in the loop body.
func (f *ordFn) isSearchFlag(body *ast.BlockStmt, as *ast.AssignStmt, flag types.Object) bool {
	leaves := func(ifs *ast.IfStmt) bool {
		if core.ObjOf(f.info, ifs.Cond) != flag || ifs.Else != nil || len(ifs.Body.List) == 0 {
			return false
		}
		switch last := ifs.Body.List[len(ifs.Body.List)-1].(type) {
		case *ast.BranchStmt:
			return last.Tok == token.BREAK
		case *ast.ReturnStmt:
			return true
		}
		return false
	}
	for i, st := range body.List {
		if ifs, ok := st.(*ast.IfStmt); ok && ifs.Init == ast.Stmt(as) && leaves(ifs) {
			return true
		}
		if st == ast.Stmt(as) && i+1 < len(body.List) {
			if ifs, ok := body.List[i+1].(*ast.IfStmt); ok && ifs.Init == nil && leaves(ifs) {
				return true
			}
		}
	}
	return false
}

func (f *ordFn) isErrReturn(r *ast.ReturnStmt) bool {
	for _, x := range r.Results {
		if core.IsErrorType(f.info.TypeOf(x)) && !core.IsNilExpr(f.info, x) {
			return true
		}
	}
	return false
}

// callProblem: a call in an unordered loop body that writes the document other than through a keyed rewrite.
func (f *ordFn) callProblem(call *ast.CallExpr, body *ast.BlockStmt, key, val types.Object) string {
	c := f.e.c
	fns, _ := c.P.Callees(f.fi, call)
	for _, callee := range fns {
		cf := c.P.Funcs[callee]
		if cf == nil {
			// in-place external mutators on outer data
			if idx, ok := externalEffects[callee.FullName()]; ok && !strings.HasPrefix(callee.FullName(), "sort.") {
				var a ast.Expr
				if idx >= 0 && idx < len(call.Args) {
					a = call.Args[idx]
				} else if sel, ok := core.Unparen(call.Fun).(*ast.SelectorExpr); ok {
					a = sel.X
				}
				if a != nil && !f.rootedInLoop(a, body, key, val) {
					return "external mutator " + callee.Name() + " is applied to outer data at " + c.P.Pos(call.Pos())
				}
			}
			continue
		}
		writesDoc := false
		for _, w := range f.e.eff.sortedWrites(cf) {
			if w.root == "pkgvar" {
				writesDoc = true
			}
			if w.root != "param" {
				continue
			}
			for _, s := range w.steps {
				if isDocStep(s) {
					writesDoc = true
				}
			}
			pt := paramType(cf, w.param)
			if pp, _ := core.NamedOf(pt); pp == core.SpecPath {
				writesDoc = true
			}
			if _, isIface := pt.Underlying().(*types.Interface); isIface && w.unknownRel {
				writesDoc = true
			}
		}
		if !writesDoc {
			continue
		}
		// keyed rewriter: a (document, key string, …) function of the replace package called with the loop variable as key
		sig := callee.Type().(*types.Signature)
		if strings.HasSuffix(cf.Pkg.PkgPath, "/replace") && sig.Params().Len() >= 2 && core.IsString(sig.Params().At(1).Type()) && len(call.Args) >= 2 {
			if o := core.ObjOf(f.info, call.Args[1]); o != nil && (o == key || o == val) {
				continue
			}
		}
		// writes confined to values rooted in the loop variable (per-entry)
		confined := true
		for _, w := range f.e.eff.sortedWrites(cf) {
			if w.root != "param" {
				confined = false
				break
			}
			var a ast.Expr
			if w.param == -1 {
				if sel, ok := core.Unparen(call.Fun).(*ast.SelectorExpr); ok {
					a = sel.X
				}
			} else if w.param < len(call.Args) {
				a = call.Args[w.param]
			}
			if a == nil || !f.rootedInLoop(a, body, key, val) {
				confined = false
				break
			}
		}
		if confined {
			continue
		}
		return "call of " + cf.Obj.Name() + " at " + c.P.Pos(call.Pos()) + " writes the document (or names a definition) and is not a rewrite keyed by the loop variable"
	}
	return ""
}

// ---- sinks -------------------------------------------------------------------

func (f *ordFn) checkSinks() {
	c := f.e.c
	pm := c.parents(f.fi)
	ast.Inspect(f.fi.Decl.Body, func(n ast.Node) bool {
		var x ast.Expr
		switch v := n.(type) {
		case *ast.Ident:
			x = v
		case *ast.SelectorExpr:
			if core.FieldOf(f.info, v) == nil {
				return true
			}
			x = v
		default:
			return true
		}
		t := f.info.TypeOf(x)
		if t == nil || !core.IsSlice(t) || !f.exprTainted(x, x.Pos()) {
			return true
		}
		// skip the selector's inner identifiers: only the outermost tainted expression is a use
		if sel, ok := pm[x].(*ast.SelectorExpr); ok && sel.X == x {
			return true
		}
		parent := pm[x]
		for {
			if p, ok := parent.(*ast.ParenExpr); ok {
				parent = pm[p]
				continue
			}
			break
		}
		bad := ""
		switch p := parent.(type) {
		case *ast.IndexExpr:
			if p.X == x {
				if tv, ok := f.info.Types[p.Index]; ok && tv.Value != nil {
					bad = "indexed by the constant " + exprStr(p.Index)
				}
			}
		case *ast.SliceExpr:
			if p.X == x {
				bad = "sliced by position"
			}
		case *ast.CallExpr:
			if ast.Expr(p.Fun) == x {
				break
			}
			callee := c.P.CalleeAny(f.fi, p)
			switch {
			case callee == nil:
				if isBuiltin(f.info, p, "len") || isBuiltin(f.info, p, "cap") || isBuiltin(f.info, p, "append") || isBuiltin(f.info, p, "make") {
					break
				}
				if tv, ok := f.info.Types[p.Fun]; ok && tv.IsType() {
					break // conversion: the result is examined at its own use
				}
				// logging through a function variable (debugLog)
				if id, ok := core.Unparen(p.Fun).(*ast.Ident); ok && strings.Contains(strings.ToLower(id.Name), "log") {
					break
				}
				bad = "passed to a dynamic call " + exprStr(p.Fun)
			case strings.HasPrefix(callee.FullName(), "sort."), strings.HasPrefix(callee.FullName(), "slices.Sort"), strings.HasPrefix(callee.FullName(), "log."), strings.HasPrefix(callee.FullName(), "fmt."):
				// sorting, logging, formatting for logs
				if strings.HasPrefix(callee.FullName(), "fmt.") {
					// formatting is a sink unless it feeds a log call
					if !f.feedsLog(p, pm) {
						bad = "formatted into a string by " + callee.Name()
					}
				}
			case callee.FullName() == "strings.Join":
				if !f.feedsLog(p, pm) {
					bad = "joined into a string in iteration order"
				}
			default:
				if cf := c.P.Funcs[callee]; cf != nil {
					if f.e.sorts[cf] {
						break
					}
					// handed to a module function: fine when that function only measures/searches it; we
					// accept read-only callees (no document writes) and flag the rest
					writes := false
					for _, w := range f.e.eff.sortedWrites(cf) {
						for _, s := range w.steps {
							if isDocStep(s) {
								writes = true
							}
						}
					}
					if writes {
						// unless the callee does nothing with the slice but range over it with a commutative body
						// (the loop the caller would otherwise have written in line)
						idx := -1
						for i, a := range p.Args {
							if core.Unparen(a) == x {
								idx = i
							}
						}
						if idx < 0 || !f.e.paramOnlyRanged(cf, idx, 0) {
							bad = "passed to " + cf.Obj.Name() + ", which writes the document"
						}
					}
				}
			}
		}
		if bad != "" {
			k := "sink:" + f.fi.QName() + "/" + exprStr(x)
			f.e.sinks[k] = [2]string{c.P.Pos(x.Pos()), "the slice " + exprStr(x) + " is filled in map-iteration order and is " + bad + " before being sorted: the result depends on the iteration order"}
		}
		return true
	})
}

// feedsLog: the call is (transitively) an argument of a logging call.
func (f *ordFn) feedsLog(call *ast.CallExpr, pm core.Parents) bool {
	var n ast.Node = call
	for n != nil {
		p := pm[n]
		if pc, ok := p.(*ast.CallExpr); ok {
			if callee := f.e.c.P.CalleeAny(f.fi, pc); callee != nil && strings.HasPrefix(callee.FullName(), "log.") {
				return true
			}
			if id, ok := core.Unparen(pc.Fun).(*ast.Ident); ok && strings.Contains(strings.ToLower(id.Name), "log") {
				return true
			}
		}
		if _, isStmt := p.(ast.Stmt); isStmt {
			return false
		}
		n = p
	}
	return false
}

// totalOrders (ORD-TOTAL): sorting is what turns a slice filled in map order into a deterministic sequence, and
// sort.Sort is not stable: that only works when the comparator separates any two distinct elements. The elements
// sorted below Flatten are the keys of maps (or records carrying such a key), so the comparator must contain a
// strict comparison of the elements themselves, or of the same string field of both, taken raw — a comparison
// through a function (strings.ToLower, len, …) or on a non-identifying field alone leaves ties, whose order
// depends on the map iteration that filled the slice.
func (e *ordEngine) totalOrders(reach []*core.FuncInfo) {
	c := e.c
	inReach := map[*core.FuncInfo]bool{}
	for _, fi := range reach {
		inReach[fi] = true
	}
	n := 0
	check := func(owner string, fi *core.FuncInfo, body ast.Node, coll types.Object, pi, pj types.Object, pos token.Pos) {
		info := c.info(fi)
		// element expression: coll[i] or coll[i].F (string)
		elem := func(x ast.Expr) (idx types.Object, field string, ok bool) {
			x = core.Unparen(x)
			if sel, isSel := x.(*ast.SelectorExpr); isSel {
				if fv := core.FieldOf(info, sel); fv != nil {
					field = fv.Name()
					x = core.Unparen(sel.X)
				} else {
					return nil, "", false
				}
			}
			// a, b := coll[i], coll[j]
			for hops := 0; hops < 3; hops++ {
				o := core.ObjOf(info, x)
				if _, isID := x.(*ast.Ident); !isID || o == nil {
					break
				}
				defs := c.P.Locals(fi).Defs[o]
				if len(defs) != 1 || defs[0].Kind != core.DefAssign {
					break
				}
				x = core.Unparen(defs[0].Expr)
				if u, isAddr := x.(*ast.UnaryExpr); isAddr && u.Op == token.AND {
					x = core.Unparen(u.X) // left := &coll[i]
				}
				if sel, isSel := x.(*ast.SelectorExpr); isSel && field == "" {
					if fv := core.FieldOf(info, sel); fv != nil {
						field = fv.Name()
						x = core.Unparen(sel.X)
					}
				}
			}
			ix, isIx := x.(*ast.IndexExpr)
			if !isIx || core.ObjOf(info, ix.X) != coll {
				return nil, "", false
			}
			io := core.ObjOf(info, ix.Index)
			if io != pi && io != pj {
				return nil, "", false
			}
			return io, field, true
		}
		sepFields, modelled := e.strictOrder(owner, fi, body, coll, pi, pj, pos)
		raw := false
		rawFields := map[string]bool{}
		var seen []string
		ast.Inspect(body, func(nd ast.Node) bool {
			be, ok := nd.(*ast.BinaryExpr)
			if !ok || be.Op != token.LSS && be.Op != token.GTR {
				return true
			}
			seen = append(seen, exprStr(be))
			// strings.Compare(a, b) < 0
			if cc, isCall := core.Unparen(be.X).(*ast.CallExpr); isCall && len(cc.Args) == 2 {
				if cal := c.P.CalleeAny(fi, cc); cal != nil && cal.FullName() == "strings.Compare" {
					ai, af, aok := elem(cc.Args[0])
					bi, bf, bok := elem(cc.Args[1])
					if aok && bok && ai != bi && af == bf {
						raw = true
						rawFields[af] = true
					}
				}
			}
			ai, af, aok := elem(be.X)
			bi, bf, bok := elem(be.Y)
			if aok && bok && ai != bi && af == bf && core.IsString(info.TypeOf(be.X)) {
				raw = true
				rawFields[af] = true
			}
			return true
		})
		n++
		sort.Strings(seen)
		// a comparator written through helpers (three-way compare methods, lexicographic combinators): the evaluation
		// of ORD-STRICT says which raw string terms separate two elements
		if !raw && modelled && len(sepFields) > 0 {
			raw = true
			rawFields = sepFields
			for f := range sepFields {
				seen = append(seen, "evaluated: elements that differ in "+map[bool]string{true: "themselves", false: "field " + f}[f == ""]+" are ordered")
			}
			sort.Strings(seen)
		}
		// the fields compared must, together, carry every key of the map iteration that produced the elements
		if raw && !rawFields[""] {
			if missing := e.uncoveredKeys(coll.Type(), rawFields); missing != "" {
				e.c.S.Violate("C07", "ORD-TOTAL", owner, c.P.Pos(pos),
					"the comparator ("+strings.Join(seen, "; ")+") compares fields that do not identify an element: "+missing+" — elements that differ there tie, and sort.Sort leaves tied elements in the order the map iteration delivered them, so what is derived from that order differs between runs")
				return
			}
		}
		e.c.S.Decide(raw, "C07", "ORD-TOTAL", owner, c.P.Pos(pos),
			"the comparator ends in a raw string comparison of the two elements (or of the same string field of both): distinct keys never tie",
			"the comparator ("+strings.Join(seen, "; ")+") contains no raw string comparison of the two elements: elements that differ can compare equal, and sort.Sort leaves tied elements in the order the map iteration delivered them — the names derived from that order differ between runs")
	}
	for _, fi := range c.P.SortedFuncs() {
		// Less methods of sortable collections
		sig := fi.Obj.Type().(*types.Signature)
		if fi.Obj.Name() == "Less" && sig.Recv() != nil && sig.Params().Len() == 2 && sig.Results().Len() == 1 && core.IsBool(sig.Results().At(0).Type()) {
			used := false
			for _, cs := range c.P.CG().In[fi.Obj] {
				if inReach[cs.Caller] {
					used = true
				}
			}
			// sort.Sort calls Less through the interface: used when a value of the receiver type is sorted below Flatten
			for _, g := range reach {
				ginfo := c.info(g)
				for _, call := range calls(g.Decl.Body) {
					if cal := c.P.CalleeAny(g, call); cal != nil && strings.HasPrefix(cal.FullName(), "sort.") && len(call.Args) == 1 {
						if t := ginfo.TypeOf(call.Args[0]); t != nil && types.Identical(core.Deref(t), core.Deref(sig.Recv().Type())) {
							used = true
						}
					}
				}
			}
			if !used || fi.Decl.Recv == nil || len(fi.Decl.Recv.List) != 1 || len(fi.Decl.Recv.List[0].Names) != 1 {
				continue
			}
			info := c.info(fi)
			recv := info.Defs[fi.Decl.Recv.List[0].Names[0]]
			check(fi.QName(), fi, fi.Decl.Body, recv, sig.Params().At(0), sig.Params().At(1), fi.Decl.Pos())
		}
		if !inReach[fi] {
			continue
		}
		// sort.Slice(x, func(i, j int) bool { … })
		info := c.info(fi)
		k := 0
		for _, call := range calls(fi.Decl.Body) {
			cal := c.P.CalleeAny(fi, call)
			if cal == nil || cal.FullName() != "sort.Slice" && cal.FullName() != "sort.SliceStable" || len(call.Args) != 2 {
				continue
			}
			lit, ok := core.Unparen(call.Args[1]).(*ast.FuncLit)
			if !ok || lit.Type.Params == nil {
				continue
			}
			var ps []types.Object
			for _, f := range lit.Type.Params.List {
				for _, nm := range f.Names {
					ps = append(ps, info.Defs[nm])
				}
			}
			coll := core.ObjOf(info, call.Args[0])
			if len(ps) != 2 || coll == nil {
				continue
			}
			k++
			check(fmt.Sprintf("%s/sort.Slice#%d", fi.QName(), k), fi, lit.Body, coll, ps[0], ps[1], call.Pos())
		}
	}
	if n < 3 {
		c.S.Undecided("C07", "ORD-TOTAL", "floor", "-", fmt.Sprintf("only %d comparators found (confirmed by hand: 3)", n))
	}
}

// uncoveredKeys: the elements of the sorted collection are records built inside map iterations; the string fields
// the comparator compares raw must carry, injectively, every key variable of those iterations. Returns a
// description of a construction site whose keys are not all carried ("" when every site is covered or none is found).
func (e *ordEngine) uncoveredKeys(collT types.Type, fields map[string]bool) string {
	c := e.c
	sl, ok := collT.Underlying().(*types.Slice)
	if !ok {
		return ""
	}
	elemT := core.Deref(sl.Elem())
	if _, isStruct := elemT.Underlying().(*types.Struct); !isStruct {
		return ""
	}
	for _, fi := range c.P.SortedFuncs() {
		info := c.info(fi)
		pm := c.parents(fi)
		var problem string
		ast.Inspect(fi.Decl.Body, func(n ast.Node) bool {
			cl, ok := n.(*ast.CompositeLit)
			if !ok || problem != "" {
				return problem == ""
			}
			if t := info.TypeOf(cl); t == nil || !types.Identical(core.Deref(t), elemT) {
				return true
			}
			// key variables of the enclosing map iterations
			keys := map[types.Object]bool{}
			for p := pm[cl]; p != nil; p = pm[p] {
				if rs, ok := p.(*ast.RangeStmt); ok && core.IsMap(info.TypeOf(rs.X)) {
					if id, ok := rs.Key.(*ast.Ident); ok && id.Name != "_" {
						if o := info.Defs[id]; o != nil {
							keys[o] = true
						}
					}
				}
			}
			if len(keys) == 0 {
				return true
			}
			carried := map[types.Object]bool{}
			var walk func(x ast.Expr, depth int)
			walk = func(x ast.Expr, depth int) {
				if depth > 4 {
					return
				}
				switch y := core.Unparen(x).(type) {
				case *ast.Ident:
					o := core.ObjOf(info, y)
					if keys[o] {
						carried[o] = true
						return
					}
					if defs := c.P.Locals(fi).Defs[o]; len(defs) == 1 && defs[0].Kind == core.DefAssign {
						walk(defs[0].Expr, depth+1)
					}
				case *ast.BinaryExpr:
					if y.Op == token.ADD {
						walk(y.X, depth+1)
						walk(y.Y, depth+1)
					}
				case *ast.CallExpr:
					if cal := c.P.CalleeAny(fi, y); cal != nil {
						switch cal.FullName() {
						case "path.Join", "github.com/go-openapi/jsonpointer.Escape", "strings.Join":
							for _, a := range y.Args {
								walk(a, depth+1)
							}
						}
					}
					if tv, ok := info.Types[y.Fun]; ok && tv.IsType() && len(y.Args) == 1 {
						walk(y.Args[0], depth+1)
					}
				}
			}
			st := elemT.Underlying().(*types.Struct)
			for i, el := range cl.Elts {
				name := ""
				val := el
				if kv, ok := el.(*ast.KeyValueExpr); ok {
					if id, ok := kv.Key.(*ast.Ident); ok {
						name = id.Name
					}
					val = kv.Value
				} else if i < st.NumFields() {
					name = st.Field(i).Name()
				}
				if fields[name] {
					walk(val, 0)
				}
			}
			var missing []string
			for k := range keys {
				if !carried[k] {
					missing = append(missing, k.Name())
				}
			}
			if len(missing) > 0 {
				sort.Strings(missing)
				var fs []string
				for f := range fields {
					fs = append(fs, f)
				}
				sort.Strings(fs)
				problem = fmt.Sprintf("the elements built at %s differ by the map key(s) %s, which the compared field(s) %s do not carry unchanged", c.P.Pos(cl.Pos()), strings.Join(missing, ", "), strings.Join(fs, ", "))
			}
			return true
		})
		if problem != "" {
			return problem
		}
	}
	return ""
}

// paramOnlyRanged: the callee uses its slice parameter only as the operand of range loops whose bodies are
// commutative (decided like any unordered loop), in len(), or as an argument to a function for which the same holds.
func (e *ordEngine) paramOnlyRanged(cf *core.FuncInfo, idx int, depth int) bool {
	if depth > 2 || cf.Decl == nil || cf.Decl.Body == nil {
		return false
	}
	po := paramObj(cf, idx)
	if po == nil {
		return false
	}
	info := e.c.info(cf)
	pm := e.c.parents(cf)
	f := &ordFn{e: e, fi: cf, info: info, taintAt: map[types.Object][]token.Pos{}, cleanAt: map[types.Object][]token.Pos{}, ordinal: map[string]int{}}
	ok := true
	checkedLoops := map[*ast.ForStmt]bool{}
	ast.Inspect(cf.Decl.Body, func(n ast.Node) bool {
		id, isID := n.(*ast.Ident)
		if !isID || info.Uses[id] != types.Object(po) {
			return true
		}
		parent := pm[id]
		for {
			if pp, isParen := parent.(*ast.ParenExpr); isParen {
				parent = pm[pp]
				continue
			}
			break
		}
		switch x := parent.(type) {
		case *ast.RangeStmt:
			if x.X != ast.Expr(id) {
				ok = false
				return true
			}
			var key, val types.Object
			if x.Key != nil {
				key = core.ObjOf(info, x.Key)
			}
			if x.Value != nil {
				val = core.ObjOf(info, x.Value)
			}
			if len(f.bodyProblems(x.Body, key, val)) > 0 {
				ok = false
			}
		case *ast.IndexExpr:
			// for i := 0; i < len(p); i++ { … p[i] … }: the index form of the same loop
			if x.X != ast.Expr(id) {
				ok = false
				return true
			}
			loop, _ := pm.Enclosing(x, func(n ast.Node) bool { _, isFor := n.(*ast.ForStmt); return isFor }).(*ast.ForStmt)
			io := core.ObjOf(info, x.Index)
			if loop == nil || io == nil || !isIndexLoopOver(info, loop, io, po) {
				ok = false
				return true
			}
			if !checkedLoops[loop] {
				checkedLoops[loop] = true
				if len(f.bodyProblems(loop.Body, io, nil)) > 0 {
					ok = false
				}
			}
		case *ast.CallExpr:
			if isBuiltin(info, x, "len") {
				return true
			}
			callee := e.c.P.StaticCallee(cf, x)
			g := e.c.P.Funcs[callee]
			j := -1
			for i, a := range x.Args {
				if core.Unparen(a) == ast.Expr(id) {
					j = i
				}
			}
			if g == nil || j < 0 || !e.paramOnlyRanged(g, j, depth+1) {
				ok = false
			}
		default:
			ok = false
		}
		return true
	})
	return ok
}

// nonInjective: library functions that map distinct strings to one.
var nonInjective = map[string]bool{
	"strings.ToLower": true, "strings.ToUpper": true, "strings.Title": true, "strings.TrimSpace": true, "strings.Trim": true,
	"strings.TrimPrefix": true, "strings.TrimSuffix": true, "strings.TrimLeft": true, "strings.TrimRight": true,
	"path.Base": true, "path.Dir": true, "path/filepath.Base": true, "path/filepath.Dir": true,
	"github.com/go-openapi/swag.ToGoName": true, "github.com/go-openapi/swag.ToJSONName": true, "github.com/go-openapi/swag.ToFileName": true,
	"github.com/go-openapi/swag.ToVarName": true, "github.com/go-openapi/swag.ToHumanNameLower": true, "github.com/go-openapi/swag.ToCommandName": true,
}

// nonInjectiveIn: the key expression applies a non-injective function to something rooted in the loop variables.
func (f *ordFn) nonInjectiveIn(keyExpr ast.Expr, body *ast.BlockStmt, key, val types.Object) string {
	found := ""
	seen := map[types.Object]bool{}
	var visit func(e ast.Expr, depth int)
	visit = func(e ast.Expr, depth int) {
		if e == nil || depth > 3 || found != "" {
			return
		}
		ast.Inspect(e, func(n ast.Node) bool {
			switch x := n.(type) {
			case *ast.CallExpr:
				if cal := f.e.c.P.CalleeAny(f.fi, x); cal != nil && nonInjective[cal.FullName()] {
					for _, a := range x.Args {
						if f.rootedInLoop(a, body, key, val) || f.mentionsLoopVar(a, key, val) {
							found = cal.Name()
						}
					}
				}
			case *ast.Ident:
				// a local of the body defined from such a call
				if o, ok := f.info.Uses[x].(*types.Var); ok && !seen[o] && f.declaredIn(o, body) {
					seen[o] = true
					for _, d := range f.e.c.P.Locals(f.fi).Defs[o] {
						if d.Expr != nil {
							visit(d.Expr, depth+1)
						}
					}
				}
			}
			return found == ""
		})
	}
	visit(keyExpr, 0)
	return found
}

func (f *ordFn) mentionsLoopVar(e ast.Expr, key, val types.Object) bool {
	hit := false
	ast.Inspect(e, func(n ast.Node) bool {
		if id, ok := n.(*ast.Ident); ok {
			if o := f.info.Uses[id]; o != nil && (o == key || o == val) {
				hit = true
			}
		}
		return !hit
	})
	return hit
}

// isIndexLoopOver: `for i := 0; i < len(s); i++` with i the given variable and s the given slice.
func isIndexLoopOver(info *types.Info, loop *ast.ForStmt, i types.Object, s types.Object) bool {
	init, ok := loop.Init.(*ast.AssignStmt)
	if !ok || len(init.Lhs) != 1 || len(init.Rhs) != 1 || core.ObjOf(info, init.Lhs[0]) != i {
		return false
	}
	if tv, isC := info.Types[init.Rhs[0]]; !isC || tv.Value == nil || tv.Value.String() != "0" {
		return false
	}
	cond, ok := core.Unparen(loop.Cond).(*ast.BinaryExpr)
	if !ok || cond.Op != token.LSS || core.ObjOf(info, cond.X) != i {
		return false
	}
	lc, ok := core.Unparen(cond.Y).(*ast.CallExpr)
	if !ok || !isBuiltin(info, lc, "len") || len(lc.Args) != 1 || core.ObjOf(info, lc.Args[0]) != s {
		return false
	}
	post, ok := loop.Post.(*ast.IncDecStmt)
	return ok && post.Tok == token.INC && core.ObjOf(info, post.X) == i
}
