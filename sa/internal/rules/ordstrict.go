package rules

import (
	"fmt"
	"go/ast"
	"go/constant"
	"go/token"
	"go/types"
	"sort"
	"strings"

	"verif/sa/internal/core"
)

// ORD-STRICT (C07): sort.Sort and sort.Slice give a deterministic result only for a strict weak order. A comparator
// touches its two elements only through comparisons of terms (the same field, or the same function of the element,
// on both sides): its truth is a function of the finitely many orderings of those terms. The rule evaluates the
// comparator's body on every assignment of ranks to three abstract elements a, b, c (three ranks per term) and
// decides, exactly for the modelled fragment:
//
//	irreflexive   ¬less(a,a)
//	asymmetric    ¬(less(a,b) ∧ less(b,a))
//	transitive    less(a,b) ∧ less(b,c) → less(a,c)
//	equivalence   a~b ∧ b~c → a~c, where x~y = ¬less(x,y) ∧ ¬less(y,x)
//
// A body that uses anything else (a call to another comparator, a comparison between different terms) is not
// modelled: the rule then emits a note and no verdict. A term that is a function of another one (len(split(k[#]))
// and k[#]) is equal whenever the other is.

type ordTerm struct {
	text string
}

type strictEval struct {
	e      *ordEngine
	fi     *core.FuncInfo
	info   *types.Info
	coll   types.Object
	pi, pj types.Object
	terms  []string       // sorted term texts
	index  map[string]int // term -> index in ranks
	// current binding: ranks[term][element] with elements a=0,b=1,c=2; bind[0]/bind[1] say which element plays i / j
	ranks [][3]int
	bind  [2]int
	unk   string
}

// render gives the term text of x with the index parameters replaced by '#', and the set of sides it mentions
// (bit 0: i, bit 1: j).
func (s *strictEval) render(x ast.Expr, depth int) (string, int) {
	x = core.Unparen(x)
	if depth > 8 {
		return exprStr(x), 0
	}
	switch v := x.(type) {
	case *ast.Ident:
		o := core.ObjOf(s.info, v)
		switch {
		case o != nil && o == s.pi:
			return "#", 1
		case o != nil && o == s.pj:
			return "#", 2
		}
		if o != nil {
			if defs := s.e.c.P.Locals(s.fi).Defs[o]; len(defs) == 1 && defs[0].Kind == core.DefAssign && defs[0].Expr != nil {
				if _, isVar := o.(*types.Var); isVar && o != s.coll {
					return s.render(defs[0].Expr, depth+1)
				}
			}
		}
		return v.Name, 0
	case *ast.UnaryExpr:
		if v.Op == token.AND {
			return s.render(v.X, depth+1)
		}
		t, sd := s.render(v.X, depth+1)
		return v.Op.String() + t, sd
	case *ast.StarExpr:
		return s.render(v.X, depth+1)
	case *ast.SelectorExpr:
		t, sd := s.render(v.X, depth+1)
		return t + "." + v.Sel.Name, sd
	case *ast.IndexExpr:
		t, sd := s.render(v.X, depth+1)
		u, sd2 := s.render(v.Index, depth+1)
		return t + "[" + u + "]", sd | sd2
	case *ast.CallExpr:
		t, sd := s.render(v.Fun, depth+1)
		var as []string
		for _, a := range v.Args {
			u, sd2 := s.render(a, depth+1)
			as = append(as, u)
			sd |= sd2
		}
		return t + "(" + strings.Join(as, ", ") + ")", sd
	case *ast.BinaryExpr:
		t, sd := s.render(v.X, depth+1)
		u, sd2 := s.render(v.Y, depth+1)
		return t + " " + v.Op.String() + " " + u, sd | sd2
	}
	return exprStr(x), 0
}

// collect gathers the terms compared in the body.
func (s *strictEval) collect(body ast.Node) {
	seen := map[string]bool{}
	add := func(x ast.Expr) {
		t, sd := s.render(x, 0)
		if (sd == 1 || sd == 2) && !seen[t] {
			seen[t] = true
			s.terms = append(s.terms, t)
		}
	}
	ast.Inspect(body, func(n ast.Node) bool {
		switch v := n.(type) {
		case *ast.BinaryExpr:
			switch v.Op {
			case token.LSS, token.GTR, token.LEQ, token.GEQ, token.EQL, token.NEQ:
				add(v.X)
				add(v.Y)
			}
		case *ast.CallExpr:
			if cal := s.e.c.P.CalleeAny(s.fi, v); cal != nil && cal.FullName() == "strings.Compare" && len(v.Args) == 2 {
				add(v.Args[0])
				add(v.Args[1])
			}
		}
		return true
	})
	sort.Strings(s.terms)
	s.index = map[string]int{}
	for i, t := range s.terms {
		s.index[t] = i
	}
}

// cmp3 returns -1, 0, +1 for the comparison of two operands under the current binding, ok=false when not modelled.
func (s *strictEval) cmp3(x, y ast.Expr) (int, bool) {
	tx, sx := s.render(x, 0)
	ty, sy := s.render(y, 0)
	if (sx != 1 && sx != 2) || (sy != 1 && sy != 2) || tx != ty {
		s.unk = "comparison between different terms (" + exprStr(x) + " vs " + exprStr(y) + ")"
		return 0, false
	}
	ix, ok := s.index[tx]
	if !ok {
		s.unk = "term not collected: " + tx
		return 0, false
	}
	ex, ey := s.bind[sx-1], s.bind[sy-1]
	rx, ry := s.ranks[ix][ex], s.ranks[ix][ey]
	switch {
	case rx < ry:
		return -1, true
	case rx > ry:
		return 1, true
	}
	return 0, true
}

func opHolds(op token.Token, c int) (bool, bool) {
	switch op {
	case token.LSS:
		return c < 0, true
	case token.GTR:
		return c > 0, true
	case token.LEQ:
		return c <= 0, true
	case token.GEQ:
		return c >= 0, true
	case token.EQL:
		return c == 0, true
	case token.NEQ:
		return c != 0, true
	}
	return false, false
}

// boolExpr evaluates a boolean expression; ok=false when it is not modelled.
func (s *strictEval) boolExpr(x ast.Expr, env map[types.Object]bool) (bool, bool) {
	x = core.Unparen(x)
	if tv, isC := s.info.Types[x]; isC && tv.Value != nil && tv.Value.Kind() == constant.Bool {
		return constant.BoolVal(tv.Value), true
	}
	switch v := x.(type) {
	case *ast.Ident:
		if o := core.ObjOf(s.info, v); o != nil {
			if b, has := env[o]; has {
				return b, true
			}
			if defs := s.e.c.P.Locals(s.fi).Defs[o]; len(defs) == 1 && defs[0].Kind == core.DefAssign && defs[0].Expr != nil {
				return s.boolExpr(defs[0].Expr, env)
			}
		}
	case *ast.UnaryExpr:
		if v.Op == token.NOT {
			b, ok := s.boolExpr(v.X, env)
			return !b, ok
		}
	case *ast.BinaryExpr:
		switch v.Op {
		case token.LAND:
			a, ok := s.boolExpr(v.X, env)
			if !ok {
				return false, false
			}
			if !a {
				return false, true
			}
			return s.boolExpr(v.Y, env)
		case token.LOR:
			a, ok := s.boolExpr(v.X, env)
			if !ok {
				return false, false
			}
			if a {
				return true, true
			}
			return s.boolExpr(v.Y, env)
		case token.LSS, token.GTR, token.LEQ, token.GEQ, token.EQL, token.NEQ:
			// strings.Compare(A, B) op 0   /   0 op strings.Compare(A, B)
			for _, sw := range []bool{false, true} {
				l, r, op := v.X, v.Y, v.Op
				if sw {
					l, r = v.Y, v.X
					op = flipOp(op)
				}
				if cc, isCall := core.Unparen(l).(*ast.CallExpr); isCall && len(cc.Args) == 2 {
					if cal := s.e.c.P.CalleeAny(s.fi, cc); cal != nil && cal.FullName() == "strings.Compare" {
						tv, isC := s.info.Types[r]
						if !isC || tv.Value == nil {
							break
						}
						k, exact := constant.Int64Val(constant.ToInt(tv.Value))
						if !exact {
							break
						}
						c, ok := s.cmp3(cc.Args[0], cc.Args[1])
						if !ok {
							return false, false
						}
						switch op {
						case token.LSS:
							return int64(c) < k, true
						case token.GTR:
							return int64(c) > k, true
						case token.LEQ:
							return int64(c) <= k, true
						case token.GEQ:
							return int64(c) >= k, true
						case token.EQL:
							return int64(c) == k, true
						case token.NEQ:
							return int64(c) != k, true
						}
					}
				}
			}
			c, ok := s.cmp3(v.X, v.Y)
			if !ok {
				return false, false
			}
			return opHolds(v.Op, c)
		}
	}
	if s.unk == "" {
		s.unk = "expression not modelled: " + exprStr(x)
	}
	return false, false
}

func flipOp(op token.Token) token.Token {
	switch op {
	case token.LSS:
		return token.GTR
	case token.GTR:
		return token.LSS
	case token.LEQ:
		return token.GEQ
	case token.GEQ:
		return token.LEQ
	}
	return op
}

// run evaluates a statement list; returns (value, returned, ok).
func (s *strictEval) run(list []ast.Stmt, env map[types.Object]bool) (bool, bool, bool) {
	for _, st := range list {
		switch v := st.(type) {
		case *ast.ReturnStmt:
			if len(v.Results) != 1 {
				s.unk = "return without a single result"
				return false, false, false
			}
			b, ok := s.boolExpr(v.Results[0], env)
			return b, true, ok
		case *ast.IfStmt:
			if v.Init != nil {
				if _, r, ok := s.run([]ast.Stmt{v.Init}, env); !ok || r {
					return false, false, false
				}
			}
			c, ok := s.boolExpr(v.Cond, env)
			if !ok {
				return false, false, false
			}
			if c {
				if b, r, ok := s.run(v.Body.List, env); !ok || r {
					return b, r, ok
				}
			} else if v.Else != nil {
				var els []ast.Stmt
				switch e := v.Else.(type) {
				case *ast.BlockStmt:
					els = e.List
				default:
					els = []ast.Stmt{e}
				}
				if b, r, ok := s.run(els, env); !ok || r {
					return b, r, ok
				}
			}
		case *ast.BlockStmt:
			if b, r, ok := s.run(v.List, env); !ok || r {
				return b, r, ok
			}
		case *ast.SwitchStmt:
			if v.Tag != nil || v.Init != nil {
				s.unk = "switch with a tag"
				return false, false, false
			}
			var dflt *ast.CaseClause
			taken := false
			for _, cl := range v.Body.List {
				cc := cl.(*ast.CaseClause)
				if cc.List == nil {
					dflt = cc
					continue
				}
				hit := false
				for _, ce := range cc.List {
					c, ok := s.boolExpr(ce, env)
					if !ok {
						return false, false, false
					}
					hit = hit || c
				}
				if hit {
					taken = true
					if b, r, ok := s.run(cc.Body, env); !ok || r {
						return b, r, ok
					}
					break
				}
			}
			if !taken && dflt != nil {
				if b, r, ok := s.run(dflt.Body, env); !ok || r {
					return b, r, ok
				}
			}
		case *ast.AssignStmt:
			// bool locals are evaluated; other locals are resolved through their single definition when rendered
			for i, l := range v.Lhs {
				o := core.ObjOf(s.info, l)
				if o == nil || !core.IsBool(o.Type()) {
					continue
				}
				if len(v.Rhs) != len(v.Lhs) {
					s.unk = "multi-value assignment to a bool"
					return false, false, false
				}
				b, ok := s.boolExpr(v.Rhs[i], env)
				if !ok {
					return false, false, false
				}
				env[o] = b
			}
		case *ast.DeclStmt, *ast.EmptyStmt:
		case *ast.ExprStmt:
			// logging and the like
		default:
			s.unk = fmt.Sprintf("statement not modelled: %T", st)
			return false, false, false
		}
	}
	return false, false, true
}

// less evaluates the comparator with element x as i and element y as j.
func (s *strictEval) less(body ast.Node, x, y int) (bool, bool) {
	s.bind = [2]int{x, y}
	var list []ast.Stmt
	switch b := body.(type) {
	case *ast.BlockStmt:
		list = b.List
	default:
		s.unk = "comparator body is not a block"
		return false, false
	}
	v, returned, ok := s.run(list, map[types.Object]bool{})
	if !ok {
		return false, false
	}
	if !returned {
		s.unk = "a path through the comparator does not return"
		return false, false
	}
	return v, true
}

// strictOrder decides the four laws for one comparator; it emits one obligation, or a note when not modelled.
func (e *ordEngine) strictOrder(owner string, fi *core.FuncInfo, body ast.Node, coll, pi, pj types.Object, pos token.Pos) {
	c := e.c
	s := &strictEval{e: e, fi: fi, info: c.info(fi), coll: coll, pi: pi, pj: pj}
	s.collect(body)
	if len(s.terms) == 0 || len(s.terms) > 4 {
		c.S.Note("%s", fmt.Sprintf("ORD-STRICT %s: %d compared terms, not modelled", owner, len(s.terms)))
		return
	}
	// functional dependencies between terms: t depends on u when u's text occurs inside t's
	dep := map[int][]int{}
	for i, t := range s.terms {
		for j, u := range s.terms {
			if i != j && strings.Contains(t, u) {
				dep[i] = append(dep[i], j)
			}
		}
	}
	n := len(s.terms)
	s.ranks = make([][3]int, n)
	total := 1
	for i := 0; i < n; i++ {
		total *= 27
	}
	describe := func(x, y int, nx, ny string) string {
		var parts []string
		for i, t := range s.terms {
			rel := "="
			if s.ranks[i][x] < s.ranks[i][y] {
				rel = "<"
			} else if s.ranks[i][x] > s.ranks[i][y] {
				rel = ">"
			}
			parts = append(parts, strings.ReplaceAll(t, "#", nx)+" "+rel+" "+strings.ReplaceAll(t, "#", ny))
		}
		return strings.Join(parts, ", ")
	}
	evaluated := 0
	for code := 0; code < total; code++ {
		k := code
		for i := 0; i < n; i++ {
			d := k % 27
			k /= 27
			s.ranks[i] = [3]int{d % 3, (d / 3) % 3, d / 9}
		}
		feasible := true
		for i, us := range dep {
			for _, u := range us {
				for x := 0; x < 3 && feasible; x++ {
					for y := 0; y < 3; y++ {
						if s.ranks[u][x] == s.ranks[u][y] && s.ranks[i][x] != s.ranks[i][y] {
							feasible = false
							break
						}
					}
				}
			}
		}
		if !feasible {
			continue
		}
		var L [3][3]bool
		for x := 0; x < 3; x++ {
			for y := 0; y < 3; y++ {
				v, ok := s.less(body, x, y)
				if !ok {
					c.S.Note("%s", fmt.Sprintf("ORD-STRICT %s: not modelled (%s)", owner, s.unk))
					return
				}
				L[x][y] = v
			}
		}
		evaluated++
		fail := ""
		switch {
		case L[0][0]:
			fail = "not irreflexive: less(a, a) holds"
		case L[0][1] && L[1][0]:
			fail = "not asymmetric: with " + describe(0, 1, "a", "b") + " both less(a, b) and less(b, a) hold"
		case L[0][1] && L[1][2] && !L[0][2]:
			fail = "not transitive: with " + describe(0, 1, "a", "b") + " and " + describe(1, 2, "b", "c") + ", less(a, b) and less(b, c) hold but less(a, c) does not"
		case !L[0][1] && !L[1][0] && !L[1][2] && !L[2][1] && (L[0][2] || L[2][0]):
			fail = "incomparability is not transitive: with " + describe(0, 1, "a", "b") + " and " + describe(1, 2, "b", "c") + ", a ties with b and b with c, but a and c are ordered"
		}
		if fail != "" {
			c.S.Violate("C07", "ORD-STRICT", owner, c.P.Pos(pos),
				"the comparator is not a strict weak order ("+fail+"): the result of sort.Sort / sort.Slice then depends on the order in which the elements were delivered, i.e. on map iteration")
			return
		}
	}
	c.S.Hold("C07", "ORD-STRICT", owner, c.P.Pos(pos),
		fmt.Sprintf("strict weak order on the terms %s: irreflexive, asymmetric, transitive, transitive incomparability on all %d feasible rank assignments of three elements", strings.Join(s.terms, ", "), evaluated))
}
