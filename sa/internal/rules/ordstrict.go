package rules

import (
	"fmt"
	"go/ast"
	"go/constant"
	"go/token"
	"go/types"
	"regexp"
	"sort"
	"strings"

	"verif/sa/internal/core"
)

// ORD-STRICT (C07): sort.Sort and sort.Slice give a deterministic result only for a strict weak order. A comparator
// touches its two elements only through comparisons of terms (the same field, or the same function of the element,
// on both sides): its truth is a function of the finitely many orderings of those terms. The rule *evaluates* the
// comparator — its body and the module helpers it calls (three-way compare methods, lexicographic combinators over a
// variadic list, …), with a small interpreter over booleans, small integers, terms and lists of those — on every
// assignment of ranks to three abstract elements a, b, c (three ranks per term) and decides, exactly for the
// modelled fragment:
//
//	irreflexive   ¬less(a,a)
//	asymmetric    ¬(less(a,b) ∧ less(b,a))
//	transitive    less(a,b) ∧ less(b,c) → less(a,c)
//	equivalence   a~b ∧ b~c → a~c, where x~y = ¬less(x,y) ∧ ¬less(y,x)
//
// and, for ORD-TOTAL, which raw terms (the element itself or one of its fields, compared unchanged) separate two
// elements: whenever such a term differs, one of less(a,b), less(b,a) holds.
//
// A body that uses anything else (a comparison between different terms, an unbounded loop) is not modelled: the rule
// then emits a note and no verdict. A term that is a function of another one (len(split(k[#])) and k[#]) is equal
// whenever the other is.

type ovKind int

const (
	ovUnknown ovKind = iota
	ovBool
	ovInt
	ovTerm
	ovList
	ovFunc
)

type oval struct {
	kind  ovKind
	b     bool
	n     int64
	term  string // rendered text with '#' for the element index
	side  int    // 1: element i, 2: element j
	isStr bool   // the term is a string (raw comparison of strings)
	elems []oval
	// function values: a literal with the frame it captured, or a declared function
	lit *ast.FuncLit
	fn  *core.FuncInfo
	cap *ordFrame
}

type ordFrame struct {
	fi   *core.FuncInfo
	info *types.Info
	env  map[types.Object]oval
}

type strictEval struct {
	e      *ordEngine
	coll   types.Object
	pi, pj types.Object
	terms  []string
	index  map[string]int
	ranks  [][3]int
	bind   [2]int
	unk    string
	// discovery mode: terms are collected instead of compared
	discover bool
	seen     map[string]bool
	strTerm  map[string]bool
	depth    int
}

func (s *strictEval) fail(why string) oval {
	if s.unk == "" {
		s.unk = why
	}
	return oval{}
}

// render gives the term text of x ('#' for the index parameters, bound terms substituted) and the sides it mentions.
func (s *strictEval) render(fr *ordFrame, x ast.Expr, depth int) (string, int) {
	x = core.Unparen(x)
	if depth > 8 {
		return exprStr(x), 0
	}
	switch v := x.(type) {
	case *ast.Ident:
		o := core.ObjOf(fr.info, v)
		switch {
		case o != nil && o == s.pi:
			return "#", 1
		case o != nil && o == s.pj:
			return "#", 2
		}
		if o != nil {
			if val, has := fr.env[o]; has && val.kind == ovTerm {
				return val.term, val.side
			}
		}
		return v.Name, 0
	case *ast.UnaryExpr:
		if v.Op == token.AND {
			return s.render(fr, v.X, depth+1)
		}
		t, sd := s.render(fr, v.X, depth+1)
		return v.Op.String() + t, sd
	case *ast.StarExpr:
		return s.render(fr, v.X, depth+1)
	case *ast.SelectorExpr:
		t, sd := s.render(fr, v.X, depth+1)
		return t + "." + v.Sel.Name, sd
	case *ast.IndexExpr:
		t, sd := s.render(fr, v.X, depth+1)
		u, sd2 := s.render(fr, v.Index, depth+1)
		return t + "[" + u + "]", sd | sd2
	case *ast.CallExpr:
		t, sd := s.render(fr, v.Fun, depth+1)
		var as []string
		for _, a := range v.Args {
			u, sd2 := s.render(fr, a, depth+1)
			as = append(as, u)
			sd |= sd2
		}
		return t + "(" + strings.Join(as, ", ") + ")", sd
	case *ast.BinaryExpr:
		t, sd := s.render(fr, v.X, depth+1)
		u, sd2 := s.render(fr, v.Y, depth+1)
		return t + " " + v.Op.String() + " " + u, sd | sd2
	case *ast.BasicLit:
		return v.Value, 0
	}
	return exprStr(x), 0
}

// cmpTerms compares two term values under the current binding: -1, 0, +1.
func (s *strictEval) cmpTerms(a, b oval) (int, bool) {
	if a.kind != ovTerm || b.kind != ovTerm || a.term != b.term {
		s.fail(fmt.Sprintf("comparison between different terms (%s vs %s)", a.term, b.term))
		return 0, false
	}
	if s.discover {
		if !s.seen[a.term] {
			s.seen[a.term] = true
			s.terms = append(s.terms, a.term)
		}
		if a.isStr {
			s.strTerm[a.term] = true
		}
		return 0, true
	}
	ix, ok := s.index[a.term]
	if !ok {
		s.fail("term not collected: " + a.term)
		return 0, false
	}
	ex, ey := s.bind[a.side-1], s.bind[b.side-1]
	rx, ry := s.ranks[ix][ex], s.ranks[ix][ey]
	switch {
	case rx < ry:
		return -1, true
	case rx > ry:
		return 1, true
	}
	return 0, true
}

func cmpHolds(op token.Token, c int64) (bool, bool) {
	switch op {
	case token.LSS:
		return c < 0, true
	case token.GTR:
		return c > 0, true
	case token.LEQ:
		return c <= 0, true
	case token.GEQ:
		return c >= 0, true
	case token.EQL:
		return c == 0, true
	case token.NEQ:
		return c != 0, true
	}
	return false, false
}

// eval evaluates an expression to a value.
func (s *strictEval) eval(fr *ordFrame, x ast.Expr) oval {
	x = core.Unparen(x)
	if tv, isC := fr.info.Types[x]; isC && tv.Value != nil {
		switch tv.Value.Kind() {
		case constant.Bool:
			return oval{kind: ovBool, b: constant.BoolVal(tv.Value)}
		case constant.Int:
			if n, exact := constant.Int64Val(tv.Value); exact {
				return oval{kind: ovInt, n: n}
			}
		}
	}
	switch v := x.(type) {
	case *ast.FuncLit:
		return oval{kind: ovFunc, lit: v, cap: fr}
	case *ast.Ident:
		if o := core.ObjOf(fr.info, v); o != nil {
			if val, has := fr.env[o]; has {
				return val
			}
			if f, isFn := o.(*types.Func); isFn {
				if g := s.e.c.P.Funcs[f.Origin()]; g != nil {
					return oval{kind: ovFunc, fn: g}
				}
			}
			// a package-level variable of the same package initialised with a function value
			if vo, isVar := o.(*types.Var); isVar && vo.Parent() == vo.Pkg().Scope() && vo.Pkg() == fr.fi.Pkg.Types {
				if _, isSig := vo.Type().Underlying().(*types.Signature); isSig {
					for _, file := range fr.fi.Pkg.Syntax {
						for _, d := range file.Decls {
							gd, ok := d.(*ast.GenDecl)
							if !ok || gd.Tok != token.VAR {
								continue
							}
							for _, sp := range gd.Specs {
								vs := sp.(*ast.ValueSpec)
								for i, nm := range vs.Names {
									if fr.info.Defs[nm] == o && i < len(vs.Values) {
										pf := &ordFrame{fi: fr.fi, info: fr.info, env: map[types.Object]oval{}}
										return s.eval(pf, vs.Values[i])
									}
								}
							}
						}
					}
				}
			}
		}
	case *ast.UnaryExpr:
		switch v.Op {
		case token.NOT:
			a := s.eval(fr, v.X)
			if a.kind != ovBool {
				return s.fail("negation of a non-boolean")
			}
			return oval{kind: ovBool, b: !a.b}
		case token.SUB:
			a := s.eval(fr, v.X)
			if a.kind != ovInt {
				return s.fail("negation of a non-integer")
			}
			return oval{kind: ovInt, n: -a.n}
		}
	case *ast.BinaryExpr:
		switch v.Op {
		case token.LAND, token.LOR:
			a := s.eval(fr, v.X)
			if a.kind != ovBool {
				return s.fail("operand of a boolean connective is not modelled: " + exprStr(v.X))
			}
			if (v.Op == token.LAND) != a.b {
				// short circuit — but in discovery mode the other operand is visited to collect its terms
				if s.discover {
					s.eval(fr, v.Y)
				}
				return a
			}
			b := s.eval(fr, v.Y)
			if b.kind != ovBool {
				return s.fail("operand of a boolean connective is not modelled: " + exprStr(v.Y))
			}
			return b
		case token.LSS, token.GTR, token.LEQ, token.GEQ, token.EQL, token.NEQ:
			a, b := s.eval(fr, v.X), s.eval(fr, v.Y)
			switch {
			case a.kind == ovInt && b.kind == ovInt:
				c := int64(0)
				if a.n < b.n {
					c = -1
				} else if a.n > b.n {
					c = 1
				}
				r, _ := cmpHolds(v.Op, c)
				return oval{kind: ovBool, b: r}
			case a.kind == ovBool && b.kind == ovBool && (v.Op == token.EQL || v.Op == token.NEQ):
				return oval{kind: ovBool, b: (a.b == b.b) == (v.Op == token.EQL)}
			case a.kind == ovTerm && b.kind == ovTerm:
				c, ok := s.cmpTerms(a, b)
				if !ok {
					return oval{}
				}
				r, _ := cmpHolds(v.Op, int64(c))
				return oval{kind: ovBool, b: r}
			}
			return s.fail("comparison not modelled: " + exprStr(v))
		}
	case *ast.CallExpr:
		return s.call(fr, v)
	}
	// anything that mentions exactly one of the two elements is a term
	if t, sd := s.render(fr, x, 0); sd == 1 || sd == 2 {
		return oval{kind: ovTerm, term: t, side: sd, isStr: core.IsString(fr.info.TypeOf(x))}
	}
	return s.fail("expression not modelled: " + exprStr(x))
}

// call evaluates strings.Compare, len of a list, and module functions (inlined).
func (s *strictEval) call(fr *ordFrame, call *ast.CallExpr) oval {
	P := s.e.c.P
	if isBuiltin(fr.info, call, "len") && len(call.Args) == 1 {
		if a := s.eval(fr, call.Args[0]); a.kind == ovList {
			return oval{kind: ovInt, n: int64(len(a.elems))}
		}
		// len(<term>) is itself a term
		if t, sd := s.render(fr, call, 0); sd == 1 || sd == 2 {
			s.unk = ""
			return oval{kind: ovTerm, term: t, side: sd}
		}
		return s.fail("len of an unknown value")
	}
	callee := P.CalleeAny(fr.fi, call)
	if callee != nil && callee.FullName() == "strings.Compare" && len(call.Args) == 2 {
		a, b := s.eval(fr, call.Args[0]), s.eval(fr, call.Args[1])
		if a.kind != ovTerm || b.kind != ovTerm {
			return s.fail("strings.Compare on values that are not terms")
		}
		a.isStr, b.isStr = true, true
		c, ok := s.cmpTerms(a, b)
		if !ok {
			return oval{}
		}
		return oval{kind: ovInt, n: int64(c)}
	}
	var g *core.FuncInfo
	if sc := P.StaticCallee(fr.fi, call); sc != nil {
		g = P.Funcs[sc.Origin()]
	}
	// a call through a function value: a literal (run in the frame it captured) or a declared function
	if g == nil && callee == nil && s.depth < 6 {
		saved := s.unk
		fv := s.eval(fr, call.Fun)
		if fv.kind == ovFunc && fv.fn != nil {
			g = fv.fn
			s.unk = saved
		} else if fv.kind == ovFunc && fv.lit != nil {
			s.unk = saved
			nf := &ordFrame{fi: fv.cap.fi, info: fv.cap.info, env: map[types.Object]oval{}}
			for k, v := range fv.cap.env {
				nf.env[k] = v
			}
			var params []types.Object
			if fv.lit.Type.Params != nil {
				for _, f := range fv.lit.Type.Params.List {
					for _, nm := range f.Names {
						params = append(params, nf.info.Defs[nm])
					}
				}
			}
			for i, po := range params {
				if i < len(call.Args) {
					nf.env[po] = s.eval(fr, call.Args[i])
				}
			}
			if s.unk != "" {
				return oval{}
			}
			s.depth++
			v, returned, ok := s.run(nf, fv.lit.Body.List)
			s.depth--
			if ok && returned {
				return v
			}
			if ok && s.discover && fv.lit.Type.Results != nil && len(fv.lit.Type.Results.List) == 1 {
				switch rt := nf.info.TypeOf(fv.lit.Type.Results.List[0].Type).Underlying().(type) {
				case *types.Basic:
					if rt.Info()&types.IsBoolean != 0 {
						return oval{kind: ovBool}
					}
					if rt.Info()&types.IsInteger != 0 {
						return oval{kind: ovInt}
					}
				}
			}
			if ok {
				return s.fail("a path through a function literal does not return")
			}
			return oval{}
		}
	}
	if g != nil && g.Decl != nil && g.Decl.Body != nil && s.depth < 6 {
		sig := g.Obj.Type().(*types.Signature)
		if sig.Results().Len() == 1 {
			nf := &ordFrame{fi: g, info: s.e.c.info(g), env: map[types.Object]oval{}}
			// receiver
			if sig.Recv() != nil {
				if sel, ok := core.Unparen(call.Fun).(*ast.SelectorExpr); ok && g.Decl.Recv != nil && len(g.Decl.Recv.List) == 1 && len(g.Decl.Recv.List[0].Names) == 1 {
					nf.env[nf.info.Defs[g.Decl.Recv.List[0].Names[0]]] = s.eval(fr, sel.X)
					s.unk = ""
				}
			}
			// parameters (a variadic tail becomes a list)
			var params []types.Object
			if g.Decl.Type.Params != nil {
				for _, f := range g.Decl.Type.Params.List {
					for _, nm := range f.Names {
						params = append(params, nf.info.Defs[nm])
					}
				}
			}
			for i, po := range params {
				if sig.Variadic() && i == len(params)-1 {
					var list []oval
					for ai := i; ai < len(call.Args); ai++ {
						list = append(list, s.eval(fr, call.Args[ai]))
					}
					nf.env[po] = oval{kind: ovList, elems: list}
					continue
				}
				if i < len(call.Args) {
					nf.env[po] = s.eval(fr, call.Args[i])
				}
			}
			if s.unk != "" {
				return oval{}
			}
			s.depth++
			v, returned, ok := s.run(nf, g.Decl.Body.List)
			s.depth--
			if ok && returned {
				return v
			}
			if ok && s.discover {
				// discovery visits every branch and takes none: a neutral value of the result type
				switch rt := sig.Results().At(0).Type().Underlying().(type) {
				case *types.Basic:
					if rt.Info()&types.IsBoolean != 0 {
						return oval{kind: ovBool}
					}
					if rt.Info()&types.IsInteger != 0 {
						return oval{kind: ovInt}
					}
				}
			}
			if ok {
				return s.fail("a path through " + g.Name() + " does not return")
			}
			return oval{}
		}
	}
	// a function of one element is a term
	if t, sd := s.render(fr, call, 0); sd == 1 || sd == 2 {
		return oval{kind: ovTerm, term: t, side: sd, isStr: core.IsString(fr.info.TypeOf(call))}
	}
	return s.fail("call not modelled: " + exprStr(call))
}

// run executes a statement list: (value, returned, ok).
func (s *strictEval) run(fr *ordFrame, list []ast.Stmt) (oval, bool, bool) {
	for _, st := range list {
		switch v := st.(type) {
		case *ast.ReturnStmt:
			if len(v.Results) != 1 {
				s.fail("return without a single result")
				return oval{}, false, false
			}
			val := s.eval(fr, v.Results[0])
			return val, true, val.kind != ovUnknown
		case *ast.IfStmt:
			if v.Init != nil {
				if _, r, ok := s.run(fr, []ast.Stmt{v.Init}); !ok || r {
					return oval{}, false, false
				}
			}
			c := s.eval(fr, v.Cond)
			if c.kind != ovBool {
				s.fail("condition not modelled: " + exprStr(v.Cond))
				return oval{}, false, false
			}
			branches := [][]ast.Stmt{}
			if c.b || s.discover {
				branches = append(branches, v.Body.List)
			}
			if (!c.b || s.discover) && v.Else != nil {
				switch e := v.Else.(type) {
				case *ast.BlockStmt:
					branches = append(branches, e.List)
				default:
					branches = append(branches, []ast.Stmt{e})
				}
			}
			for bi, br := range branches {
				val, r, ok := s.run(fr, br)
				if !ok {
					return oval{}, false, false
				}
				// in discovery mode every branch is visited and none returns for real
				if r && !s.discover {
					return val, true, true
				}
				_ = bi
			}
		case *ast.BlockStmt:
			if val, r, ok := s.run(fr, v.List); !ok || r {
				return val, r, ok
			}
		case *ast.SwitchStmt:
			if v.Init != nil {
				if _, r, ok := s.run(fr, []ast.Stmt{v.Init}); !ok || r {
					return oval{}, false, false
				}
			}
			var tag *oval
			if v.Tag != nil {
				t := s.eval(fr, v.Tag)
				if t.kind != ovInt && t.kind != ovBool {
					s.fail("switch tag not modelled")
					return oval{}, false, false
				}
				tag = &t
			}
			var dflt *ast.CaseClause
			taken := false
			for _, cl := range v.Body.List {
				cc := cl.(*ast.CaseClause)
				if cc.List == nil {
					dflt = cc
					continue
				}
				hit := false
				for _, ce := range cc.List {
					cv := s.eval(fr, ce)
					switch {
					case tag == nil && cv.kind == ovBool:
						hit = hit || cv.b
					case tag != nil && tag.kind == ovInt && cv.kind == ovInt:
						hit = hit || tag.n == cv.n
					case tag != nil && tag.kind == ovBool && cv.kind == ovBool:
						hit = hit || tag.b == cv.b
					default:
						s.fail("case expression not modelled: " + exprStr(ce))
						return oval{}, false, false
					}
				}
				if hit || s.discover {
					val, r, ok := s.run(fr, cc.Body)
					if !ok {
						return oval{}, false, false
					}
					if r && !s.discover {
						return val, true, true
					}
					if hit && !s.discover {
						taken = true
						break
					}
				}
			}
			if (!taken || s.discover) && dflt != nil {
				val, r, ok := s.run(fr, dflt.Body)
				if !ok {
					return oval{}, false, false
				}
				if r && !s.discover {
					return val, true, true
				}
			}
		case *ast.AssignStmt:
			if len(v.Lhs) != len(v.Rhs) {
				s.fail("multi-valued assignment")
				return oval{}, false, false
			}
			vals := make([]oval, len(v.Rhs))
			for i, r := range v.Rhs {
				vals[i] = s.eval(fr, r)
				if vals[i].kind == ovUnknown {
					return oval{}, false, false
				}
			}
			for i, l := range v.Lhs {
				if o := core.ObjOf(fr.info, l); o != nil {
					fr.env[o] = vals[i]
				}
			}
		case *ast.RangeStmt:
			lv := s.eval(fr, v.X)
			if lv.kind != ovList {
				s.fail("loop over something that is not a known list")
				return oval{}, false, false
			}
			for idx, el := range lv.elems {
				if v.Key != nil {
					if o := core.ObjOf(fr.info, v.Key); o != nil {
						fr.env[o] = oval{kind: ovInt, n: int64(idx)}
					}
				}
				if v.Value != nil {
					if o := core.ObjOf(fr.info, v.Value); o != nil {
						fr.env[o] = el
					}
				}
				val, r, ok := s.run(fr, v.Body.List)
				if !ok {
					return oval{}, false, false
				}
				if r && !s.discover {
					return val, true, true
				}
			}
		case *ast.DeclStmt, *ast.EmptyStmt, *ast.ExprStmt:
		default:
			s.fail(fmt.Sprintf("statement not modelled: %T", st))
			return oval{}, false, false
		}
	}
	return oval{}, false, true
}

// less evaluates the comparator with element x as i and element y as j.
func (s *strictEval) less(fi *core.FuncInfo, body ast.Node, x, y int) (bool, bool) {
	s.bind = [2]int{x, y}
	blk, isBlk := body.(*ast.BlockStmt)
	if !isBlk {
		s.fail("comparator body is not a block")
		return false, false
	}
	fr := &ordFrame{fi: fi, info: s.e.c.info(fi), env: map[types.Object]oval{}}
	v, returned, ok := s.run(fr, blk.List)
	if !ok {
		return false, false
	}
	if s.discover {
		return false, true
	}
	if !returned || v.kind != ovBool {
		s.fail("a path through the comparator does not return a boolean")
		return false, false
	}
	return v.b, true
}

var rawTermRE = regexp.MustCompile(`^[A-Za-z_][A-Za-z0-9_]*\[#\](\.([A-Za-z_][A-Za-z0-9_]*))?$`)

// strictOrder decides the four laws for one comparator; it emits one obligation, or a note when not modelled. It
// returns the fields (""= the element itself) whose raw string comparison separates two elements.
func (e *ordEngine) strictOrder(owner string, fi *core.FuncInfo, body ast.Node, coll, pi, pj types.Object, pos token.Pos) (map[string]bool, bool) {
	c := e.c
	s := &strictEval{e: e, coll: coll, pi: pi, pj: pj, seen: map[string]bool{}, strTerm: map[string]bool{}}
	// discovery pass: visit every branch and collect the compared terms
	s.discover = true
	if _, ok := s.less(fi, body, 0, 1); !ok {
		c.S.Note("%s", fmt.Sprintf("ORD-STRICT %s: not modelled (%s)", owner, s.unk))
		return nil, false
	}
	s.discover = false
	sort.Strings(s.terms)
	s.index = map[string]int{}
	for i, t := range s.terms {
		s.index[t] = i
	}
	if len(s.terms) == 0 || len(s.terms) > 4 {
		c.S.Note("%s", fmt.Sprintf("ORD-STRICT %s: %d compared terms, not modelled", owner, len(s.terms)))
		return nil, false
	}
	// functional dependencies between terms: t depends on u when u's text occurs inside t's
	dep := map[int][]int{}
	for i, t := range s.terms {
		for j, u := range s.terms {
			if i != j && strings.Contains(t, u) {
				dep[i] = append(dep[i], j)
			}
		}
	}
	n := len(s.terms)
	s.ranks = make([][3]int, n)
	total := 1
	for i := 0; i < n; i++ {
		total *= 27
	}
	describe := func(x, y int, nx, ny string) string {
		var parts []string
		for i, t := range s.terms {
			rel := "="
			if s.ranks[i][x] < s.ranks[i][y] {
				rel = "<"
			} else if s.ranks[i][x] > s.ranks[i][y] {
				rel = ">"
			}
			parts = append(parts, strings.ReplaceAll(t, "#", nx)+" "+rel+" "+strings.ReplaceAll(t, "#", ny))
		}
		return strings.Join(parts, ", ")
	}
	// raw terms: the element itself or one of its string fields, compared unchanged
	rawIdx := map[int]string{}
	for i, t := range s.terms {
		if m := rawTermRE.FindStringSubmatch(t); m != nil && s.strTerm[t] {
			rawIdx[i] = m[2]
		}
	}
	separates := map[int]bool{}
	for i := range rawIdx {
		separates[i] = true
	}
	evaluated := 0
	for code := 0; code < total; code++ {
		k := code
		for i := 0; i < n; i++ {
			d := k % 27
			k /= 27
			s.ranks[i] = [3]int{d % 3, (d / 3) % 3, d / 9}
		}
		feasible := true
		for i, us := range dep {
			for _, u := range us {
				for x := 0; x < 3 && feasible; x++ {
					for y := 0; y < 3; y++ {
						if s.ranks[u][x] == s.ranks[u][y] && s.ranks[i][x] != s.ranks[i][y] {
							feasible = false
							break
						}
					}
				}
			}
		}
		if !feasible {
			continue
		}
		var L [3][3]bool
		for x := 0; x < 3; x++ {
			for y := 0; y < 3; y++ {
				v, ok := s.less(fi, body, x, y)
				if !ok {
					c.S.Note("%s", fmt.Sprintf("ORD-STRICT %s: not modelled (%s)", owner, s.unk))
					return nil, false
				}
				L[x][y] = v
			}
		}
		evaluated++
		// a raw term that differs between a and b while they tie does not separate
		if !L[0][1] && !L[1][0] {
			for i := range rawIdx {
				if s.ranks[i][0] != s.ranks[i][1] {
					separates[i] = false
				}
			}
		}
		fail := ""
		switch {
		case L[0][0]:
			fail = "not irreflexive: less(a, a) holds"
		case L[0][1] && L[1][0]:
			fail = "not asymmetric: with " + describe(0, 1, "a", "b") + " both less(a, b) and less(b, a) hold"
		case L[0][1] && L[1][2] && !L[0][2]:
			fail = "not transitive: with " + describe(0, 1, "a", "b") + " and " + describe(1, 2, "b", "c") + ", less(a, b) and less(b, c) hold but less(a, c) does not"
		case !L[0][1] && !L[1][0] && !L[1][2] && !L[2][1] && (L[0][2] || L[2][0]):
			fail = "incomparability is not transitive: with " + describe(0, 1, "a", "b") + " and " + describe(1, 2, "b", "c") + ", a ties with b and b with c, but a and c are ordered"
		}
		if fail != "" {
			c.S.Violate("C07", "ORD-STRICT", owner, c.P.Pos(pos),
				"the comparator is not a strict weak order ("+fail+"): the result of sort.Sort / sort.Slice then depends on the order in which the elements were delivered, i.e. on map iteration")
			return nil, true
		}
	}
	c.S.Hold("C07", "ORD-STRICT", owner, c.P.Pos(pos),
		fmt.Sprintf("strict weak order on the terms %s: irreflexive, asymmetric, transitive, transitive incomparability on all %d feasible rank assignments of three elements", strings.Join(s.terms, ", "), evaluated))
	fields := map[string]bool{}
	for i, f := range rawIdx {
		if separates[i] {
			fields[f] = true
		}
	}
	return fields, true
}
