package rules

// pipeline (E11): order of the flattening phases, clone-before-rewrite in the
// namer, names saved only after uniqification, who may store into the
// definitions, holder kinds covered by every rewriter; plus the naming guards
// of C03.

import (
	"fmt"
	"go/ast"
	"go/token"
	"go/types"
	"sort"
	"strings"

	"verif/sa/internal/core"
)

func init() {
	register(Rule{
		Name:  "PIPE",
		Props: []string{"C01", "C02", "C03", "C04", "C05", "C06"},
		Doc:   "phase order of Flatten, clone before rewrite, uniqified names only, writers of the definitions section, holder kinds of the rewriters, naming guards",
		Run:   pipeRules,
	})
}

// reachesExternal: fi (transitively) calls the external function with this full name.
func (c *Ctx) reachesExternal(fi *core.FuncInfo, full string) bool {
	for g := range c.P.Reachable(fi) {
		for _, cs := range c.P.CG().Out[g.Obj] {
			if cs.Callee != nil && cs.Callee.FullName() == full {
				return true
			}
		}
	}
	return false
}

func (c *Ctx) reachesFunc(fi *core.FuncInfo, target *core.FuncInfo) bool {
	return target != nil && c.P.Reachable(fi)[target]
}

func pipeRules(c *Ctx) {
	flat := c.need("C02", "PIPE", "", "Flatten")
	if flat == nil {
		return
	}
	info := c.info(flat)
	updWithSchema := c.P.Func("internal/flatten/replace", "UpdateRefWithSchema")
	revIdx := c.P.Func("internal/flatten/sortref", "ReverseIndex")
	namerName := c.root("InlineSchemaNamer.Name")
	save := c.P.Func("internal/flatten/schutils", "Save")
	clone := c.P.Func("internal/flatten/schutils", "Clone")
	for n, f := range map[string]*core.FuncInfo{"replace.UpdateRefWithSchema": updWithSchema, "sortref.ReverseIndex": revIdx, "InlineSchemaNamer.Name": namerName, "schutils.Save": save, "schutils.Clone": clone} {
		if f == nil {
			c.S.Undecided("C02", "PIPE", "anchor/"+n, "-", "unresolved anchor "+n)
			return
		}
	}
	e := effects(c)
	type phase struct {
		name    string
		call    *ast.CallExpr
		fn      *core.FuncInfo
		order   int64    // execution order: source position, refined by the element index for a table of steps
		errOnly bool     // runs under no condition other than the error tests of the phases before it
		others  []string // the other conditions, options members named canonically
	}
	var phases []phase
	classify := func(cf *core.FuncInfo) string {
		name := ""
		switch {
		case c.reachesExternal(cf, "github.com/go-openapi/spec.ExpandSpec"):
			name = "expand"
		case c.reachesFunc(cf, revIdx):
			name = "import"
		case c.reachesFunc(cf, updWithSchema):
			name = "pointers"
		case c.reachesFunc(cf, namerName):
			name = "inline"
		default:
			// section clearing / unused removal, by their writes
			for _, w := range e.sortedWrites(cf) {
				if fv := w.finalField(); fv != nil && strings.HasSuffix(core.OwnerStruct(c.P, fv), ".SwaggerProps") {
					last := w.steps[len(w.steps)-1]
					if last.Field != nil && (fv.Name() == "Parameters" || fv.Name() == "Responses") && w.how == "assign" && len(w.via) == 0 {
						name = "clearShared"
					}
					if fv.Name() == "Definitions" && w.how == "delete" && name == "" {
						name = "removeUnused"
					}
				}
			}
		}
		return name
	}
	condsOf := func(call *ast.CallExpr, loopVar types.Object) (errOnly bool, others []string) {
		errOnly = true
		for _, cd := range c.conds(flat, call) {
			if x, _, ok := core.NilTest(info, cd); ok && core.IsErrorType(info.TypeOf(x)) {
				continue
			}
			// the per-element guard of a table of steps is accounted for element by element
			if loopVar != nil {
				mentions := false
				ast.Inspect(cd.Expr, func(m ast.Node) bool {
					if id, ok := m.(*ast.Ident); ok && info.Uses[id] == loopVar {
						mentions = true
					}
					return true
				})
				if mentions {
					continue
				}
			}
			if cd.Kind == core.CondBool {
				// the call's own `if err := f(); err != nil` wrapper does not count
				errOnly = false
				// fields of the options are named canonically ("opts.<Field>") whatever the parameter is called; a
				// predicate of the options (`opts.fullFlatten()`) stands for the conjunction it returns
				others = append(others, c.optsCondTexts(flat, cd.Expr, cd.Neg, 0)...)
			}
		}
		sort.Strings(others)
		return
	}
	// the providers of step tables are not phases themselves
	tableProviders := map[*ast.CallExpr]bool{}
	ast.Inspect(flat.Decl.Body, func(nd ast.Node) bool {
		if rs, ok := nd.(*ast.RangeStmt); ok {
			if steps, _ := c.stepTable(flat, rs); steps != nil {
				for _, call := range calls(rs.X) {
					tableProviders[call] = true
				}
			}
		}
		return true
	})
	for _, call := range calls(flat.Decl.Body) {
		callee := c.P.StaticCallee(flat, call)
		if callee == nil || c.P.Funcs[callee] == nil || tableProviders[call] {
			continue
		}
		cf := c.P.Funcs[callee]
		if name := classify(cf); name != "" {
			errOnly, others := condsOf(call, nil)
			phases = append(phases, phase{name, call, cf, int64(call.Pos()) << 16, errOnly, others})
		}
	}
	// a table of steps run by a loop: each element is a phase, in the order of the table
	ast.Inspect(flat.Decl.Body, func(nd ast.Node) bool {
		rs, ok := nd.(*ast.RangeStmt)
		if !ok {
			return true
		}
		steps, run := c.stepTable(flat, rs)
		if steps == nil {
			return true
		}
		baseErrOnly, baseOthers := condsOf(run, core.ObjOf(info, rs.Value))
		for i, st := range steps {
			name := classify(st.fn)
			if name == "" {
				continue
			}
			errOnly, others := baseErrOnly, append([]string{}, baseOthers...)
			if st.guarded {
				errOnly = false
				if st.known {
					others = append(others, st.guards...)
				} else {
					others = append(others, "<guard of element "+fmt.Sprint(i)+" not read>")
				}
				sort.Strings(others)
			}
			phases = append(phases, phase{name, run, st.fn, int64(run.Pos())<<16 + int64(i) + 1, errOnly, others})
		}
		return true
	})
	byName := map[string][]phase{}
	for _, p := range phases {
		byName[p.name] = append(byName[p.name], p)
	}
	// mandatory phases: exactly once, unconditional, in order
	lastPos := int64(flat.Decl.Pos()) << 16
	for _, nm := range []string{"expand", "import", "pointers"} {
		ps := byName[nm]
		for _, prop := range []string{"C02"} {
			if len(ps) != 1 {
				c.S.Decide(false, prop, "PIPE-ORDER", "Flatten/"+nm, c.P.Pos(flat.Decl.Pos()), "", fmt.Sprintf("Flatten calls the %s phase %d times (expected exactly once on every success path)", nm, len(ps)))
				continue
			}
			errOnly, others := ps[0].errOnly, ps[0].others
			ok := errOnly && ps[0].order > lastPos
			c.S.Decide(ok, prop, "PIPE-ORDER", "Flatten/"+nm, c.P.Pos(ps[0].call.Pos()),
				"the "+nm+" phase ("+ps[0].fn.Obj.Name()+") runs on every success path, after the previous phase",
				fmt.Sprintf("the %s phase (%s) is conditional on [%s] or out of order: a success exit of Flatten can be reached without it, leaving $refs it is responsible for", nm, ps[0].fn.Obj.Name(), strings.Join(others, ", ")))
		}
		if len(ps) == 1 {
			lastPos = ps[0].order
		}
	}
	// C05: the same three phases are what removes the $refs in Expand mode (full expansion, import of the circular
	// remote $refs that survive, pointer stripping): they run unconditionally, so in Expand mode too
	for _, nm := range []string{"expand", "import", "pointers"} {
		if ps := byName[nm]; len(ps) == 1 {
			errOnly, others := ps[0].errOnly, ps[0].others
			c.S.Decide(errOnly, "C05", "PIPE-ORDER", "Flatten/"+nm, c.P.Pos(ps[0].call.Pos()),
				"the "+nm+" phase runs in every mode, Expand included",
				fmt.Sprintf("the %s phase is conditional on [%s]: in Expand mode the $refs it is responsible for can remain", nm, strings.Join(others, ", ")))
		} else {
			c.S.Decide(false, "C05", "PIPE-ORDER", "Flatten/"+nm, c.P.Pos(flat.Decl.Pos()), "", fmt.Sprintf("Flatten calls the %s phase %d times (expected exactly once)", nm, len(ps)))
		}
	}
	c.expandModeRule(flat)
	// inline naming: only under !Minimal && !Expand, between import and pointers
	if ps := byName["inline"]; len(ps) == 1 {
		others := ps[0].others
		want := "!opts.Expand, !opts.Minimal"
		okPos := len(byName["import"]) == 1 && len(byName["pointers"]) == 1 && ps[0].order > byName["import"][0].order && ps[0].order < byName["pointers"][0].order
		c.S.Decide(strings.Join(others, ", ") == want && okPos, "C03", "PIPE-ORDER", "Flatten/inline", c.P.Pos(ps[0].call.Pos()),
			"inline schemas are named exactly in full mode (neither Minimal nor Expand), after import and before pointer naming",
			"inline naming runs under ["+strings.Join(others, ", ")+"] (expected ["+want+"]) or out of order")
	} else {
		c.S.Decide(false, "C03", "PIPE-ORDER", "Flatten/inline", c.P.Pos(flat.Decl.Pos()), "", fmt.Sprintf("Flatten calls the inline-naming phase %d times (expected once)", len(byName["inline"])))
	}
	// RemoveUnused clauses
	for _, nm := range []string{"clearShared", "removeUnused"} {
		ps := byName[nm]
		if len(ps) != 1 {
			c.S.Decide(false, "C06", "PIPE-ORDER", "Flatten/"+nm, c.P.Pos(flat.Decl.Pos()), "", fmt.Sprintf("%d calls of the %s step in Flatten (expected 1)", len(ps), nm))
			continue
		}
		others := ps[0].others
		ok := strings.Join(others, ", ") == "opts.RemoveUnused"
		if nm == "clearShared" {
			ok = ok && len(byName["import"]) == 1 && ps[0].order < byName["import"][0].order && len(byName["expand"]) == 1 && ps[0].order > byName["expand"][0].order
		} else {
			ok = ok && len(byName["pointers"]) == 1 && ps[0].order > byName["pointers"][0].order
		}
		c.S.Decide(ok, "C06", "PIPE-ORDER", "Flatten/"+nm, c.P.Pos(ps[0].call.Pos()),
			nm+" runs exactly when RemoveUnused is set, at its place in the pipeline",
			nm+" runs under ["+strings.Join(others, ", ")+"] (expected [opts.RemoveUnused]) or at the wrong place: shared sections / unused definitions survive, or definitions still needed are removed early")
	}
	// nothing after clearShared re-fills the shared sections
	if ps := byName["clearShared"]; len(ps) == 1 {
		var bad []string
		for _, p := range phases {
			if p.order <= ps[0].order {
				continue
			}
			for _, w := range e.sortedWrites(p.fn) {
				if len(w.steps) == 0 {
					continue
				}
				for i, s := range w.steps {
					if s.Field != nil && (s.Name == "Parameters" || s.Name == "Responses") && strings.HasSuffix(core.OwnerStruct(c.P, s.Field), ".SwaggerProps") && i <= 3 {
						bad = append(bad, p.fn.Obj.Name()+": "+e.describe(w))
					}
				}
			}
		}
		sort.Strings(bad)
		if len(bad) > 2 {
			bad = bad[:2]
		}
		c.S.Decide(len(bad) == 0, "C06", "PIPE-NOREFILL", "Flatten/shared-sections", c.P.Pos(ps[0].call.Pos()),
			"no later phase stores into the shared parameters/responses sections", "a later phase writes the shared sections again: "+strings.Join(bad, "; "))
	}

	c.pipeClone(c.namerCore(namerName, save), clone, save)
	c.pipeSaveName(save)
	c.pipeWhoWritesDefs(flat, save)
	c.pipeHolders()
	c.uniqRules()
	c.emptyNameRule()
	c.nameTotalRule(namerName)
	c.complexMove(namerName)
}

// namerCore: the function that does the naming proper, by role: below the namer's entry point, the function that
// calls both the save helper and replace.RewriteSchemaToRef (the entry point itself on the pinned tree).
func (c *Ctx) namerCore(entry, save *core.FuncInfo) *core.FuncInfo {
	has := func(fi *core.FuncInfo) bool {
		saves, rewrites := false, false
		for _, call := range calls(fi.Decl.Body) {
			callee := c.P.StaticCallee(fi, call)
			if callee == nil {
				continue
			}
			if callee == save.Obj {
				saves = true
			}
			if callee.Name() == "RewriteSchemaToRef" {
				rewrites = true
			}
		}
		return saves && rewrites
	}
	if has(entry) {
		return entry
	}
	for _, fi := range core.SortedSet(c.P.Reachable(entry)) {
		if fi.Pkg.PkgPath == core.ModPath && has(fi) {
			return fi
		}
	}
	return entry
}

// pipeClone (C01): the namer saves a clone taken before the holder is overwritten.
func (c *Ctx) pipeClone(namer, clone, save *core.FuncInfo) {
	info := c.info(namer)
	var cloneCall, rewriteCall, saveCall *ast.CallExpr
	for _, call := range calls(namer.Decl.Body) {
		callee := c.P.StaticCallee(namer, call)
		if callee == nil {
			continue
		}
		switch {
		case callee == clone.Obj:
			cloneCall = call
		case callee == save.Obj:
			saveCall = call
		case callee.Name() == "RewriteSchemaToRef":
			rewriteCall = call
		}
	}
	// the save may sit in an unexported helper that is handed the schema to save: the saved value is then the
	// namer's argument at that position, the save happens where the helper is called
	var savedExpr ast.Expr
	if saveCall != nil {
		savedExpr = saveCall.Args[len(saveCall.Args)-1]
	} else {
		for _, call := range calls(namer.Decl.Body) {
			h := c.P.Funcs[c.P.StaticCallee(namer, call)]
			if h == nil || h.Obj.Exported() || h.Decl.Body == nil {
				continue
			}
			for _, inner := range calls(h.Decl.Body) {
				if c.P.StaticCallee(h, inner) != save.Obj || len(inner.Args) == 0 {
					continue
				}
				if po := core.ObjOf(c.info(h), inner.Args[len(inner.Args)-1]); po != nil {
					if idx, isParam := c.paramIndexOf(h, po); isParam && idx < len(call.Args) {
						saveCall, savedExpr = call, call.Args[idx]
					}
				}
			}
		}
	}
	if saveCall == nil || rewriteCall == nil {
		c.S.Undecided("C01", "PIPE-CLONE", "anchor", c.P.Pos(namer.Decl.Pos()), "the namer no longer calls schutils.Save and replace.RewriteSchemaToRef")
		return
	}
	sig := namer.Obj.Type().(*types.Signature)
	var schemaParam *types.Var
	for i := 0; i < sig.Params().Len(); i++ {
		if core.IsSpecType(sig.Params().At(i).Type(), "Schema") {
			schemaParam = sig.Params().At(i)
		}
	}
	ok := false
	why := "the schema saved as the new definition is not a clone of the inline schema"
	if cloneCall != nil && len(cloneCall.Args) == 1 && core.ObjOf(info, cloneCall.Args[0]) == schemaParam && schemaParam != nil {
		// the saved value is the variable holding the clone
		saved := core.ObjOf(info, savedExpr)
		isClone := false
		for _, d := range c.P.Locals(namer).Defs[saved] {
			if d.Kind == core.DefAssign && core.Unparen(d.Expr) == ast.Expr(cloneCall) {
				isClone = true
			}
		}
		switch {
		case !isClone:
			why = "schutils.Save receives " + exprStr(savedExpr) + ", which is not the clone of the inline schema"
		case cloneCall.Pos() > rewriteCall.Pos():
			why = "the clone is taken after the holder has been rewritten to a $ref: the saved definition is a $ref to itself"
		default:
			ok = true
		}
	}
	c.S.Decide(ok, "C01", "PIPE-CLONE", namer.QName(), c.P.Pos(saveCall.Pos()),
		"the inline schema is cloned before its holder is overwritten and the clone is what is saved", why)
}

// pipeSaveName (C03): names handed to Save come from the uniqifier applied to the same document's definitions.
func (c *Ctx) pipeSaveName(save *core.FuncInfo) {
	n := 0
	for _, cs := range c.P.CG().In[save.Obj] {
		if cs.Call == nil || len(cs.Call.Args) < 3 {
			continue
		}
		fi := cs.Caller
		info := c.info(fi)
		n++
		nameExpr := cs.Call.Args[1]
		ok := false
		why := "the name is not the result of the unique-name function"
		// the save sits in an unexported helper that is handed the name: the obligation moves to the helper's call
		// sites, where the name and the document are the caller's
		if po := core.ObjOf(info, nameExpr); po != nil && !fi.Obj.Exported() {
			if idx, isParam := c.paramIndexOf(fi, po); isParam {
				sites, good := 0, 0
				firstWhy := ""
				for _, cs2 := range c.P.CG().In[fi.Obj] {
					if cs2.Call == nil || cs2.Caller == nil || c.P.StaticCallee(cs2.Caller, cs2.Call) != fi.Obj || idx >= len(cs2.Call.Args) {
						continue
					}
					sites++
					docStr := exprStr(cs.Call.Args[0])
					if rid, hasRecv := rootOfRecv(fi); hasRecv {
						if sel, isSel := core.Unparen(cs2.Call.Fun).(*ast.SelectorExpr); isSel {
							docStr = strings.Replace(" "+docStr, " "+rid.Name+".", " "+exprStr(sel.X)+".", 1)[1:]
						}
					}
					def := c.designatorDef(cs2.Caller, cs2.Call.Args[idx], cs2.Call.Pos())
					if def != nil && def.index == 0 {
						if call, isCall := core.Unparen(def.rhs).(*ast.CallExpr); isCall {
							if okc, w := c.uniqueAgainst(cs2.Caller, call, docStr); okc {
								good++
								continue
							} else if firstWhy == "" {
								firstWhy = w
							}
						}
					}
				}
				if sites > 0 {
					if good != sites && firstWhy != "" {
						why = firstWhy
					}
					c.S.Decide(good == sites, "C03", "PIPE-SAVE-NAME", fi.QName(), c.P.Pos(cs.Call.Pos()),
						"the saved name is the result of the unique-name function applied to the same document's definitions (at every call site of the saving helper)",
						"a definition is saved under "+exprStr(cs.Call.Args[1])+": "+why+" — an existing definition can be overwritten")
					continue
				}
			}
		}
		// flow-sensitive: the definition of the name (a local, or a field of a local record) that reaches the save
		saveDef := c.designatorDef(fi, nameExpr, cs.Call.Pos())
		dfi := fi
		// imported.name with imported := <constructor>(…): the member as the constructor's returned literal sets it
		if sel, isSel := core.Unparen(nameExpr).(*ast.SelectorExpr); isSel && saveDef == nil {
			if rec := c.designatorDef(fi, sel.X, cs.Call.Pos()); rec != nil && rec.index == 0 {
				if mk, isCall := core.Unparen(rec.rhs).(*ast.CallExpr); isCall {
					if g := c.P.Funcs[c.P.StaticCallee(fi, mk)]; g != nil && g.Decl != nil && g.Decl.Body != nil {
						var member ast.Expr
						var at token.Pos
						uniform := true
						ast.Inspect(g.Decl.Body, func(nd ast.Node) bool {
							ret, isRet := nd.(*ast.ReturnStmt)
							if !isRet || len(ret.Results) != 1 {
								return true
							}
							cl, isLit := core.Unparen(ret.Results[0]).(*ast.CompositeLit)
							if !isLit {
								uniform = false
								return true
							}
							for _, el := range cl.Elts {
								if kv, ok := el.(*ast.KeyValueExpr); ok {
									if id, ok := kv.Key.(*ast.Ident); ok && id.Name == sel.Sel.Name {
										if member != nil {
											uniform = false
										}
										member, at = kv.Value, ret.Pos()
									}
								}
							}
							return true
						})
						if uniform && member != nil {
							saveDef = c.designatorDef(g, member, at)
							dfi = g
						}
					}
				}
			}
		}
		if saveDef != nil && saveDef.index == 0 {
			if call, isCall := core.Unparen(saveDef.rhs).(*ast.CallExpr); isCall && len(call.Args) >= 1 {
				if callee := c.P.StaticCallee(dfi, call); callee != nil && c.isUniqifier(callee) {
					// first argument: <doc>.Definitions with <doc> the same expression as Save's first argument
					if sel, isSel := core.Unparen(call.Args[0]).(*ast.SelectorExpr); isSel && sel.Sel.Name == "Definitions" && sameExpr(sel.X, cs.Call.Args[0]) {
						ok = true
					} else {
						why = "the name was made unique against " + exprStr(call.Args[0]) + " but is saved into " + exprStr(cs.Call.Args[0])
					}
				}
			}
		}
		c.S.Decide(ok, "C03", "PIPE-SAVE-NAME", fi.QName(), c.P.Pos(cs.Call.Pos()),
			"the saved name is the result of the unique-name function applied to the same document's definitions",
			"a definition is saved under "+exprStr(cs.Call.Args[1])+": "+why+" — an existing definition can be overwritten")
		// the name remembered for later passes (map[string]string of the flatten context) is the saved name
		ast.Inspect(fi.Decl.Body, func(nd ast.Node) bool {
			as, isAs := nd.(*ast.AssignStmt)
			if !isAs || len(as.Lhs) != 1 || len(as.Rhs) != 1 {
				return true
			}
			ix, isIx := core.Unparen(as.Lhs[0]).(*ast.IndexExpr)
			if !isIx {
				return true
			}
			mt, isMap := info.TypeOf(ix.X).Underlying().(*types.Map)
			if !isMap || !core.IsString(mt.Elem()) || !core.IsString(mt.Key()) {
				return true
			}
			sel, isSel := core.Unparen(ix.X).(*ast.SelectorExpr)
			if !isSel {
				return true
			}
			if fv := core.FieldOf(info, sel); fv == nil || fv.Pkg() == nil || fv.Pkg().Path() != core.ModPath {
				return true
			}
			// the same designator, and the same value: the definition reaching the memo is the one reaching the save
			same := sameExpr(as.Rhs[0], nameExpr)
			if same && saveDef != nil && dfi == fi {
				if md := c.designatorDef(fi, as.Rhs[0], as.Pos()); md == nil || md.pos != saveDef.pos {
					same = false
				}
			}
			if same && saveDef != nil && dfi != fi {
				// a member of a record built by a constructor: the record reaching the memo is the one reaching the save
				if sel, isSel := core.Unparen(nameExpr).(*ast.SelectorExpr); isSel {
					r1 := c.designatorDef(fi, sel.X, as.Pos())
					r2 := c.designatorDef(fi, sel.X, cs.Call.Pos())
					if r1 == nil || r2 == nil || r1.pos != r2.pos {
						same = false
					}
				}
			}
			c.S.Decide(same, "C01", "PIPE-REMEMBERED-NAME", fi.QName()+"/"+exprStr(ix.X), c.P.Pos(as.Pos()),
				"the name remembered for this $ref is the name the definition is saved under",
				"the name remembered in "+exprStr(ix.X)+" ("+exprStr(as.Rhs[0])+") is not the name the definition is saved under ("+exprStr(cs.Call.Args[1])+"): a later occurrence of the same $ref is re-pointed to another definition")
			return true
		})
	}
	if n < 2 {
		c.S.Undecided("C03", "PIPE-SAVE-NAME", "floor", "-", fmt.Sprintf("%d callers of schutils.Save (expected 2)", n))
	}
}

// desDef is one definition of a name designator: a local variable, or a field of a local record (x.name).
type desDef struct {
	pos   token.Pos
	rhs   ast.Expr
	index int // result index when the right-hand side is a multi-valued call
}

// designatorDef: the last definition of the designator before a position, in source order.
func (c *Ctx) designatorDef(fi *core.FuncInfo, e ast.Expr, before token.Pos) *desDef {
	info := c.info(fi)
	e = core.Unparen(e)
	var best *desDef
	consider := func(d desDef) {
		if d.pos < before && (best == nil || d.pos > best.pos) {
			dd := d
			best = &dd
		}
	}
	ast.Inspect(fi.Decl.Body, func(n ast.Node) bool {
		switch x := n.(type) {
		case *ast.AssignStmt:
			for i, l := range x.Lhs {
				match := sameExpr(l, e)
				if id, isID := e.(*ast.Ident); isID {
					match = core.ObjOf(info, l) == core.ObjOf(info, id) && core.ObjOf(info, id) != nil
				}
				if !match {
					continue
				}
				if len(x.Lhs) == len(x.Rhs) {
					consider(desDef{x.Pos(), x.Rhs[i], 0})
				} else if len(x.Rhs) == 1 {
					consider(desDef{x.Pos(), x.Rhs[0], i})
				}
			}
			// x := T{name: v}: the field of a record initialised by a literal
			if sel, isSel := e.(*ast.SelectorExpr); isSel && len(x.Lhs) == len(x.Rhs) {
				for i, l := range x.Lhs {
					if core.ObjOf(info, l) != nil && core.ObjOf(info, l) == core.ObjOf(info, sel.X) {
						if cl, ok := core.Unparen(x.Rhs[i]).(*ast.CompositeLit); ok {
							for _, el := range cl.Elts {
								if kv, ok := el.(*ast.KeyValueExpr); ok {
									if id, ok := kv.Key.(*ast.Ident); ok && id.Name == sel.Sel.Name {
										consider(desDef{x.Pos(), kv.Value, 0})
									}
								}
							}
						}
					}
				}
			}
		}
		return true
	})
	return best
}

// reachingDef: the last definition of a local before a position, in source order (straight-line approximation:
// adequate for the namers, whose name variable is assigned in the block that uses it).
func (c *Ctx) reachingDef(fi *core.FuncInfo, o types.Object, pos token.Pos) *core.Def {
	if o == nil {
		return nil
	}
	var best *core.Def
	defs := c.P.Locals(fi).Defs[o]
	for i := range defs {
		if defs[i].Pos < pos && (best == nil || defs[i].Pos > best.Pos) {
			best = &defs[i]
		}
	}
	return best
}

// isUniqifier: a module function taking spec.Definitions and a string and returning (string, bool).
func (c *Ctx) isUniqifier(fn *types.Func) bool {
	sig := fn.Type().(*types.Signature)
	if sig.Params().Len() != 2 || sig.Results().Len() != 2 {
		return false
	}
	_, n := core.NamedOf(sig.Params().At(0).Type())
	return n == "Definitions" && core.IsString(sig.Params().At(1).Type()) && core.IsString(sig.Results().At(0).Type()) && core.IsBool(sig.Results().At(1).Type())
}

// pipeWhoWritesDefs (C03): below Flatten, entries of a Definitions map are stored only by Save and by the
// rewriters (addressed to an existing entry through a resolved container); deletions are separate.
func (c *Ctx) pipeWhoWritesDefs(flat, save *core.FuncInfo) {
	n := 0
	for _, fi := range core.SortedSet(c.P.Reachable(flat)) {
		info := c.info(fi)
		ast.Inspect(fi.Decl.Body, func(nd ast.Node) bool {
			as, ok := nd.(*ast.AssignStmt)
			if !ok {
				return true
			}
			for _, l := range as.Lhs {
				ix, ok := core.Unparen(l).(*ast.IndexExpr)
				if !ok {
					continue
				}
				_, tn := core.NamedOf(info.TypeOf(ix.X))
				isDefs := tn == "Definitions"
				if sel, isSel := core.Unparen(ix.X).(*ast.SelectorExpr); isSel && sel.Sel.Name == "Definitions" {
					isDefs = true
				}
				if !isDefs {
					continue
				}
				n++
				allowed := fi == save
				// rewriters: the map is a type-switch variable (a container resolved from a key)
				if o := core.ObjOf(info, ix.X); o != nil {
					for _, d := range c.P.Locals(fi).Defs[o] {
						if d.Kind == core.DefTypeSwitch {
							allowed = true
						}
					}
				}
				c.S.Decide(allowed, "C03", "PIPE-WHOWRITES-DEFS", fi.QName()+"/"+exprStr(ix.X), c.P.Pos(as.Pos()),
					"definitions are stored only by the save helper (under a uniqified name) or by a rewriter addressing an existing entry",
					fi.QName()+" stores into the definitions directly ("+exprStr(l)+"), bypassing the unique-name discipline: an existing definition can be overwritten")
			}
			return true
		})
	}
	if n < 2 {
		c.S.Undecided("C03", "PIPE-WHOWRITES-DEFS", "floor", "-", fmt.Sprintf("only %d stores into a Definitions map found below Flatten (confirmed by hand: 4)", n))
	}
}

// pipeHolders (C04): for every entry point of the rewriters (exported functions of the replace package that take a
// key), the type switches reachable from it together have a case for each kind of value / container that a
// schema key of the analyzer can designate. Deciding on the union makes the rule independent of how the
// switches are split over helpers.
func (c *Ctx) pipeHolders() {
	type sw struct {
		fi    *core.FuncInfo
		cases map[string]bool
		kind  string
	}
	switches := map[*core.FuncInfo][]sw{}
	var replFuncs []*core.FuncInfo
	for _, fi := range c.P.SortedFuncs() {
		if !strings.HasSuffix(fi.Pkg.PkgPath, "/internal/flatten/replace") {
			continue
		}
		replFuncs = append(replFuncs, fi)
		info := c.info(fi)
		ast.Inspect(fi.Decl.Body, func(nd ast.Node) bool {
			ts, ok := nd.(*ast.TypeSwitchStmt)
			if !ok {
				return true
			}
			s := sw{fi: fi, cases: map[string]bool{}}
			for _, cl := range ts.Body.List {
				for _, t := range cl.(*ast.CaseClause).List {
					s.cases[types.TypeString(info.TypeOf(t), func(p *types.Package) string { return p.Name() })] = true
				}
			}
			switch {
			case s.cases["*spec.Swagger"]:
				return true // the argument-kind guard
			case s.cases["*spec.Schema"] || s.cases["*spec.SchemaOrBool"]:
				s.kind = "value"
			default:
				s.kind = "parent"
			}
			switches[fi] = append(switches[fi], s)
			return true
		})
	}
	valueKinds := []string{"*spec.Schema", "spec.Schema", "*spec.SchemaOrArray", "*spec.SchemaOrBool"}
	parentKinds := []string{"spec.Definitions", "map[string]spec.Schema", "[]spec.Schema", "*spec.SchemaOrArray", "spec.SchemaProperties"}
	n := 0
	for _, entry := range replFuncs {
		if !entry.Obj.Exported() {
			continue
		}
		union := map[string]map[string]bool{"value": {}, "parent": {}}
		seen := map[string]bool{}
		for g := range c.P.Reachable(entry) {
			for _, s := range switches[g] {
				seen[s.kind] = true
				for k := range s.cases {
					union[s.kind][k] = true
				}
			}
		}
		for kind, want := range map[string][]string{"value": valueKinds, "parent": parentKinds} {
			if !seen[kind] {
				continue
			}
			n++
			var missing []string
			for _, k := range want {
				if !union[kind][k] {
					missing = append(missing, k)
				}
			}
			sort.Strings(missing)
			c.S.Decide(len(missing) == 0, "C04", "PIPE-HOLDERS", entry.QName()+"/"+kind+"-switch", c.P.Pos(entry.Decl.Pos()),
				"every kind of "+kind+" a schema key can designate has a case in the switches reachable from this entry point",
				"the "+kind+" type switches reachable from "+entry.Obj.Name()+" have no case for "+strings.Join(missing, ", ")+": a valid key designating such a holder makes Flatten fail (or the rewrite is skipped)")
		}
	}
	if n < 4 {
		c.S.Undecided("C04", "PIPE-HOLDERS", "floor", "-", fmt.Sprintf("only %d entry-point/switch-kind pairs found in the rewriters (confirmed by hand: 7)", n))
	}
	// Schemas held through a pointer member (read from the types of go-openapi/spec: every field of type *spec.Schema):
	// an entry point whose `case *spec.Schema` does not write through the pointer it was given delegates to the
	// switch over the parent, which then needs a case for every owner of such a member — or the value case
	// handles that member in place, selected by its json name. (Defect F25: "not" had neither.)
	owners := c.pointerHeldSchemaOwners()
	m := 0
	for _, entry := range replFuncs {
		if !entry.Obj.Exported() {
			continue
		}
		// rewriters only: they report nothing but an error (the resolvers of the package return what they found)
		if res := entry.Obj.Type().(*types.Signature).Results(); res.Len() != 1 || !core.IsErrorType(res.At(0).Type()) {
			continue
		}
		info := c.info(entry)
		var clause *ast.CaseClause
		var swVar types.Object
		ast.Inspect(entry.Decl.Body, func(nd ast.Node) bool {
			ts, ok := nd.(*ast.TypeSwitchStmt)
			if !ok {
				return true
			}
			for _, cl := range ts.Body.List {
				cc := cl.(*ast.CaseClause)
				for _, t := range cc.List {
					if types.TypeString(info.TypeOf(t), func(p *types.Package) string { return p.Name() }) == "*spec.Schema" && len(cc.List) == 1 {
						clause = cc
						swVar = info.Implicits[cc]
					}
				}
			}
			return true
		})
		if clause == nil {
			continue
		}
		// does the clause write through the switch variable on its fall-through path, and under which name tests?
		writesThrough := func(list []ast.Stmt) bool {
			for _, st := range list {
				as, ok := st.(*ast.AssignStmt)
				if !ok {
					continue
				}
				for _, l := range as.Lhs {
					l = core.Unparen(l)
					if st, isStar := l.(*ast.StarExpr); isStar && core.ObjOf(info, st.X) == swVar && swVar != nil {
						return true
					}
					if sel, isSel := l.(*ast.SelectorExpr); isSel && core.ObjOf(info, sel.X) == swVar && swVar != nil {
						return true
					}
				}
			}
			return false
		}
		all := writesThrough(clause.Body)
		inPlace := map[string]bool{}
		for _, st := range clause.Body {
			ifs, ok := st.(*ast.IfStmt)
			if !ok || !writesThrough(ifs.Body.List) {
				continue
			}
			ast.Inspect(ifs.Cond, func(nd ast.Node) bool {
				if bl, ok := nd.(*ast.BasicLit); ok && bl.Kind == token.STRING {
					if v, isC := core.ConstString(info, bl); isC {
						inPlace[strings.TrimPrefix(v, "/")] = true
					}
				}
				return true
			})
		}
		union := map[string]bool{}
		for g := range c.P.Reachable(entry) {
			for _, sws := range switches[g] {
				if sws.kind == "parent" {
					for k := range sws.cases {
						union[k] = true
					}
				}
			}
		}
		for _, ow := range owners {
			m++
			ok := all || inPlace[ow.tag] || union["*spec."+ow.owner] || union["spec."+ow.owner]
			c.S.Decide(ok, "C04", "PIPE-HOLDERS", entry.QName()+"/pointer-held "+ow.owner+"."+ow.tag, c.P.Pos(clause.Pos()),
				"a schema held by "+ow.owner+" through its pointer member '"+ow.tag+"' is rewritten (in place, or by a case for its owner in the parent switch)",
				"a key designating the schema under '"+ow.tag+"' of a "+ow.owner+" reaches `case *spec.Schema`, which neither writes through the pointer nor finds a case for "+ow.owner+" in the switch over the parent: a valid key of this shape makes Flatten fail (unhandled parent)")
		}
	}
	if m < 6 {
		c.S.Undecided("C04", "PIPE-HOLDERS", "floor-pointer-held", "-", fmt.Sprintf("only %d (entry point, pointer-held member) pairs found (confirmed by hand: 9 = 3 entry points x Parameter.schema, Response.schema, Schema.not)", m))
	}
}

type heldOwner struct{ owner, tag string }

// pointerHeldSchemaOwners lists, from the types of go-openapi/spec, the (struct, json name) pairs of members of type
// *spec.Schema, attributed to the outermost struct that embeds them; the two wrappers that JSON pointers see through
// (SchemaOrArray, SchemaOrBool: the key designates the wrapper itself) are left out.
func (c *Ctx) pointerHeldSchemaOwners() []heldOwner {
	sp, _ := c.P.SpecStruct("Swagger")
	if sp == nil {
		return nil
	}
	scope := sp.Obj().Pkg().Scope()
	embedded := map[string]bool{}
	structs := map[string]*types.Struct{}
	for _, name := range scope.Names() {
		tn, ok := scope.Lookup(name).(*types.TypeName)
		if !ok {
			continue
		}
		st, ok := tn.Type().Underlying().(*types.Struct)
		if !ok {
			continue
		}
		structs[name] = st
		for i := 0; i < st.NumFields(); i++ {
			if st.Field(i).Embedded() {
				if _, en := core.NamedOf(st.Field(i).Type()); en != "" {
					embedded[en] = true
				}
			}
		}
	}
	var out []heldOwner
	var collect func(owner string, st *types.Struct, depth int)
	collect = func(owner string, st *types.Struct, depth int) {
		if depth > 3 {
			return
		}
		for i := 0; i < st.NumFields(); i++ {
			f := st.Field(i)
			if f.Embedded() {
				if est, ok := core.Deref(f.Type()).Underlying().(*types.Struct); ok {
					collect(owner, est, depth+1)
				}
				continue
			}
			if core.IsPointer(f.Type()) && core.IsSpecType(f.Type(), "Schema") {
				if tag := core.JSONTag(st, i); tag != "" {
					out = append(out, heldOwner{owner, tag})
				}
			}
		}
	}
	// the structs of the document model: reachable from Swagger through fields, elements and embedded structs
	inModel := map[string]bool{}
	var visit func(t types.Type, depth int)
	var visitFields func(u *types.Struct, depth int)
	visit = func(t types.Type, depth int) {
		if depth > 12 {
			return
		}
		switch u := t.(type) {
		case *types.Pointer:
			visit(u.Elem(), depth+1)
			return
		case *types.Slice:
			visit(u.Elem(), depth+1)
			return
		case *types.Map:
			visit(u.Elem(), depth+1)
			return
		}
		pk, name := core.NamedOf(t)
		if name == "" || pk != sp.Obj().Pkg().Path() {
			if n, ok := t.(*types.Named); ok {
				visit(n.Underlying(), depth+1)
			}
			return
		}
		if inModel[name] {
			return
		}
		inModel[name] = true
		switch u := t.Underlying().(type) {
		case *types.Struct:
			visitFields(u, depth+1)
		default:
			visit(u, depth+1)
		}
	}
	// an embedded struct contributes its members to the embedding one and is no owner by itself
	visitFields = func(u *types.Struct, depth int) {
		for i := 0; i < u.NumFields() && depth <= 12; i++ {
			if est, ok := core.Deref(u.Field(i).Type()).Underlying().(*types.Struct); ok && u.Field(i).Embedded() {
				visitFields(est, depth+1)
				continue
			}
			visit(u.Field(i).Type(), depth+1)
		}
	}
	visit(sp, 0)
	names := make([]string, 0, len(structs))
	for n := range structs {
		names = append(names, n)
	}
	sort.Strings(names)
	for _, n := range names {
		if !inModel[n] || n == "SchemaOrArray" || n == "SchemaOrBool" {
			continue
		}
		collect(n, structs[n], 0)
	}
	return out
}

// uniqRules (C03): membership of a candidate name in the definitions is always tested case-insensitively.
func (c *Ctx) uniqRules() {
	n := 0
	for _, fi := range c.P.SortedFuncs() {
		if !c.isUniqifier(fi.Obj) {
			continue
		}
		n++
		info := c.info(fi)
		defsParam := fi.Obj.Type().(*types.Signature).Params().At(0)
		var exact []string
		ast.Inspect(fi.Decl.Body, func(nd ast.Node) bool {
			ix, ok := nd.(*ast.IndexExpr)
			if ok && core.ObjOf(info, ix.X) == defsParam {
				exact = append(exact, exprStr(ix)+" at "+c.P.Pos(ix.Pos()))
			}
			return true
		})
		fold := c.reachesExternal(fi, "strings.EqualFold")
		c.S.Decide(len(exact) == 0 && fold, "C03", "GUARD-UNIQ", fi.QName(), c.P.Pos(fi.Decl.Pos()),
			"every membership test of a candidate name uses the case-insensitive comparison",
			"the candidate name is tested against the definitions with an exact map lookup ("+strings.Join(exact, ", ")+") next to the case-insensitive test: a generated name can equal an existing one up to case")
	}
	if n < 1 {
		c.S.Undecided("C03", "GUARD-UNIQ", "anchor", "-", "no function (spec.Definitions, string) → (string, bool) found")
	}
	// post-condition: the name returned is not a member — every return of the name is under the negated membership
	// test of that very name, under "no definition at all", or right after a loop that runs while the name is a
	// member (its condition is the membership test of the name, or a flag recomputed from it after the name changes)
	for _, fi := range c.P.SortedFuncs() {
		if !c.isUniqifier(fi.Obj) {
			continue
		}
		info := c.info(fi)
		defsParam := fi.Obj.Type().(*types.Signature).Params().At(0)
		var isMemberTest func(e ast.Expr, name types.Object) bool
		isMemberTest = func(e ast.Expr, name types.Object) bool {
			call, ok := core.Unparen(e).(*ast.CallExpr)
			if !ok {
				return false
			}
			// a local closure that wraps the test: taken := func(n string) bool { return member(defs, n) }
			if len(call.Args) == 1 && core.ObjOf(info, call.Args[0]) == name {
				if o := core.ObjOf(info, call.Fun); o != nil {
					if defs := c.P.Locals(fi).Defs[o]; len(defs) == 1 && defs[0].Kind == core.DefAssign {
						if fl, isLit := core.Unparen(defs[0].Expr).(*ast.FuncLit); isLit && len(fl.Body.List) == 1 && fl.Type.Params != nil && len(fl.Type.Params.List) == 1 && len(fl.Type.Params.List[0].Names) == 1 {
							if ret, isRet := fl.Body.List[0].(*ast.ReturnStmt); isRet && len(ret.Results) == 1 {
								return isMemberTest(ret.Results[0], info.Defs[fl.Type.Params.List[0].Names[0]])
							}
						}
					}
				}
				return false
			}
			if len(call.Args) != 2 {
				return false
			}
			g := c.P.StaticCallee(fi, call)
			if g == nil || !core.IsBool(g.Type().(*types.Signature).Results().At(0).Type()) {
				return false
			}
			return core.ObjOf(info, call.Args[0]) == types.Object(defsParam) && core.ObjOf(info, call.Args[1]) == name
		}
		k := 0
		ast.Inspect(fi.Decl.Body, func(nd ast.Node) bool {
			blk, ok := nd.(*ast.BlockStmt)
			if !ok {
				return true
			}
			for i, st := range blk.List {
				ret, isRet := st.(*ast.ReturnStmt)
				if !isRet || len(ret.Results) != 2 {
					continue
				}
				name := core.ObjOf(info, ret.Results[0])
				if name == nil {
					// a name that is not a variable (a constant fallback, a concatenation): nothing can have
					// established its absence except "there are no definitions at all"
					k++
					okConst := false
					for _, cd := range c.conds(fi, ret) {
						if x, empty, isE := core.EmptyTest(info, cd); isE && empty && core.ObjOf(info, x) == types.Object(defsParam) {
							okConst = true
						}
					}
					c.S.Decide(okConst, "C03", "GUARD-UNIQ", fmt.Sprintf("%s/return#%d", fi.QName(), k), c.P.Pos(ret.Pos()),
						"a name returned without a search is returned only when there are no definitions",
						"the name "+exprStr(ret.Results[0])+" is returned without having been tested against the definitions: a second schema that gets the same fallback name overwrites the definition saved for the first")
					continue
				}
				k++
				okRet := false
				absent := func(cd core.Cond) bool {
					if cd.Kind == core.CondBool && cd.Neg && isMemberTest(cd.Expr, name) {
						return true
					}
					if x, empty, isE := core.EmptyTest(info, cd); isE && empty && core.ObjOf(info, x) == types.Object(defsParam) {
						return true
					}
					return false
				}
				for _, cd := range c.conds(fi, ret) {
					if absent(cd) {
						okRet = true
					}
					// a disjunction each arm of which establishes absence: len(defs) < 1 || !member(defs, name)
					if be, isBin := core.Unparen(cd.Expr).(*ast.BinaryExpr); isBin && be.Op == token.LOR && !cd.Neg && cd.Kind == core.CondBool {
						all := true
						var arms func(e ast.Expr)
						arms = func(e ast.Expr) {
							e = core.Unparen(e)
							if b2, ok := e.(*ast.BinaryExpr); ok && b2.Op == token.LOR {
								arms(b2.X)
								arms(b2.Y)
								return
							}
							armOK := false
							for _, a := range core.SplitCond(e, false) {
								if absent(a) {
									armOK = true
								}
							}
							if !armOK {
								all = false
							}
						}
						arms(be)
						if all {
							okRet = true
						}
					}
				}
				// the statement before the return: the search loop
				for j := i - 1; j >= 0 && !okRet; j-- {
					fs, isFor := blk.List[j].(*ast.ForStmt)
					if !isFor {
						if _, isAs := blk.List[j].(*ast.AssignStmt); isAs {
							break // the name may have been changed after the loop
						}
						continue
					}
					if fs.Cond == nil {
						break
					}
					if isMemberTest(fs.Cond, name) {
						okRet = true
						break
					}
					// for flag { …; name = …; flag = member(defs, name) }
					flag := core.ObjOf(info, fs.Cond)
					if flag == nil {
						break
					}
					var lastName, lastFlag token.Pos
					flagOK := false
					for _, bs := range fs.Body.List {
						as, isAs := bs.(*ast.AssignStmt)
						if !isAs {
							continue
						}
						for li, l := range as.Lhs {
							switch core.ObjOf(info, l) {
							case name:
								lastName = as.Pos()
							case flag:
								lastFlag = as.Pos()
								flagOK = li < len(as.Rhs) && isMemberTest(as.Rhs[li], name)
							}
						}
					}
					// the flag's value before the loop is the membership of the initial name
					initOK := false
					for _, d := range c.P.Locals(fi).Defs[flag] {
						if d.Pos < fs.Pos() && d.Expr != nil && isMemberTest(d.Expr, name) {
							initOK = true
						}
					}
					okRet = flagOK && initOK && lastFlag > lastName
					break
				}
				c.S.Decide(okRet, "C03", "GUARD-UNIQ", fmt.Sprintf("%s/return#%d", fi.QName(), k), c.P.Pos(ret.Pos()),
					"the returned name has just been found absent from the definitions (negated membership test, or exit of the search loop)",
					"the name "+name.Name()+" is returned although nothing establishes that it is absent from the definitions (the search for a free name is not a loop over the membership test of the current candidate): with enough homonyms a name already taken is returned and the definition saved under it overwrites another")
			}
			return true
		})
	}
}

// expandModeRule (C05, PIPE-EXPANDMODE): the expansion phase hands spec.ExpandSpec the option SkipSchemas; with Expand
// it must be false (schemas are expanded too), which the code base expresses as `!opts.Expand`. The value is followed
// from the ExpandOptions literal through the parameter of the helper that builds it to the argument at the call.
func (c *Ctx) expandModeRule(flat *core.FuncInfo) {
	n := 0
	for _, fi := range core.SortedSet(c.P.Reachable(flat)) {
		info := c.info(fi)
		for _, call := range calls(fi.Decl.Body) {
			cal := c.P.CalleeAny(fi, call)
			if cal == nil || cal.FullName() != "github.com/go-openapi/spec.ExpandSpec" || len(call.Args) != 2 {
				continue
			}
			if !core.IsSpecType(info.TypeOf(call.Args[0]), "Swagger") {
				continue
			}
			n++
			skip := c.skipSchemasValue(fi, call.Args[1], 0)
			ok, what := false, "cannot be determined"
			if skip != nil {
				sinfo := c.info(skip.fi)
				for hops := 0; hops < 3; hops++ {
					o := core.ObjOf(sinfo, skip.e)
					if _, isID := core.Unparen(skip.e).(*ast.Ident); !isID || o == nil {
						break
					}
					defs := c.P.Locals(skip.fi).Defs[o]
					if len(defs) != 1 || defs[0].Kind != core.DefAssign {
						break
					}
					skip.e = defs[0].Expr
				}
				what = exprStr(skip.e)
				if tv, isC := sinfo.Types[skip.e]; isC && tv.Value != nil && tv.Value.String() == "false" {
					ok = true
				}
				if u, isU := core.Unparen(skip.e).(*ast.UnaryExpr); isU && u.Op == token.NOT {
					if sel, isSel := core.Unparen(u.X).(*ast.SelectorExpr); isSel {
						if fv := core.FieldOf(sinfo, sel); fv != nil && fv.Name() == "Expand" && strings.HasSuffix(core.OwnerStruct(c.P, fv), ".FlattenOpts") {
							ok = true
						}
					}
				}
			}
			c.S.Decide(ok, "C05", "PIPE-EXPANDMODE", fi.QName()+"/ExpandSpec", c.P.Pos(call.Pos()),
				"the expander skips schemas exactly when Expand is off (SkipSchemas = !opts.Expand)",
				"the expander of the expansion phase is told SkipSchemas = "+what+", which is not `!opts.Expand` (nor false): in Expand mode schema $refs are not expanded and remain in the output of an acyclic bundle")
		}
	}
	if n < 1 {
		c.S.Undecided("C05", "PIPE-EXPANDMODE", "anchor", "-", "no call of spec.ExpandSpec on the root document below Flatten")
	}
}

type exprIn struct {
	fi *core.FuncInfo
	e  ast.Expr
}

// skipSchemasValue: the expression that ends up in ExpandOptions.SkipSchemas for this options argument.
func (c *Ctx) skipSchemasValue(fi *core.FuncInfo, opt ast.Expr, depth int) *exprIn {
	if depth > 3 {
		return nil
	}
	info := c.info(fi)
	opt = core.Unparen(opt)
	if u, ok := opt.(*ast.UnaryExpr); ok && u.Op == token.AND {
		opt = core.Unparen(u.X)
	}
	switch x := opt.(type) {
	case *ast.Ident:
		if defs := c.P.Locals(fi).Defs[core.ObjOf(info, x)]; len(defs) == 1 && defs[0].Kind == core.DefAssign {
			return c.skipSchemasValue(fi, defs[0].Expr, depth+1)
		}
	case *ast.CompositeLit:
		for _, el := range x.Elts {
			if kv, ok := el.(*ast.KeyValueExpr); ok {
				if id, ok := kv.Key.(*ast.Ident); ok && id.Name == "SkipSchemas" {
					return &exprIn{fi, kv.Value}
				}
			}
		}
		// absent: the zero value, false
		return &exprIn{fi, ast.NewIdent("false")}
	case *ast.CallExpr:
		callee := c.P.StaticCallee(fi, x)
		g := c.P.Funcs[callee]
		if callee == nil || g == nil || g.Decl == nil || g.Decl.Body == nil {
			return nil
		}
		// the helper returns a literal whose SkipSchemas is one of its parameters
		var res *exprIn
		ast.Inspect(g.Decl.Body, func(m ast.Node) bool {
			ret, ok := m.(*ast.ReturnStmt)
			if !ok || len(ret.Results) != 1 {
				return true
			}
			if v := c.skipSchemasValue(g, ret.Results[0], depth+1); v != nil {
				if idx, isParam := c.paramIndexOf(g, core.ObjOf(c.info(g), v.e)); isParam && idx < len(x.Args) {
					res = &exprIn{fi, x.Args[idx]}
				} else {
					res = v
				}
			}
			return true
		})
		return res
	}
	return nil
}

// nameTotalRule (C03/C02, NAME-TOTAL): the namer does nothing — silently — when the function that derives candidate
// names from a key returns none. Names of schemas under a path are derived from the operations of that path, which
// need not exist (a path item with parameters only) or need not be known to the naming index; so the derivation
// must have a fallback: after the candidates have been collected from the key's classification, an emptiness test
// of the candidate list whose branch fills it. Without it a complex schema stays inline after a full flatten (C03)
// and an anonymous pointer is left in place (C02), with Flatten returning nil.
func (c *Ctx) nameTotalRule(namer *core.FuncInfo) {
	// the function whose result feeds the naming loop: `for _, name := range F(…)` with the unique-name function
	// called in the body
	anchors := map[*core.FuncInfo]bool{}
	for _, fi := range core.SortedSet(c.P.Reachable(namer)) {
		ast.Inspect(fi.Decl.Body, func(nd ast.Node) bool {
			rs, ok := nd.(*ast.RangeStmt)
			if !ok {
				return true
			}
			call, ok := core.Unparen(rs.X).(*ast.CallExpr)
			if !ok {
				return true
			}
			g := c.P.Funcs[c.P.StaticCallee(fi, call)]
			if g == nil {
				return true
			}
			uniq := false
			for _, inner := range calls(rs.Body) {
				if callee := c.P.StaticCallee(fi, inner); callee != nil && c.isUniqifier(callee) {
					uniq = true
				}
				// the naming body may live in a helper of the namer
				if h := c.P.Funcs[c.P.StaticCallee(fi, inner)]; h != nil && !uniq {
					for _, c2 := range calls(h.Decl.Body) {
						if callee := c.P.StaticCallee(h, c2); callee != nil && c.isUniqifier(callee) {
							uniq = true
						}
					}
				}
			}
			if uniq {
				anchors[g] = true
			}
			return true
		})
	}
	// emptyFallback: the body gives a list found empty another value — `if len(x) == 0 { x = … }`, or
	// `if len(x) > 0 { return … }` followed by the return of another value
	emptyFallback := func(fi *core.FuncInfo) bool {
		info := c.info(fi)
		found := false
		ast.Inspect(fi.Decl.Body, func(nd ast.Node) bool {
			ifs, ok := nd.(*ast.IfStmt)
			if !ok {
				return true
			}
			for _, pol := range []bool{false, true} {
				for _, cd := range core.SplitCond(ifs.Cond, pol) {
					x, empty, isE := core.EmptyTest(info, cd)
					if !isE || !empty || !core.IsSlice(info.TypeOf(x)) {
						continue
					}
					if !pol {
						// the branch runs when the list is empty: it assigns the list (or what holds it), or returns
						root := rootIdent(x)
						ast.Inspect(ifs.Body, func(m ast.Node) bool {
							switch v := m.(type) {
							case *ast.AssignStmt:
								for _, l := range v.Lhs {
									if id := rootIdent(l); id != nil && root != nil && core.ObjOf(info, id) == core.ObjOf(info, root) {
										found = true
									}
								}
							case *ast.ReturnStmt:
								found = true
							}
							return true
						})
					} else if core.BlockLeaves(info, ifs.Body) {
						// the branch leaves when the list is not empty: what follows is the fallback
						found = true
					}
				}
			}
			return true
		})
		return found
	}
	n := 0
	for _, fi := range core.SortedSet(anchors) {
		n++
		fallback := emptyFallback(fi)
		if !fallback {
			for _, call := range calls(fi.Decl.Body) {
				if g := c.P.Funcs[c.P.StaticCallee(fi, call)]; g != nil && g != fi && g.Pkg.PkgPath == core.ModPath && emptyFallback(g) {
					// a helper applied on the way to the result (candidates.orPointer(parts))
					sig := g.Obj.Type().(*types.Signature)
					if sig.Results().Len() == 1 && !core.IsString(sig.Results().At(0).Type()) {
						fallback = true
					}
				}
			}
		}
		for _, prop := range []string{"C03", "C02"} {
			c.S.Decide(fallback, prop, "NAME-TOTAL", fi.QName(), c.P.Pos(fi.Decl.Pos()),
				"the list of candidate names is given a fallback when the key's classification yields none",
				fi.Name()+" can return no candidate name at all (the candidates depend on operations that need not exist under the key's path, and no branch fills the list when it is empty): the namer then does nothing and returns nil — the schema stays inline, or the anonymous pointer stays, after a successful Flatten")
		}
	}
	if n < 1 {
		c.S.Note("NAME-TOTAL: no function feeding candidate names to the naming loop found below the namer")
	}
}

// emptyNameRule (C02, GUARD-EMPTYNAME): in the loop over candidate names that hands each name to the unique-name
// function, the only candidates skipped are the ones that are empty as delivered. A skip on the *transformed* name
// (the loop variable reassigned from a call, or a local holding the mangled name) silently drops targets whose name
// mangles to the empty string — the unique-name function is what turns those into a generated name — and the
// anonymous pointer is left in place while Flatten reports success.
func (c *Ctx) emptyNameRule() {
	n := 0
	for _, fi := range c.P.SortedFuncs() {
		if fi.Pkg.PkgPath != core.ModPath {
			continue
		}
		info := c.info(fi)
		ast.Inspect(fi.Decl.Body, func(nd ast.Node) bool {
			rs, ok := nd.(*ast.RangeStmt)
			if !ok || rs.Value == nil {
				return true
			}
			rv := core.ObjOf(info, rs.Value)
			if rv == nil || !core.IsString(rv.Type()) {
				return true
			}
			// the statement of the body that calls the unique-name function
			uniqAt := -1
			for i, st := range rs.Body.List {
				for _, call := range calls(st) {
					if callee := c.P.StaticCallee(fi, call); callee != nil && c.isUniqifier(callee) {
						uniqAt = i
					}
				}
				if uniqAt >= 0 {
					break
				}
			}
			if uniqAt < 0 {
				return true
			}
			n++
			reassigned := false
			bad := ""
			fromCall := func(x ast.Expr) bool {
				x = core.Unparen(x)
				if _, isCall := x.(*ast.CallExpr); isCall {
					return true
				}
				if o := core.ObjOf(info, x); o != nil && o != rv {
					for _, d := range c.P.Locals(fi).Defs[o] {
						if d.Expr != nil {
							if _, isCall := core.Unparen(d.Expr).(*ast.CallExpr); isCall {
								mentions := false
								ast.Inspect(d.Expr, func(m ast.Node) bool {
									if id, ok := m.(*ast.Ident); ok && info.Uses[id] == rv {
										mentions = true
									}
									return true
								})
								if mentions {
									return true
								}
							}
						}
					}
				}
				return false
			}
			for _, st := range rs.Body.List[:uniqAt] {
				switch x := st.(type) {
				case *ast.AssignStmt:
					for _, l := range x.Lhs {
						if core.ObjOf(info, l) == rv && x.Tok == token.ASSIGN {
							reassigned = true
						}
					}
				case *ast.IfStmt:
					skips := false
					ast.Inspect(x.Body, func(m ast.Node) bool {
						if b, ok := m.(*ast.BranchStmt); ok && b.Tok == token.CONTINUE {
							skips = true
						}
						return true
					})
					if !skips {
						continue
					}
					for _, cd := range core.SplitCond(x.Cond, false) {
						tested, empty, isE := core.EmptyTest(info, cd)
						if !isE || !empty {
							continue
						}
						switch {
						case core.ObjOf(info, tested) == rv && reassigned:
							bad = "the loop variable is reassigned before it is tested for emptiness at " + c.P.Pos(x.Pos())
						case fromCall(tested):
							bad = "the name tested for emptiness at " + c.P.Pos(x.Pos()) + " is the result of a call on the candidate"
						}
					}
				}
			}
			c.S.Decide(bad == "", "C02", "GUARD-EMPTYNAME", fi.QName(), c.P.Pos(rs.Pos()),
				"only candidates that are empty as delivered are skipped; every other one reaches the unique-name function",
				bad+": a target whose name mangles to the empty string is skipped instead of being given a generated name — its anonymous pointer (or inline schema) stays and Flatten still returns nil")
			return true
		})
	}
	if n < 1 {
		c.S.Note("GUARD-EMPTYNAME: no loop over candidate names calling the unique-name function found")
	}
}

// complexMove (C03): in the inline-naming phase the namer is called exactly for analysed-as-complex, non-$ref,
// non-top-level schemas; and "complex" means not simple, not array, not map.
func (c *Ctx) complexMove(namer *core.FuncInfo) {
	fn := c.inlineNamingPhase(namer)
	if fn == nil {
		// by role: the function called by Flatten that reaches the namer but not UpdateRefWithSchema
		c.S.Undecided("C03", "GUARD-COMPLEXMOVE", "anchor", "-", "nameInlinedSchemas not found")
		return
	}
	info := c.info(fn)
	found := false
	for _, call := range calls(fn.Decl.Body) {
		if callee := c.P.StaticCallee(fn, call); callee == nil || callee != namer.Obj {
			continue
		}
		found = true
		var unexpected []string
		hasComplex := false
		for _, cd := range c.conds(fn, call) {
			if cd.Kind == core.CondRange {
				continue
			}
			if _, isLoop := cd.Stmt.(*ast.ForStmt); isLoop {
				continue // loop bound of an index loop
			}
			if cd.Kind != core.CondBool {
				unexpected = append(unexpected, "switch case")
				continue
			}
			s := exprStr(cd.Expr)
			if x, _, ok := core.NilTest(info, cd); ok {
				if core.IsErrorType(info.TypeOf(x)) || strings.HasSuffix(exprStr(x), ".Schema") {
					continue
				}
			}
			if x, _, ok := core.EmptyTest(info, cd); ok && strings.Contains(exprStr(x), ".Ref") {
				continue
			}
			if cd.Neg && strings.HasSuffix(s, ".TopLevel") {
				continue
			}
			if call2, ok := core.Unparen(cd.Expr).(*ast.CallExpr); ok && !cd.Neg {
				if c.isComplexCall(fn, call2) {
					hasComplex = true
					continue
				}
			}
			pol := ""
			if cd.Neg {
				pol = "!"
			}
			unexpected = append(unexpected, pol+s)
		}
		c.S.Decide(hasComplex && len(unexpected) == 0, "C03", "GUARD-COMPLEXMOVE", fn.QName(), c.P.Pos(call.Pos()),
			"the namer is called for every non-nil, non-$ref, non-top-level schema analysed as complex and under no other condition",
			fmt.Sprintf("the namer is called under unexpected conditions [%s] (complex test present: %v): some complex inline schemas stay inline", strings.Join(unexpected, ", "), hasComplex))
	}
	if !found {
		c.S.Decide(false, "C03", "GUARD-COMPLEXMOVE", fn.QName(), c.P.Pos(fn.Decl.Pos()), "", "the inline-naming phase never calls the namer")
	}
	// definition of "complex"
	cx := c.complexFn()
	if cx == nil || len(cx.Decl.Body.List) != 1 {
		c.S.Undecided("C03", "GUARD-COMPLEXDEF", "anchor", "-", "isAnalyzedAsComplex is not a single-return predicate")
		return
	}
	ret, ok := cx.Decl.Body.List[0].(*ast.ReturnStmt)
	if !ok || len(ret.Results) != 1 {
		c.S.Undecided("C03", "GUARD-COMPLEXDEF", "anchor", "-", "isAnalyzedAsComplex is not a single-return predicate")
		return
	}
	g := &schemaGuards{c: c, defs: map[*types.Var][]flagDef{}}
	recv := cx.Decl.Recv.List[0].Names[0].Name
	f := g.exprFormula(cx, ret.Results[0], recv, 0)
	want := pAnd(pAnd(pNot(&pf{op: 'a', atom: "flag IsSimpleSchema"}), pNot(&pf{op: 'a', atom: "flag IsArray"})), pNot(&pf{op: 'a', atom: "flag IsMap"}))
	atoms := map[string]bool{}
	f.atoms(atoms)
	want.atoms(atoms)
	names := make([]string, 0, len(atoms))
	for a := range atoms {
		names = append(names, a)
	}
	sort.Strings(names)
	equiv := len(names) <= 12
	for m := 0; equiv && m < 1<<len(names); m++ {
		env := map[string]bool{}
		for i, a := range names {
			env[a] = m&(1<<i) != 0
		}
		if f.eval(env) != want.eval(env) {
			equiv = false
		}
	}
	c.S.Decide(equiv, "C03", "GUARD-COMPLEXDEF", cx.QName(), c.P.Pos(cx.Decl.Pos()),
		"complex ≡ ¬simple ∧ ¬array ∧ ¬map (truth table over the flags)",
		"isAnalyzedAsComplex is "+exprStr(ret.Results[0])+", which is not equivalent to !IsSimpleSchema && !IsArray && !IsMap: objects with properties, allOf compositions or tuples can stay inline (or simple schemas get named)")
}

// tableStep is one element of a table of steps run by a loop: `for _, st := range steps() { if !st.enabled(…) {
// continue }; if err := st.run(…); err != nil { return err } }`.
type tableStep struct {
	fn      *core.FuncInfo // the function the element's run member denotes (through adapters)
	guarded bool           // the element has a guard member (it may be skipped)
	guards  []string       // the atoms of the guard, options members named canonically ("opts.X", "!opts.Y")
	known   bool           // the guard could be read
}

// stepTable recognises a loop over a table of step records and resolves its elements, in order. The table is a
// composite literal of struct elements, held in a local or returned by a module function; the member called in the
// loop body (`st.run(…)`) denotes a function, a method expression, or an adapter applied to one; another
// function-typed member of the element, if any, is its guard (a closure whose single result is a condition over the
// options).
func (c *Ctx) stepTable(fi *core.FuncInfo, rs *ast.RangeStmt) ([]tableStep, *ast.CallExpr) {
	info := c.info(fi)
	if rs.Value == nil {
		return nil, nil
	}
	rv := core.ObjOf(info, rs.Value)
	if rv == nil {
		return nil, nil
	}
	// the call through a function-typed member of the loop variable
	var run *ast.CallExpr
	var runField *types.Var
	for _, call := range calls(rs.Body) {
		sel, ok := core.Unparen(call.Fun).(*ast.SelectorExpr)
		if !ok || core.ObjOf(info, sel.X) != rv {
			continue
		}
		if fv := core.FieldOf(info, sel); fv != nil {
			if sig, isSig := fv.Type().Underlying().(*types.Signature); isSig && sig.Results().Len() == 1 && core.IsErrorType(sig.Results().At(0).Type()) {
				run, runField = call, fv
			}
		}
	}
	if run == nil {
		return nil, nil
	}
	// the table literal
	lfi, lit := fi, core.Unparen(rs.X)
	for hops := 0; hops < 3; hops++ {
		if o := core.ObjOf(c.info(lfi), lit); o != nil {
			if defs := c.P.Locals(lfi).Defs[o]; len(defs) == 1 && defs[0].Kind == core.DefAssign && defs[0].Expr != nil {
				lit = core.Unparen(defs[0].Expr)
				continue
			}
		}
		if call, isCall := lit.(*ast.CallExpr); isCall {
			g := c.P.Funcs[c.P.StaticCallee(lfi, call)]
			if g == nil || g.Decl == nil || g.Decl.Body == nil || len(g.Decl.Body.List) == 0 {
				return nil, nil
			}
			ret, isRet := g.Decl.Body.List[len(g.Decl.Body.List)-1].(*ast.ReturnStmt)
			if !isRet || len(ret.Results) != 1 {
				return nil, nil
			}
			lfi, lit = g, core.Unparen(ret.Results[0])
			continue
		}
		break
	}
	cl, isLit := lit.(*ast.CompositeLit)
	if !isLit {
		return nil, nil
	}
	linfo := c.info(lfi)
	// resolve a function-valued expression of the literal's function to a module function
	var resolveFn func(e ast.Expr, depth int) *core.FuncInfo
	resolveFn = func(e ast.Expr, depth int) *core.FuncInfo {
		e = core.Unparen(e)
		if depth > 3 {
			return nil
		}
		switch x := e.(type) {
		case *ast.Ident:
			if f, ok := linfo.Uses[x].(*types.Func); ok {
				return c.P.Funcs[f.Origin()]
			}
			if o := core.ObjOf(linfo, x); o != nil {
				if defs := c.P.Locals(lfi).Defs[o]; len(defs) == 1 && defs[0].Kind == core.DefAssign {
					return resolveFn(defs[0].Expr, depth+1)
				}
			}
		case *ast.SelectorExpr:
			if f, ok := linfo.Uses[x.Sel].(*types.Func); ok {
				return c.P.Funcs[f.Origin()]
			}
		case *ast.CallExpr:
			// adapter(f): a module function that returns a literal calling its function parameter
			h := c.P.Funcs[c.P.StaticCallee(lfi, x)]
			if h == nil || len(x.Args) != 1 || h.Decl == nil || h.Decl.Body == nil {
				return nil
			}
			hinfo := c.info(h)
			hp := paramObj(h, 0)
			callsParam := false
			ast.Inspect(h.Decl.Body, func(n ast.Node) bool {
				if cc, ok := n.(*ast.CallExpr); ok && hp != nil && core.ObjOf(hinfo, cc.Fun) == types.Object(hp) {
					callsParam = true
				}
				return true
			})
			if callsParam {
				return resolveFn(x.Args[0], depth+1)
			}
		}
		return nil
	}
	// the guard of an element: a closure (literal, or local holding one) with a single returned condition
	guardOf := func(e ast.Expr) ([]string, bool) {
		e = core.Unparen(e)
		if o := core.ObjOf(linfo, e); o != nil {
			if defs := c.P.Locals(lfi).Defs[o]; len(defs) == 1 && defs[0].Kind == core.DefAssign && defs[0].Expr != nil {
				e = core.Unparen(defs[0].Expr)
			}
		}
		fl, ok := e.(*ast.FuncLit)
		if !ok || len(fl.Body.List) != 1 {
			return nil, false
		}
		ret, ok := fl.Body.List[0].(*ast.ReturnStmt)
		if !ok || len(ret.Results) != 1 {
			return nil, false
		}
		var atoms []string
		for _, cd := range core.SplitCond(ret.Results[0], false) {
			txt := exprStr(cd.Expr)
			if sel, isSel := core.Unparen(cd.Expr).(*ast.SelectorExpr); isSel {
				if fv := core.FieldOf(linfo, sel); fv != nil && strings.HasSuffix(core.OwnerStruct(c.P, fv), ".FlattenOpts") {
					txt = "opts." + fv.Name()
				}
			}
			if cd.Neg {
				txt = "!" + txt
			}
			atoms = append(atoms, txt)
		}
		sort.Strings(atoms)
		return atoms, true
	}
	var out []tableStep
	for _, el := range cl.Elts {
		ecl, ok := core.Unparen(el).(*ast.CompositeLit)
		if !ok {
			return nil, nil
		}
		st := tableStep{known: true}
		for _, f := range ecl.Elts {
			kv, ok := f.(*ast.KeyValueExpr)
			if !ok {
				return nil, nil
			}
			name, ok := kv.Key.(*ast.Ident)
			if !ok {
				return nil, nil
			}
			if name.Name == runField.Name() {
				st.fn = resolveFn(kv.Value, 0)
				continue
			}
			if _, isSig := linfo.TypeOf(kv.Value).Underlying().(*types.Signature); isSig {
				st.guarded = true
				st.guards, st.known = guardOf(kv.Value)
			}
		}
		if st.fn == nil {
			return nil, nil
		}
		out = append(out, st)
	}
	return out, run
}

// optsCondTexts renders a condition over the options as canonical literals: "opts.<Field>" / "!opts.<Field>" for the
// members of FlattenOpts, conjunctions split (De Morgan for negated disjunctions), single-return boolean predicates
// of the module expanded; anything else verbatim.
func (c *Ctx) optsCondTexts(fi *core.FuncInfo, e ast.Expr, neg bool, depth int) []string {
	info := c.info(fi)
	e = core.Unparen(e)
	pol := ""
	if neg {
		pol = "!"
	}
	switch x := e.(type) {
	case *ast.UnaryExpr:
		if x.Op == token.NOT {
			return c.optsCondTexts(fi, x.X, !neg, depth)
		}
	case *ast.BinaryExpr:
		if x.Op == token.LAND && !neg || x.Op == token.LOR && neg {
			return append(c.optsCondTexts(fi, x.X, neg, depth), c.optsCondTexts(fi, x.Y, neg, depth)...)
		}
	case *ast.SelectorExpr:
		if fv := core.FieldOf(info, x); fv != nil && strings.HasSuffix(core.OwnerStruct(c.P, fv), ".FlattenOpts") {
			return []string{pol + "opts." + fv.Name()}
		}
	case *ast.CallExpr:
		if g := c.P.Funcs[c.P.StaticCallee(fi, x)]; g != nil && depth < 3 && g.Decl.Body != nil && len(g.Decl.Body.List) == 1 {
			if ret, ok := g.Decl.Body.List[0].(*ast.ReturnStmt); ok && len(ret.Results) == 1 && core.IsBool(c.info(g).TypeOf(ret.Results[0])) {
				mentionsOpts := false
				ast.Inspect(ret.Results[0], func(m ast.Node) bool {
					if sel, isSel := m.(*ast.SelectorExpr); isSel {
						if fv := core.FieldOf(c.info(g), sel); fv != nil && strings.HasSuffix(core.OwnerStruct(c.P, fv), ".FlattenOpts") {
							mentionsOpts = true
						}
					}
					return true
				})
				if mentionsOpts {
					return c.optsCondTexts(g, ret.Results[0], neg, depth+1)
				}
			}
		}
	case *ast.Ident:
		if o := core.ObjOf(info, x); o != nil && core.IsBool(o.Type()) && depth < 3 {
			if defs := c.P.Locals(fi).Defs[o]; len(defs) == 1 && defs[0].Kind == core.DefAssign {
				return c.optsCondTexts(fi, defs[0].Expr, neg, depth+1)
			}
		}
	}
	return []string{pol + exprStr(e)}
}

// uniqueAgainst: the call yields a name made unique against the definitions of the document rendered docStr: the
// unique-name function applied to <doc>.Definitions, or the function such a unique-name function is a thin wrapper
// of, applied to a membership test (a method value) that looks into <doc>.Definitions.
func (c *Ctx) uniqueAgainst(fi *core.FuncInfo, call *ast.CallExpr, docStr string) (bool, string) {
	callee := c.P.StaticCallee(fi, call)
	if callee == nil || len(call.Args) < 1 {
		return false, "the name is not the result of the unique-name function"
	}
	info := c.info(fi)
	if c.isUniqifier(callee) {
		if sel, isSel := core.Unparen(call.Args[0]).(*ast.SelectorExpr); isSel && sel.Sel.Name == "Definitions" && exprStr(sel.X) == docStr {
			return true, ""
		}
		return false, "the name was made unique against " + exprStr(call.Args[0]) + " but is saved into " + docStr
	}
	// the core of a unique-name function: some function of that signature only forwards to it
	isCore := false
	for _, w := range c.P.SortedFuncs() {
		if !c.isUniqifier(w.Obj) || w.Decl.Body == nil {
			continue
		}
		for _, inner := range calls(w.Decl.Body) {
			if c.P.StaticCallee(w, inner) == callee {
				isCore = true
			}
		}
	}
	if !isCore {
		return false, "the name is not the result of the unique-name function"
	}
	msel, isSel := core.Unparen(call.Args[0]).(*ast.SelectorExpr)
	if !isSel {
		return false, "the membership test handed to the unique-name function is not a method of the namer"
	}
	mo, _ := info.Uses[msel.Sel].(*types.Func)
	m := c.P.Funcs[mo]
	if mo == nil || m == nil || m.Decl.Body == nil {
		return false, "the membership test handed to the unique-name function cannot be read"
	}
	rid, hasRecv := rootOfRecv(m)
	found := false
	ast.Inspect(m.Decl.Body, func(n ast.Node) bool {
		if sel, ok := n.(*ast.SelectorExpr); ok && sel.Sel.Name == "Definitions" {
			txt := exprStr(sel.X)
			if hasRecv {
				txt = strings.Replace(" "+txt, " "+rid.Name+".", " "+exprStr(msel.X)+".", 1)[1:]
			}
			if txt == docStr {
				found = true
			}
		}
		return true
	})
	if !found {
		return false, "the membership test " + exprStr(call.Args[0]) + " does not look into the definitions of " + docStr
	}
	return true, ""
}
