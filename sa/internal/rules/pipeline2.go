package rules

import (
	"fmt"
	"go/ast"
	"go/parser"
	"go/token"
	"go/types"
	"strings"

	"verif/sa/internal/core"
)

func init() {
	register(Rule{
		Name:  "PIPE2",
		Props: []string{"C01", "C02", "C03", "C04", "C05", "C06", "C09"},
		Doc:   "imported schemas are rebased before being saved; every $ref written by a phase is canonical; the removal loop makes progress; the rewriters' panics are unreachable by typing",
		Run:   pipe2Rules,
	})
}

func pipe2Rules(c *Ctx) {
	flat := c.need("C02", "PIPE2", "", "Flatten")
	if flat == nil {
		return
	}
	reach := core.SortedSet(c.P.Reachable(flat))
	c.rebaseRule(reach)
	c.canonicalRefs(reach)
	c.progressRule(reach)
	c.panicUnreachable(reach)
	c.resolveSkipped(reach)
	c.reinlineRule(reach)
	c.prefixSepRule(reach)
	c.absJoinRule(reach)
	c.recordRefreshRule(reach)
	c.pointerPlanRule(reach)
	c.rerunRule(reach)
	c.resolvedVsRaw(reach)
	c.sliceBounds(reach)
	c.selfInline(reach)
	c.panicBoundary()
}

// absJoinRule (C04/C01, PIPE-ABSJOIN): the normalisers join a $ref's document part onto the directory of a base
// only for relative references. Every such join must be dominated by the two negative tests that make a
// reference absolute — a host in its URL, and an absolute file-system path (filepath.IsAbs: such a path has no
// scheme, so url.IsAbs does not see it). Without the second, an absolute file $ref inside an imported document is
// glued onto the importing document's directory and the next import fails.
func (c *Ctx) absJoinRule(reach []*core.FuncInfo) {
	n := 0
	for _, fi := range reach {
		if !strings.HasSuffix(fi.Pkg.PkgPath, "/normalize") {
			continue
		}
		_ = c.info(fi)
		sig := fi.Obj.Type().(*types.Signature)
		// the reference input: a string parameter named by position (last string) or a spec.Ref parameter
		var refParams []types.Object
		for i := 0; i < sig.Params().Len(); i++ {
			p := sig.Params().At(i)
			if core.IsString(p.Type()) || core.IsSpecType(p.Type(), "Ref") {
				refParams = append(refParams, p)
			}
		}
		if len(refParams) == 0 {
			continue
		}
		ord := 0
		for _, call := range calls(fi.Decl.Body) {
			cal := c.P.CalleeAny(fi, call)
			if cal == nil || cal.FullName() != "path/filepath.Join" && cal.FullName() != "path.Join" {
				continue
			}
			// joins a directory (…Dir(...)) with something else
			hasDir := false
			for _, a := range call.Args {
				if c.mentionsCall(fi, a, "Dir", 0) {
					hasDir = true
				}
			}
			if !hasDir {
				continue
			}
			n++
			ord++
			absTest, hostTest := c.absGuards(fi, call, 0)
			k := fmt.Sprintf("%s/Join#%d", fi.QName(), ord)
			var missing []string
			if !absTest {
				missing = append(missing, "filepath.IsAbs(<reference>) being false")
			}
			if !hostTest {
				missing = append(missing, "the reference's URL having no host")
			}
			c.S.Decide(len(missing) == 0, "C04", "PIPE-ABSJOIN", k, c.P.Pos(call.Pos()),
				"the join onto the base directory happens only for references with no host and no absolute file path",
				"a reference is joined onto the directory of its base without "+strings.Join(missing, " and without ")+" having been established: an absolute $ref (file-system path, no scheme) found in an imported document is rebased as if it were relative, and resolving the result fails")
		}
	}
	if n < 1 {
		c.S.Undecided("C04", "PIPE-ABSJOIN", "floor", "-", "no join onto a base directory found in the normalisers (three on the pinned tree)")
	}
}

// absGuards: at this node the two negative absoluteness tests are established (a false filepath.IsAbs, an empty URL
// host) — by the path conditions inside the function or, for an unexported helper, at every one of its call sites.
func (c *Ctx) absGuards(fi *core.FuncInfo, at ast.Node, depth int) (absTest, hostTest bool) {
	info := c.info(fi)
	for _, cd := range c.conds(fi, at) {
		if cd.Kind != core.CondBool {
			continue
		}
		if cc, ok := core.Unparen(cd.Expr).(*ast.CallExpr); ok && cd.Neg {
			if k := c.P.CalleeAny(fi, cc); k != nil && k.FullName() == "path/filepath.IsAbs" {
				absTest = true
			}
		}
		if x, empty, ok := core.EmptyTest(info, cd); ok && empty {
			if sel, isSel := core.Unparen(x).(*ast.SelectorExpr); isSel && sel.Sel.Name == "Host" {
				hostTest = true
			}
		}
	}
	if absTest && hostTest || depth > 1 || fi.Obj.Exported() {
		return
	}
	sites := 0
	allAbs, allHost := true, true
	for _, caller := range c.P.SortedFuncs() {
		for _, call := range calls(caller.Decl.Body) {
			if c.P.StaticCallee(caller, call) != fi.Obj {
				continue
			}
			sites++
			a, h := c.absGuards(caller, call, depth+1)
			allAbs = allAbs && a
			allHost = allHost && h
		}
	}
	if sites > 0 {
		absTest = absTest || allAbs
		hostTest = hostTest || allHost
	}
	return
}

// mentionsCall: the expression (through single-definition locals and field stores of the same base) contains a call
// of a function with the given name.
func (c *Ctx) mentionsCall(fi *core.FuncInfo, e ast.Expr, name string, depth int) bool {
	if depth > 3 {
		return false
	}
	info := c.info(fi)
	found := false
	ast.Inspect(e, func(n ast.Node) bool {
		switch x := n.(type) {
		case *ast.CallExpr:
			if cal := c.P.CalleeAny(fi, x); cal != nil && cal.Name() == name {
				found = true
			}
		case *ast.Ident:
			if o, ok := info.Uses[x].(*types.Var); ok {
				for _, d := range c.P.Locals(fi).Defs[o] {
					if d.Kind == core.DefAssign && d.Expr != nil && c.mentionsCall(fi, d.Expr, name, depth+1) {
						found = true
					}
				}
			}
		case *ast.SelectorExpr:
			// u.Path assigned from path.Dir(u.Path)
			ast.Inspect(fi.Decl.Body, func(m ast.Node) bool {
				as, ok := m.(*ast.AssignStmt)
				if !ok || len(as.Lhs) != 1 || len(as.Rhs) != 1 || as.Pos() > e.Pos() {
					return true
				}
				if sameExpr(as.Lhs[0], x) && depth < 2 {
					if cc, ok := core.Unparen(as.Rhs[0]).(*ast.CallExpr); ok {
						if cal := c.P.CalleeAny(fi, cc); cal != nil && cal.Name() == name {
							found = true
						}
					}
				}
				return true
			})
		}
		return !found
	})
	return found
}

// reinlineRule (C03, GUARD-REINLINE): a phase that puts a schema back inline (replace.UpdateRefWithSchema into the
// root document) and reports to its caller through a bool result must raise that result exactly when the schema is
// analysed as complex and the place it was written to is not a top-level definition — and the place tested must be
// the key the schema was written at. Otherwise a complex schema stays inline after a full flatten.
func (c *Ctx) reinlineRule(reach []*core.FuncInfo) {
	n := 0
	for _, fi := range reach {
		if fi.Pkg.PkgPath != core.ModPath {
			continue
		}
		sig := fi.Obj.Type().(*types.Signature)
		hasBool := false
		for i := 0; i < sig.Results().Len(); i++ {
			if core.IsBool(sig.Results().At(i).Type()) {
				hasBool = true
			}
		}
		if !hasBool {
			continue
		}
		info := c.info(fi)
		for _, wcall := range calls(fi.Decl.Body) {
			callee := c.P.CalleeAny(fi, wcall)
			if callee == nil || callee.Name() != "UpdateRefWithSchema" || callee.Pkg() == nil || !strings.HasSuffix(callee.Pkg().Path(), "/replace") || len(wcall.Args) != 3 {
				continue
			}
			if !core.IsSpecType(info.TypeOf(wcall.Args[0]), "Swagger") {
				continue
			}
			n++
			ok, why := c.reinlineAt(fi, wcall, wcall.Args[1], wcall.Args[2])
			at := wcall
			if !ok && strings.HasPrefix(why, "no assignment to the returned flag") {
				// the write lives in a helper that only reports what it did: the condition is computed by its caller
				wi := c.info(fi)
				for _, caller := range reach {
					csig := caller.Obj.Type().(*types.Signature)
					if csig.Results().Len() < 1 || !core.IsBool(csig.Results().At(0).Type()) || caller == fi {
						continue
					}
					for _, cc := range calls(caller.Decl.Body) {
						if c.P.StaticCallee(caller, cc) != fi.Obj {
							continue
						}
						// the key and the schema of the write, as expressions of the caller
						mapArg := func(e ast.Expr) ast.Expr {
							id := rootIdent(e)
							if id == nil {
								return nil
							}
							idx, isParam := c.paramIndexOf(fi, core.ObjOf(wi, id))
							if !isParam || idx >= len(cc.Args) {
								return nil
							}
							rest := strings.TrimPrefix(exprStr(core.Unparen(e)), id.Name)
							if rest == "" {
								return cc.Args[idx]
							}
							px, err := parser.ParseExpr(exprStr(cc.Args[idx]) + rest)
							if err != nil {
								return nil
							}
							return px
						}
						k2, s2 := mapArg(wcall.Args[1]), mapArg(wcall.Args[2])
						if k2 == nil || s2 == nil {
							continue
						}
						if ok2, why2 := c.reinlineAt(caller, cc, k2, s2); ok2 {
							ok, why = true, ""
						} else if !strings.HasPrefix(why2, "no assignment to the returned flag") {
							why = why2 + " (in " + caller.Name() + ")"
						}
					}
				}
			}
			c.S.Decide(ok, "C03", "GUARD-REINLINE", fi.QName(), c.P.Pos(at.Pos()),
				"the caller is told (returned flag) exactly when a complex schema was put back inline at a place that is not a top-level definition",
				why+": a complex schema re-inlined below a definition is not named again and stays inline after a full flatten")
		}
	}
	if n < 1 {
		c.S.Note("GUARD-REINLINE: no flag-returning phase writes a schema back inline (one on the pinned tree: stripOAIGenForRef)")
	}
}

// reinlineAt decides, for a write (or a call that performs it) at `call` in fi with the given key and schema
// expressions, whether the flag fi returns is raised exactly when the schema is complex and the key is not a
// top-level definition.
func (c *Ctx) reinlineAt(fi *core.FuncInfo, call *ast.CallExpr, keyExpr, schExpr ast.Expr) (bool, string) {
	info := c.info(fi)
	{
		{
			ev := &reinEval{c: c, fi: fi, info: info, key: keyExpr, sch: schExpr}
			// the conditions under which the returned flag is raised after the write
			type raise struct {
				expr    ast.Expr
				flag    types.Object
				assign  bool // flag = <expr> / return <expr>: the old value of the flag must survive
				flagSel ast.Expr
				flags   map[types.Object]bool
			}
			var raises []raise
			ast.Inspect(fi.Decl.Body, func(nd ast.Node) bool {
				switch x := nd.(type) {
				case *ast.AssignStmt:
					if x.Pos() < call.Pos() || len(x.Lhs) != 1 || len(x.Rhs) != 1 || !core.IsBool(info.TypeOf(x.Lhs[0])) || !c.flowsToReturn(fi, x.Lhs[0]) {
						return true
					}
					if ev.mentionsComplex(x.Rhs[0], 0) {
						raises = append(raises, raise{x.Rhs[0], core.ObjOf(info, x.Lhs[0]), true, nil, nil})
					}
				case *ast.IfStmt:
					if x.Pos() < call.Pos() || x.Init != nil || !ev.mentionsComplex(x.Cond, 0) {
						return true
					}
					for _, bs := range x.Body.List {
						if as, ok := bs.(*ast.AssignStmt); ok && len(as.Lhs) == 1 && len(as.Rhs) == 1 && (c.flowsToReturn(fi, as.Lhs[0]) || c.fieldFlowsToReturn(fi, as.Lhs[0])) {
							if tv, isC := info.Types[as.Rhs[0]]; isC && tv.Value != nil && tv.Value.String() == "true" {
								raises = append(raises, raise{x.Cond, nil, false, nil, nil})
							}
						}
					}
				case *ast.ReturnStmt:
					// return flag || <condition>, nil
					if x.Pos() < call.Pos() || len(x.Results) < 1 || !core.IsBool(info.TypeOf(x.Results[0])) || !ev.mentionsComplex(x.Results[0], 0) {
						return true
					}
					// the flag: a bool local of the expression that is not itself the complexity result
					var flag types.Object
					var flagSel ast.Expr
					flags := map[types.Object]bool{}
					ast.Inspect(x.Results[0], func(m ast.Node) bool {
						if id, ok := m.(*ast.Ident); ok {
							if o, isVar := info.Uses[id].(*types.Var); isVar && core.IsBool(o.Type()) && !ev.mentionsComplex(id, 0) {
								flag = o
								flags[o] = true
							}
						}
						// a bool member of a state object
						if sel, ok := m.(*ast.SelectorExpr); ok {
							if fv := core.FieldOf(info, sel); fv != nil && core.IsBool(fv.Type()) {
								flagSel = sel
								return false
							}
						}
						return true
					})
					raises = append(raises, raise{x.Results[0], flag, true, flagSel, flags})
				}
				return true
			})
			ok, why := false, "no assignment to the returned flag after the write looks at isAnalyzedAsComplex() of the schema written"
			for _, r := range raises {
				ev.flag, ev.flagSel, ev.flags, ev.placeBad, ev.dirSeen = r.flag, r.flagSel, r.flags, "", 0
				good, decided := true, true
				ev.flagVal = false
				for _, dirEq := range []bool{false, true} {
					for _, cx := range []bool{false, true} {
						v, k := ev.eval(r.expr, dirEq, cx, 0)
						if !k {
							decided = false
						}
						if v != (!dirEq && cx) {
							good = false
						}
					}
				}
				monotone := true
				if r.assign && (r.flag != nil || r.flagSel != nil) {
					ev.flagVal = true
					for _, dirEq := range []bool{false, true} {
						for _, cx := range []bool{false, true} {
							if v, k := ev.eval(r.expr, dirEq, cx, 0); k && !v {
								monotone = false
							}
						}
					}
					ev.flagVal = false
				}
				switch {
				case !decided:
					why = "the condition raising the returned flag is not a combination of path.Dir(<key>) == \"#/definitions\" and isAnalyzedAsComplex() of the schema written"
				case !good:
					why = "the returned flag is not raised exactly when the written schema is complex and its new place is not a top-level definition"
				case !monotone:
					why = "the assignment can clear a flag that was already raised (the flag is not on the left of an ||): a re-run requested because other referers were re-pointed to an anonymous pointer is cancelled when the schema is not complex"
				case ev.placeBad != "":
					why = ev.placeBad
				case ev.dirSeen == 0:
					why = "the condition does not test the place the schema was written at"
				default:
					ok = true
				}
				if ok {
					break
				}
			}
			return ok, why
		}
	}
}

// reinEval evaluates a raise condition of GUARD-REINLINE over the two atoms "the place is a top-level definition"
// (dirEq) and "the schema written is complex" (cx), inside one function; helpers that compute the condition from
// the key and the schema they are handed are evaluated with a sub-evaluator.
type reinEval struct {
	c        *Ctx
	fi       *core.FuncInfo
	info     *types.Info
	key, sch ast.Expr // the key and the schema of the write, as expressions of fi
	flag     types.Object
	flags    map[types.Object]bool // further independent flags OR-ed into the result (what other steps found)
	flagSel  ast.Expr              // the flag when it is a bool member of a state object (l.replacedWithComplex)
	flagVal  bool
	placeBad string
	dirSeen  int
}

// norm renders an expression with the single-definition locals of the function expanded (r := l.ref; r.schema ->
// l.ref.schema), so that two designators of the same member compare equal.
func (r *reinEval) norm(e ast.Expr, depth int) string {
	e = core.Unparen(e)
	if depth > 4 {
		return exprStr(e)
	}
	switch x := e.(type) {
	case *ast.Ident:
		if r.info != nil {
			if o := core.ObjOf(r.info, x); o != nil {
				if defs := r.c.P.Locals(r.fi).Defs[o]; len(defs) == 1 && defs[0].Kind == core.DefAssign && defs[0].Expr != nil {
					if _, isVar := o.(*types.Var); isVar {
						return r.norm(defs[0].Expr, depth+1)
					}
				}
			}
		}
		return x.Name
	case *ast.SelectorExpr:
		return r.norm(x.X, depth+1) + "." + x.Sel.Name
	case *ast.StarExpr:
		return r.norm(x.X, depth+1)
	case *ast.UnaryExpr:
		if x.Op == token.AND {
			return r.norm(x.X, depth+1)
		}
	}
	return exprStr(e)
}

func (r *reinEval) local(e ast.Expr) ast.Expr {
	e = core.Unparen(e)
	if o := core.ObjOf(r.info, e); o != nil {
		if _, isID := e.(*ast.Ident); isID {
			if defs := r.c.P.Locals(r.fi).Defs[o]; len(defs) == 1 && defs[0].Kind == core.DefAssign {
				return core.Unparen(defs[0].Expr)
			}
		}
	}
	return e
}

func (r *reinEval) same(a, b ast.Expr) bool {
	if a == nil || b == nil {
		return false
	}
	if sameExpr(a, b) || sameExpr(r.local(a), b) || sameExpr(a, r.local(b)) || sameExpr(r.local(a), r.local(b)) {
		return true
	}
	if r.norm(a, 0) == r.norm(b, 0) {
		return true
	}
	oa, ob := core.ObjOf(r.info, a), core.ObjOf(r.info, b)
	return oa != nil && oa == ob
}

// complexCall: the complexity predicate applied to an analysis of the written schema (through a local).
func (r *reinEval) complexCall(e ast.Expr) *ast.CallExpr {
	if cc, ok := r.local(e).(*ast.CallExpr); ok && r.c.isComplexCall(r.fi, cc) {
		return cc
	}
	return nil
}

// helperCall: e is (a local holding the first result of) a call to a module function returning a bool first.
func (r *reinEval) helperCall(e ast.Expr) *ast.CallExpr {
	e = core.Unparen(e)
	if o := core.ObjOf(r.info, e); o != nil {
		if _, isID := e.(*ast.Ident); isID {
			for _, d := range r.c.P.Locals(r.fi).Defs[o] {
				if (d.Kind == core.DefMulti && d.Index == 0 || d.Kind == core.DefAssign) && d.Expr != nil {
					e = core.Unparen(d.Expr)
				}
			}
		}
	}
	call, ok := e.(*ast.CallExpr)
	if !ok || r.c.isComplexCall(r.fi, call) {
		return nil
	}
	callee := r.c.P.StaticCallee(r.fi, call)
	if callee == nil || r.c.P.Funcs[callee] == nil {
		return nil
	}
	res := callee.Type().(*types.Signature).Results()
	if res.Len() < 1 || !core.IsBool(res.At(0).Type()) {
		return nil
	}
	return call
}

func (r *reinEval) mentionsComplex(root ast.Node, depth int) bool {
	if depth > 2 {
		return false
	}
	found := false
	ast.Inspect(root, func(m ast.Node) bool {
		x, ok := m.(ast.Expr)
		if !ok || found {
			return !found
		}
		if r.complexCall(x) != nil {
			found = true
		} else if hc := r.helperCall(x); hc != nil {
			if g := r.c.P.Funcs[r.c.P.StaticCallee(r.fi, hc)]; g != nil && g.Decl != nil && g.Decl.Body != nil {
				sub := &reinEval{c: r.c, fi: g, info: r.c.info(g)}
				if sub.mentionsComplex(g.Decl.Body, depth+1) {
					found = true
				}
			}
		}
		return !found
	})
	return found
}

func (r *reinEval) eval(e ast.Expr, dirEq, cx bool, depth int) (bool, bool) {
	if depth > 3 {
		return false, false
	}
	e = core.Unparen(e)
	switch x := e.(type) {
	case *ast.Ident:
		if r.flag != nil && core.ObjOf(r.info, x) == r.flag {
			return r.flagVal, true
		}
		if o := core.ObjOf(r.info, x); o != nil && r.flags[o] {
			return r.flagVal, true
		}
		if tv, ok := r.info.Types[x]; ok && tv.Value != nil {
			return tv.Value.String() == "true", true
		}
		if cc := r.complexCall(x); cc != nil {
			return r.eval(cc, dirEq, cx, depth)
		}
		if hc := r.helperCall(x); hc != nil {
			return r.evalHelper(hc, dirEq, cx, depth)
		}
	case *ast.SelectorExpr:
		if r.flagSel != nil && sameExpr(x, r.flagSel) {
			return r.flagVal, true
		}
	case *ast.UnaryExpr:
		if x.Op == token.NOT {
			v, ok := r.eval(x.X, dirEq, cx, depth)
			return !v, ok
		}
	case *ast.BinaryExpr:
		switch x.Op {
		case token.LAND, token.LOR:
			a, ak := r.eval(x.X, dirEq, cx, depth)
			b, bk := r.eval(x.Y, dirEq, cx, depth)
			if x.Op == token.LAND {
				return a && b, ak && bk
			}
			return a || b, ak && bk
		case token.EQL, token.NEQ:
			for _, pr := range [][2]ast.Expr{{x.X, x.Y}, {x.Y, x.X}} {
				s, isC := core.ConstString(r.info, pr[1])
				dir, isCall := core.Unparen(pr[0]).(*ast.CallExpr)
				if !isC || s != "#/definitions" || !isCall || len(dir.Args) != 1 {
					continue
				}
				if cal := r.c.P.CalleeAny(r.fi, dir); cal == nil || cal.FullName() != "path.Dir" {
					continue
				}
				r.dirSeen++
				if !r.same(dir.Args[0], r.key) {
					r.placeBad = "the top-level test looks at " + exprStr(dir.Args[0]) + " but the schema was written at " + exprStr(r.key)
				}
				return dirEq == (x.Op == token.EQL), true
			}
		}
	case *ast.CallExpr:
		if r.c.isComplexCall(r.fi, x) {
			// the analysed schema must be the one written
			if sel, ok := core.Unparen(x.Fun).(*ast.SelectorExpr); ok {
				if o := core.ObjOf(r.info, sel.X); o != nil {
					for _, d := range r.c.P.Locals(r.fi).Defs[o] {
						if sc, ok := core.Unparen(d.Expr).(*ast.CallExpr); ok && len(sc.Args) >= 1 {
							if v := r.c.fieldOfLiteral(r.fi, r.info, sc.Args[0], "Schema", 0); v != nil && r.same(v, r.sch) {
								return cx, true
							}
							// a helper that analyses its argument: analyzeChild(sch, …)
							for _, a := range sc.Args {
								if r.same(a, r.sch) {
									return cx, true
								}
							}
						}
					}
				}
			}
			return false, false
		}
		if hc := r.helperCall(x); hc != nil {
			return r.evalHelper(hc, dirEq, cx, depth)
		}
	}
	return false, false
}

// evalHelper evaluates a helper g(…key…, …schema…) that computes the condition: its substantive return (the one
// that looks at the complexity predicate) is evaluated with g's own parameters standing for the key and the schema;
// every other return must be the constant false (not an inline schema: nothing re-inlined).
func (r *reinEval) evalHelper(call *ast.CallExpr, dirEq, cx bool, depth int) (bool, bool) {
	g := r.c.P.Funcs[r.c.P.StaticCallee(r.fi, call)]
	if g == nil || g.Decl == nil || g.Decl.Body == nil {
		return false, false
	}
	ginfo := r.c.info(g)
	sub := &reinEval{c: r.c, fi: g, info: ginfo}
	i := 0
	for _, f := range g.Decl.Type.Params.List {
		for _, nm := range f.Names {
			if i < len(call.Args) {
				if r.same(call.Args[i], r.key) {
					sub.key = nm
				}
				if r.same(call.Args[i], r.sch) {
					sub.sch = nm
				}
				// the schema (or the key) reached through a member of the argument: f(…, rec, …) with the write on rec.schema
				for _, tgt := range []struct {
					e   ast.Expr
					set func(ast.Expr)
				}{{r.sch, func(x ast.Expr) { sub.sch = x }}, {r.key, func(x ast.Expr) { sub.key = x }}} {
					if tgt.e == nil {
						continue
					}
					t, a := r.norm(tgt.e, 0), r.norm(call.Args[i], 0)
					if strings.HasPrefix(t, a+".") {
						if px, err := parser.ParseExpr(nm.Name + strings.TrimPrefix(t, a)); err == nil {
							tgt.set(px)
						}
					}
				}
			}
			i++
		}
		if len(f.Names) == 0 {
			i++
		}
	}
	// a method of a state object built in the caller: l := &T{f: V, …}; l.helper(…) — inside the helper, recv.f stands
	// for V, so the schema (or key) of the write reached as V.rest is recv.f.rest there
	if sel, isSel := core.Unparen(call.Fun).(*ast.SelectorExpr); isSel && g.Decl.Recv != nil && len(g.Decl.Recv.List) == 1 && len(g.Decl.Recv.List[0].Names) == 1 {
		recvName := g.Decl.Recv.List[0].Names[0].Name
		if o := core.ObjOf(r.info, sel.X); o != nil {
			if defs := r.c.P.Locals(r.fi).Defs[o]; len(defs) == 1 && defs[0].Kind == core.DefAssign && defs[0].Expr != nil {
				lit := core.Unparen(defs[0].Expr)
				if u, isAddr := lit.(*ast.UnaryExpr); isAddr && u.Op == token.AND {
					lit = core.Unparen(u.X)
				}
				if cl, isLit := lit.(*ast.CompositeLit); isLit {
					for _, el := range cl.Elts {
						kv, ok := el.(*ast.KeyValueExpr)
						if !ok {
							continue
						}
						fname, ok := kv.Key.(*ast.Ident)
						if !ok {
							continue
						}
						v := r.norm(kv.Value, 0)
						for _, tgt := range []struct {
							e   ast.Expr
							set func(ast.Expr)
						}{{r.sch, func(x ast.Expr) { sub.sch = x }}, {r.key, func(x ast.Expr) { sub.key = x }}} {
							if tgt.e == nil {
								continue
							}
							t := r.norm(tgt.e, 0)
							if t == v || strings.HasPrefix(t, v+".") {
								if px, err := parser.ParseExpr(recvName + "." + fname.Name + strings.TrimPrefix(t, v)); err == nil {
									tgt.set(px)
								}
							}
						}
					}
				}
			}
		}
	}
	var main ast.Expr
	okOthers := true
	ast.Inspect(g.Decl.Body, func(nd ast.Node) bool {
		if _, isLit := nd.(*ast.FuncLit); isLit {
			return false
		}
		ret, ok := nd.(*ast.ReturnStmt)
		if !ok || len(ret.Results) < 1 {
			return true
		}
		if sub.mentionsComplex(ret.Results[0], depth+1) {
			main = ret.Results[0]
			return true
		}
		if tv, isC := ginfo.Types[ret.Results[0]]; !isC || tv.Value == nil || tv.Value.String() != "false" {
			okOthers = false
		}
		return true
	})
	if main == nil || !okOthers {
		return false, false
	}
	v, k := sub.eval(main, dirEq, cx, depth+1)
	r.dirSeen += sub.dirSeen
	if sub.placeBad != "" {
		r.placeBad = sub.placeBad + " (in " + g.Name() + ")"
	}
	if sub.key == nil && sub.dirSeen > 0 {
		r.placeBad = "the helper " + g.Name() + " does not receive the key the schema was written at"
	}
	return v, k
}

// prefixSepRule (C04, ENC-PREFIXSEP): where a key is recognised as lying under another JSON pointer by a prefix
// test and then rewritten by trimming that prefix, the prefix tested must end with the separator '/' — the trimmed
// prefix plus "/" — otherwise a sibling whose last token merely starts with the same characters (fooOAIGen /
// fooOAIGen1) is rewritten to a pointer that does not exist.
func (c *Ctx) prefixSepRule(reach []*core.FuncInfo) {
	n := 0
	for _, fi := range reach {
		info := c.info(fi)
		pm := c.parents(fi)
		for _, call := range calls(fi.Decl.Body) {
			cal := c.P.CalleeAny(fi, call)
			if cal == nil || cal.FullName() != "strings.TrimPrefix" || len(call.Args) != 2 {
				continue
			}
			// the dominating prefix test on the same subject
			var test *ast.CallExpr
			for _, cd := range c.conds(fi, call) {
				if cd.Kind != core.CondBool || cd.Neg {
					continue
				}
				// the test itself, or an operand of a disjunction (x == p || strings.HasPrefix(x, p+"/"))
				ast.Inspect(cd.Expr, func(m ast.Node) bool {
					if hc, ok := m.(*ast.CallExpr); ok && len(hc.Args) == 2 {
						if hcal := c.P.CalleeAny(fi, hc); hcal != nil && hcal.FullName() == "strings.HasPrefix" && sameExpr(hc.Args[0], call.Args[0]) {
							test = hc
						}
					}
					return true
				})
			}
			// switch { case strings.HasPrefix(x, p): … }
			if test == nil {
				if cc, ok := pm.Enclosing(call, func(n ast.Node) bool { _, b := n.(*ast.CaseClause); return b }).(*ast.CaseClause); ok {
					for _, ce := range cc.List {
						if hc, ok := core.Unparen(ce).(*ast.CallExpr); ok && len(hc.Args) == 2 {
							if hcal := c.P.CalleeAny(fi, hc); hcal != nil && hcal.FullName() == "strings.HasPrefix" && sameExpr(hc.Args[0], call.Args[0]) {
								test = hc
							}
						}
					}
				}
			}
			if test == nil {
				continue
			}
			// only pointer-like subjects: the trimmed remainder is joined back into a path
			joined := false
			for p := pm[call]; p != nil; p = pm[p] {
				if jc, ok := p.(*ast.CallExpr); ok {
					if jcal := c.P.CalleeAny(fi, jc); jcal != nil && jcal.FullName() == "path.Join" {
						joined = true
					}
				}
				if _, isStmt := p.(ast.Stmt); isStmt {
					break
				}
			}
			if !joined {
				continue
			}
			n++
			ok := false
			pfx := core.Unparen(test.Args[1])
			if o := core.ObjOf(info, pfx); o != nil {
				// nested := old + "/"
				if defs := c.P.Locals(fi).Defs[o]; len(defs) == 1 && defs[0].Kind == core.DefAssign {
					pfx = core.Unparen(defs[0].Expr)
				}
			}
			if be, isB := pfx.(*ast.BinaryExpr); isB && be.Op == token.ADD {
				if s, isC := core.ConstString(info, be.Y); isC && s == "/" && sameExpr(be.X, call.Args[1]) {
					ok = true
				}
			}
			if s, isC := core.ConstString(info, pfx); isC && strings.HasSuffix(s, "/") {
				ok = true
			}
			c.S.Decide(ok, "C04", "ENC-PREFIXSEP", fi.QName()+"/TrimPrefix", c.P.Pos(test.Pos()),
				"the prefix test includes the '/' separator after the pointer that is trimmed",
				"the key is taken to lie under "+exprStr(call.Args[1])+" by strings.HasPrefix("+exprStr(test.Args[0])+", "+exprStr(test.Args[1])+"), which also matches a sibling whose name merely starts with the same characters: that sibling's pointer is rewritten to a place that does not exist and the next rewrite fails")
		}
	}
	if n < 1 {
		c.S.Note("ENC-PREFIXSEP: no prefix-test-then-trim rewrite of pointers found (one on the pinned tree: the parents fix-up of stripOAIGenForRef); the rule is vacuous for other ways of writing it")
	}
}

// resolveSkipped (C09): a $ref that a phase skips because it already has the canonical form '#/definitions/<name>'
// must still be looked up, otherwise a dangling local $ref is never noticed and Flatten reports success.
func (c *Ctx) resolveSkipped(reach []*core.FuncInfo) {
	n := 0
	for _, fi := range reach {
		if fi.Pkg.PkgPath != core.ModPath {
			continue
		}
		info := c.info(fi)
		ast.Inspect(fi.Decl.Body, func(nd ast.Node) bool {
			rs, ok := nd.(*ast.RangeStmt)
			if !ok || rs.Value == nil || !core.IsMap(info.TypeOf(rs.X)) {
				return true
			}
			refObj := core.ObjOf(info, rs.Value)
			if refObj == nil || !core.IsSpecType(refObj.Type(), "Ref") {
				return true
			}
			for _, st := range rs.Body.List {
				ifs, ok := st.(*ast.IfStmt)
				if !ok || len(ifs.Body.List) == 0 {
					continue
				}
				br, isBr := ifs.Body.List[len(ifs.Body.List)-1].(*ast.BranchStmt)
				if !isBr || br.Tok.String() != "continue" {
					continue
				}
				be, ok := core.Unparen(ifs.Cond).(*ast.BinaryExpr)
				if !ok || be.Op.String() != "==" {
					continue
				}
				s, isC := core.ConstString(info, be.Y)
				dir, isCall := core.Unparen(be.X).(*ast.CallExpr)
				if !isC || s != "#/definitions" || !isCall || !strings.HasPrefix(exprStr(dir.Fun), "path.Dir") || !strings.Contains(exprStr(dir), refObj.Name()+".String()") {
					continue
				}
				n++
				resolves, returnsErr := false, false
				ast.Inspect(ifs.Body, func(m ast.Node) bool {
					switch x := m.(type) {
					case *ast.CallExpr:
						uses := false
						ast.Inspect(x, func(y ast.Node) bool {
							if id, ok := y.(*ast.Ident); ok && info.Uses[id] == refObj {
								uses = true
							}
							return true
						})
						if sel, ok := core.Unparen(x.Fun).(*ast.SelectorExpr); ok && uses {
							switch sel.Sel.Name {
							case "Get", "DeepestRef", "ResolveRefWithBase", "ResolveRef":
								resolves = true
							}
						}
					case *ast.ReturnStmt:
						for _, r := range x.Results {
							if core.IsErrorType(info.TypeOf(r)) && !core.IsNilExpr(info, r) {
								returnsErr = true
							}
						}
					}
					return true
				})
				c.S.Decide(resolves && returnsErr, "C09", "ERR-RESOLVE-SKIPPED", fi.QName()+"/range "+exprStr(rs.X), c.P.Pos(ifs.Pos()),
					"a $ref skipped as already canonical is still resolved, and a failure is returned",
					"$refs of the form '#/definitions/<name>' are skipped without being resolved: a dangling local $ref is never noticed and Flatten reports success")
			}
			return true
		})
	}
	if n < 1 {
		c.S.Note("ERR-RESOLVE-SKIPPED: no canonical-ref skip found below Flatten")
	}
}

// rebaseRule (C01): in the import step, every $ref of the imported schema is rewritten through
// normalize.RebaseRef (relative to the importing $ref) before the schema is saved.
func (c *Ctx) rebaseRule(reach []*core.FuncInfo) {
	found := false
	for _, fi := range reach {
		var resolve, save *ast.CallExpr
		for _, call := range calls(fi.Decl.Body) {
			callee := c.P.CalleeAny(fi, call)
			if callee == nil {
				continue
			}
			switch callee.FullName() {
			case "github.com/go-openapi/spec.ResolveRefWithBase":
				resolve = call
			case core.ModPath + "/internal/flatten/schutils.Save":
				save = call
			default:
				// a wrapper of the resolution: a module function returning (*spec.Schema, error) that reaches it
				if g := c.P.Funcs[callee]; g != nil && resolve == nil {
					if res := callee.Type().(*types.Signature).Results(); res.Len() == 2 && core.IsPointer(res.At(0).Type()) && core.IsSpecType(res.At(0).Type(), "Schema") &&
						c.reachesExternal(g, "github.com/go-openapi/spec.ResolveRefWithBase") && !c.reachesExternal(g, core.ModPath+"/internal/flatten/schutils.Save") {
						resolve = call
					}
				}
			}
		}
		if resolve == nil || save == nil {
			continue
		}
		found = true
		info := c.info(fi)
		// the resolved schema variable
		var schObj types.Object
		if as, ok := c.parents(fi)[resolve].(*ast.AssignStmt); ok && len(as.Lhs) >= 1 {
			schObj = core.ObjOf(info, as.Lhs[0])
		}
		// the importing $ref: the String() of a spec.Ref rooted at a parameter
		isImportingRef := func(e ast.Expr) bool {
			e = core.Unparen(e)
			if o := core.ObjOf(info, e); o != nil {
				if defs := c.P.Locals(fi).Defs[o]; len(defs) == 1 && defs[0].Kind == core.DefAssign {
					e = core.Unparen(defs[0].Expr)
				}
			}
			bc, ok := e.(*ast.CallExpr)
			if !ok {
				return false
			}
			bs, ok := core.Unparen(bc.Fun).(*ast.SelectorExpr)
			if !ok || bs.Sel.Name != "String" || !core.IsSpecType(info.TypeOf(bs.X), "Ref") {
				return false
			}
			id := rootIdent(bs.X)
			if id == nil {
				return false
			}
			o := core.ObjOf(info, id)
			return o != nil && c.P.Locals(fi).Params[o]
		}
		ok, why := c.rebaseLoop(fi, fi.Decl.Body, schObj, isImportingRef, resolve.Pos(), save.Pos())
		if !ok {
			// the loop may live in a helper called between the resolution and the save with the schema and the
			// importing $ref
			for _, call := range calls(fi.Decl.Body) {
				if call.Pos() < resolve.Pos() || call.Pos() > save.Pos() {
					continue
				}
				callee := c.P.StaticCallee(fi, call)
				g := c.P.Funcs[callee]
				if callee == nil || g == nil || g.Decl == nil || g.Decl.Body == nil {
					continue
				}
				si, bi := -1, -1
				for i, a := range call.Args {
					if schObj != nil && core.ObjOf(info, a) == schObj {
						si = i
					}
					if isImportingRef(a) {
						bi = i
					}
					// the importing $ref itself (a spec.Ref rooted at a parameter), stringified by the helper
					if core.IsSpecType(info.TypeOf(a), "Ref") {
						if id := rootIdent(a); id != nil {
							if o := core.ObjOf(info, id); o != nil && c.P.Locals(fi).Params[o] {
								bi = i
							}
						}
					}
				}
				if si < 0 || bi < 0 {
					continue
				}
				gs, gb := paramObj(g, si), paramObj(g, bi)
				ginfo := c.info(g)
				ok2, why2 := c.rebaseLoop(g, g.Decl.Body, gs, func(e ast.Expr) bool {
					if gb == nil {
						return false
					}
					e = core.Unparen(e)
					if core.ObjOf(ginfo, e) == types.Object(gb) {
						return true
					}
					// <param>.String() of a spec.Ref parameter, directly or through a local
					if o := core.ObjOf(ginfo, e); o != nil {
						if defs := c.P.Locals(g).Defs[o]; len(defs) == 1 && defs[0].Kind == core.DefAssign {
							e = core.Unparen(defs[0].Expr)
						}
					}
					if bc, ok := e.(*ast.CallExpr); ok {
						if bs, ok := core.Unparen(bc.Fun).(*ast.SelectorExpr); ok && bs.Sel.Name == "String" && core.ObjOf(ginfo, bs.X) == types.Object(gb) {
							return true
						}
					}
					return false
				}, g.Decl.Body.Pos(), g.Decl.Body.End())
				if ok2 {
					ok = true
				} else {
					why = why2 + " (in " + g.Name() + ")"
				}
			}
		}
		if !ok {
			// the resolution and the rebasing may live together in the helper that hands out the schema:
			// sch, err := resolveRemoteSchema(&entry.Ref, opts)
			if g := c.P.Funcs[c.P.StaticCallee(fi, resolve)]; g != nil && g.Decl != nil && g.Decl.Body != nil {
				ginfo := c.info(g)
				var retObj types.Object
				ast.Inspect(g.Decl.Body, func(nd ast.Node) bool {
					if _, isLit := nd.(*ast.FuncLit); isLit {
						return false
					}
					if ret, isRet := nd.(*ast.ReturnStmt); isRet && len(ret.Results) == 2 && core.IsNilExpr(ginfo, ret.Results[1]) {
						retObj = core.ObjOf(ginfo, ret.Results[0])
					}
					return true
				})
				// the importing $ref: a parameter of type (*)spec.Ref, stringified directly or through a local
				refParam := map[types.Object]bool{}
				gsig := g.Obj.Type().(*types.Signature)
				for i := 0; i < gsig.Params().Len(); i++ {
					if core.IsSpecType(core.Deref(gsig.Params().At(i).Type()), "Ref") {
						refParam[gsig.Params().At(i)] = true
					}
				}
				// the argument handed in at the call site is the importing $ref (rooted at a parameter of fi)
				fed := false
				for _, a := range resolve.Args {
					x := core.Unparen(a)
					if u, isAddr := x.(*ast.UnaryExpr); isAddr && u.Op == token.AND {
						x = core.Unparen(u.X)
					}
					if core.IsSpecType(core.Deref(info.TypeOf(x)), "Ref") {
						if id := rootIdent(x); id != nil {
							if o := core.ObjOf(info, id); o != nil && c.P.Locals(fi).Params[o] {
								fed = true
							}
						}
					}
				}
				if retObj != nil && fed && len(refParam) > 0 {
					ok2, why2 := c.rebaseLoop(g, g.Decl.Body, retObj, func(e ast.Expr) bool {
						e = core.Unparen(e)
						if o := core.ObjOf(ginfo, e); o != nil {
							if defs := c.P.Locals(g).Defs[o]; len(defs) == 1 && defs[0].Kind == core.DefAssign {
								e = core.Unparen(defs[0].Expr)
							}
						}
						if bc, isCall := e.(*ast.CallExpr); isCall {
							if bs, isSel := core.Unparen(bc.Fun).(*ast.SelectorExpr); isSel && bs.Sel.Name == "String" && refParam[core.ObjOf(ginfo, bs.X)] {
								return true
							}
						}
						return false
					}, g.Decl.Body.Pos(), g.Decl.Body.End())
					if ok2 {
						ok = true
					} else {
						why = why2 + " (in " + g.Name() + ")"
					}
				}
			}
		}
		c.S.Decide(ok, "C01", "PIPE-REBASE", fi.QName(), c.P.Pos(save.Pos()),
			"every $ref inside an imported schema is rebased relative to the importing $ref before the schema becomes a definition",
			why+": relative $refs inside the imported schema would be resolved against the wrong document")
	}
	if !found {
		c.S.Undecided("C01", "PIPE-REBASE", "anchor", "-", "no function both resolves a remote $ref and saves the result")
	}
}

// rebaseLoop: between the two positions, a loop over the all-references index of an analysis of the schema rewrites
// every $ref with UpdateRef(schema, key, MustCreateRef(RebaseRef(<importing ref>, <loop ref>.String()))).
func (c *Ctx) rebaseLoop(fi *core.FuncInfo, body ast.Node, schObj types.Object, isBase func(ast.Expr) bool, from, to token.Pos) (bool, string) {
	info := c.info(fi)
	ok := false
	why := "no loop rewrites the $refs of the imported schema through normalize.RebaseRef before it is saved"
	resolveLocal := func(e ast.Expr) ast.Expr {
		e = core.Unparen(e)
		if o := core.ObjOf(info, e); o != nil {
			if _, isID := e.(*ast.Ident); isID {
				if defs := c.P.Locals(fi).Defs[o]; len(defs) == 1 && defs[0].Kind == core.DefAssign {
					return core.Unparen(defs[0].Expr)
				}
			}
		}
		return e
	}
	ast.Inspect(body, func(n ast.Node) bool {
		rs, isRange := n.(*ast.RangeStmt)
		if !isRange || rs.Pos() > to || rs.Pos() < from {
			return true
		}
		// ranges over the all-references index of an analyzer
		sel, isSel := core.Unparen(rs.X).(*ast.SelectorExpr)
		if !isSel {
			return true
		}
		allField, _ := getterField(c, "AllReferences")
		if allField == nil || core.FieldOf(info, sel) != allField {
			return true
		}
		// that analyzer analysed the resolved schema
		analysed := false
		for _, call := range calls(body) {
			if call.Pos() > rs.Pos() {
				continue
			}
			for _, a := range call.Args {
				if core.ObjOf(info, a) == schObj && schObj != nil {
					if s2, ok := core.Unparen(call.Fun).(*ast.SelectorExpr); ok && strings.HasPrefix(exprStr(sel.X), exprStr(s2.X)) {
						analysed = true
					}
				}
			}
		}
		rebased := false
		for _, call := range calls(rs.Body) {
			callee := c.P.CalleeAny(fi, call)
			if callee == nil || callee.Name() != "UpdateRef" || len(call.Args) < 3 {
				continue
			}
			if core.ObjOf(info, call.Args[0]) != schObj || core.ObjOf(info, call.Args[1]) != core.ObjOf(info, rs.Key) {
				continue
			}
			for _, inner := range calls(resolveLocal(call.Args[2])) {
				if ic := c.P.CalleeAny(fi, inner); ic != nil && ic.Name() == "RebaseRef" && len(inner.Args) == 2 {
					if isBase(inner.Args[0]) && strings.Contains(exprStr(inner.Args[1]), exprStr(rs.Value)) {
						rebased = true
					}
				}
			}
		}
		switch {
		case !analysed:
			why = "the loop over " + exprStr(rs.X) + " does not range over an analysis of the imported schema"
		case !rebased:
			why = "the loop over the imported schema's $refs does not rewrite each of them with normalize.RebaseRef(<importing $ref>, <inner $ref>)"
		default:
			ok = true
		}
		return true
	})
	return ok, why
}

// canonicalRefs (C02): every $ref written into the document by a flattening phase is '#/definitions/<name>'
// by construction, or is proven to be one by the dominating top-level test.
func (c *Ctx) canonicalRefs(reach []*core.FuncInfo) {
	n := 0
	for _, fi := range reach {
		if fi.Pkg.PkgPath != core.ModPath {
			continue
		}
		info := c.info(fi)
		for _, call := range calls(fi.Decl.Body) {
			callee := c.P.CalleeAny(fi, call)
			if callee == nil || callee.Pkg() == nil || !strings.HasSuffix(callee.Pkg().Path(), "/replace") {
				continue
			}
			if callee.Name() != "UpdateRef" && callee.Name() != "RewriteSchemaToRef" {
				continue
			}
			if len(call.Args) < 3 {
				continue
			}
			// the target document: only writes into the root document count (not into a schema being imported)
			if !core.IsSpecType(info.TypeOf(call.Args[0]), "Swagger") {
				continue
			}
			n++
			ref := core.Unparen(call.Args[2])
			key := fi.QName() + "/" + callee.Name()
			c.baseNameRule(fi, call, ref, key)
			ok, how := c.isCanonicalRef(fi, ref, call)
			if !ok {
				if why := refTransientWhy; c.refIsFirstParent(fi, ref) {
					// the exemption holds only while the write raises the re-run flag when the ref is not a definition
					raised := c.raisesRerunFlag(fi, call, ref)
					if raised {
						for _, pr := range []string{"C02", "C05"} {
							c.S.Exempt(pr, "REF-CANONICAL", key, c.P.Pos(call.Pos()), why)
						}
					} else {
						c.S.Violate("C05", "REF-CANONICAL", key, c.P.Pos(call.Pos()), "a possibly non-canonical $ref is written without telling the caller (see the C02 obligation)")
						c.S.Violate("C02", "REF-CANONICAL", key, c.P.Pos(call.Pos()),
							"a possibly non-canonical $ref ("+exprStr(ref)+") is written and the function does not tell its caller (no `flag = flag || path.Dir(ref) != \"#/definitions\"` next to the write): pointer naming is not run again and the anonymous pointer survives")
					}
					continue
				}
			}
			c.S.Decide(ok, "C02", "REF-CANONICAL", key, c.P.Pos(call.Pos()),
				"the written $ref is "+how,
				"the $ref written here ("+exprStr(ref)+") is neither built as '#/definitions/'+name nor guarded by the top-level-definition test: a non-canonical $ref can survive flattening")
			c.S.Decide(ok, "C05", "REF-CANONICAL", key, c.P.Pos(call.Pos()),
				"the written $ref is "+how,
				"the $ref written here ("+exprStr(ref)+") is neither built as '#/definitions/'+name nor guarded by the top-level-definition test: a non-canonical $ref can survive flattening")
		}
	}
	if n < 6 {
		c.S.Undecided("C02", "REF-CANONICAL", "floor", "-", fmt.Sprintf("only %d $ref writes into the root document found (confirmed by hand: 8)", n))
	}
}

// isDefsJoin: the string expression is path.Join("#/definitions", X), a local holding one, or a parameter that
// receives one at every call site of the function.
func (c *Ctx) isDefsJoin(fi *core.FuncInfo, e ast.Expr, depth int) bool {
	info := c.info(fi)
	e = core.Unparen(e)
	if depth > 3 {
		return false
	}
	if o := core.ObjOf(info, e); o != nil {
		if idx, isParam := c.paramIndexOf(fi, o); isParam {
			sites := 0
			for _, caller := range c.P.SortedFuncs() {
				for _, call := range calls(caller.Decl.Body) {
					if c.P.StaticCallee(caller, call) != fi.Obj {
						continue
					}
					sites++
					if idx >= len(call.Args) || !c.isDefsJoin(caller, call.Args[idx], depth+1) {
						return false
					}
				}
			}
			return sites > 0
		}
		defs := c.P.Locals(fi).Defs[o]
		if len(defs) == 1 && defs[0].Kind == core.DefAssign {
			return c.isDefsJoin(fi, defs[0].Expr, depth+1)
		}
		return false
	}
	j, ok := e.(*ast.CallExpr)
	if !ok {
		return false
	}
	// a module helper (function or method) whose single result is such a join: d.pointer()
	if g := c.singleReturn(fi, j); g != nil {
		return c.isDefsJoin(g.fi, g.e, depth+1)
	}
	jc := c.P.CalleeAny(fi, j)
	if jc == nil || jc.FullName() != "path.Join" || len(j.Args) != 2 {
		return false
	}
	s, isConst := core.ConstString(info, j.Args[0])
	return isConst && s == "#/definitions"
}

// singleReturn: the call is to a module function whose body is a single return of one expression.
func (c *Ctx) singleReturn(fi *core.FuncInfo, call *ast.CallExpr) *exprIn {
	callee := c.P.StaticCallee(fi, call)
	g := c.P.Funcs[callee]
	if callee == nil || g == nil || g.Decl == nil || g.Decl.Body == nil || len(g.Decl.Body.List) != 1 {
		return nil
	}
	ret, ok := g.Decl.Body.List[0].(*ast.ReturnStmt)
	if !ok || len(ret.Results) != 1 {
		return nil
	}
	return &exprIn{g, ret.Results[0]}
}

// paramIndexOf: index of o among the declared parameters of fi (receiver excluded).
func (c *Ctx) paramIndexOf(fi *core.FuncInfo, o types.Object) (int, bool) {
	sig := fi.Obj.Type().(*types.Signature)
	for i := 0; i < sig.Params().Len(); i++ {
		if sig.Params().At(i) == o {
			return i, true
		}
	}
	return 0, false
}

// refTransientWhy: the one role in which a possibly non-canonical $ref may be written (DESIGN §3.4): a ref to
// the first (topmost) parent of a definition being stripped, reported to the caller through the re-run flag.
const refTransientWhy = "transient: other parents are re-pointed to the first parent, possibly an anonymous pointer; the caller is told (replacedWithComplex) and pointer naming runs again on all paths"

// refIsFirstParent: the ref is spec.MustCreateRef(<element 0 of the result of sortref.TopmostFirst>).
// fieldFlowsToReturn: the expression is a bool member of a module struct (a flag carried by a state object) that some
// module function returns, alone or as an operand of a disjunction.
func (c *Ctx) fieldFlowsToReturn(fi *core.FuncInfo, e ast.Expr) bool {
	sel, ok := core.Unparen(e).(*ast.SelectorExpr)
	if !ok {
		return false
	}
	fv := core.FieldOf(c.info(fi), sel)
	if fv == nil || !core.IsBool(fv.Type()) {
		return false
	}
	for _, g := range c.P.SortedFuncs() {
		ginfo := c.info(g)
		found := false
		ast.Inspect(g.Decl.Body, func(n ast.Node) bool {
			r, isRet := n.(*ast.ReturnStmt)
			if !isRet {
				return true
			}
			for _, x := range r.Results {
				var visit func(e ast.Expr)
				visit = func(e ast.Expr) {
					e = core.Unparen(e)
					if be, ok := e.(*ast.BinaryExpr); ok && be.Op == token.LOR {
						visit(be.X)
						visit(be.Y)
						return
					}
					if s2, ok := e.(*ast.SelectorExpr); ok && core.FieldOf(ginfo, s2) == fv {
						found = true
					}
				}
				visit(x)
			}
			return true
		})
		if found {
			return true
		}
	}
	return false
}

// argOfOnlyCallSite: the expression is a parameter of fi, and fi has exactly one call site in the module: returns
// the caller and the argument.
func (c *Ctx) argOfOnlyCallSite(fi *core.FuncInfo, e ast.Expr) (*core.FuncInfo, ast.Expr) {
	o := core.ObjOf(c.info(fi), e)
	if o == nil {
		return nil, nil
	}
	idx, isParam := c.paramIndexOf(fi, o)
	if !isParam {
		return nil, nil
	}
	var caller *core.FuncInfo
	var arg ast.Expr
	sites := 0
	for _, g := range c.P.SortedFuncs() {
		for _, call := range calls(g.Decl.Body) {
			if c.P.StaticCallee(g, call) == fi.Obj && idx < len(call.Args) {
				sites++
				caller, arg = g, call.Args[idx]
			}
		}
	}
	if sites != 1 {
		return nil, nil
	}
	return caller, arg
}

func (c *Ctx) refIsFirstParent(fi *core.FuncInfo, ref ast.Expr) bool {
	info := c.info(fi)
	resolve := func(e ast.Expr) ast.Expr {
		e = core.Unparen(e)
		for i := 0; i < 3; i++ {
			o := core.ObjOf(info, e)
			if o == nil {
				break
			}
			defs := c.P.Locals(fi).Defs[o]
			if len(defs) != 1 || defs[0].Kind != core.DefAssign {
				break
			}
			e = core.Unparen(defs[0].Expr)
		}
		return e
	}
	call, ok := resolve(ref).(*ast.CallExpr)
	if !ok || len(call.Args) != 1 {
		return false
	}
	if cal := c.P.CalleeAny(fi, call); cal == nil || cal.FullName() != "github.com/go-openapi/spec.MustCreateRef" {
		return false
	}
	first := resolve(call.Args[0])
	// the first parent handed over by the only caller
	if caller, arg := c.argOfOnlyCallSite(fi, first); caller != nil {
		return c.isFirstOfTopmost(caller, arg)
	}
	return c.isFirstOfTopmost(fi, first)
}

// isFirstOfTopmost: the expression is element 0 of the result of sortref.TopmostFirst (through locals).
func (c *Ctx) isFirstOfTopmost(fi *core.FuncInfo, e ast.Expr) bool {
	info := c.info(fi)
	resolve := func(e ast.Expr) ast.Expr {
		e = core.Unparen(e)
		for i := 0; i < 3; i++ {
			o := core.ObjOf(info, e)
			if o == nil {
				break
			}
			defs := c.P.Locals(fi).Defs[o]
			if len(defs) != 1 || defs[0].Kind != core.DefAssign {
				break
			}
			e = core.Unparen(defs[0].Expr)
		}
		return e
	}
	ix, ok := resolve(e).(*ast.IndexExpr)
	if !ok {
		return false
	}
	if tv, isC := info.Types[ix.Index]; !isC || tv.Value == nil || tv.Value.String() != "0" {
		return false
	}
	src, ok := resolve(ix.X).(*ast.CallExpr)
	if !ok {
		return false
	}
	return c.isTopmostCall(fi, src, 0)
}

// isTopmostCall: the call is sortref.TopmostFirst(…), or a module function every return of which hands out the
// result of one (a `sortedParents()` helper).
func (c *Ctx) isTopmostCall(fi *core.FuncInfo, call *ast.CallExpr, depth int) bool {
	cal := c.P.CalleeAny(fi, call)
	if cal == nil || depth > 2 {
		return false
	}
	if cal.Name() == "TopmostFirst" {
		return true
	}
	g := c.P.Funcs[cal]
	if g == nil || g.Decl == nil || g.Decl.Body == nil {
		return false
	}
	ginfo := c.info(g)
	all, n := true, 0
	ast.Inspect(g.Decl.Body, func(nd ast.Node) bool {
		if _, isLit := nd.(*ast.FuncLit); isLit {
			return false
		}
		ret, isRet := nd.(*ast.ReturnStmt)
		if !isRet {
			return true
		}
		n++
		if len(ret.Results) != 1 {
			all = false
			return true
		}
		e := core.Unparen(ret.Results[0])
		for i := 0; i < 3; i++ {
			o := core.ObjOf(ginfo, e)
			if o == nil {
				break
			}
			defs := c.P.Locals(g).Defs[o]
			if len(defs) != 1 || defs[0].Kind != core.DefAssign {
				break
			}
			e = core.Unparen(defs[0].Expr)
		}
		inner, isCall := e.(*ast.CallExpr)
		if !isCall || !c.isTopmostCall(g, inner, depth+1) {
			all = false
		}
		return true
	})
	return all && n > 0
}

// raisesRerunFlag: next to the write (same block), a returned bool flag is raised when path.Dir(<ref>) is not
// the definitions prefix — either `flag = flag || path.Dir(ref) != "#/definitions"` or
// `if path.Dir(ref) != "#/definitions" { flag = true }`.
func (c *Ctx) raisesRerunFlag(fi *core.FuncInfo, site *ast.CallExpr, ref ast.Expr) bool {
	info := c.info(fi)
	refObj := core.ObjOf(info, ref)
	// the objects the path.Dir argument may mention: the ref local, or the locals its constructor was built from
	mention := map[types.Object]bool{}
	if refObj != nil {
		mention[refObj] = true
		for _, d := range c.P.Locals(fi).Defs[refObj] {
			if d.Expr != nil {
				ast.Inspect(d.Expr, func(n ast.Node) bool {
					if id, ok := n.(*ast.Ident); ok {
						if o := info.Uses[id]; o != nil {
							if _, isVar := o.(*types.Var); isVar {
								mention[o] = true
							}
						}
					}
					return true
				})
			}
		}
	}
	isNonDefTest := func(e ast.Expr) bool {
		found := false
		ast.Inspect(e, func(n ast.Node) bool {
			be, ok := n.(*ast.BinaryExpr)
			if !ok || be.Op != token.NEQ {
				return true
			}
			for _, pair := range [][2]ast.Expr{{be.X, be.Y}, {be.Y, be.X}} {
				s, isC := core.ConstString(info, pair[1])
				dir, isCall := core.Unparen(pair[0]).(*ast.CallExpr)
				if !isC || s != "#/definitions" || !isCall || len(dir.Args) != 1 {
					continue
				}
				if cal := c.P.CalleeAny(fi, dir); cal == nil || cal.FullName() != "path.Dir" {
					continue
				}
				ast.Inspect(dir.Args[0], func(m ast.Node) bool {
					if id, ok := m.(*ast.Ident); ok && mention[info.Uses[id]] {
						found = true
					}
					return true
				})
			}
			return true
		})
		return found
	}
	blk, isBlk := c.parents(fi).Enclosing(site, func(n ast.Node) bool { _, b := n.(*ast.BlockStmt); return b }).(*ast.BlockStmt)
	if !isBlk {
		return false
	}
	for _, st := range blk.List {
		switch x := st.(type) {
		case *ast.AssignStmt:
			if len(x.Lhs) != 1 || len(x.Rhs) != 1 || !core.IsBool(info.TypeOf(x.Lhs[0])) || !(c.flowsToReturn(fi, x.Lhs[0]) || c.fieldFlowsToReturn(fi, x.Lhs[0])) {
				continue
			}
			// flag = flag || <test>
			if be, ok := core.Unparen(x.Rhs[0]).(*ast.BinaryExpr); ok && be.Op == token.LOR && isNonDefTest(x.Rhs[0]) {
				return true
			}
		case *ast.IfStmt:
			if x.Init != nil || x.Else != nil || !isNonDefTest(x.Cond) {
				continue
			}
			// the test must not be weakened by a conjunction
			if be, ok := core.Unparen(x.Cond).(*ast.BinaryExpr); ok && be.Op == token.LAND {
				continue
			}
			for _, bs := range x.Body.List {
				if as, ok := bs.(*ast.AssignStmt); ok && len(as.Lhs) == 1 && len(as.Rhs) == 1 && (c.flowsToReturn(fi, as.Lhs[0]) || c.fieldFlowsToReturn(fi, as.Lhs[0])) {
					if tv, isC := info.Types[as.Rhs[0]]; isC && tv.Value != nil && tv.Value.String() == "true" {
						return true
					}
				}
			}
		}
	}
	return false
}

func (c *Ctx) isCanonicalRef(fi *core.FuncInfo, ref ast.Expr, site *ast.CallExpr) (bool, string) {
	info := c.info(fi)
	// (a) spec.MustCreateRef(path.Join("#/definitions", X))
	var isJoinDefsIn func(gfi *core.FuncInfo, e ast.Expr, depth int) bool
	isJoinDefsIn = func(gfi *core.FuncInfo, e ast.Expr, depth int) bool {
		call, ok := core.Unparen(e).(*ast.CallExpr)
		if !ok || depth > 2 {
			return false
		}
		if g := c.singleReturn(gfi, call); g != nil {
			return isJoinDefsIn(g.fi, g.e, depth+1)
		}
		cal := c.P.CalleeAny(gfi, call)
		if cal == nil || cal.FullName() != "github.com/go-openapi/spec.MustCreateRef" || len(call.Args) != 1 {
			return false
		}
		return c.isDefsJoin(gfi, call.Args[0], 0)
	}
	isJoinDefs := func(e ast.Expr) bool {
		call, ok := core.Unparen(e).(*ast.CallExpr)
		if !ok {
			return false
		}
		// a constructor of the module whose single result is the canonical reference: name.ref()
		if g := c.singleReturn(fi, call); g != nil {
			return isJoinDefsIn(g.fi, g.e, 1)
		}
		cal := c.P.CalleeAny(fi, call)
		if cal == nil || cal.FullName() != "github.com/go-openapi/spec.MustCreateRef" || len(call.Args) != 1 {
			return false
		}
		ja := core.Unparen(call.Args[0])
		// a local holding the joined path
		if o := core.ObjOf(info, ja); o != nil {
			if defs := c.P.Locals(fi).Defs[o]; len(defs) == 1 && defs[0].Kind == core.DefAssign {
				ja = core.Unparen(defs[0].Expr)
			}
		}
		return c.isDefsJoin(fi, ja, 0)
	}
	if isJoinDefs(ref) {
		return true, "built as '#/definitions/'+name"
	}
	if o := core.ObjOf(info, ref); o != nil {
		defs := c.P.Locals(fi).Defs[o]
		if len(defs) == 1 && defs[0].Kind == core.DefAssign && isJoinDefs(defs[0].Expr) {
			return true, "built as '#/definitions/'+name"
		}
	}
	// (b) guarded by a top-level test: a condition X.TopLevel where TopLevel was assigned path.Dir(<ref>.String()) == "#/definitions"
	for _, cd := range c.conds(fi, site) {
		if cd.Kind != core.CondBool || cd.Neg {
			continue
		}
		sel, ok := core.Unparen(cd.Expr).(*ast.SelectorExpr)
		if !ok || sel.Sel.Name != "TopLevel" {
			continue
		}
		refSel, ok := ref.(*ast.SelectorExpr)
		if !ok || !sameExpr(refSel.X, sel.X) {
			continue
		}
		// the last assignment to X.TopLevel before the site compares path.Dir(...) with the definitions prefix,
		// and X.Ref is assigned from the same source
		okAssign := false
		ast.Inspect(fi.Decl.Body, func(n ast.Node) bool {
			as, isAs := n.(*ast.AssignStmt)
			if !isAs || as.Pos() > site.Pos() || len(as.Lhs) != 1 || len(as.Rhs) != 1 {
				return true
			}
			if !sameExpr(as.Lhs[0], sel) {
				return true
			}
			okAssign = c.isTopLevelTest(fi, as.Rhs[0], 0)
			return true
		})
		if okAssign {
			return true, "proven top-level by the dominating test on path.Dir(ref) == '#/definitions'"
		}
		// X built as a whole: X := T{Ref: R, TopLevel: <top-level test of R>, …}, directly or by a constructor whose
		// single result is such a literal
		if xo := core.ObjOf(info, sel.X); xo != nil {
			if lfi, lit := c.recordOrigin(fi, sel.X, 0); lit != nil {
				if cl, isLit := lit.(*ast.CompositeLit); isLit {
					var refVal, topVal ast.Expr
					for _, el := range cl.Elts {
						if kv, ok := el.(*ast.KeyValueExpr); ok {
							if id, ok := kv.Key.(*ast.Ident); ok {
								switch id.Name {
								case refSel.Sel.Name:
									refVal = kv.Value
								case "TopLevel":
									topVal = kv.Value
								}
							}
						}
					}
					if refVal != nil && topVal != nil && c.isTopLevelTest(lfi, topVal, 0) && strings.Contains(exprStr(topVal), exprStr(refVal)) {
						return true, "proven top-level by the dominating test on a record built with TopLevel = (path.Dir(ref) == '#/definitions') of the same ref"
					}
				}
			}
		}
	}
	// (b') guarded directly: the write is dominated by path.Dir(<ref>.String()) == "#/definitions" on the very
	// reference that is written (no flag in between)
	for _, cd := range c.conds(fi, site) {
		if cd.Kind != core.CondBool || cd.Neg {
			continue
		}
		be, isBin := core.Unparen(cd.Expr).(*ast.BinaryExpr)
		if !isBin || !c.isTopLevelTest(fi, be, 0) {
			continue
		}
		for _, side := range []ast.Expr{be.X, be.Y} {
			dir, isCall := core.Unparen(side).(*ast.CallExpr)
			if !isCall || len(dir.Args) != 1 {
				continue
			}
			if recv, _ := c.refStringSource(fi, dir.Args[0]); recv != nil && sameExpr(recv, ref) && !c.mayChangeBetween(fi, ref, cd.Expr.Pos(), site.Pos()) {
				return true, "proven top-level by the dominating test path.Dir(ref) == '#/definitions' on the reference written"
			}
		}
	}
	// (c) the reference already held at this key, with a prefix (the document part) stripped and nothing else:
	// spec.MustCreateRef(strings.TrimPrefix(<w>.String(), X)) at the key k of `for k, w := range <index of $refs>`
	if c.isStrippedSameRef(fi, ref, site) || c.isStrippedCollectedRef(fi, ref, site) || c.isStrippedRecordedRef(fi, ref, site) {
		return true, "the $ref already at this key with its document part stripped (its fragment is unchanged: canonical exactly when it was)"
	}
	return false, ""
}

// recordOrigin follows a record variable to the composite literal that built it: through single-definition locals,
// the first result of a call (x, err := f()), single-return constructors, and functions all of whose substantive
// returns (those that do not return a non-nil error) yield the same kind of value.
func (c *Ctx) recordOrigin(fi *core.FuncInfo, e ast.Expr, depth int) (*core.FuncInfo, ast.Expr) {
	if depth > 5 || e == nil {
		return nil, nil
	}
	info := c.info(fi)
	e = core.Unparen(e)
	switch x := e.(type) {
	case *ast.CompositeLit:
		return fi, x
	case *ast.UnaryExpr:
		if x.Op == token.AND {
			return c.recordOrigin(fi, x.X, depth+1)
		}
	case *ast.Ident:
		o := core.ObjOf(info, x)
		if o == nil {
			return nil, nil
		}
		defs := c.P.Locals(fi).Defs[o]
		if len(defs) != 1 || defs[0].Expr == nil {
			return nil, nil
		}
		if defs[0].Kind == core.DefAssign || defs[0].Kind == core.DefMulti && defs[0].Index == 0 {
			return c.recordOrigin(fi, defs[0].Expr, depth+1)
		}
	case *ast.CallExpr:
		g := c.P.Funcs[c.P.StaticCallee(fi, x)]
		if g == nil || g.Decl == nil || g.Decl.Body == nil {
			return nil, nil
		}
		ginfo := c.info(g)
		var ofi *core.FuncInfo
		var lit ast.Expr
		okAll := true
		ast.Inspect(g.Decl.Body, func(n ast.Node) bool {
			if _, isLit := n.(*ast.FuncLit); isLit {
				return false
			}
			ret, isRet := n.(*ast.ReturnStmt)
			if !isRet || len(ret.Results) == 0 {
				return true
			}
			// error returns carry no record
			if last := ret.Results[len(ret.Results)-1]; len(ret.Results) > 1 && core.IsErrorType(ginfo.TypeOf(last)) && !core.IsNilExpr(ginfo, last) {
				return true
			}
			f2, l2 := c.recordOrigin(g, ret.Results[0], depth+1)
			if l2 == nil {
				okAll = false
				return true
			}
			if lit == nil {
				ofi, lit = f2, l2
			}
			return true
		})
		if okAll && lit != nil {
			return ofi, lit
		}
	}
	return nil, nil
}

// refStringSource: the expression (through single-assignment locals) is <x>.String() on a spec.Ref, possibly inside
// strings.TrimPrefix(·, X); returns the receiver x and whether only prefix stripping was applied.
func (c *Ctx) refStringSource(fi *core.FuncInfo, e ast.Expr) (recv ast.Expr, onlyStrip bool) {
	info := c.info(fi)
	onlyStrip = true
	for i := 0; i < 6; i++ {
		e = core.Unparen(e)
		if o := core.ObjOf(info, e); o != nil {
			if _, isID := e.(*ast.Ident); isID {
				defs := c.P.Locals(fi).Defs[o]
				if len(defs) == 1 && defs[0].Kind == core.DefAssign && defs[0].Expr != nil {
					e = defs[0].Expr
					continue
				}
			}
			return nil, false
		}
		call, ok := e.(*ast.CallExpr)
		if !ok {
			return nil, false
		}
		if cal := c.P.CalleeAny(fi, call); cal != nil && cal.FullName() == "strings.TrimPrefix" && len(call.Args) == 2 {
			e = call.Args[0]
			continue
		}
		if sel, isSel := core.Unparen(call.Fun).(*ast.SelectorExpr); isSel && sel.Sel.Name == "String" && len(call.Args) == 0 &&
			core.IsSpecType(info.TypeOf(sel.X), "Ref") {
			return sel.X, onlyStrip
		}
		return nil, false
	}
	return nil, false
}

// isStrippedSameRef: see form (c) of isCanonicalRef.
func (c *Ctx) isStrippedSameRef(fi *core.FuncInfo, ref ast.Expr, site *ast.CallExpr) bool {
	info := c.info(fi)
	ref = core.Unparen(ref)
	if o := core.ObjOf(info, ref); o != nil {
		if defs := c.P.Locals(fi).Defs[o]; len(defs) == 1 && defs[0].Kind == core.DefAssign && defs[0].Expr != nil {
			ref = core.Unparen(defs[0].Expr)
		}
	}
	mk, ok := ref.(*ast.CallExpr)
	if !ok || len(mk.Args) != 1 {
		return false
	}
	if cal := c.P.CalleeAny(fi, mk); cal == nil || cal.FullName() != "github.com/go-openapi/spec.MustCreateRef" {
		return false
	}
	recv, onlyStrip := c.refStringSource(fi, mk.Args[0])
	if recv == nil || !onlyStrip {
		return false
	}
	// the site rewrites the key of the loop whose value is that reference
	rs, _ := c.parents(fi).Enclosing(site, func(n ast.Node) bool { _, r := n.(*ast.RangeStmt); return r }).(*ast.RangeStmt)
	if rs == nil || rs.Key == nil || rs.Value == nil || len(site.Args) < 2 {
		return false
	}
	return core.ObjOf(info, site.Args[1]) != nil && core.ObjOf(info, site.Args[1]) == core.ObjOf(info, rs.Key) &&
		core.ObjOf(info, recv) != nil && core.ObjOf(info, recv) == core.ObjOf(info, rs.Value)
}

// isStrippedCollectedRef: the two-pass variant of form (c): a first loop `for k, w := range <refs>` stores
// M[k] = w.String() (possibly through a local) into a local map, a second loop `for k2, s := range M` rewrites
// key k2 with spec.MustCreateRef(strings.TrimPrefix(s, X)).
func (c *Ctx) isStrippedCollectedRef(fi *core.FuncInfo, ref ast.Expr, site *ast.CallExpr) bool {
	info := c.info(fi)
	ref = core.Unparen(ref)
	if o := core.ObjOf(info, ref); o != nil {
		if defs := c.P.Locals(fi).Defs[o]; len(defs) == 1 && defs[0].Kind == core.DefAssign && defs[0].Expr != nil {
			ref = core.Unparen(defs[0].Expr)
		}
	}
	mk, ok := ref.(*ast.CallExpr)
	if !ok || len(mk.Args) != 1 || len(site.Args) < 2 {
		return false
	}
	if cal := c.P.CalleeAny(fi, mk); cal == nil || cal.FullName() != "github.com/go-openapi/spec.MustCreateRef" {
		return false
	}
	// strip TrimPrefix layers down to an identifier
	e := core.Unparen(mk.Args[0])
	for i := 0; i < 3; i++ {
		call, isCall := e.(*ast.CallExpr)
		if !isCall {
			break
		}
		if cal := c.P.CalleeAny(fi, call); cal == nil || cal.FullName() != "strings.TrimPrefix" || len(call.Args) != 2 {
			return false
		}
		e = core.Unparen(call.Args[0])
	}
	sObj := core.ObjOf(info, e)
	rs, _ := c.parents(fi).Enclosing(site, func(n ast.Node) bool { _, r := n.(*ast.RangeStmt); return r }).(*ast.RangeStmt)
	if sObj == nil || rs == nil || rs.Key == nil || rs.Value == nil {
		return false
	}
	if core.ObjOf(info, rs.Value) != sObj || core.ObjOf(info, site.Args[1]) == nil || core.ObjOf(info, site.Args[1]) != core.ObjOf(info, rs.Key) {
		return false
	}
	mObj := core.ObjOf(info, rs.X)
	if mObj == nil || !core.IsMap(mObj.Type()) {
		return false
	}
	// every store into the collecting map is M[k] = <w>.String() under `for k, w := range …`
	stores := 0
	good := true
	ast.Inspect(fi.Decl.Body, func(n ast.Node) bool {
		as, isAs := n.(*ast.AssignStmt)
		if !isAs || len(as.Lhs) != 1 || len(as.Rhs) != 1 {
			return true
		}
		ix, isIx := core.Unparen(as.Lhs[0]).(*ast.IndexExpr)
		if !isIx || core.ObjOf(info, ix.X) != mObj {
			return true
		}
		stores++
		outer, _ := c.parents(fi).Enclosing(as, func(n ast.Node) bool { _, r := n.(*ast.RangeStmt); return r }).(*ast.RangeStmt)
		recv, onlyStrip := c.refStringSource(fi, as.Rhs[0])
		if outer == nil || outer.Key == nil || outer.Value == nil || recv == nil || !onlyStrip ||
			core.ObjOf(info, ix.Index) == nil || core.ObjOf(info, ix.Index) != core.ObjOf(info, outer.Key) ||
			core.ObjOf(info, recv) == nil || core.ObjOf(info, recv) != core.ObjOf(info, outer.Value) {
			good = false
		}
		return true
	})
	return good && stores > 0
}

// isStrippedRecordedRef: the record variant of form (c): a first loop `for k, w := range <refs>` appends
// T{key: k, target: <w.String(), prefix stripped>} to a local list, a second loop `for _, r := range list` rewrites
// r.key with spec.MustCreateRef(r.target) (or its prefix-stripped form).
func (c *Ctx) isStrippedRecordedRef(fi *core.FuncInfo, ref ast.Expr, site *ast.CallExpr) bool {
	info := c.info(fi)
	ref = core.Unparen(ref)
	if o := core.ObjOf(info, ref); o != nil {
		if defs := c.P.Locals(fi).Defs[o]; len(defs) == 1 && defs[0].Kind == core.DefAssign && defs[0].Expr != nil {
			ref = core.Unparen(defs[0].Expr)
		}
	}
	mk, ok := ref.(*ast.CallExpr)
	if !ok || len(mk.Args) != 1 || len(site.Args) < 2 {
		return false
	}
	if cal := c.P.CalleeAny(fi, mk); cal == nil || cal.FullName() != "github.com/go-openapi/spec.MustCreateRef" {
		return false
	}
	e := core.Unparen(mk.Args[0])
	for i := 0; i < 3; i++ {
		call, isCall := e.(*ast.CallExpr)
		if !isCall {
			break
		}
		if cal := c.P.CalleeAny(fi, call); cal == nil || cal.FullName() != "strings.TrimPrefix" || len(call.Args) != 2 {
			return false
		}
		e = core.Unparen(call.Args[0])
	}
	tsel, ok1 := e.(*ast.SelectorExpr)
	ksel, ok2 := core.Unparen(site.Args[1]).(*ast.SelectorExpr)
	if !ok1 || !ok2 || core.ObjOf(info, tsel.X) == nil || core.ObjOf(info, tsel.X) != core.ObjOf(info, ksel.X) {
		return false
	}
	rs, _ := c.parents(fi).Enclosing(site, func(n ast.Node) bool { _, r := n.(*ast.RangeStmt); return r }).(*ast.RangeStmt)
	if rs == nil || rs.Value == nil || core.ObjOf(info, rs.Value) != core.ObjOf(info, tsel.X) {
		return false
	}
	lObj := core.ObjOf(info, rs.X)
	if lObj == nil || !core.IsSlice(lObj.Type()) {
		return false
	}
	// every append to the list records (key of the loop, string of the loop's $ref with only a prefix stripped)
	appends, good := 0, true
	ast.Inspect(fi.Decl.Body, func(n ast.Node) bool {
		as, isAs := n.(*ast.AssignStmt)
		if !isAs || len(as.Lhs) != 1 || len(as.Rhs) != 1 || core.ObjOf(info, as.Lhs[0]) != lObj {
			return true
		}
		call, isCall := core.Unparen(as.Rhs[0]).(*ast.CallExpr)
		if !isCall || !isBuiltin(info, call, "append") {
			return true // the initial make / nil
		}
		appends++
		outer, _ := c.parents(fi).Enclosing(as, func(n ast.Node) bool { _, r := n.(*ast.RangeStmt); return r }).(*ast.RangeStmt)
		if outer == nil || outer.Key == nil || outer.Value == nil || len(call.Args) != 2 || core.ObjOf(info, call.Args[0]) != lObj {
			good = false
			return true
		}
		cl, isLit := core.Unparen(call.Args[1]).(*ast.CompositeLit)
		if !isLit {
			good = false
			return true
		}
		keyOK, tgtOK := false, false
		for _, el := range cl.Elts {
			kv, ok := el.(*ast.KeyValueExpr)
			if !ok {
				continue
			}
			name, ok := kv.Key.(*ast.Ident)
			if !ok {
				continue
			}
			switch name.Name {
			case ksel.Sel.Name:
				keyOK = core.ObjOf(info, kv.Value) != nil && core.ObjOf(info, kv.Value) == core.ObjOf(info, outer.Key)
			case tsel.Sel.Name:
				recv, onlyStrip := c.refStringSource(fi, kv.Value)
				tgtOK = recv != nil && onlyStrip && core.ObjOf(info, recv) != nil && core.ObjOf(info, recv) == core.ObjOf(info, outer.Value)
			}
		}
		if !keyOK || !tgtOK {
			good = false
		}
		return true
	})
	return good && appends > 0
}

// baseNameRule (C01, REF-BASENAME): a $ref that is rebuilt as '#/definitions/' + path.Base(<an existing $ref>) keeps
// designating the same schema only when that $ref is a direct child of the definitions: the write is dominated by a
// test of path.Dir of the same string against the definitions prefix. (Defect F24: with an empty base path every
// anonymous pointer '#/definitions/a/properties/b' was re-pointed to the unrelated definition 'b'.)
func (c *Ctx) baseNameRule(fi *core.FuncInfo, site *ast.CallExpr, ref ast.Expr, key string) {
	info := c.info(fi)
	e := core.Unparen(ref)
	if o := core.ObjOf(info, e); o != nil {
		if defs := c.P.Locals(fi).Defs[o]; len(defs) == 1 && defs[0].Kind == core.DefAssign && defs[0].Expr != nil {
			e = core.Unparen(defs[0].Expr)
		}
	}
	var based ast.Expr // the argument of path.Base
	ast.Inspect(e, func(n ast.Node) bool {
		call, ok := n.(*ast.CallExpr)
		if !ok || len(call.Args) != 1 {
			return true
		}
		if cal := c.P.CalleeAny(fi, call); cal != nil && (cal.FullName() == "path.Base" || cal.FullName() == "path/filepath.Base") {
			if recv, _ := c.refStringSource(fi, call.Args[0]); recv != nil {
				based = call.Args[0]
			}
		}
		return true
	})
	if based == nil {
		return
	}
	recv, _ := c.refStringSource(fi, based)
	guarded := false
	for _, cd := range c.conds(fi, site) {
		if cd.Kind != core.CondBool || cd.Neg {
			continue
		}
		be, ok := core.Unparen(cd.Expr).(*ast.BinaryExpr)
		if !ok || be.Op != token.EQL {
			continue
		}
		for _, side := range []ast.Expr{be.X, be.Y} {
			dir, isCall := core.Unparen(side).(*ast.CallExpr)
			if !isCall || len(dir.Args) != 1 {
				continue
			}
			if cal := c.P.CalleeAny(fi, dir); cal == nil || cal.FullName() != "path.Dir" {
				continue
			}
			if r2, _ := c.refStringSource(fi, dir.Args[0]); r2 != nil && sameExpr(r2, recv) {
				guarded = true
			}
		}
	}
	c.S.Decide(guarded, "C01", "REF-BASENAME", key, c.P.Pos(site.Pos()),
		"the last token of "+exprStr(recv)+" is used as a definition name under a test that its parent is the definitions container",
		"the $ref written here is '#/definitions/' + path.Base("+exprStr(based)+") with no test that path.Dir of that $ref is the definitions container: a JSON pointer below a definition ('#/definitions/a/properties/b') is re-pointed to the unrelated definition named after its last token ('#/definitions/b')")
}

// progressRule (C06): the removal pass reports progress only together with a deletion from the definitions.
func (c *Ctx) progressRule(reach []*core.FuncInfo) {
	found := false
	for _, fi := range reach {
		sig := fi.Obj.Type().(*types.Signature)
		if sig.Results().Len() != 1 || fi.Decl.Type.Results == nil {
			continue
		}
		// the pass answers "something was removed" (bool) or "how many were removed" (a count tested > 0)
		isCount := false
		if b, isB := sig.Results().At(0).Type().Underlying().(*types.Basic); isB && b.Info()&types.IsInteger != 0 {
			isCount = true
		}
		if !core.IsBool(sig.Results().At(0).Type()) && !isCount {
			continue
		}
		info := c.info(fi)
		// a function with a named/returned bool flag and a delete on a Definitions map
		var dels []*ast.CallExpr
		for _, call := range calls(fi.Decl.Body) {
			if isBuiltin(info, call, "delete") && len(call.Args) == 2 {
				if _, tn := core.NamedOf(info.TypeOf(call.Args[0])); tn == "Definitions" {
					dels = append(dels, call)
				}
			}
		}
		if len(dels) == 0 {
			continue
		}
		found = true
		pm := c.parents(fi)
		ok := true
		why := ""
		n := 0
		var raiseStmts []ast.Stmt
		ast.Inspect(fi.Decl.Body, func(nd ast.Node) bool {
			// a counter of removals: n++ next to the deletion, n returned
			if inc, isInc := nd.(*ast.IncDecStmt); isInc && isCount && inc.Tok == token.INC && c.flowsToReturn(fi, inc.X) {
				n++
				raiseStmts = append(raiseStmts, inc)
				blk, _ := pm[inc].(*ast.BlockStmt)
				same := false
				for _, d := range dels {
					if blk != nil && pm.EnclosingStmt(d) != nil && pm[pm.EnclosingStmt(d)] == ast.Node(blk) {
						same = true
					}
				}
				if !same {
					ok = false
					why = "the removal counter is incremented at " + c.P.Pos(inc.Pos()) + " on a path that does not delete a definition"
				}
				return true
			}
			as, isAs := nd.(*ast.AssignStmt)
			if !isAs || len(as.Lhs) != 1 || len(as.Rhs) != 1 {
				return true
			}
			o := core.ObjOf(info, as.Lhs[0])
			if o == nil || !core.IsBool(o.Type()) {
				return true
			}
			if tv, isC := info.Types[as.Rhs[0]]; !isC || tv.Value == nil || tv.Value.String() != "true" {
				return true
			}
			// is this the returned flag?
			if !c.flowsToReturn(fi, as.Lhs[0]) {
				return true
			}
			n++
			// where the flag is raised: the assignment itself, or — when it sits in a local closure
			// (`removed := func(name string) { hasRemoved = true; … }`) — every statement that calls the closure
			sites := []ast.Stmt{as}
			if lit, inLit := pm.Enclosing(as, func(x ast.Node) bool { _, y := x.(*ast.FuncLit); return y }).(*ast.FuncLit); inLit {
				sites = nil
				if bind, isBind := pm[lit].(*ast.AssignStmt); isBind && len(bind.Lhs) == 1 {
					if co := core.ObjOf(info, bind.Lhs[0]); co != nil {
						ast.Inspect(fi.Decl.Body, func(m ast.Node) bool {
							if es, isES := m.(*ast.ExprStmt); isES {
								if call, isCall := es.X.(*ast.CallExpr); isCall && core.ObjOf(info, call.Fun) == co {
									sites = append(sites, es)
								}
							}
							return true
						})
					}
				}
				if len(sites) == 0 {
					ok = false
					why = "the progress flag is set in a function literal that is not called next to a deletion"
				}
			}
			for _, site := range sites {
				raiseStmts = append(raiseStmts, site)
				blk, _ := pm[site].(*ast.BlockStmt)
				same := false
				for _, d := range dels {
					if blk != nil && pm.EnclosingStmt(d) != nil && pm[pm.EnclosingStmt(d)] == ast.Node(blk) {
						same = true
					}
				}
				if !same {
					ok = false
					why = "the progress flag is set at " + c.P.Pos(site.Pos()) + " on a path that does not delete a definition"
				}
			}
			return true
		})
		if n == 0 {
			// the flag may be defined as "something is left to delete": flag := len(M) > 0, followed by a loop over M
			// whose body deletes one definition per element
			ast.Inspect(fi.Decl.Body, func(nd ast.Node) bool {
				var lhs, rhs ast.Expr
				switch x := nd.(type) {
				case *ast.AssignStmt:
					if len(x.Lhs) == 1 && len(x.Rhs) == 1 {
						lhs, rhs = x.Lhs[0], x.Rhs[0]
					}
				case *ast.ReturnStmt:
					if len(x.Results) == 1 {
						rhs = x.Results[0]
					}
				}
				if rhs == nil {
					return true
				}
				if lhs != nil && !c.flowsToReturn(fi, lhs) {
					return true
				}
				x, empty, isLen := core.EmptyTest(info, core.Cond{Kind: core.CondBool, Expr: rhs})
				if !isLen || empty {
					return true
				}
				// a loop over x, after this point, deleting from the definitions at the top level of its body
				ast.Inspect(fi.Decl.Body, func(m ast.Node) bool {
					rs, isRange := m.(*ast.RangeStmt)
					if !isRange || !sameExpr(rs.X, x) {
						return true
					}
					// the test may also come after the loop when nothing changes the collection in between
					if rs.Pos() < nd.Pos() && c.collectionMutated(fi, x, rs.Pos(), nd.Pos()) {
						return true
					}
					for _, st := range rs.Body.List {
						if es, isExpr := st.(*ast.ExprStmt); isExpr {
							for _, d := range dels {
								if es.X == ast.Expr(d) {
									n++
								}
							}
						}
					}
					return true
				})
				return true
			})
		}
		if n == 0 {
			ok, why = false, "the pass never reports progress"
		}
		c.S.Decide(ok, "C06", "TERM-PROGRESS", fi.QName(), c.P.Pos(fi.Decl.Pos()),
			"the pass reports progress only in the block that deletes a definition (whose key is a member of the map by ENC-MAPKEY): each repeating pass strictly shrinks the definitions",
			why+": the removal loop can repeat without shrinking the definitions (non-termination) or stop early")
		c.fixpointCond(fi, reach)
		// the converse: every deletion is reported — the flag is raised in the block of the deletion, with no
		// conditional exit (continue, break, return) between the two: a deletion that is not reported ends the
		// removal loop while definitions that just became unused are still there
		if n > 0 {
			for di, d := range dels {
				blk, _ := pm[pm.EnclosingStmt(d)].(*ast.BlockStmt)
				reported := false
				if blk != nil {
					dpos := pm.EnclosingStmt(d).Pos()
					for _, st := range blk.List {
						isRaise := false
						for _, rs := range raiseStmts {
							if rs == st {
								isRaise = true
							}
						}
						if !isRaise {
							continue
						}
						as := st
						lo, hi := dpos, as.Pos()
						if lo > hi {
							lo, hi = hi, lo
						}
						exits := false
						for _, mid := range blk.List {
							if mid.Pos() <= lo || mid.Pos() >= hi {
								continue
							}
							ast.Inspect(mid, func(x ast.Node) bool {
								switch x.(type) {
								case *ast.BranchStmt, *ast.ReturnStmt:
									exits = true
								case *ast.FuncLit:
									return false
								}
								return true
							})
						}
						if !exits {
							reported = true
						}
					}
				}
				if !reported {
					// the flag may be computed for the whole pass instead (flag := len(M) > 0 over the loop's collection)
					ast.Inspect(fi.Decl.Body, func(x ast.Node) bool {
						if as, isAs := x.(*ast.AssignStmt); isAs && len(as.Lhs) == 1 && len(as.Rhs) == 1 && c.flowsToReturn(fi, as.Lhs[0]) {
							if _, empty, isLen := core.EmptyTest(info, core.Cond{Kind: core.CondBool, Expr: as.Rhs[0]}); isLen && !empty {
								reported = true
							}
						}
						if ret, isRet := x.(*ast.ReturnStmt); isRet && len(ret.Results) == 1 {
							if _, empty, isLen := core.EmptyTest(info, core.Cond{Kind: core.CondBool, Expr: ret.Results[0]}); isLen && !empty {
								reported = true
							}
						}
						return true
					})
				}
				c.S.Decide(reported, "C06", "TERM-PROGRESS", fmt.Sprintf("%s/reported#%d", fi.QName(), di+1), c.P.Pos(d.Pos()),
					"the deletion is reported to the removal loop (the flag is raised next to it, unconditionally)",
					"this deletion of a definition is not always reported: the progress flag is raised behind a conditional exit (or not in the block of the deletion), so the removal loop can stop while definitions that only just became unused are still in the document")
			}
		}
	}
	if !found {
		c.S.Undecided("C06", "TERM-PROGRESS", "anchor", "-", "no bool-returning pass deleting from a Definitions map found below Flatten")
	}
}

// panicUnreachable (C09): the rewriters panic on an unexpected argument kind; every call site passes a
// *spec.Swagger or *spec.Schema (statically), so the panic is unreachable.
func (c *Ctx) panicUnreachable(reach []*core.FuncInfo) {
	n := 0
	for _, fi := range reach {
		if !strings.HasSuffix(fi.Pkg.PkgPath, "/replace") {
			continue
		}
		info := c.info(fi)
		// contains a panic and takes the document as an interface-typed parameter
		var guarded *types.Var
		hasPanic := false
		for _, call := range calls(fi.Decl.Body) {
			if isBuiltin(info, call, "panic") {
				hasPanic = true
			}
		}
		if hasPanic {
			sig := fi.Obj.Type().(*types.Signature)
			for i := 0; i < sig.Params().Len(); i++ {
				if it, ok := sig.Params().At(i).Type().Underlying().(*types.Interface); ok && it.NumMethods() == 0 {
					guarded = sig.Params().At(i)
					break
				}
			}
		}
		if guarded == nil {
			continue
		}
		idx, ok := effects(c).paramIndex(fi, guarded)
		if !ok {
			continue
		}
		n++
		bad := c.badKindCallers(fi, idx, map[*core.FuncInfo]bool{})
		c.S.Decide(len(bad) == 0, "C09", "PANIC-UNREACH", fi.QName(), c.P.Pos(fi.Decl.Pos()),
			"every (transitive) call site passes a *spec.Swagger or *spec.Schema: the panic on other kinds is unreachable",
			"the panic on an unexpected document kind is reachable: "+strings.Join(bad, "; "))
	}
	if n < 1 {
		c.S.Undecided("C09", "PANIC-UNREACH", "floor", "-", fmt.Sprintf("only %d kind-guarded rewriters found (confirmed by hand: 3)", n))
	}
}

func callsInStmts(list []ast.Stmt) []*ast.CallExpr {
	var out []*ast.CallExpr
	for _, s := range list {
		out = append(out, calls(s)...)
	}
	return out
}

func (c *Ctx) badKindCallers(fi *core.FuncInfo, idx int, seen map[*core.FuncInfo]bool) []string {
	if seen[fi] {
		return nil
	}
	seen[fi] = true
	var bad []string
	for _, cs := range c.P.CG().In[fi.Obj] {
		if cs.Call == nil || idx >= len(cs.Call.Args) {
			continue
		}
		if strings.HasSuffix(c.P.Fset.Position(cs.Call.Pos()).Filename, "_test.go") {
			continue
		}
		a := cs.Call.Args[idx]
		t := c.info(cs.Caller).TypeOf(a)
		if core.IsPointer(t) && (core.IsSpecType(t, "Swagger") || core.IsSpecType(t, "Schema")) {
			continue
		}
		// the caller forwards its own interface parameter: check its callers
		if o, ok := core.ObjOf(c.info(cs.Caller), a).(*types.Var); ok {
			if pi, isParam := effects(c).paramIndex(cs.Caller, o); isParam {
				bad = append(bad, c.badKindCallers(cs.Caller, pi, seen)...)
				continue
			}
		}
		bad = append(bad, fmt.Sprintf("%s passes %s of type %s at %s", cs.Caller.QName(), exprStr(a), t, c.P.Pos(cs.Call.Pos())))
	}
	return bad
}

// sliceBounds (C09, PANIC-SLICEBOUND): a slice expression whose bound is a parameter of the enclosing function
// panics when the caller's number exceeds the length; the keys sliced below Flatten have a length decided by the
// document (a pointer may stop at a response or a parameter instead of its schema). Every such expression must be
// dominated by a comparison of that parameter with len() of the sliced value (a test or a clamp).
func (c *Ctx) sliceBounds(reach []*core.FuncInfo) {
	n := 0
	for _, fi := range reach {
		info := c.info(fi)
		ord := 0
		ast.Inspect(fi.Decl.Body, func(nd ast.Node) bool {
			se, ok := nd.(*ast.SliceExpr)
			if !ok {
				return true
			}
			for _, b := range []ast.Expr{se.Low, se.High} {
				if b == nil {
					continue
				}
				po := core.ObjOf(info, b)
				if _, isID := core.Unparen(b).(*ast.Ident); !isID || po == nil {
					continue
				}
				if _, isParam := c.paramIndexOf(fi, po); !isParam {
					continue
				}
				n++
				ord++
				// a comparison of the parameter with len(<sliced value>) earlier in the function: either a
				// dominating condition or the guard of a clamp (if p > len(x) { p = len(x) })
				compared := false
				ast.Inspect(fi.Decl.Body, func(m ast.Node) bool {
					be, ok := m.(*ast.BinaryExpr)
					if !ok || be.Pos() > se.Pos() {
						return true
					}
					switch be.Op {
					case token.LSS, token.LEQ, token.GTR, token.GEQ:
					default:
						return true
					}
					for _, pr := range [][2]ast.Expr{{be.X, be.Y}, {be.Y, be.X}} {
						if core.ObjOf(info, pr[0]) != po {
							continue
						}
						if lc, ok := core.Unparen(pr[1]).(*ast.CallExpr); ok && isBuiltin(info, lc, "len") && len(lc.Args) == 1 && sameExpr(lc.Args[0], se.X) {
							compared = true
						}
					}
					return true
				})
				k := fmt.Sprintf("%s/slice#%d", fi.QName(), ord)
				c.S.Decide(compared, "C09", "PANIC-SLICEBOUND", k, c.P.Pos(se.Pos()),
					"the parameter used as a slice bound is compared with the length of the sliced value first",
					"the slice bound "+exprStr(b)+" is a parameter that is never compared with len("+exprStr(se.X)+"): for a key shorter than the caller assumes (a pointer to a response or parameter instead of its schema) the expression panics (slice bounds out of range) and Flatten crashes")
			}
			return true
		})
	}
	if n < 1 {
		c.S.Note("PANIC-SLICEBOUND: no slice expression bounded by a parameter below Flatten")
	}
}

// selfInline (C09, TERM-SELFINLINE): a phase that merges a definition into one of its referers
// (replace.UpdateRefWithSchema into the root document at a key taken from the referers) and then deletes the
// definition must not run for a definition one of whose referers lies inside the definition itself: the schema would
// be copied into its own sub-schema — a Go value that contains itself without any $ref — and the next
// classification of it (Schema → inferArray/inferMap → Schema) never ends. Every call of such a phase must
// therefore be dominated by the negation of a self-reference test: a predicate that looks, among the referers, for
// one with the prefix <definition path> + "/".
func (c *Ctx) selfInline(reach []*core.FuncInfo) {
	n := 0
	// self-reference predicates: bool functions containing strings.HasPrefix(x, y+"/") inside a range loop
	isSelfTest := func(g *core.FuncInfo) bool {
		if g == nil || g.Decl == nil || g.Decl.Body == nil {
			return false
		}
		sig := g.Obj.Type().(*types.Signature)
		if sig.Results().Len() != 1 || !core.IsBool(sig.Results().At(0).Type()) {
			return false
		}
		ginfo := c.info(g)
		found := false
		ast.Inspect(g.Decl.Body, func(nd ast.Node) bool {
			rs, ok := nd.(*ast.RangeStmt)
			if !ok {
				return true
			}
			for _, call := range calls(rs.Body) {
				cal := c.P.CalleeAny(g, call)
				if cal == nil || cal.FullName() != "strings.HasPrefix" || len(call.Args) != 2 {
					continue
				}
				pfx := core.Unparen(call.Args[1])
				if o := core.ObjOf(ginfo, pfx); o != nil {
					if defs := c.P.Locals(g).Defs[o]; len(defs) == 1 && defs[0].Kind == core.DefAssign {
						pfx = core.Unparen(defs[0].Expr)
					}
				}
				if be, isB := pfx.(*ast.BinaryExpr); isB && be.Op == token.ADD {
					if s, isC := core.ConstString(ginfo, be.Y); isC && s == "/" {
						found = true
					}
				}
			}
			return true
		})
		return found
	}
	for _, fi := range reach {
		if fi.Pkg.PkgPath != core.ModPath {
			continue
		}
		info := c.info(fi)
		merges, deletes := false, false
		for _, call := range calls(fi.Decl.Body) {
			if callee := c.P.CalleeAny(fi, call); callee != nil && callee.Name() == "UpdateRefWithSchema" && len(call.Args) == 3 && core.IsSpecType(info.TypeOf(call.Args[0]), "Swagger") {
				merges = true
			}
			if isBuiltin(info, call, "delete") && len(call.Args) == 2 {
				if _, tn := core.NamedOf(info.TypeOf(call.Args[0])); tn == "Definitions" {
					deletes = true
				}
			}
		}
		if !merges || !deletes {
			continue
		}
		// every call site of the phase
		for _, caller := range c.P.SortedFuncs() {
			for _, call := range calls(caller.Decl.Body) {
				if c.P.StaticCallee(caller, call) != fi.Obj {
					continue
				}
				n++
				guarded := false
				cinfo := c.info(caller)
				for _, cd := range c.conds(caller, call) {
					// a positive predicate all of whose possibly-true results include the negated self test
					if cd.Kind == core.CondBool && !cd.Neg {
						if tc, ok := core.Unparen(cd.Expr).(*ast.CallExpr); ok {
							if g := c.P.StaticCallee(caller, tc); g != nil && c.impliesNoSelf(c.P.Funcs[g], isSelfTest) {
								guarded = true
							}
						}
					}
					if cd.Kind != core.CondBool || !cd.Neg {
						continue
					}
					if tc, ok := core.Unparen(cd.Expr).(*ast.CallExpr); ok {
						if g := c.P.StaticCallee(caller, tc); g != nil && isSelfTest(c.P.Funcs[g]) {
							guarded = true
						}
					}
					// a local flag raised by the same test written in line:
					//   for _, p := range parents { if strings.HasPrefix(p, path+"/") { self = true } }
					if fo := core.ObjOf(cinfo, cd.Expr); fo != nil && core.IsBool(fo.Type()) {
						for _, d := range c.P.Locals(caller).Defs[fo] {
							if d.Kind != core.DefAssign || d.Node == nil {
								continue
							}
							if tv, isC := cinfo.Types[d.Expr]; !isC || tv.Value == nil || tv.Value.String() != "true" {
								continue
							}
							for _, dc := range c.conds(caller, d.Node) {
								if hc, ok := core.Unparen(dc.Expr).(*ast.CallExpr); ok && dc.Kind == core.CondBool && !dc.Neg && len(hc.Args) == 2 {
									if hcal := c.P.CalleeAny(caller, hc); hcal != nil && hcal.FullName() == "strings.HasPrefix" {
										if be, isB := core.Unparen(hc.Args[1]).(*ast.BinaryExpr); isB && be.Op == token.ADD {
											if sv, isC := core.ConstString(cinfo, be.Y); isC && sv == "/" {
												guarded = true
											}
										}
									}
								}
							}
						}
					}
				}
				// or a test at the top of the phase itself, before the merge
				if !guarded {
					for _, inner := range calls(fi.Decl.Body) {
						if g := c.P.StaticCallee(fi, inner); g != nil && isSelfTest(c.P.Funcs[g]) {
							guarded = true
						}
					}
				}
				c.S.Decide(guarded, "C09", "TERM-SELFINLINE", caller.QName()+"->"+fi.Name(), c.P.Pos(call.Pos()),
					"the merge of a definition into its referers is skipped for a definition referred to from inside itself",
					fi.Name()+" merges a definition into the first of its referers and deletes it, and nothing on the way to this call excludes a referer that lies inside the definition itself (no test for a referer with the prefix <definition path>+\"/\"): a recursive imported definition whose name had to be changed (e.g. an array of itself named \"[]\") is copied into its own items — a schema value that contains itself — and Schema() overflows the stack on it")
			}
		}
	}
	if n < 1 {
		c.S.Note("TERM-SELFINLINE: no phase both merges a definition into a referer and deletes it")
	}
}

// impliesNoSelf: g() == true implies that the self-reference test is false: every return of g is the constant false
// or a conjunction containing the negated call of a self-reference test.
func (c *Ctx) impliesNoSelf(g *core.FuncInfo, isSelfTest func(*core.FuncInfo) bool) bool {
	if g == nil || g.Decl == nil || g.Decl.Body == nil {
		return false
	}
	ginfo := c.info(g)
	ok, n := true, 0
	ast.Inspect(g.Decl.Body, func(nd ast.Node) bool {
		if _, isLit := nd.(*ast.FuncLit); isLit {
			return false
		}
		ret, isRet := nd.(*ast.ReturnStmt)
		if !isRet {
			return true
		}
		n++
		if len(ret.Results) != 1 {
			ok = false
			return true
		}
		if tv, isC := ginfo.Types[ret.Results[0]]; isC && tv.Value != nil && tv.Value.String() == "false" {
			return true
		}
		has := false
		for _, cd := range core.SplitCond(ret.Results[0], false) {
			if cd.Kind == core.CondBool && cd.Neg {
				if tc, isCall := core.Unparen(cd.Expr).(*ast.CallExpr); isCall {
					if h := c.P.StaticCallee(g, tc); h != nil && isSelfTest(c.P.Funcs[h]) {
						has = true
					}
				}
			}
		}
		if !has {
			ok = false
		}
		return true
	})
	return ok && n > 0
}

// isTopLevelTest: the expression is path.Dir(<ref string>) == "#/definitions", directly or as the single result of a
// module helper applied to the reference.
func (c *Ctx) isTopLevelTest(fi *core.FuncInfo, e ast.Expr, depth int) bool {
	if depth > 2 {
		return false
	}
	info := c.info(fi)
	switch x := core.Unparen(e).(type) {
	case *ast.BinaryExpr:
		if x.Op != token.EQL {
			return false
		}
		for _, pr := range [][2]ast.Expr{{x.X, x.Y}, {x.Y, x.X}} {
			s, isConst := core.ConstString(info, pr[1])
			dir, isCall := core.Unparen(pr[0]).(*ast.CallExpr)
			if !isConst || s != "#/definitions" || !isCall {
				continue
			}
			if cal := c.P.CalleeAny(fi, dir); cal != nil && cal.FullName() == "path.Dir" {
				return true
			}
		}
	case *ast.CallExpr:
		callee := c.P.StaticCallee(fi, x)
		g := c.P.Funcs[callee]
		if callee == nil || g == nil || g.Decl == nil || g.Decl.Body == nil || len(g.Decl.Body.List) != 1 {
			return false
		}
		if ret, ok := g.Decl.Body.List[0].(*ast.ReturnStmt); ok && len(ret.Results) == 1 {
			return c.isTopLevelTest(g, ret.Results[0], depth+1)
		}
	}
	return false
}

// collectionMutated: between the two positions the function stores into, deletes from or reassigns the collection.
func (c *Ctx) collectionMutated(fi *core.FuncInfo, x ast.Expr, from, to token.Pos) bool {
	info := c.info(fi)
	o := core.ObjOf(info, x)
	if o == nil {
		return true
	}
	mutated := false
	ast.Inspect(fi.Decl.Body, func(n ast.Node) bool {
		if n == nil || n.Pos() < from || n.Pos() > to {
			return n == nil || n.End() >= from
		}
		switch y := n.(type) {
		case *ast.AssignStmt:
			for _, l := range y.Lhs {
				l = core.Unparen(l)
				if ix, ok := l.(*ast.IndexExpr); ok && core.ObjOf(info, ix.X) == o {
					mutated = true
				}
				if id, ok := l.(*ast.Ident); ok && core.ObjOf(info, id) == o {
					mutated = true
				}
			}
		case *ast.CallExpr:
			if isBuiltin(info, y, "delete") && len(y.Args) == 2 && core.ObjOf(info, y.Args[0]) == o {
				mutated = true
			}
		}
		return true
	})
	return mutated
}

// panicBoundary (C09, PANIC-BOUNDARY): the resolvers and expanders of go-openapi/spec panic when a $ref is a JSON
// pointer to an optional part that the target does not define (jsonpointer returns a typed nil pointer, spec calls a
// value-receiver MarshalJSON on it). The $refs come from the document, so every call of such a function made below
// Flatten, New or Schema must run under a recover that turns the panic into the returned error: either inside a
// function literal handed to a guard (a module function whose deferred function calls recover and assigns its named
// error result), or in a function that has such a defer itself.
func (c *Ctx) panicBoundary() {
	risky := map[string]bool{
		"github.com/go-openapi/spec.ResolveRefWithBase": true, "github.com/go-openapi/spec.ResolveRef": true,
		"github.com/go-openapi/spec.ExpandSchema": true, "github.com/go-openapi/spec.ExpandSpec": true,
		"github.com/go-openapi/spec.ExpandSchemaWithBasePath": true, "github.com/go-openapi/spec.ResolveParameterWithBase": true,
		"github.com/go-openapi/spec.ResolveResponseWithBase": true, "github.com/go-openapi/spec.ResolvePathItemWithBase": true,
	}
	// does the body recover and hand the panic out as its named error result?
	recovers := func(fi *core.FuncInfo, body *ast.BlockStmt, ft *ast.FuncType) bool {
		info := c.info(fi)
		var named types.Object
		if ft.Results != nil {
			for _, f := range ft.Results.List {
				for _, nm := range f.Names {
					if o := info.Defs[nm]; o != nil && core.IsErrorType(o.Type()) {
						named = o
					}
				}
			}
		}
		if named == nil {
			return false
		}
		ok := false
		for _, st := range body.List {
			ds, isDefer := st.(*ast.DeferStmt)
			if !isDefer {
				continue
			}
			lit, isLit := core.Unparen(ds.Call.Fun).(*ast.FuncLit)
			if !isLit {
				// defer helper(&err): the helper is the deferred function, so its own recover() takes effect; it must
				// store what it recovered through the pointer it was given
				h := c.P.Funcs[c.P.StaticCallee(fi, ds.Call)]
				passes := -1
				for i, a := range ds.Call.Args {
					if u, isAddr := core.Unparen(a).(*ast.UnaryExpr); isAddr && u.Op == token.AND && core.ObjOf(info, u.X) == named {
						passes = i
					}
				}
				if h == nil || h.Decl == nil || h.Decl.Body == nil || passes < 0 {
					continue
				}
				hinfo := c.info(h)
				hsig := h.Obj.Type().(*types.Signature)
				if passes >= hsig.Params().Len() {
					continue
				}
				hp := hsig.Params().At(passes)
				hRecovers, hStores := false, false
				ast.Inspect(h.Decl.Body, func(n ast.Node) bool {
					switch x := n.(type) {
					case *ast.FuncLit:
						return false // recover() inside a nested literal would not stop the panic
					case *ast.CallExpr:
						if isBuiltin(hinfo, x, "recover") {
							hRecovers = true
						}
					case *ast.AssignStmt:
						for _, l := range x.Lhs {
							if st, isStar := core.Unparen(l).(*ast.StarExpr); isStar && core.ObjOf(hinfo, st.X) == hp {
								hStores = true
							}
						}
					}
					return true
				})
				if hRecovers && hStores {
					ok = true
				}
				continue
			}
			callsRecover, assigns := false, false
			ast.Inspect(lit.Body, func(n ast.Node) bool {
				switch x := n.(type) {
				case *ast.CallExpr:
					if isBuiltin(info, x, "recover") {
						callsRecover = true
					}
				case *ast.AssignStmt:
					for _, l := range x.Lhs {
						if core.ObjOf(info, l) == named {
							assigns = true
						}
					}
				}
				return true
			})
			if callsRecover && assigns {
				ok = true
			}
		}
		return ok
	}
	guards := map[*types.Func]bool{}
	for _, fi := range c.P.SortedFuncs() {
		if recovers(fi, fi.Decl.Body, fi.Decl.Type) {
			guards[fi.Obj] = true
		}
	}
	roots := []*core.FuncInfo{}
	for _, nm := range []string{"Flatten", "New", "Schema"} {
		if r := c.root(nm); r != nil {
			roots = append(roots, r)
		}
	}
	n := 0
	for _, fi := range core.SortedSet(c.P.Reachable(roots...)) {
		pm := c.parents(fi)
		ord := map[string]int{}
		for _, call := range calls(fi.Decl.Body) {
			cal := c.P.CalleeAny(fi, call)
			if cal == nil || !risky[cal.FullName()] {
				continue
			}
			n++
			guarded := guards[fi.Obj]
			for p := pm[call]; p != nil && !guarded; p = pm[p] {
				lit, ok := p.(*ast.FuncLit)
				if !ok {
					continue
				}
				// the literal is an argument of a guard call, or recovers itself
				if recovers(fi, lit.Body, lit.Type) {
					guarded = true
				}
				if outer, ok := pm[lit].(*ast.CallExpr); ok {
					if g := c.P.StaticCallee(fi, outer); g != nil && (guards[g] || guards[g.Origin()]) {
						guarded = true
					}
				}
			}
			k := fi.QName() + "/" + cal.Name()
			ord[k]++
			if ord[k] > 1 {
				k = fmt.Sprintf("%s#%d", k, ord[k])
			}
			c.S.Decide(guarded, "C09", "PANIC-BOUNDARY", k, c.P.Pos(call.Pos()),
				"the call into the spec resolver runs under a recover that returns the panic as an error",
				cal.Name()+" of go-openapi/spec is called on a $ref of the document without a recover: a JSON pointer to an optional part the target does not define (…/responses/default, …/items, #/info/license) makes it panic (value method called using nil pointer), and Flatten / Schema crash instead of returning an error")
		}
	}
	if n < 3 {
		c.S.Note("PANIC-BOUNDARY: fewer than three calls into the spec resolvers found (five on the pinned tree)")
	}
}

// fixpointCond (C06, TERM-PROGRESS/loop): the loop that repeats the removal pass goes on exactly as long as the pass
// reports progress — its condition is the call of the pass (or the flag the pass was assigned to) and nothing else.
// Any other conjunct (a pass counter, a bound read off the shrinking definitions) stops the loop before the fixpoint:
// definitions that became unused only in the last pass executed stay in the document.
func (c *Ctx) fixpointCond(pass *core.FuncInfo, reach []*core.FuncInfo) {
	n := 0
	for _, g := range reach {
		if g == pass {
			continue
		}
		pm := c.parents(g)
		info := c.info(g)
		for _, call := range calls(g.Decl.Body) {
			if c.P.StaticCallee(g, call) != pass.Obj {
				continue
			}
			loop, _ := pm.Enclosing(call, func(x ast.Node) bool { _, ok := x.(*ast.ForStmt); return ok }).(*ast.ForStmt)
			if loop == nil {
				continue
			}
			n++
			ok := true
			if loop.Cond != nil {
				cond := core.Unparen(loop.Cond)
				_, isIdent := cond.(*ast.Ident)
				ok = cond == ast.Expr(call) || isIdent && core.IsBool(info.TypeOf(cond))
				// a pass that counts: for pass(opts) > 0 { }
				if be, isBin := cond.(*ast.BinaryExpr); isBin && (be.Op == token.GTR || be.Op == token.NEQ) && core.Unparen(be.X) == ast.Expr(call) {
					if tv, isC := info.Types[be.Y]; isC && tv.Value != nil && tv.Value.String() == "0" {
						ok = true
					}
				}
			}
			c.S.Decide(ok, "C06", "TERM-PROGRESS", g.QName()+"/loop", c.P.Pos(loop.Pos()),
				"the removal pass is repeated exactly as long as it reports progress",
				"the loop that repeats "+pass.Name()+" runs under "+exprStrOr(loop.Cond)+", which can end it while the pass still reports progress: definitions that became unused in the last pass executed are left in the document")
		}
	}
	if n == 0 {
		c.S.Note("TERM-PROGRESS/loop: the removal pass %s is not called from a for loop", pass.Name())
	}
}
