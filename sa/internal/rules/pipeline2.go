package rules

import (
	"fmt"
	"go/ast"
	"go/token"
	"go/types"
	"strings"

	"verif/sa/internal/core"
)

func init() {
	register(Rule{
		Name:  "PIPE2",
		Props: []string{"C01", "C02", "C06", "C09"},
		Doc:   "imported schemas are rebased before being saved; every $ref written by a phase is canonical; the removal loop makes progress; the rewriters' panics are unreachable by typing",
		Run:   pipe2Rules,
	})
}

func pipe2Rules(c *Ctx) {
	flat := c.need("C02", "PIPE2", "", "Flatten")
	if flat == nil {
		return
	}
	reach := core.SortedSet(c.P.Reachable(flat))
	c.rebaseRule(reach)
	c.canonicalRefs(reach)
	c.progressRule(reach)
	c.panicUnreachable(reach)
	c.resolveSkipped(reach)
}

// resolveSkipped (C09): a $ref that a phase skips because it already has the canonical form '#/definitions/<name>'
// must still be looked up, otherwise a dangling local $ref is never noticed and Flatten reports success.
func (c *Ctx) resolveSkipped(reach []*core.FuncInfo) {
	n := 0
	for _, fi := range reach {
		if fi.Pkg.PkgPath != core.ModPath {
			continue
		}
		info := c.info(fi)
		ast.Inspect(fi.Decl.Body, func(nd ast.Node) bool {
			rs, ok := nd.(*ast.RangeStmt)
			if !ok || rs.Value == nil || !core.IsMap(info.TypeOf(rs.X)) {
				return true
			}
			refObj := core.ObjOf(info, rs.Value)
			if refObj == nil || !core.IsSpecType(refObj.Type(), "Ref") {
				return true
			}
			for _, st := range rs.Body.List {
				ifs, ok := st.(*ast.IfStmt)
				if !ok || len(ifs.Body.List) == 0 {
					continue
				}
				br, isBr := ifs.Body.List[len(ifs.Body.List)-1].(*ast.BranchStmt)
				if !isBr || br.Tok.String() != "continue" {
					continue
				}
				be, ok := core.Unparen(ifs.Cond).(*ast.BinaryExpr)
				if !ok || be.Op.String() != "==" {
					continue
				}
				s, isC := core.ConstString(info, be.Y)
				dir, isCall := core.Unparen(be.X).(*ast.CallExpr)
				if !isC || s != "#/definitions" || !isCall || !strings.HasPrefix(exprStr(dir.Fun), "path.Dir") || !strings.Contains(exprStr(dir), refObj.Name()+".String()") {
					continue
				}
				n++
				resolves, returnsErr := false, false
				ast.Inspect(ifs.Body, func(m ast.Node) bool {
					switch x := m.(type) {
					case *ast.CallExpr:
						uses := false
						ast.Inspect(x, func(y ast.Node) bool {
							if id, ok := y.(*ast.Ident); ok && info.Uses[id] == refObj {
								uses = true
							}
							return true
						})
						if sel, ok := core.Unparen(x.Fun).(*ast.SelectorExpr); ok && uses {
							switch sel.Sel.Name {
							case "Get", "DeepestRef", "ResolveRefWithBase", "ResolveRef":
								resolves = true
							}
						}
					case *ast.ReturnStmt:
						for _, r := range x.Results {
							if core.IsErrorType(info.TypeOf(r)) && !core.IsNilExpr(info, r) {
								returnsErr = true
							}
						}
					}
					return true
				})
				c.S.Decide(resolves && returnsErr, "C09", "ERR-RESOLVE-SKIPPED", fi.QName()+"/range "+exprStr(rs.X), c.P.Pos(ifs.Pos()),
					"a $ref skipped as already canonical is still resolved, and a failure is returned",
					"$refs of the form '#/definitions/<name>' are skipped without being resolved: a dangling local $ref is never noticed and Flatten reports success")
			}
			return true
		})
	}
	if n < 1 {
		c.S.Note("ERR-RESOLVE-SKIPPED: no canonical-ref skip found below Flatten")
	}
}

// rebaseRule (C01): in the import step, every $ref of the imported schema is rewritten through
// normalize.RebaseRef (relative to the importing $ref) before the schema is saved.
func (c *Ctx) rebaseRule(reach []*core.FuncInfo) {
	found := false
	for _, fi := range reach {
		var resolve, save *ast.CallExpr
		for _, call := range calls(fi.Decl.Body) {
			callee := c.P.CalleeAny(fi, call)
			if callee == nil {
				continue
			}
			switch callee.FullName() {
			case "github.com/go-openapi/spec.ResolveRefWithBase":
				resolve = call
			case core.ModPath + "/internal/flatten/schutils.Save":
				save = call
			}
		}
		if resolve == nil || save == nil {
			continue
		}
		found = true
		info := c.info(fi)
		// the resolved schema variable
		var schObj types.Object
		if as, ok := c.parents(fi)[resolve].(*ast.AssignStmt); ok && len(as.Lhs) >= 1 {
			schObj = core.ObjOf(info, as.Lhs[0])
		}
		ok := false
		why := "no loop rewrites the $refs of the imported schema through normalize.RebaseRef before it is saved"
		ast.Inspect(fi.Decl.Body, func(n ast.Node) bool {
			rs, isRange := n.(*ast.RangeStmt)
			if !isRange || rs.Pos() > save.Pos() || rs.Pos() < resolve.Pos() {
				return true
			}
			// ranges over the all-references index of an analyzer
			sel, isSel := core.Unparen(rs.X).(*ast.SelectorExpr)
			if !isSel {
				return true
			}
			allField, _ := getterField(c, "AllReferences")
			if allField == nil || core.FieldOf(info, sel) != allField {
				return true
			}
			// that analyzer analysed the resolved schema
			analysed := false
			for _, call := range calls(fi.Decl.Body) {
				if call.Pos() > rs.Pos() {
					continue
				}
				for _, a := range call.Args {
					if core.ObjOf(info, a) == schObj && schObj != nil {
						if s2, ok := core.Unparen(call.Fun).(*ast.SelectorExpr); ok && strings.HasPrefix(exprStr(sel.X), exprStr(s2.X)) {
							analysed = true
						}
					}
				}
			}
			// body: UpdateRef(sch, key, MustCreateRef(RebaseRef(<importing ref>.String(), <loop ref>.String())))
			rebased := false
			for _, call := range calls(rs.Body) {
				callee := c.P.CalleeAny(fi, call)
				if callee == nil || callee.Name() != "UpdateRef" || len(call.Args) < 3 {
					continue
				}
				if core.ObjOf(info, call.Args[0]) != schObj || core.ObjOf(info, call.Args[1]) != core.ObjOf(info, rs.Key) {
					continue
				}
				for _, inner := range calls(call.Args[2]) {
					if ic := c.P.CalleeAny(fi, inner); ic != nil && ic.Name() == "RebaseRef" && len(inner.Args) == 2 {
						// base: the String() of a spec.Ref rooted at a parameter (the importing $ref); target: the loop's $ref
						baseOK := false
						if bc, ok := core.Unparen(inner.Args[0]).(*ast.CallExpr); ok {
							if bs, ok := core.Unparen(bc.Fun).(*ast.SelectorExpr); ok && bs.Sel.Name == "String" && core.IsSpecType(info.TypeOf(bs.X), "Ref") {
								if id := rootIdent(bs.X); id != nil {
									if o := core.ObjOf(info, id); o != nil && c.P.Locals(fi).Params[o] {
										baseOK = true
									}
								}
							}
						}
						if baseOK && strings.Contains(exprStr(inner.Args[1]), exprStr(rs.Value)) {
							rebased = true
						}
					}
				}
			}
			switch {
			case !analysed:
				why = "the loop over " + exprStr(rs.X) + " does not range over an analysis of the imported schema"
			case !rebased:
				why = "the loop over the imported schema's $refs does not rewrite each of them with normalize.RebaseRef(<importing $ref>, <inner $ref>)"
			default:
				ok = true
			}
			return true
		})
		c.S.Decide(ok, "C01", "PIPE-REBASE", fi.QName(), c.P.Pos(save.Pos()),
			"every $ref inside an imported schema is rebased relative to the importing $ref before the schema becomes a definition",
			why+": relative $refs inside the imported schema would be resolved against the wrong document")
	}
	if !found {
		c.S.Undecided("C01", "PIPE-REBASE", "anchor", "-", "no function both resolves a remote $ref and saves the result")
	}
}

// canonicalRefs (C02): every $ref written into the document by a flattening phase is '#/definitions/<name>'
// by construction, or is proven to be one by the dominating top-level test.
func (c *Ctx) canonicalRefs(reach []*core.FuncInfo) {
	n := 0
	for _, fi := range reach {
		if fi.Pkg.PkgPath != core.ModPath {
			continue
		}
		info := c.info(fi)
		for _, call := range calls(fi.Decl.Body) {
			callee := c.P.CalleeAny(fi, call)
			if callee == nil || callee.Pkg() == nil || !strings.HasSuffix(callee.Pkg().Path(), "/replace") {
				continue
			}
			if callee.Name() != "UpdateRef" && callee.Name() != "RewriteSchemaToRef" {
				continue
			}
			if len(call.Args) < 3 {
				continue
			}
			// the target document: only writes into the root document count (not into a schema being imported)
			if !core.IsSpecType(info.TypeOf(call.Args[0]), "Swagger") {
				continue
			}
			n++
			ref := core.Unparen(call.Args[2])
			key := fi.QName() + "/" + callee.Name()
			ok, how := c.isCanonicalRef(fi, ref, call)
			if !ok {
				if why := refTransientWhy; c.refIsFirstParent(fi, ref) {
					// the exemption holds only while the write raises the re-run flag when the ref is not a definition
					raised := c.raisesRerunFlag(fi, call, ref)
					if raised {
						c.S.Exempt("C02", "REF-CANONICAL", key, c.P.Pos(call.Pos()), why)
					} else {
						c.S.Violate("C02", "REF-CANONICAL", key, c.P.Pos(call.Pos()),
							"a possibly non-canonical $ref ("+exprStr(ref)+") is written and the function does not tell its caller (no `flag = flag || path.Dir(ref) != \"#/definitions\"` next to the write): pointer naming is not run again and the anonymous pointer survives")
					}
					continue
				}
			}
			c.S.Decide(ok, "C02", "REF-CANONICAL", key, c.P.Pos(call.Pos()),
				"the written $ref is "+how,
				"the $ref written here ("+exprStr(ref)+") is neither built as '#/definitions/'+name nor guarded by the top-level-definition test: a non-canonical $ref can survive flattening")
		}
	}
	if n < 6 {
		c.S.Undecided("C02", "REF-CANONICAL", "floor", "-", fmt.Sprintf("only %d $ref writes into the root document found (confirmed by hand: 8)", n))
	}
}

// isDefsJoin: the string expression is path.Join("#/definitions", X), a local holding one, or a parameter that
// receives one at every call site of the function.
func (c *Ctx) isDefsJoin(fi *core.FuncInfo, e ast.Expr, depth int) bool {
	info := c.info(fi)
	e = core.Unparen(e)
	if depth > 3 {
		return false
	}
	if o := core.ObjOf(info, e); o != nil {
		if idx, isParam := c.paramIndexOf(fi, o); isParam {
			sites := 0
			for _, caller := range c.P.SortedFuncs() {
				for _, call := range calls(caller.Decl.Body) {
					if c.P.StaticCallee(caller, call) != fi.Obj {
						continue
					}
					sites++
					if idx >= len(call.Args) || !c.isDefsJoin(caller, call.Args[idx], depth+1) {
						return false
					}
				}
			}
			return sites > 0
		}
		defs := c.P.Locals(fi).Defs[o]
		if len(defs) == 1 && defs[0].Kind == core.DefAssign {
			return c.isDefsJoin(fi, defs[0].Expr, depth+1)
		}
		return false
	}
	j, ok := e.(*ast.CallExpr)
	if !ok {
		return false
	}
	jc := c.P.CalleeAny(fi, j)
	if jc == nil || jc.FullName() != "path.Join" || len(j.Args) != 2 {
		return false
	}
	s, isConst := core.ConstString(info, j.Args[0])
	return isConst && s == "#/definitions"
}

// paramIndexOf: index of o among the declared parameters of fi (receiver excluded).
func (c *Ctx) paramIndexOf(fi *core.FuncInfo, o types.Object) (int, bool) {
	sig := fi.Obj.Type().(*types.Signature)
	for i := 0; i < sig.Params().Len(); i++ {
		if sig.Params().At(i) == o {
			return i, true
		}
	}
	return 0, false
}

// refTransientWhy: the one role in which a possibly non-canonical $ref may be written (DESIGN §3.4): a ref to
// the first (topmost) parent of a definition being stripped, reported to the caller through the re-run flag.
const refTransientWhy = "transient: other parents are re-pointed to the first parent, possibly an anonymous pointer; the caller is told (replacedWithComplex) and pointer naming runs again on all paths"

// refIsFirstParent: the ref is spec.MustCreateRef(<element 0 of the result of sortref.TopmostFirst>).
func (c *Ctx) refIsFirstParent(fi *core.FuncInfo, ref ast.Expr) bool {
	info := c.info(fi)
	resolve := func(e ast.Expr) ast.Expr {
		e = core.Unparen(e)
		for i := 0; i < 3; i++ {
			o := core.ObjOf(info, e)
			if o == nil {
				break
			}
			defs := c.P.Locals(fi).Defs[o]
			if len(defs) != 1 || defs[0].Kind != core.DefAssign {
				break
			}
			e = core.Unparen(defs[0].Expr)
		}
		return e
	}
	call, ok := resolve(ref).(*ast.CallExpr)
	if !ok || len(call.Args) != 1 {
		return false
	}
	if cal := c.P.CalleeAny(fi, call); cal == nil || cal.FullName() != "github.com/go-openapi/spec.MustCreateRef" {
		return false
	}
	ix, ok := resolve(call.Args[0]).(*ast.IndexExpr)
	if !ok {
		return false
	}
	if tv, isC := info.Types[ix.Index]; !isC || tv.Value == nil || tv.Value.String() != "0" {
		return false
	}
	src, ok := resolve(ix.X).(*ast.CallExpr)
	if !ok {
		return false
	}
	cal := c.P.CalleeAny(fi, src)
	return cal != nil && cal.Name() == "TopmostFirst"
}

// raisesRerunFlag: next to the write (same block), a returned bool flag is raised when path.Dir(<ref>) is not
// the definitions prefix — either `flag = flag || path.Dir(ref) != "#/definitions"` or
// `if path.Dir(ref) != "#/definitions" { flag = true }`.
func (c *Ctx) raisesRerunFlag(fi *core.FuncInfo, site *ast.CallExpr, ref ast.Expr) bool {
	info := c.info(fi)
	refObj := core.ObjOf(info, ref)
	// the objects the path.Dir argument may mention: the ref local, or the locals its constructor was built from
	mention := map[types.Object]bool{}
	if refObj != nil {
		mention[refObj] = true
		for _, d := range c.P.Locals(fi).Defs[refObj] {
			if d.Expr != nil {
				ast.Inspect(d.Expr, func(n ast.Node) bool {
					if id, ok := n.(*ast.Ident); ok {
						if o := info.Uses[id]; o != nil {
							if _, isVar := o.(*types.Var); isVar {
								mention[o] = true
							}
						}
					}
					return true
				})
			}
		}
	}
	isNonDefTest := func(e ast.Expr) bool {
		found := false
		ast.Inspect(e, func(n ast.Node) bool {
			be, ok := n.(*ast.BinaryExpr)
			if !ok || be.Op != token.NEQ {
				return true
			}
			for _, pair := range [][2]ast.Expr{{be.X, be.Y}, {be.Y, be.X}} {
				s, isC := core.ConstString(info, pair[1])
				dir, isCall := core.Unparen(pair[0]).(*ast.CallExpr)
				if !isC || s != "#/definitions" || !isCall || len(dir.Args) != 1 {
					continue
				}
				if cal := c.P.CalleeAny(fi, dir); cal == nil || cal.FullName() != "path.Dir" {
					continue
				}
				ast.Inspect(dir.Args[0], func(m ast.Node) bool {
					if id, ok := m.(*ast.Ident); ok && mention[info.Uses[id]] {
						found = true
					}
					return true
				})
			}
			return true
		})
		return found
	}
	blk, isBlk := c.parents(fi).Enclosing(site, func(n ast.Node) bool { _, b := n.(*ast.BlockStmt); return b }).(*ast.BlockStmt)
	if !isBlk {
		return false
	}
	for _, st := range blk.List {
		switch x := st.(type) {
		case *ast.AssignStmt:
			if len(x.Lhs) != 1 || len(x.Rhs) != 1 || !core.IsBool(info.TypeOf(x.Lhs[0])) || !c.flowsToReturn(fi, x.Lhs[0]) {
				continue
			}
			// flag = flag || <test>
			if be, ok := core.Unparen(x.Rhs[0]).(*ast.BinaryExpr); ok && be.Op == token.LOR && isNonDefTest(x.Rhs[0]) {
				return true
			}
		case *ast.IfStmt:
			if x.Init != nil || x.Else != nil || !isNonDefTest(x.Cond) {
				continue
			}
			// the test must not be weakened by a conjunction
			if be, ok := core.Unparen(x.Cond).(*ast.BinaryExpr); ok && be.Op == token.LAND {
				continue
			}
			for _, bs := range x.Body.List {
				if as, ok := bs.(*ast.AssignStmt); ok && len(as.Lhs) == 1 && len(as.Rhs) == 1 && c.flowsToReturn(fi, as.Lhs[0]) {
					if tv, isC := info.Types[as.Rhs[0]]; isC && tv.Value != nil && tv.Value.String() == "true" {
						return true
					}
				}
			}
		}
	}
	return false
}

func (c *Ctx) isCanonicalRef(fi *core.FuncInfo, ref ast.Expr, site *ast.CallExpr) (bool, string) {
	info := c.info(fi)
	// (a) spec.MustCreateRef(path.Join("#/definitions", X))
	isJoinDefs := func(e ast.Expr) bool {
		call, ok := core.Unparen(e).(*ast.CallExpr)
		if !ok {
			return false
		}
		cal := c.P.CalleeAny(fi, call)
		if cal == nil || cal.FullName() != "github.com/go-openapi/spec.MustCreateRef" || len(call.Args) != 1 {
			return false
		}
		ja := core.Unparen(call.Args[0])
		// a local holding the joined path
		if o := core.ObjOf(info, ja); o != nil {
			if defs := c.P.Locals(fi).Defs[o]; len(defs) == 1 && defs[0].Kind == core.DefAssign {
				ja = core.Unparen(defs[0].Expr)
			}
		}
		return c.isDefsJoin(fi, ja, 0)
	}
	if isJoinDefs(ref) {
		return true, "built as '#/definitions/'+name"
	}
	if o := core.ObjOf(info, ref); o != nil {
		defs := c.P.Locals(fi).Defs[o]
		if len(defs) == 1 && defs[0].Kind == core.DefAssign && isJoinDefs(defs[0].Expr) {
			return true, "built as '#/definitions/'+name"
		}
	}
	// (b) guarded by a top-level test: a condition X.TopLevel where TopLevel was assigned path.Dir(<ref>.String()) == "#/definitions"
	for _, cd := range c.conds(fi, site) {
		if cd.Kind != core.CondBool || cd.Neg {
			continue
		}
		sel, ok := core.Unparen(cd.Expr).(*ast.SelectorExpr)
		if !ok || sel.Sel.Name != "TopLevel" {
			continue
		}
		refSel, ok := ref.(*ast.SelectorExpr)
		if !ok || !sameExpr(refSel.X, sel.X) {
			continue
		}
		// the last assignment to X.TopLevel before the site compares path.Dir(...) with the definitions prefix,
		// and X.Ref is assigned from the same source
		okAssign := false
		ast.Inspect(fi.Decl.Body, func(n ast.Node) bool {
			as, isAs := n.(*ast.AssignStmt)
			if !isAs || as.Pos() > site.Pos() || len(as.Lhs) != 1 || len(as.Rhs) != 1 {
				return true
			}
			if !sameExpr(as.Lhs[0], sel) {
				return true
			}
			be, isB := core.Unparen(as.Rhs[0]).(*ast.BinaryExpr)
			if !isB {
				okAssign = false
				return true
			}
			s, isConst := core.ConstString(info, be.Y)
			dir, isCall := core.Unparen(be.X).(*ast.CallExpr)
			okAssign = isConst && s == "#/definitions" && isCall && strings.HasPrefix(exprStr(dir.Fun), "path.Dir")
			return true
		})
		if okAssign {
			return true, "proven top-level by the dominating test on path.Dir(ref) == '#/definitions'"
		}
	}
	return false, ""
}

// progressRule (C06): the removal pass reports progress only together with a deletion from the definitions.
func (c *Ctx) progressRule(reach []*core.FuncInfo) {
	found := false
	for _, fi := range reach {
		sig := fi.Obj.Type().(*types.Signature)
		if sig.Results().Len() != 1 || !core.IsBool(sig.Results().At(0).Type()) || fi.Decl.Type.Results == nil {
			continue
		}
		info := c.info(fi)
		// a function with a named/returned bool flag and a delete on a Definitions map
		var dels []*ast.CallExpr
		for _, call := range calls(fi.Decl.Body) {
			if isBuiltin(info, call, "delete") && len(call.Args) == 2 {
				if _, tn := core.NamedOf(info.TypeOf(call.Args[0])); tn == "Definitions" {
					dels = append(dels, call)
				}
			}
		}
		if len(dels) == 0 {
			continue
		}
		found = true
		pm := c.parents(fi)
		ok := true
		why := ""
		n := 0
		ast.Inspect(fi.Decl.Body, func(nd ast.Node) bool {
			as, isAs := nd.(*ast.AssignStmt)
			if !isAs || len(as.Lhs) != 1 || len(as.Rhs) != 1 {
				return true
			}
			o := core.ObjOf(info, as.Lhs[0])
			if o == nil || !core.IsBool(o.Type()) {
				return true
			}
			if tv, isC := info.Types[as.Rhs[0]]; !isC || tv.Value == nil || tv.Value.String() != "true" {
				return true
			}
			// is this the returned flag?
			if !c.flowsToReturn(fi, as.Lhs[0]) {
				return true
			}
			n++
			blk, _ := pm[as].(*ast.BlockStmt)
			same := false
			for _, d := range dels {
				if blk != nil && pm.EnclosingStmt(d) != nil && pm[pm.EnclosingStmt(d)] == ast.Node(blk) {
					same = true
				}
			}
			if !same {
				ok = false
				why = "the progress flag is set at " + c.P.Pos(as.Pos()) + " on a path that does not delete a definition"
			}
			return true
		})
		if n == 0 {
			// the flag may be defined as "something is left to delete": flag := len(M) > 0, followed by a loop over M
			// whose body deletes one definition per element
			ast.Inspect(fi.Decl.Body, func(nd ast.Node) bool {
				var lhs, rhs ast.Expr
				switch x := nd.(type) {
				case *ast.AssignStmt:
					if len(x.Lhs) == 1 && len(x.Rhs) == 1 {
						lhs, rhs = x.Lhs[0], x.Rhs[0]
					}
				case *ast.ReturnStmt:
					if len(x.Results) == 1 {
						rhs = x.Results[0]
					}
				}
				if rhs == nil {
					return true
				}
				if lhs != nil && !c.flowsToReturn(fi, lhs) {
					return true
				}
				x, empty, isLen := core.EmptyTest(info, core.Cond{Kind: core.CondBool, Expr: rhs})
				if !isLen || empty {
					return true
				}
				// a loop over x, after this point, deleting from the definitions at the top level of its body
				ast.Inspect(fi.Decl.Body, func(m ast.Node) bool {
					rs, isRange := m.(*ast.RangeStmt)
					if !isRange || rs.Pos() < nd.Pos() || !sameExpr(rs.X, x) {
						return true
					}
					for _, st := range rs.Body.List {
						if es, isExpr := st.(*ast.ExprStmt); isExpr {
							for _, d := range dels {
								if es.X == ast.Expr(d) {
									n++
								}
							}
						}
					}
					return true
				})
				return true
			})
		}
		if n == 0 {
			ok, why = false, "the pass never reports progress"
		}
		c.S.Decide(ok, "C06", "TERM-PROGRESS", fi.QName(), c.P.Pos(fi.Decl.Pos()),
			"the pass reports progress only in the block that deletes a definition (whose key is a member of the map by ENC-MAPKEY): each repeating pass strictly shrinks the definitions",
			why+": the removal loop can repeat without shrinking the definitions (non-termination) or stop early")
	}
	if !found {
		c.S.Undecided("C06", "TERM-PROGRESS", "anchor", "-", "no bool-returning pass deleting from a Definitions map found below Flatten")
	}
}

// panicUnreachable (C09): the rewriters panic on an unexpected argument kind; every call site passes a
// *spec.Swagger or *spec.Schema (statically), so the panic is unreachable.
func (c *Ctx) panicUnreachable(reach []*core.FuncInfo) {
	n := 0
	for _, fi := range reach {
		if !strings.HasSuffix(fi.Pkg.PkgPath, "/replace") {
			continue
		}
		info := c.info(fi)
		// contains a panic and takes the document as an interface-typed parameter
		var guarded *types.Var
		hasPanic := false
		for _, call := range calls(fi.Decl.Body) {
			if isBuiltin(info, call, "panic") {
				hasPanic = true
			}
		}
		if hasPanic {
			sig := fi.Obj.Type().(*types.Signature)
			for i := 0; i < sig.Params().Len(); i++ {
				if it, ok := sig.Params().At(i).Type().Underlying().(*types.Interface); ok && it.NumMethods() == 0 {
					guarded = sig.Params().At(i)
					break
				}
			}
		}
		if guarded == nil {
			continue
		}
		idx, ok := effects(c).paramIndex(fi, guarded)
		if !ok {
			continue
		}
		n++
		bad := c.badKindCallers(fi, idx, map[*core.FuncInfo]bool{})
		c.S.Decide(len(bad) == 0, "C09", "PANIC-UNREACH", fi.QName(), c.P.Pos(fi.Decl.Pos()),
			"every (transitive) call site passes a *spec.Swagger or *spec.Schema: the panic on other kinds is unreachable",
			"the panic on an unexpected document kind is reachable: "+strings.Join(bad, "; "))
	}
	if n < 1 {
		c.S.Undecided("C09", "PANIC-UNREACH", "floor", "-", fmt.Sprintf("only %d kind-guarded rewriters found (confirmed by hand: 3)", n))
	}
}

func callsInStmts(list []ast.Stmt) []*ast.CallExpr {
	var out []*ast.CallExpr
	for _, s := range list {
		out = append(out, calls(s)...)
	}
	return out
}

func (c *Ctx) badKindCallers(fi *core.FuncInfo, idx int, seen map[*core.FuncInfo]bool) []string {
	if seen[fi] {
		return nil
	}
	seen[fi] = true
	var bad []string
	for _, cs := range c.P.CG().In[fi.Obj] {
		if cs.Call == nil || idx >= len(cs.Call.Args) {
			continue
		}
		if strings.HasSuffix(c.P.Fset.Position(cs.Call.Pos()).Filename, "_test.go") {
			continue
		}
		a := cs.Call.Args[idx]
		t := c.info(cs.Caller).TypeOf(a)
		if core.IsPointer(t) && (core.IsSpecType(t, "Swagger") || core.IsSpecType(t, "Schema")) {
			continue
		}
		// the caller forwards its own interface parameter: check its callers
		if o, ok := core.ObjOf(c.info(cs.Caller), a).(*types.Var); ok {
			if pi, isParam := effects(c).paramIndex(cs.Caller, o); isParam {
				bad = append(bad, c.badKindCallers(cs.Caller, pi, seen)...)
				continue
			}
		}
		bad = append(bad, fmt.Sprintf("%s passes %s of type %s at %s", cs.Caller.QName(), exprStr(a), t, c.P.Pos(cs.Call.Pos())))
	}
	return bad
}
