package rules

import (
	"fmt"
	"go/ast"
	"go/types"
	"sort"
	"strings"

	"verif/sa/internal/core"
)

func init() {
	register(Rule{
		Name:  "PURE",
		Props: []string{"C16"},
		Doc:   "New and every exported *Spec query method perform no write to the document or to the analyzer, start no goroutine, and the pattern/enum getters return fresh maps",
		Run:   pureRules,
	})
	register(Rule{
		Name:  "WRITESET",
		Props: []string{"C17", "C19", "C01"},
		Doc:   "the writes reachable from Mixin touch only the primary; those reachable from FixEmptyResponseDescriptions touch only response descriptions; those of Flatten attributed to its argument touch no member of an operation, path item, parameter, response, header or the info section",
		Run:   writesetRules,
	})
}

// isDocStep: a step through storage of the document model (a go-openapi/spec struct field).
func isDocStep(s core.Step) bool {
	return s.Field != nil && s.Field.Pkg() != nil && s.Field.Pkg().Path() == core.SpecPath
}

// specQueryMethods lists the exported methods of *Spec.
func specQueryMethods(c *Ctx) []*core.FuncInfo {
	var out []*core.FuncInfo
	for _, fi := range c.P.SortedFuncs() {
		if fi.Pkg.PkgPath != core.ModPath || !fi.Obj.Exported() || fi.Decl.Recv == nil {
			continue
		}
		if strings.HasPrefix(fi.Name(), "Spec.") {
			out = append(out, fi)
		}
	}
	return out
}

func pureRules(c *Ctx) {
	e := effects(c)
	methods := specQueryMethods(c)
	if len(methods) < 30 {
		c.S.Undecided("C16", "PURE-WRITE", "floor", "-", fmt.Sprintf("only %d exported *Spec methods found (confirmed by hand: 37)", len(methods)))
	}
	newFn := c.need("C16", "PURE-WRITE", "", "New")
	if newFn == nil {
		return
	}
	check := func(fi *core.FuncInfo, isNew bool) {
		var bad []string
		for _, w := range e.sortedWrites(fi) {
			switch w.root {
			case "pkgvar":
				bad = append(bad, "writes package variable "+w.rootObj.Name()+": "+e.describe(w))
			case "param":
				// New: the only parameter is the document. Query methods: receiver and parameters.
				doc := false
				for _, s := range w.steps {
					if isDocStep(s) {
						doc = true
					}
				}
				pt := paramType(fi, w.param)
				if pp, _ := core.NamedOf(pt); pp == core.SpecPath {
					doc = true
				}
				if doc {
					bad = append(bad, "writes the document ("+paramName(fi, w.param)+w.relString()+"): "+e.describe(w))
				} else {
					bad = append(bad, "writes the analyzer's own state ("+paramName(fi, w.param)+w.relString()+"): "+e.describe(w))
				}
			case "unknown":
				// a write below something we could not root: only a problem when it goes through document storage
				for _, s := range w.steps {
					if isDocStep(s) {
						bad = append(bad, "writes document storage through an unresolved alias: "+e.describe(w))
						break
					}
				}
			}
		}
		sort.Strings(bad)
		if len(bad) > 3 {
			bad = append(bad[:3], fmt.Sprintf("… (%d more)", len(bad)-3))
		}
		c.S.Decide(len(bad) == 0, "C16", "PURE-WRITE", fi.QName(), c.P.Pos(fi.Decl.Pos()),
			"no write to the document, to the analyzer or to package state on any path (transitively)",
			strings.Join(bad, "; "))
		s := e.sum[fi]
		c.S.Decide(len(s.conc) == 0, "C16", "PURE-CONC", fi.QName(), c.P.Pos(fi.Decl.Pos()),
			"no goroutine or channel operation reachable", strings.Join(s.conc, "; "))
		var ext []string
		for _, ec := range s.extCalls {
			docArg := ec.root == "param"
			if docArg {
				ext = append(ext, fmt.Sprintf("%s receives %s (%s) at %s", ec.callee, ec.arg, ec.fn.QName(), c.P.Pos(ec.pos)))
			}
		}
		sort.Strings(ext)
		if len(ext) > 0 {
			c.S.Undecided("C16", "PURE-EXTCALL", fi.QName(), c.P.Pos(fi.Decl.Pos()),
				"external call outside the read-only table receives caller-visible pointer-like data: "+strings.Join(ext, "; "))
		} else {
			c.S.Hold("C16", "PURE-EXTCALL", fi.QName(), c.P.Pos(fi.Decl.Pos()), "every external callee receiving document or analyzer data is in the read-only table")
		}
	}
	check(newFn, true)
	for _, m := range methods {
		check(m, false)
	}
	// fresh returns of the pattern/enum getters
	n := 0
	for _, m := range methods {
		name := m.Obj.Name()
		if !(strings.HasSuffix(name, "Patterns") || strings.HasSuffix(name, "Enums")) {
			continue
		}
		sig := m.Obj.Type().(*types.Signature)
		if sig.Results().Len() != 1 || !core.IsMap(sig.Results().At(0).Type()) {
			continue
		}
		n++
		c.S.Decide(e.sum[m].returnsFresh, "C16", "PURE-FRESHRET", m.QName(), c.P.Pos(m.Decl.Pos()),
			"returns a map created in the call (copy)", "returns a map that is not created by the call: callers can alter later answers by mutating it")
	}
	if n < 10 {
		c.S.Undecided("C16", "PURE-FRESHRET", "floor", "-", fmt.Sprintf("only %d pattern/enum getters found (expected 10)", n))
	}
	// New writes only below the Spec it allocates: its result must be a fresh allocation
	c.S.Decide(e.sum[newFn].returnsNew, "C16", "PURE-NEWFRESH", newFn.QName(), c.P.Pos(newFn.Decl.Pos()),
		"New returns a Spec allocated by the call", "New does not return a freshly allocated Spec: analyzers could share index state")
}

func paramType(fi *core.FuncInfo, idx int) types.Type {
	sig := fi.Obj.Type().(*types.Signature)
	if idx == -1 {
		if sig.Recv() != nil {
			return sig.Recv().Type()
		}
		return nil
	}
	if idx < sig.Params().Len() {
		return sig.Params().At(idx).Type()
	}
	return nil
}

func paramName(fi *core.FuncInfo, idx int) string {
	sig := fi.Obj.Type().(*types.Signature)
	if idx == -1 && sig.Recv() != nil {
		return sig.Recv().Name()
	}
	if idx >= 0 && idx < sig.Params().Len() {
		return sig.Params().At(idx).Name()
	}
	return fmt.Sprintf("param%d", idx)
}

func writesetRules(c *Ctx) {
	e := effects(c)
	// ---- C17: Mixin writes only the primary ----
	if mix := c.need("C17", "WRITESET", "", "Mixin"); mix != nil {
		var bad []string
		nPrimary := 0
		for _, w := range e.sortedWrites(mix) {
			switch {
			case w.root == "param" && w.param == 0:
				nPrimary++
			case w.root == "param":
				// the documented in-place rename of the merged operation's id
				if fv := w.finalField(); fv != nil && fv.Name() == "ID" && strings.HasSuffix(core.OwnerStruct(c.P, fv), ".OperationProps") {
					c.S.Exempt("C17", "WRITESET", "Mixin/mixins/Operation.ID", c.P.Pos(w.pos), "documented: operation ids of merged operations are renamed in place on collision (C18)")
					continue
				}
				bad = append(bad, "a mixin document is written ("+paramName(mix, w.param)+w.relString()+"): "+e.describe(w))
			case w.root == "pkgvar":
				bad = append(bad, "package variable written: "+e.describe(w))
			case w.root == "unknown":
				// the documented in-place rename again, reached through a closure parameter (a hook called per entry)
				if fv := w.finalField(); fv != nil && fv.Name() == "ID" && strings.HasSuffix(core.OwnerStruct(c.P, fv), ".OperationProps") {
					c.S.Exempt("C17", "WRITESET", "Mixin/mixins/Operation.ID", c.P.Pos(w.pos), "documented: operation ids of merged operations are renamed in place on collision (C18)")
					continue
				}
				for _, s := range w.steps {
					if isDocStep(s) {
						bad = append(bad, "document storage written through an unresolved alias: "+e.describe(w))
						break
					}
				}
			}
		}
		sort.Strings(bad)
		c.S.Decide(len(bad) == 0, "C17", "WRITESET", "Mixin/only-primary", c.P.Pos(mix.Decl.Pos()),
			fmt.Sprintf("all %d transitive writes are rooted at the primary document", nPrimary), strings.Join(bad, "; "))
		if nPrimary < 20 {
			c.S.Undecided("C17", "WRITESET", "floor", "-", fmt.Sprintf("only %d writes to the primary found (confirmed by hand: 40+)", nPrimary))
		}
	}
	flattenWriteSet(c, e)
	// ---- C19: FixEmptyResponseDescriptions writes only response descriptions (and writes back its range copies) ----
	if fix := c.need("C19", "WRITESET", "", "FixEmptyResponseDescriptions"); fix != nil {
		var bad []string
		n := 0
		for _, w := range e.sortedWrites(fix) {
			n++
			if w.root == "pkgvar" {
				bad = append(bad, "package variable written: "+e.describe(w))
				continue
			}
			fv := w.finalField()
			last := ""
			if len(w.steps) > 0 {
				last = w.steps[len(w.steps)-1].Name
			}
			switch {
			case last != "[*]" && fv != nil && fv.Name() == "Description" && strings.HasSuffix(core.OwnerStruct(c.P, fv), ".ResponseProps"):
				// the description itself
			case last == "[*]" && w.how == "assign" && isWriteBackOfRangeCopy(c, w):
				// m[k] = v where v is the range copy of m[k]
			default:
				bad = append(bad, "writes something other than a response description: "+e.describe(w))
			}
		}
		sort.Strings(bad)
		c.S.Decide(len(bad) == 0, "C19", "WRITESET", "FixEmptyResponseDescriptions/only-descriptions", c.P.Pos(fix.Decl.Pos()),
			fmt.Sprintf("all %d transitive writes store a Response.Description or write a range copy back to its own map entry", n), strings.Join(bad, "; "))
		if n < 2 {
			c.S.Undecided("C19", "WRITESET", "floor", "-", "fewer writes than confirmed by hand (3)")
		}
	}
}

// flattenWriteSet (C01, WRITESET/Flatten): "every path, operation, parameter, response and header is unchanged once
// $refs are followed … the only additions are new definitions and the x-go-gen-location marker". Among the transitive
// writes of Flatten that the effect summaries can attribute to its argument, none stores into a member of an
// operation, a path item, the info section, a parameter, a response or a header other than through the expansion of
// the dependency (spec.ExpandSpec) — schemas, $refs, extensions of schemas, the definitions and the two shared
// sections are what Flatten rewrites. (Writes through values obtained by resolving a JSON pointer are decided by the
// rewriter rules, not here.)
func flattenWriteSet(c *Ctx, e *effEngine) {
	flat := c.root("Flatten")
	if flat == nil {
		return
	}
	frozen := map[string]bool{"OperationProps": true, "PathItemProps": true, "InfoProps": true, "ParamProps": true, "ResponseProps": true, "HeaderProps": true, "ContactInfoProps": true, "TagProps": true, "SecuritySchemeProps": true}
	allowedSwagger := map[string]bool{"Definitions": true, "Parameters": true, "Responses": true}
	var bad []string
	n := 0
	for _, w := range e.sortedWrites(flat) {
		if w.root != "param" || strings.HasPrefix(w.how, "ext:") {
			continue
		}
		n++
		fv := w.finalField()
		if fv == nil {
			continue
		}
		owner := core.OwnerStruct(c.P, fv)
		short := owner[strings.LastIndex(owner, ".")+1:]
		if !strings.Contains(owner, "go-openapi/spec.") {
			continue
		}
		switch {
		case frozen[short] && !core.IsSpecType(fv.Type(), "Schema") && !core.IsSpecType(core.Deref(fv.Type()), "Schema"):
			bad = append(bad, short+"."+fv.Name()+": "+e.describe(w))
		case short == "SwaggerProps" && !allowedSwagger[fv.Name()]:
			bad = append(bad, short+"."+fv.Name()+": "+e.describe(w))
		}
	}
	sort.Strings(bad)
	c.S.Decide(len(bad) == 0, "C01", "WRITESET", "Flatten/only-schemas-and-definitions", c.P.Pos(flat.Decl.Pos()),
		fmt.Sprintf("none of the %d transitive writes attributed to Flatten's argument stores into a member of an operation, path item, parameter, response, header or the info section", n),
		"Flatten writes into a part of the document it must leave unchanged: "+strings.Join(bad, "; "))
	if n < 20 {
		// phases run through a table of function values are not followed by the effect summaries: the rule then sees
		// fewer writes than there are — it still reports what it sees, and says so
		c.S.Note("WRITESET/Flatten: only %d writes attributed to Flatten's argument (60+ on the pinned tree): phases reached through function values are not followed", n)
	}
}

// isWriteBackOfRangeCopy: the write is `M[k] = v` where v is a local copy of that very entry:
// the value variable of `for k, v := range M`, or `v := M[k]`; M a map of spec.Response.
func isWriteBackOfRangeCopy(c *Ctx, w effWrite) bool {
	fi := w.fn
	if fi == nil {
		return false
	}
	info := fi.Pkg.TypesInfo
	found := false
	ast.Inspect(fi.Decl.Body, func(n ast.Node) bool {
		as, ok := n.(*ast.AssignStmt)
		if !ok || as.Pos() != w.pos || len(as.Lhs) != 1 || len(as.Rhs) != 1 {
			return true
		}
		ix, ok := core.Unparen(as.Lhs[0]).(*ast.IndexExpr)
		if !ok {
			return true
		}
		if mt, ok := info.TypeOf(ix.X).Underlying().(*types.Map); !ok || !core.IsSpecType(mt.Elem(), "Response") {
			return true
		}
		// M[k] = fix(M[k]): the entry, handed by value to a module function that returns its own parameter
		if call, isCall := core.Unparen(as.Rhs[0]).(*ast.CallExpr); isCall && len(call.Args) == 1 && sameExpr(call.Args[0], ix) {
			if g := c.P.Funcs[c.P.StaticCallee(fi, call)]; g != nil && g.Decl.Body != nil {
				po := paramObj(g, 0)
				all, nret := po != nil && !core.IsPointer(po.Type()), 0
				ast.Inspect(g.Decl.Body, func(m ast.Node) bool {
					if _, isLit := m.(*ast.FuncLit); isLit {
						return false
					}
					if ret, isRet := m.(*ast.ReturnStmt); isRet {
						nret++
						if len(ret.Results) != 1 || core.ObjOf(c.info(g), ret.Results[0]) != types.Object(po) {
							all = false
						}
					}
					return true
				})
				if all && nret > 0 {
					found = true
				}
			}
			return true
		}
		vo := core.ObjOf(info, as.Rhs[0])
		if vo == nil {
			return true
		}
		defs := c.P.Locals(fi).Defs[vo]
		if len(defs) != 1 {
			return true
		}
		switch d := defs[0]; d.Kind {
		case core.DefRangeVal:
			rs := d.Node.(*ast.RangeStmt)
			if sameExpr(rs.X, ix.X) && rs.Key != nil && core.ObjOf(info, rs.Key) == core.ObjOf(info, ix.Index) && core.ObjOf(info, ix.Index) != nil {
				found = true
			}
		case core.DefAssign:
			if src, ok := core.Unparen(d.Expr).(*ast.IndexExpr); ok && sameExpr(src.X, ix.X) && sameExpr(src.Index, ix.Index) {
				found = true
			}
		}
		return true
	})
	return found
}

// DumpEffects prints the write summary of a function (debugging aid).
func DumpEffects(c *Ctx, name string) {
	e := effects(c)
	for _, fi := range c.P.SortedFuncs() {
		if fi.QName() != name && fi.Name() != name {
			continue
		}
		fmt.Println(fi.QName(), "returnsFresh:", e.sum[fi].returnsFresh, "conc:", e.sum[fi].conc)
		for _, w := range e.sortedWrites(fi) {
			fmt.Printf("  %s %s%s  [%s]\n", w.root, paramName(fi, w.param), w.relString(), e.describe(w))
		}
		for k, ec := range e.sum[fi].extCalls {
			fmt.Println("  EXT", k, ec.root, ec.param)
		}
	}
}
