// Package rules holds the repository-specific static rules. Each rule
// enumerates its instances from the type-checked source of /repo and emits
// one obligation per instance.
package rules

import (
	"go/ast"
	"go/types"
	"sort"
	"strings"

	"verif/sa/internal/core"
)

// Ctx is handed to every rule.
type Ctx struct {
	P *core.Program
	S *core.Sink
}

// Rule is a named rule template.
type Rule struct {
	Name  string
	Props []string // properties it emits obligations for
	Doc   string
	Run   func(*Ctx)
}

var registry []Rule

func register(r Rule) { registry = append(registry, r) }

// For returns the rules serving a property, in name order.
func For(prop string) []Rule {
	var out []Rule
	for _, r := range registry {
		for _, p := range r.Props {
			if p == prop {
				out = append(out, r)
				break
			}
		}
	}
	sort.Slice(out, func(i, j int) bool { return out[i].Name < out[j].Name })
	return out
}

// All returns every rule.
func All() []Rule {
	out := append([]Rule{}, registry...)
	sort.Slice(out, func(i, j int) bool { return out[i].Name < out[j].Name })
	return out
}

// ---- shared helpers -------------------------------------------------------

func (c *Ctx) info(fi *core.FuncInfo) *types.Info { return fi.Pkg.TypesInfo }

// root returns a function of the root package by name, or nil.
func (c *Ctx) root(name string) *core.FuncInfo { return c.P.Func("", name) }

var reachCaches = map[*core.Program]map[string]map[*core.FuncInfo]bool{}

// below reports whether fi lies in the call graph below the module's root function of that name (the root itself
// included). Properties are attributed to functions by this role, never by the file a function happens to live in.
func (c *Ctx) below(fi *core.FuncInfo, rootName string) bool {
	cacheMu.Lock()
	defer cacheMu.Unlock()
	rc := reachCaches[c.P]
	if rc == nil {
		rc = map[string]map[*core.FuncInfo]bool{}
		reachCaches[c.P] = rc
	}
	set, ok := rc[rootName]
	if !ok {
		set = map[*core.FuncInfo]bool{}
		if rf := c.root(rootName); rf != nil {
			set = c.P.Reachable(rf)
		}
		rc[rootName] = set
	}
	return set[fi]
}

// onSpec: fi is a method of the analyzer (*Spec), or one of the unexported helpers only the analyzer's methods
// and constructor use (everything below New).
func (c *Ctx) onSpec(fi *core.FuncInfo) bool {
	if sig, ok := fi.Obj.Type().(*types.Signature); ok && sig.Recv() != nil && core.IsModType(sig.Recv().Type(), "Spec") {
		return true
	}
	return c.below(fi, "New")
}

// complexFn: the predicate "this analysed schema is complex", found by role rather than by name: the method of
// AnalyzedSchema without parameters, returning bool, that is called below Flatten and whose body reads the three
// exported flags IsSimpleSchema, IsArray and IsMap.
func (c *Ctx) complexFn() *core.FuncInfo {
	if fi := c.root("AnalyzedSchema.isAnalyzedAsComplex"); fi != nil {
		return fi
	}
	var found *core.FuncInfo
	for _, fi := range c.P.SortedFuncs() {
		sig := fi.Obj.Type().(*types.Signature)
		if sig.Recv() == nil || !core.IsModType(sig.Recv().Type(), "AnalyzedSchema") || sig.Params().Len() != 0 || sig.Results().Len() != 1 || !core.IsBool(sig.Results().At(0).Type()) {
			continue
		}
		reads := map[string]bool{}
		ast.Inspect(fi.Decl.Body, func(n ast.Node) bool {
			if sel, ok := n.(*ast.SelectorExpr); ok {
				reads[sel.Sel.Name] = true
			}
			return true
		})
		if reads["IsSimpleSchema"] && reads["IsArray"] && reads["IsMap"] && len(fi.Decl.Body.List) == 1 {
			if found != nil {
				return nil // ambiguous
			}
			found = fi
		}
	}
	return found
}

// isComplexCall: the call is a call of the complexity predicate.
func (c *Ctx) isComplexCall(fi *core.FuncInfo, call *ast.CallExpr) bool {
	cx := c.complexFn()
	if cx == nil {
		return false
	}
	cal := c.P.StaticCallee(fi, call)
	return cal != nil && cal == cx.Obj
}

// inlineNamingPhase: the phase of Flatten that names inline schemas, by role: the function below Flatten (other
// than the namer itself) that calls the namer inside a loop over the keys delivered by sortref.DepthFirst.
func (c *Ctx) inlineNamingPhase(namer *core.FuncInfo) *core.FuncInfo {
	if fi := c.root("nameInlinedSchemas"); fi != nil {
		return fi
	}
	if namer == nil {
		return nil
	}
	var found *core.FuncInfo
	for _, fi := range c.P.SortedFuncs() {
		if fi == namer || fi.Pkg.PkgPath != core.ModPath {
			continue
		}
		callsNamer, depthFirst := false, false
		for _, call := range calls(fi.Decl.Body) {
			cal := c.P.CalleeAny(fi, call)
			if cal == nil {
				continue
			}
			if cal == namer.Obj {
				callsNamer = true
			}
			if cal.Name() == "DepthFirst" && cal.Pkg() != nil && strings.HasSuffix(cal.Pkg().Path(), "/sortref") {
				// over the schema index, not over the planned pointer replacements
				if len(call.Args) == 1 {
					if sel, ok := core.Unparen(call.Args[0]).(*ast.SelectorExpr); ok {
						if fv := core.FieldOf(c.info(fi), sel); fv != nil && strings.HasSuffix(core.OwnerStruct(c.P, fv), ".Spec") {
							depthFirst = true
						}
					}
				}
			}
		}
		if callsNamer && depthFirst {
			if found != nil {
				return nil
			}
			found = fi
		}
	}
	return found
}

// need resolves an anchor; emits an undecided obligation when missing.
func (c *Ctx) need(prop, rule, pkg, name string) *core.FuncInfo {
	fi := c.P.Func(pkg, name)
	if fi == nil {
		c.S.Undecided(prop, rule, "anchor/"+pkg+"."+name, "-", "unresolved anchor: function "+pkg+"."+name+" not found")
	}
	return fi
}

// calls returns every call expression in n (including nested closures).
func calls(n ast.Node) []*ast.CallExpr {
	var out []*ast.CallExpr
	ast.Inspect(n, func(x ast.Node) bool {
		if c, ok := x.(*ast.CallExpr); ok {
			out = append(out, c)
		}
		return true
	})
	return out
}

// exprStr renders an expression.
func exprStr(e ast.Expr) string { return types.ExprString(e) }

// inSet reports membership.
func inSet(xs []string, s string) bool {
	for _, x := range xs {
		if x == s {
			return true
		}
	}
	return false
}
