// Package rules holds the repository-specific static rules. Each rule
// enumerates its instances from the type-checked source of /repo and emits
// one obligation per instance.
package rules

import (
	"go/ast"
	"go/types"
	"sort"

	"verif/sa/internal/core"
)

// Ctx is handed to every rule.
type Ctx struct {
	P *core.Program
	S *core.Sink
}

// Rule is a named rule template.
type Rule struct {
	Name  string
	Props []string // properties it emits obligations for
	Doc   string
	Run   func(*Ctx)
}

var registry []Rule

func register(r Rule) { registry = append(registry, r) }

// For returns the rules serving a property, in name order.
func For(prop string) []Rule {
	var out []Rule
	for _, r := range registry {
		for _, p := range r.Props {
			if p == prop {
				out = append(out, r)
				break
			}
		}
	}
	sort.Slice(out, func(i, j int) bool { return out[i].Name < out[j].Name })
	return out
}

// All returns every rule.
func All() []Rule {
	out := append([]Rule{}, registry...)
	sort.Slice(out, func(i, j int) bool { return out[i].Name < out[j].Name })
	return out
}

// ---- shared helpers -------------------------------------------------------

func (c *Ctx) info(fi *core.FuncInfo) *types.Info { return fi.Pkg.TypesInfo }

// root returns a function of the root package by name, or nil.
func (c *Ctx) root(name string) *core.FuncInfo { return c.P.Func("", name) }

// need resolves an anchor; emits an undecided obligation when missing.
func (c *Ctx) need(prop, rule, pkg, name string) *core.FuncInfo {
	fi := c.P.Func(pkg, name)
	if fi == nil {
		c.S.Undecided(prop, rule, "anchor/"+pkg+"."+name, "-", "unresolved anchor: function "+pkg+"."+name+" not found")
	}
	return fi
}

// calls returns every call expression in n (including nested closures).
func calls(n ast.Node) []*ast.CallExpr {
	var out []*ast.CallExpr
	ast.Inspect(n, func(x ast.Node) bool {
		if c, ok := x.(*ast.CallExpr); ok {
			out = append(out, c)
		}
		return true
	})
	return out
}

// exprStr renders an expression.
func exprStr(e ast.Expr) string { return types.ExprString(e) }

// inSet reports membership.
func inSet(xs []string, s string) bool {
	for _, x := range xs {
		if x == s {
			return true
		}
	}
	return false
}
