package rules

import (
	"fmt"
	"go/ast"
	"go/token"
	"go/types"
	"strings"

	"verif/sa/internal/core"
)

func init() {
	register(Rule{
		Name:  "GUARD-INHERIT",
		Props: []string{"C14", "C15", "C20"},
		Doc:   "inheritance of document-level lists, unfiltered security alternatives, an override key made of location and name only, full expansion of a $ref's target before it is classified",
		Run:   round5Rules,
	})
}

func round5Rules(c *Ctx) {
	c.inheritRule()
	c.noFilterRule()
	c.overrideKeyRule()
	c.refExpandRule()
	c.roundTripRule()
}

// inheritRule (C14, GUARD-INHERIT): "consumes/produces are the operation's own lists when non-empty and the
// document-level lists otherwise; security requirements are the operation's when it declares any and the document's
// otherwise". In every exported query that takes an operation, a branch that LEAVES the function because the
// operation's own list is empty or nil must have consulted the document-level list of the same name — in the same
// condition (a conjunction) or in the branch. A return decided by the operation's list alone (also as one arm of a
// disjunction) answers "nothing" for an operation that inherits.
func (c *Ctx) inheritRule() {
	n := 0
	for _, fi := range specQueryMethods(c) {
		sig := fi.Obj.Type().(*types.Signature)
		var opParam types.Object
		for i := 0; i < sig.Params().Len(); i++ {
			if t := sig.Params().At(i).Type(); core.IsPointer(t) && core.IsSpecType(t, "Operation") {
				opParam = sig.Params().At(i)
			}
		}
		if opParam == nil {
			continue
		}
		info := c.info(fi)
		// the inheritable member tested by an atom: operation.<F> with F also a member of the document
		ownList := func(e ast.Expr) string {
			name := ""
			ast.Inspect(e, func(m ast.Node) bool {
				sel, ok := m.(*ast.SelectorExpr)
				if !ok || core.ObjOf(info, sel.X) != opParam {
					return true
				}
				switch sel.Sel.Name {
				case "Consumes", "Produces", "Security", "Schemes":
					name = sel.Sel.Name
				}
				return true
			})
			return name
		}
		mentionsDoc := func(nd ast.Node, member string) bool {
			found := false
			ast.Inspect(nd, func(m ast.Node) bool {
				sel, ok := m.(*ast.SelectorExpr)
				if ok && sel.Sel.Name == member && core.ObjOf(info, sel.X) != opParam {
					if fv := core.FieldOf(info, sel); fv != nil && strings.HasSuffix(core.OwnerStruct(c.P, fv), ".SwaggerProps") {
						found = true
					}
				}
				// a query of the same family called with the operation: it does the inheritance
				if call, ok := m.(*ast.CallExpr); ok {
					if g := c.P.Funcs[c.P.StaticCallee(fi, call)]; g != nil && g != fi {
						for _, a := range call.Args {
							if core.ObjOf(info, a) == opParam {
								found = true
							}
						}
					}
				}
				return true
			})
			return found
		}
		k := 0
		ast.Inspect(fi.Decl.Body, func(nd ast.Node) bool {
			ifs, ok := nd.(*ast.IfStmt)
			if !ok || !core.BlockLeaves(info, ifs.Body) {
				return true
			}
			// the arms of the condition: each disjunct can take the branch alone
			var arms []ast.Expr
			var split func(e ast.Expr)
			split = func(e ast.Expr) {
				e = core.Unparen(e)
				if be, isBin := e.(*ast.BinaryExpr); isBin && be.Op == token.LOR {
					split(be.X)
					split(be.Y)
					return
				}
				arms = append(arms, e)
			}
			split(ifs.Cond)
			for _, arm := range arms {
				member := ""
				for _, cd := range core.SplitCond(arm, false) {
					if x, empty, isE := core.EmptyTest(info, cd); isE && empty {
						if m := ownList(x); m != "" {
							member = m
						}
					}
					if x, nonNil, isN := core.NilTest(info, cd); isN && !nonNil {
						if m := ownList(x); m != "" {
							member = m
						}
					}
				}
				if member == "" {
					continue
				}
				k++
				n++
				ok := mentionsDoc(arm, member) || mentionsDoc(ifs.Body, member)
				c.S.Decide(ok, "C14", "GUARD-INHERIT", fmt.Sprintf("%s/%s#%d", fi.QName(), member, k), c.P.Pos(ifs.Pos()),
					"the branch taken when the operation has no "+member+" of its own consults the document-level "+member,
					"`"+exprStr(arm)+"` alone leaves "+fi.Name()+" without the document-level "+member+" having been consulted: an operation that declares none and inherits the document's gets an empty answer")
			}
			return true
		})
	}
	if n < 3 {
		c.S.Note("GUARD-INHERIT: %d leaving branches on an operation's own list found (4 on the pinned tree)", n)
	}
}

// noFilterRule (C14, GUARD-NOFILTER): the security requirements reported for an operation are the alternatives of the
// effective list, each with all its schemes: in the query that builds [][]SecurityRequirement, no element is appended
// (and no alternative is added to the result) under a condition that reads state carried from one alternative to the
// next — a set of names already seen, a counter. Such a filter drops a scheme that is legitimately named again in a
// later alternative, or the alternative itself.
func (c *Ctx) noFilterRule() {
	n := 0
	for _, fi := range specQueryMethods(c) {
		sig := fi.Obj.Type().(*types.Signature)
		if sig.Results().Len() != 1 {
			continue
		}
		outer, ok := sig.Results().At(0).Type().Underlying().(*types.Slice)
		if !ok {
			continue
		}
		inner, ok := outer.Elem().Underlying().(*types.Slice)
		if !ok {
			continue
		}
		if _, tn := core.NamedOf(inner.Elem()); tn != "SecurityRequirement" {
			continue
		}
		info := c.info(fi)
		pm := c.parents(fi)
		// accumulators: locals declared outside any loop and stored into inside a loop
		acc := map[types.Object]bool{}
		ast.Inspect(fi.Decl.Body, func(nd ast.Node) bool {
			as, ok := nd.(*ast.AssignStmt)
			if !ok {
				return true
			}
			loop := pm.Enclosing(as, func(m ast.Node) bool {
				switch m.(type) {
				case *ast.RangeStmt, *ast.ForStmt:
					return true
				}
				return false
			})
			if loop == nil {
				return true
			}
			for _, l := range as.Lhs {
				var root *ast.Ident
				if ix, isIx := core.Unparen(l).(*ast.IndexExpr); isIx {
					root = rootIdent(ix.X)
				} else if id, isID := core.Unparen(l).(*ast.Ident); isID {
					root = id
				}
				if root == nil {
					continue
				}
				o := core.ObjOf(info, root)
				if o == nil || o.Pos() > loop.Pos() && o.Pos() < loop.End() {
					continue // declared inside the loop
				}
				if core.IsMap(o.Type()) || core.IsBool(o.Type()) || isIntType(o.Type()) {
					acc[o] = true
				}
			}
			return true
		})
		k := 0
		for _, call := range calls(fi.Decl.Body) {
			if !isBuiltin(info, call, "append") || len(call.Args) < 2 {
				continue
			}
			t := info.TypeOf(call.Args[0])
			if t == nil || !(types.Identical(t, sig.Results().At(0).Type()) || types.Identical(t.Underlying(), inner)) {
				continue
			}
			k++
			n++
			var bad []string
			for _, cd := range c.conds(fi, call) {
				ast.Inspect(cd.Expr, func(m ast.Node) bool {
					if id, ok := m.(*ast.Ident); ok && acc[info.Uses[id]] {
						bad = append(bad, exprStr(cd.Expr))
					}
					return true
				})
				// `_, ok := seen[k]` tested through its flag
				if o := core.ObjOf(info, cd.Expr); o != nil {
					for _, d := range c.P.Locals(fi).Defs[o] {
						if ix, isIx := core.Unparen(d.Expr).(*ast.IndexExpr); isIx && d.Kind == core.DefMulti {
							if r := rootIdent(ix.X); r != nil && acc[core.ObjOf(info, r)] {
								bad = append(bad, exprStr(ix))
							}
						}
					}
				}
			}
			// the length of a list the filter may have emptied
			for _, cd := range c.conds(fi, call) {
				if x, _, isE := core.EmptyTest(info, cd); isE {
					if o := core.ObjOf(info, x); o != nil && len(call.Args) == 2 && core.ObjOf(info, call.Args[1]) == o && types.Identical(info.TypeOf(call.Args[0]), sig.Results().At(0).Type()) {
						bad = append(bad, exprStr(cd.Expr))
					}
				}
			}
			c.S.Decide(len(bad) == 0, "C14", "GUARD-NOFILTER", fmt.Sprintf("%s/append#%d", fi.QName(), k), c.P.Pos(call.Pos()),
				"every scheme of every alternative is reported: the append is not filtered by state carried across alternatives",
				"the append is conditional on "+strings.Join(bad, ", ")+", state carried from one alternative to the next: a scheme named again in a later alternative (or the alternative itself) is dropped from the security requirements of the operation")
		}
	}
	if n < 2 {
		c.S.Note("GUARD-NOFILTER: %d appends into a [][]SecurityRequirement answer found (3 on the pinned tree)", n)
	}
}

func isIntType(t types.Type) bool {
	b, ok := t.Underlying().(*types.Basic)
	return ok && b.Info()&types.IsInteger != 0
}

// overrideKeyRule (C15, ENC-OVERRIDEKEY): "path-level parameters overridden by the operation's own parameters with the
// same location and name". The key under which the merge stores a parameter is therefore a function of (in, name)
// alone: the functions that compute it read no vendor extension that a loaded document can carry (go-openapi/spec
// keeps only keys starting with "x-" when it unmarshals extensions). A key that depends on `x-…` splits a pair of
// declarations with the same location and name when only one of them carries the extension.
func (c *Ctx) overrideKeyRule() {
	merge, _, mi, _ := c.paramMergeFn()
	if merge == nil {
		return
	}
	info := c.info(merge)
	mapObj := merge.Obj.Type().(*types.Signature).Params().At(mi)
	var keyFns []*core.FuncInfo
	ast.Inspect(merge.Decl.Body, func(nd ast.Node) bool {
		as, ok := nd.(*ast.AssignStmt)
		if !ok || len(as.Lhs) != 1 {
			return true
		}
		ix, ok := core.Unparen(as.Lhs[0]).(*ast.IndexExpr)
		if !ok || core.ObjOf(info, ix.X) != types.Object(mapObj) {
			return true
		}
		for _, call := range calls(ix.Index) {
			if g := c.P.Funcs[c.P.StaticCallee(merge, call)]; g != nil {
				keyFns = append(keyFns, g)
			}
		}
		return true
	})
	n := 0
	for _, kf := range keyFns {
		for _, g := range core.SortedSet(c.P.Reachable(kf)) {
			ginfo := c.info(g)
			for _, call := range calls(g.Decl.Body) {
				sel, ok := core.Unparen(call.Fun).(*ast.SelectorExpr)
				if !ok || len(call.Args) < 1 {
					continue
				}
				if _, tn := core.NamedOf(ginfo.TypeOf(sel.X)); tn != "Extensions" {
					continue
				}
				key, isConst := core.ConstString(ginfo, call.Args[0])
				if !isConst {
					continue
				}
				n++
				c.S.Decide(!strings.HasPrefix(strings.ToLower(key), "x-"), "C15", "ENC-OVERRIDEKEY", g.QName()+"/"+key, c.P.Pos(call.Pos()),
					"the override key reads no extension that a loaded document can carry (spec keeps only x-… keys)",
					"the key under which parameters override each other reads the vendor extension "+fmt.Sprintf("%q", key)+", which loaded documents can carry: a path-level and an operation-level parameter with the same location and name get different keys when only one of them has the extension, and both are reported")
			}
		}
	}
	if n == 0 {
		c.S.Note("ENC-OVERRIDEKEY: the override key reads no extension at all")
	}
	// … and it keeps distinct names distinct: the name does not pass through a function that maps different names to
	// one (a Go-identifier mangler, case folding): "foo-bar" and "foo_bar" in the same location are two parameters
	seenNI := map[string]bool{}
	for _, kf := range keyFns {
		for _, g := range core.SortedSet(c.P.Reachable(kf)) {
			for _, call := range calls(g.Decl.Body) {
				cal := c.P.CalleeAny(g, call)
				if cal == nil || !nonInjective[cal.FullName()] {
					continue
				}
				if seenNI[cal.Name()] {
					continue
				}
				seenNI[cal.Name()] = true
				// keyed by role, not by the name of the function that holds the call (a known finding must survive renames)
				c.S.Violate("C15", "ENC-OVERRIDEKEY", "override-key/"+cal.Name(), c.P.Pos(call.Pos()),
					"the key under which parameters override each other is built from "+cal.Name()+"(name), which maps different names to one key (\"foo-bar\", \"foo_bar\" and \"foo bar\"; \"?\" and \"#\"): distinct parameters of the same location override each other, a path-level parameter is \"overridden\" by an operation parameter with another name, and fewer parameters are reported than the operation has")
			}
		}
	}
}

// refExpandRule (C20, PIPE-REFEXPAND): a schema that is a $ref is classified as its target. The target handed to the
// recursive analysis is the *fully expanded* schema (spec.ExpandSchema resolves every nested $ref in the document it
// was found in); a one-level resolution (spec.ResolveRef…) leaves the nested $refs to the recursion, which resolves
// them against the caller's root document — the wrong one for a target that lives in another document.
func (c *Ctx) refExpandRule() {
	schemaFn := c.root("Schema")
	if schemaFn == nil {
		return
	}
	n := 0
	for _, fi := range c.P.SortedFuncs() {
		if fi.Pkg.PkgPath != core.ModPath || fi.Decl.Recv == nil || !strings.HasPrefix(fi.Name(), "AnalyzedSchema.") {
			continue
		}
		info := c.info(fi)
		// reads <recv>.schema.Ref and analyses another schema recursively
		readsRef := false
		ast.Inspect(fi.Decl.Body, func(nd ast.Node) bool {
			if sel, ok := nd.(*ast.SelectorExpr); ok && sel.Sel.Name == "Ref" && core.IsSpecType(info.TypeOf(sel), "Ref") {
				readsRef = true
			}
			return true
		})
		if !readsRef {
			continue
		}
		for _, call := range calls(fi.Decl.Body) {
			g := c.P.Funcs[c.P.StaticCallee(fi, call)]
			if g == nil || !(g == schemaFn || c.reachesFunc(g, schemaFn) && len(g.Decl.Body.List) == 1) {
				continue
			}
			// the schema argument: the Schema member of the options literal, or a *spec.Schema argument of a wrapper
			var arg ast.Expr
			for _, a := range call.Args {
				if v := c.fieldOfLiteral(fi, info, a, "Schema", 0); v != nil {
					arg = v
				} else if t := info.TypeOf(a); t != nil && core.IsPointer(t) && core.IsSpecType(t, "Schema") {
					arg = a
				}
			}
			o := core.ObjOf(info, arg)
			if arg == nil || o == nil {
				continue
			}
			// how that schema was obtained in this function
			expanded, resolvedOnce := false, false
			for _, other := range calls(fi.Decl.Body) {
				cal := c.P.CalleeAny(fi, other)
				if cal == nil || cal.Pkg() == nil || cal.Pkg().Path() != core.SpecPath || other.Pos() > call.Pos() {
					continue
				}
				switch {
				case strings.HasPrefix(cal.Name(), "ExpandSchema") && len(other.Args) > 0 && core.ObjOf(info, other.Args[0]) == o:
					expanded = true
				case strings.HasPrefix(cal.Name(), "ResolveRef"):
					if as, isAs := c.parents(fi)[other].(*ast.AssignStmt); isAs && len(as.Lhs) > 0 && core.ObjOf(info, as.Lhs[0]) == o {
						resolvedOnce = true
					}
				}
			}
			if !expanded && !resolvedOnce {
				continue // not the $ref step (a sub-schema of the receiver)
			}
			n++
			c.S.Decide(expanded, "C20", "PIPE-REFEXPAND", fi.QName(), c.P.Pos(call.Pos()),
				"the target of the $ref is fully expanded (spec.ExpandSchema) before it is classified",
				"the target of the $ref is resolved one level only ("+exprStr(arg)+" comes from a spec.ResolveRef… call) and the nested $refs are left to the recursive analysis, which resolves them against the caller's root document: a $ref to an array or map of another document whose members use '#/definitions/x' is classified after the root document's definition of that name")
		}
	}
	if n < 1 {
		c.S.Note("PIPE-REFEXPAND: no recursive analysis of a $ref target found (one on the pinned tree: inferFromRef)")
	}
}

// roundTripRule (C20, GUARD-ROUNDTRIP): a schema that is only a $ref is classified on a copy of its target that went
// through a JSON round trip (spec.ExpandSchema). The round trip does not keep the difference between a nil and an empty
// list: `"items": []` loads as a non-nil empty slice and is marshalled back as absent. A classification flag that
// tests a list member of the schema against nil therefore classifies the target and the $ref differently; emptiness
// is tested with len. (Defect F27: an empty tuple was neither array nor tuple directly, and an array through a $ref.)
func (c *Ctx) roundTripRule() {
	n := 0
	for _, fi := range c.P.SortedFuncs() {
		if fi.Pkg.PkgPath != core.ModPath || fi.Decl.Recv == nil || !strings.HasPrefix(fi.Name(), "AnalyzedSchema.") {
			continue
		}
		info := c.info(fi)
		k := 0
		ast.Inspect(fi.Decl.Body, func(nd ast.Node) bool {
			be, ok := nd.(*ast.BinaryExpr)
			if !ok || be.Op != token.EQL && be.Op != token.NEQ {
				return true
			}
			for _, pr := range [][2]ast.Expr{{be.X, be.Y}, {be.Y, be.X}} {
				if !core.IsNilExpr(info, pr[1]) || !core.IsSlice(info.TypeOf(pr[0])) {
					continue
				}
				sel, isSel := core.Unparen(pr[0]).(*ast.SelectorExpr)
				if !isSel {
					continue
				}
				fv := core.FieldOf(info, sel)
				if fv == nil || fv.Pkg() == nil || fv.Pkg().Path() != core.SpecPath {
					continue
				}
				k++
				n++
				c.S.Violate("C20", "GUARD-ROUNDTRIP", fmt.Sprintf("%s/%s#%d", fi.QName(), fv.Name(), k), c.P.Pos(be.Pos()),
					"`"+exprStr(be)+"` tests a list of the schema against nil: an empty JSON array loads as a non-nil empty slice and comes back as absent from the JSON round trip that expands a $ref, so the schema and a $ref to it classify differently (an empty tuple is neither array nor tuple directly, and an array through a $ref)")
			}
			return true
		})
	}
	if n == 0 {
		c.S.Hold("C20", "GUARD-ROUNDTRIP", "AnalyzedSchema", "-", "no classification flag tests a list member of the schema against nil (emptiness is tested with len)")
	}
}
