package rules

import (
	"fmt"
	"go/ast"
	"go/token"
	"go/types"
	"sort"
	"strings"

	"verif/sa/internal/core"
)

func init() {
	register(Rule{
		Name:  "PIPE-MODEGUARD",
		Props: []string{"C04"},
		Doc:   "a phase of Flatten that is run from several places is run under the same mode options (Minimal, Expand, …) at each of them",
		Run:   modeGuardRule,
	})
}

// modeGuardRule (C04, PIPE-MODEGUARD): sibling agreement between the call sites of one phase. "Flatten returns nil in
// every mode" needs each phase to run in the modes it was written for and in no other: the naming of inline schemas
// belongs to full flattening only (not Minimal, not Expand). When a phase is called from two places below Flatten — the
// main sequence and the loop that repeats it after a name conflict was resolved — both places must test the same
// option members of FlattenOpts with the same polarity (conditions inherited from the callers included). A site that
// tests fewer options runs the phase in a mode its sibling excludes (F30: the repeat loop tested Minimal only, so
// Expand ran the full-flattening naming on a half-expanded document and failed on the pointers it broke).
//
// Decided: equality of the sets of option literals guarding the direct call sites. Not decided: whether the common
// guard is the right one.
func modeGuardRule(c *Ctx) {
	flatten := c.root("Flatten")
	if flatten == nil {
		c.S.Undecided("C04", "PIPE-MODEGUARD", "anchor", "-", "Flatten not found")
		return
	}
	below := c.P.Reachable(flatten)
	optField := func(fi *core.FuncInfo, e ast.Expr) string {
		sel, ok := core.Unparen(e).(*ast.SelectorExpr)
		if !ok {
			return ""
		}
		fv := core.FieldOf(c.info(fi), sel)
		if fv == nil || !core.IsBool(fv.Type()) || !strings.HasSuffix(core.OwnerStruct(c.P, fv), ".FlattenOpts") {
			return ""
		}
		return fv.Name()
	}
	// literals of a condition: option members with their polarity; a condition that mentions an option member in a
	// shape not followed is kept verbatim (it still has to agree between siblings)
	var lits func(fi *core.FuncInfo, e ast.Expr, neg bool, depth int, out map[string]bool)
	lits = func(fi *core.FuncInfo, e ast.Expr, neg bool, depth int, out map[string]bool) {
		e = core.Unparen(e)
		info := c.info(fi)
		switch x := e.(type) {
		case *ast.UnaryExpr:
			if x.Op == token.NOT {
				lits(fi, x.X, !neg, depth, out)
				return
			}
		case *ast.BinaryExpr:
			if x.Op == token.LAND && !neg || x.Op == token.LOR && neg {
				lits(fi, x.X, neg, depth, out)
				lits(fi, x.Y, neg, depth, out)
				return
			}
		case *ast.Ident:
			if o := core.ObjOf(info, x); o != nil && core.IsBool(o.Type()) && depth < 4 {
				if defs := c.P.Locals(fi).Defs[o]; len(defs) == 1 && defs[0].Kind == core.DefAssign {
					lits(fi, defs[0].Expr, neg, depth+1, out)
					return
				}
			}
		case *ast.CallExpr:
			// opts.isFull(): a single-return boolean method of the options
			if sel, ok := core.Unparen(x.Fun).(*ast.SelectorExpr); ok && len(x.Args) == 0 && depth < 4 {
				if g := c.P.Funcs[c.P.StaticCallee(fi, x)]; g != nil && g.Decl.Recv != nil && g.Decl.Body != nil && len(g.Decl.Body.List) == 1 {
					if t := info.TypeOf(sel.X); t != nil && core.IsModType(t, "FlattenOpts") {
						if ret, isRet := g.Decl.Body.List[0].(*ast.ReturnStmt); isRet && len(ret.Results) == 1 {
							lits(g, ret.Results[0], neg, depth+1, out)
							return
						}
					}
				}
			}
		}
		if f := optField(fi, e); f != "" {
			if neg {
				out["!"+f] = true
			} else {
				out[f] = true
			}
			return
		}
		mentions := false
		ast.Inspect(e, func(n ast.Node) bool {
			if ex, ok := n.(ast.Expr); ok && optField(fi, ex) != "" {
				mentions = true
			}
			return true
		})
		if mentions {
			s := exprStr(e)
			if neg {
				s = "!(" + s + ")"
			}
			out["expr:"+s] = true
		}
	}
	type site struct {
		cs     core.CallSite
		direct bool
	}
	sitesOf := func(f *core.FuncInfo) []site {
		var out []site
		for _, cs := range c.P.CG().In[f.Obj] {
			if cs.Caller == nil || !below[cs.Caller] || cs.Caller == f || cs.Call == nil {
				continue
			}
			direct := c.P.StaticCallee(cs.Caller, cs.Call) == f.Obj
			out = append(out, site{cs, direct})
		}
		sort.Slice(out, func(i, j int) bool { return out[i].cs.Call.Pos() < out[j].cs.Call.Pos() })
		return out
	}
	var guardOf func(s site, depth int, busy map[*core.FuncInfo]bool) (map[string]bool, bool)
	guardOf = func(s site, depth int, busy map[*core.FuncInfo]bool) (map[string]bool, bool) {
		if !s.direct {
			return nil, false // handed over as a function value: the guard is wherever the value is called
		}
		g := map[string]bool{}
		for _, cd := range c.conds(s.cs.Caller, s.cs.Call) {
			if cd.Kind == core.CondBool {
				lits(s.cs.Caller, cd.Expr, cd.Neg, 0, g)
			}
		}
		enc := s.cs.Caller
		if enc == flatten || depth > 5 || busy[enc] {
			return g, true
		}
		busy[enc] = true
		defer delete(busy, enc)
		var inherited map[string]bool
		for _, up := range sitesOf(enc) {
			ug, ok := guardOf(up, depth+1, busy)
			if !ok {
				return nil, false
			}
			if inherited == nil {
				inherited = ug
				continue
			}
			for k := range inherited {
				if !ug[k] {
					delete(inherited, k)
				}
			}
		}
		for k := range inherited {
			g[k] = true
		}
		return g, true
	}
	render := func(g map[string]bool) string {
		if len(g) == 0 {
			return "(unconditional)"
		}
		var ks []string
		for k := range g {
			ks = append(ks, k)
		}
		sort.Strings(ks)
		return strings.Join(ks, " ∧ ")
	}
	nPhases, nGuarded := 0, 0
	for _, f := range core.SortedSet(below) {
		if f == flatten || f.Pkg.PkgPath != core.ModPath {
			continue
		}
		// a phase: takes the options
		sig := f.Obj.Type().(*types.Signature)
		takesOpts := false
		for i := 0; i < sig.Params().Len(); i++ {
			if core.IsModType(sig.Params().At(i).Type(), "FlattenOpts") {
				takesOpts = true
			}
		}
		// a phase is a procedure: it answers with an error or a flag at most (a constructor or a query that takes
		// the options is shared by phases of different modes by design)
		for i := 0; i < sig.Results().Len(); i++ {
			if t := sig.Results().At(i).Type(); !core.IsBool(t) && !core.IsErrorType(t) {
				takesOpts = false
			}
		}
		if !takesOpts {
			continue
		}
		ss := sitesOf(f)
		if len(ss) < 2 {
			continue
		}
		nPhases++
		var guards []map[string]bool
		followed := true
		for _, s := range ss {
			g, ok := guardOf(s, 0, map[*core.FuncInfo]bool{})
			if !ok {
				followed = false
				break
			}
			guards = append(guards, g)
		}
		if !followed {
			c.S.Note("PIPE-MODEGUARD: %s is (also) handed over as a function value; its call sites are not compared", f.QName())
			continue
		}
		any := false
		same := true
		for i, g := range guards {
			if len(g) > 0 {
				any = true
			}
			if i > 0 && render(g) != render(guards[0]) {
				same = false
			}
		}
		if !any {
			continue
		}
		nGuarded++
		var parts []string
		for i, s := range ss {
			parts = append(parts, s.cs.Caller.Name()+" ("+c.P.Pos(s.cs.Call.Pos())+"): "+render(guards[i]))
		}
		c.S.Decide(same, "C04", "PIPE-MODEGUARD", f.QName(), c.P.Pos(ss[0].cs.Call.Pos()),
			"all "+itoa(len(ss))+" call sites run the phase under the same mode options: "+render(guards[0]),
			"the call sites of "+f.Name()+" disagree on the mode options they test — "+strings.Join(parts, "; ")+": one of them runs the phase in a mode the other excludes")
	}
	c.S.Note("PIPE-MODEGUARD: %d phases below Flatten with several call sites, %d of them guarded by mode options", nPhases, nGuarded)
}

func itoa(n int) string {
	if n == 0 {
		return "0"
	}
	s := ""
	for n > 0 {
		s = string(rune('0'+n%10)) + s
		n /= 10
	}
	return s
}

func init() {
	register(Rule{
		Name:  "ENC-NUMRENDER",
		Props: []string{"C18", "C03", "C09"},
		Doc:   "a number that becomes part of a name is rendered in decimal, not converted to the character with that code",
		Run:   numRenderRule,
	})
	register(Rule{
		Name:  "GUARD-COMMAOK",
		Props: []string{"C09", "C15", "C17", "C19"},
		Doc:   "the value of a comma-ok type assertion is used only where the flag is known to be true",
		Run:   commaOkRule,
	})
}

// numRenderRule (ENC-NUMRENDER): `string(rune('0'+n))` / `string(n)` with n an integer that is not a character
// renders 10 as ':' and 65 as 'A'. The 'Mixin<N>' suffix (C18) and the numbered fallback names of Flatten (C03) are
// specified with N in decimal. Every conversion to string of an integer expression in which a non-constant operand of
// an integer type other than rune/byte takes part is reported; conversions of characters (loop variables over a
// string, bytes of a buffer) are what the conversion is for.
func numRenderRule(c *Ctx) {
	seen := 0
	for _, fi := range c.P.SortedFuncs() {
		if !strings.HasPrefix(fi.Pkg.PkgPath, core.ModPath) {
			continue
		}
		info := c.info(fi)
		prop := "C09"
		switch {
		case c.below(fi, "Mixin"):
			prop = "C18"
		case c.below(fi, "Flatten"):
			prop = "C03"
		}
		ast.Inspect(fi.Decl.Body, func(n ast.Node) bool {
			call, ok := n.(*ast.CallExpr)
			if !ok || len(call.Args) != 1 {
				return true
			}
			tv, isT := info.Types[call.Fun]
			if !isT || !tv.IsType() || !core.IsString(tv.Type) {
				return true
			}
			at := info.TypeOf(call.Args[0])
			b, isB := at.Underlying().(*types.Basic)
			if at == nil || !isB || b.Info()&types.IsInteger == 0 {
				return true
			}
			seen++
			// a number takes part: an identifier (or call result) of an integer type that is no character type
			var number ast.Expr
			ast.Inspect(call.Args[0], func(m ast.Node) bool {
				e, isE := m.(ast.Expr)
				if !isE || number != nil {
					return number == nil
				}
				if etv, has := info.Types[e]; has && etv.Value != nil {
					return false // constants are fine
				}
				switch x := e.(type) {
				case *ast.Ident, *ast.SelectorExpr, *ast.IndexExpr:
					if t := info.TypeOf(e); t != nil {
						if eb, isBasic := t.Underlying().(*types.Basic); isBasic && eb.Info()&types.IsInteger != 0 && eb.Kind() != types.Int32 && eb.Kind() != types.Uint8 {
							if _, isTypeName := info.Uses[rootIdent(e)].(*types.TypeName); !isTypeName {
								number = e
							}
						}
					}
					_ = x
				case *ast.CallExpr:
					// len(x), strconv results, … : numbers; conversions are looked through
					if ctv, isConv := info.Types[x.Fun]; isConv && ctv.IsType() {
						return true
					}
					if t := info.TypeOf(e); t != nil {
						if eb, isBasic := t.Underlying().(*types.Basic); isBasic && eb.Info()&types.IsInteger != 0 && eb.Kind() != types.Int32 && eb.Kind() != types.Uint8 {
							number = e
						}
					}
					return false
				}
				return true
			})
			c.S.Decide(number == nil, prop, "ENC-NUMRENDER", fi.QName()+"/"+exprStr(call), c.P.Pos(call.Pos()),
				"a character is converted to a string",
				"the number "+exprStrOr(number)+" is converted to the character with that code ("+exprStr(call)+"): 10 comes out as ':' — a name or id built from it is not the documented '<N>' in decimal")
			return true
		})
	}
	for _, prop := range []string{"C18", "C03"} {
		c.S.Hold(prop, "ENC-NUMRENDER", "conversions", "-", itoa(seen)+" conversions of an integer expression to string examined in the module: none renders a number as a character")
	}
}

func exprStrOr(e ast.Expr) string {
	if e == nil {
		return ""
	}
	return exprStr(e)
}

// commaOkRule (GUARD-COMMAOK): after `v, ok := x.(T)` the value v is the zero T when ok is false. Every use of v must
// lie where ok is known to be true: inside `if ok {…}`, to the right of `ok &&` / `!ok ||`, or after a branch on `!ok`
// (alone or as an arm of a disjunction) that leaves. A use in the branch taken when the assertion failed hands the
// zero value on — to an error callback (C15: "report it through the callback" names the parameter that cannot be
// resolved), into the document (C17/C19) or to a dereference (C09).
func commaOkRule(c *Ctx) {
	n := 0
	for _, fi := range c.P.SortedFuncs() {
		if !strings.HasPrefix(fi.Pkg.PkgPath, core.ModPath) {
			continue
		}
		info := c.info(fi)
		ld := c.P.Locals(fi)
		prop := nilProp(c, fi)
		if prop != "C15" && prop != "C17" && prop != "C19" {
			prop = "C09"
		}
		ast.Inspect(fi.Decl.Body, func(nd ast.Node) bool {
			as, ok := nd.(*ast.AssignStmt)
			if !ok || len(as.Lhs) != 2 || len(as.Rhs) != 1 {
				return true
			}
			if _, isTA := core.Unparen(as.Rhs[0]).(*ast.TypeAssertExpr); !isTA {
				return true
			}
			vo, oko := core.ObjOf(info, as.Lhs[0]), core.ObjOf(info, as.Lhs[1])
			if vo == nil || oko == nil || vo.Name() == "_" || oko.Name() == "_" {
				return true
			}
			// the flag must have this single definition (otherwise its value says nothing about this assertion)
			if len(ld.Defs[oko]) != 1 {
				return true
			}
			n++
			// the region: from the assertion to the next definition of v
			end := fi.Decl.Body.End()
			for _, d := range ld.Defs[vo] {
				if d.Pos > as.Pos() && d.Pos < end {
					end = d.Pos
				}
			}
			var bad []string
			ast.Inspect(fi.Decl.Body, func(m ast.Node) bool {
				id, isId := m.(*ast.Ident)
				if !isId || info.Uses[id] != vo || id.Pos() <= as.End() || id.Pos() >= end {
					return true
				}
				established := false
				for _, cd := range append(c.conds(fi, id), c.shortCircuitConds(fi, id)...) {
					if cd.Kind == core.CondBool && !cd.Neg && core.ObjOf(info, cd.Expr) == oko {
						established = true
					}
				}
				if !established {
					bad = append(bad, c.P.Pos(id.Pos()))
				}
				return true
			})
			sort.Strings(bad)
			c.S.Decide(len(bad) == 0, prop, "GUARD-COMMAOK", fi.QName()+"/"+vo.Name(), c.P.Pos(as.Pos()),
				"every use of the asserted value lies where the flag is true",
				"the value "+vo.Name()+" of the type assertion "+exprStr(as.Rhs[0])+" is used where "+oko.Name()+" is not known to be true ("+strings.Join(bad, ", ")+"): on a failed assertion the zero value is used")
			return true
		})
	}
	c.S.Note("GUARD-COMMAOK: %d comma-ok type assertions examined", n)
}

// shortCircuitConds: what is known at a node inside a boolean expression from the operands to its left —
// in `a && n` the node is evaluated under a, in `a || n` under !a.
func (c *Ctx) shortCircuitConds(fi *core.FuncInfo, n ast.Node) []core.Cond {
	pm := c.parents(fi)
	var out []core.Cond
	for cur := n; cur != nil; cur = pm[cur] {
		par, ok := pm[cur].(*ast.BinaryExpr)
		if !ok {
			if _, isExpr := pm[cur].(ast.Expr); !isExpr {
				break
			}
			continue
		}
		if par.Y != cur || par.Op != token.LAND && par.Op != token.LOR {
			continue
		}
		out = append(out, core.SplitCond(par.X, par.Op == token.LOR)...)
	}
	return out
}

func init() {
	register(Rule{
		Name:  "GUARD-RESOLVE",
		Props: []string{"C15"},
		Doc:   "the object taken for the target of a parameter $ref is what the whole JSON pointer of the $ref designates",
		Run:   resolveWholeRule,
	})
	register(Rule{
		Name:  "ENC-RAWKEY",
		Props: []string{"C14"},
		Doc:   "the operations index is keyed by the paths of the document as they are: lookups use the path as given; listings are not parsed back",
		Run:   rawKeyRules,
	})
	register(Rule{
		Name:  "EFFECT-SHORTCIRCUIT",
		Props: []string{"C19", "C17", "C01"},
		Doc:   "a call that modifies the document is not the right operand of && or ||",
		Run:   shortCircuitRule,
	})
	register(Rule{
		Name:  "NIL-ALLOC",
		Props: []string{"C09"},
		Doc:   "an analyzer built from a literal has its index maps allocated before anything is analysed into it",
		Run:   nilAllocRule,
	})
	register(Rule{
		Name:  "ORD-CARRIED",
		Props: []string{"C07"},
		Doc:   "inside a loop over a map, no value is computed from a collection the loop itself fills",
		Run:   ordCarriedRule,
	})
}

// resolveWholeRule (C15, GUARD-RESOLVE/whole-pointer): "every $ref to a shared parameter [is] replaced by that
// parameter; when a parameter $ref … does not designate a parameter, [it is reported]". What is asserted to be a
// spec.Parameter in the parameter merge must be the result of resolving the *whole* pointer of the $ref against the
// document (jsonpointer.Pointer.Get), directly or through helpers all of whose returns are such results. A shortcut —
// a lookup of one token in the shared parameters — takes `#/parameters/p/schema` for the parameter p.
func resolveWholeRule(c *Ctx) {
	fi, _, _, _ := c.paramMergeFn()
	if fi == nil {
		return // GUARD-PLACEHOLDER reports the missing anchor
	}
	n := 0
	var fromGet func(g *core.FuncInfo, e ast.Expr, idx int, at token.Pos, depth int) (bool, string)
	fromGet = func(g *core.FuncInfo, e ast.Expr, idx int, at token.Pos, depth int) (bool, string) {
		if depth > 5 {
			return false, "too deep"
		}
		info := c.info(g)
		e = core.Unparen(e)
		if core.IsNilExpr(info, e) {
			return true, "" // the value of an error exit
		}
		switch x := e.(type) {
		case *ast.Ident:
			o := core.ObjOf(info, x)
			if o == nil {
				return false, exprStr(e)
			}
			any := false
			for _, d := range c.P.Locals(g).Defs[o] {
				if d.Pos > at {
					continue
				}
				switch d.Kind {
				case core.DefAssign:
					any = true
					if ok, why := fromGet(g, d.Expr, 0, d.Pos, depth+1); !ok {
						return false, why
					}
				case core.DefMulti:
					any = true
					if ok, why := fromGet(g, d.Expr, d.Index, d.Pos, depth+1); !ok {
						return false, why
					}
				case core.DefZero:
				default:
					return false, exprStr(e)
				}
			}
			return any, exprStr(e)
		case *ast.CallExpr:
			callee := c.P.CalleeAny(g, x)
			if callee == nil {
				return false, exprStr(e)
			}
			if callee.Name() == "Get" && idx == 0 {
				if sig, ok := callee.Type().(*types.Signature); ok && sig.Recv() != nil {
					if pp, tn := core.NamedOf(sig.Recv().Type()); tn == "Pointer" && strings.HasSuffix(pp, "/jsonpointer") {
						return true, ""
					}
				}
			}
			h := c.P.Funcs[callee]
			if h == nil || h.Decl == nil || h.Decl.Body == nil {
				return false, exprStr(x.Fun)
			}
			okAll, why, rets := true, "", 0
			ast.Inspect(h.Decl.Body, func(m ast.Node) bool {
				if _, isLit := m.(*ast.FuncLit); isLit {
					return false
				}
				ret, isRet := m.(*ast.ReturnStmt)
				if !isRet {
					return true
				}
				rets++
				switch {
				case len(ret.Results) == 1 && idx >= 0:
					// return f(…) handing on a tuple, or a single result
					if ok, w := fromGet(h, ret.Results[0], idx, ret.Pos(), depth+1); !ok {
						okAll, why = false, w
					}
				case idx < len(ret.Results):
					if ok, w := fromGet(h, ret.Results[idx], 0, ret.Pos(), depth+1); !ok {
						okAll, why = false, w
					}
				default:
					okAll, why = false, "naked return in "+h.Name()
				}
				return true
			})
			return okAll && rets > 0, why
		}
		return false, exprStr(e)
	}
	info := c.info(fi)
	ast.Inspect(fi.Decl.Body, func(nd ast.Node) bool {
		ta, ok := nd.(*ast.TypeAssertExpr)
		if !ok {
			return true
		}
		if ta.Type == nil {
			// switch p := obj.(type) { case spec.Parameter: … }
			isParamSwitch := false
			if ts, isTS := c.parents(fi).Enclosing(ta, func(x ast.Node) bool { _, y := x.(*ast.TypeSwitchStmt); return y }).(*ast.TypeSwitchStmt); isTS {
				for _, cl := range ts.Body.List {
					for _, t := range cl.(*ast.CaseClause).List {
						if tt := info.TypeOf(t); tt != nil && core.IsSpecType(tt, "Parameter") {
							isParamSwitch = true
						}
					}
				}
			}
			if !isParamSwitch {
				return true
			}
		} else if !core.IsSpecType(info.TypeOf(ta.Type), "Parameter") {
			return true
		}
		n++
		good, why := fromGet(fi, ta.X, 0, ta.Pos(), 0)
		c.S.Decide(good, "C15", "GUARD-RESOLVE", fi.QName()+"/whole-pointer", c.P.Pos(ta.Pos()),
			"the object asserted to be a parameter is the result of resolving the whole JSON pointer of the $ref",
			"the object asserted to be a parameter ("+exprStr(ta.X)+") does not come, on every path, from resolving the whole JSON pointer of the $ref against the document ("+why+"): a $ref that points below a shared parameter, or elsewhere, can be answered with a shared parameter it does not designate")
		return true
	})
	if n == 0 {
		c.S.Note("GUARD-RESOLVE: no assertion to spec.Parameter in the parameter merge")
	}
}

// rawKeyRules (C14):
//   - ENC-RAWKEY/path-lookup: the per-method maps of the operations index are keyed by the path keys of the document
//     as they are (IDX rules); a lookup by a path handed in by the caller uses it as given. Any transformation on the
//     lookup side only (path.Clean, TrimSuffix, ToLower) misses `/pets/` or finds `/pets` instead.
//   - ENC-SPLITJOIN: a listing entry "METHOD path" is not parsed back at its separator: a path may contain it.
func rawKeyRules(c *Ctx) {
	opsField, _ := getterField(c, "Operations")
	if opsField == nil {
		return // ENC-CASE reports the missing anchor
	}
	nLook := 0
	for _, fi := range c.P.SortedFuncs() {
		if fi.Pkg.PkgPath != core.ModPath {
			continue
		}
		info := c.info(fi)
		ld := c.P.Locals(fi)
		// values that are a per-method map of the index: s.operations[m], or a local defined from it
		isPerMethod := func(e ast.Expr) bool {
			e = core.Unparen(e)
			for i := 0; i < 3; i++ {
				if ix, ok := e.(*ast.IndexExpr); ok {
					if sel, isSel := core.Unparen(ix.X).(*ast.SelectorExpr); isSel && core.FieldOf(info, sel) == opsField {
						return true
					}
					return false
				}
				o := core.ObjOf(info, e)
				if o == nil {
					return false
				}
				defs := ld.Defs[o]
				if len(defs) != 1 || defs[0].Kind != core.DefAssign && defs[0].Kind != core.DefMulti {
					return false
				}
				e = core.Unparen(defs[0].Expr)
			}
			return false
		}
		ast.Inspect(fi.Decl.Body, func(nd ast.Node) bool {
			ix, ok := nd.(*ast.IndexExpr)
			if !ok || !isPerMethod(ix.X) {
				return true
			}
			// only reads keyed by something derived from a parameter
			fromParam := false
			ast.Inspect(ix.Index, func(m ast.Node) bool {
				if id, isId := m.(*ast.Ident); isId {
					if o := info.Uses[id]; o != nil && ld.Params[o] {
						fromParam = true
					}
				}
				return true
			})
			if !fromParam || !fi.Obj.Exported() {
				return true
			}
			nLook++
			_, plain := core.Unparen(ix.Index).(*ast.Ident)
			c.S.Decide(plain, "C14", "ENC-RAWKEY", fi.QName()+"/path-lookup", c.P.Pos(ix.Pos()),
				"the path is looked up as given",
				"the per-method map of the operations index is looked up with "+exprStr(ix.Index)+": the index is keyed by the path keys of the document as they are, so a transformation on the lookup side alone misses the operation (or finds another one)")
			return true
		})
	}
	if nLook == 0 {
		c.S.Note("ENC-RAWKEY: no exported lookup into a per-method map of the operations index by a parameter")
	}
	// ENC-SPLITJOIN: producers of composite strings
	type producer struct {
		fi  *core.FuncInfo
		sep string
	}
	var prods []producer
	for _, fi := range specQueryMethods(c) {
		sig := fi.Obj.Type().(*types.Signature)
		if sig.Results().Len() != 1 {
			continue
		}
		sl, isSlice := sig.Results().At(0).Type().Underlying().(*types.Slice)
		if !isSlice || !core.IsString(sl.Elem()) {
			continue
		}
		info := c.info(fi)
		seps := map[string]bool{}
		ast.Inspect(fi.Decl.Body, func(nd ast.Node) bool {
			call, ok := nd.(*ast.CallExpr)
			if !ok {
				return true
			}
			if callee := c.P.CalleeAny(fi, call); callee != nil && callee.FullName() == "fmt.Sprintf" && len(call.Args) == 3 {
				if f, isC := core.ConstString(info, call.Args[0]); isC && strings.HasPrefix(f, "%s") && strings.HasSuffix(f, "%s") && len(f) > 4 {
					seps[f[2:len(f)-2]] = true
				}
			}
			return true
		})
		for sep := range seps {
			prods = append(prods, producer{fi, sep})
		}
	}
	nSplit := 0
	for _, fi := range c.P.SortedFuncs() {
		if !strings.HasPrefix(fi.Pkg.PkgPath, core.ModPath) {
			continue
		}
		info := c.info(fi)
		ld := c.P.Locals(fi)
		for _, call := range calls(fi.Decl.Body) {
			callee := c.P.CalleeAny(fi, call)
			if callee == nil || callee.Pkg() == nil || callee.Pkg().Path() != "strings" {
				continue
			}
			sep := ""
			switch callee.Name() {
			case "Split":
				if len(call.Args) == 2 {
					sep, _ = core.ConstString(info, call.Args[1])
				}
			case "Fields":
				sep = " "
			default:
				continue
			}
			// the operand: an element of the result of a producer with that separator
			o := core.ObjOf(info, call.Args[0])
			if o == nil || sep == "" {
				continue
			}
			for _, d := range ld.Defs[o] {
				if d.Kind != core.DefRangeVal && d.Kind != core.DefAssign {
					continue
				}
				src := core.Unparen(d.Expr)
				if ix, isIx := src.(*ast.IndexExpr); isIx {
					src = core.Unparen(ix.X)
				}
				if so := core.ObjOf(info, src); so != nil {
					if sd := ld.Defs[so]; len(sd) == 1 && sd[0].Kind == core.DefAssign {
						src = core.Unparen(sd[0].Expr)
					}
				}
				pc, isCall := src.(*ast.CallExpr)
				if !isCall {
					continue
				}
				for _, p := range prods {
					if c.P.StaticCallee(fi, pc) == p.fi.Obj && p.sep == sep {
						nSplit++
						c.S.Violate("C14", "ENC-SPLITJOIN", fi.QName()+"/"+p.fi.Name(), c.P.Pos(call.Pos()),
							"an entry of "+p.fi.Name()+" (two strings joined by "+strconvQuote(sep)+") is split at every "+strconvQuote(sep)+": a path of the document may contain it, and the operation is then looked up under a truncated path")
					}
				}
			}
		}
	}
	c.S.Hold("C14", "ENC-SPLITJOIN", "listings", "-", "no listing of composite entries ("+itoa(len(prods))+" producers) is parsed back at its separator")
	_ = nSplit
}

func strconvQuote(s string) string { return "\"" + s + "\"" }

// shortCircuitRule (EFFECT-SHORTCIRCUIT): `done = done || fix(x)` stops calling fix once done is true. A call to a
// module function that writes through its arguments (effect summaries) must not be the right operand of && or ||,
// unless the left operand is a test of the same argument (a guard: `x != nil && fix(x)`).
func shortCircuitRule(c *Ctx) {
	e := effects(c)
	n := 0
	for _, fi := range c.P.SortedFuncs() {
		if !strings.HasPrefix(fi.Pkg.PkgPath, core.ModPath) {
			continue
		}
		prop := ""
		switch {
		case c.below(fi, "FixEmptyResponseDescriptions"):
			prop = "C19"
		case c.below(fi, "Mixin"):
			prop = "C17"
		case c.below(fi, "Flatten") && !c.onSpec(fi):
			prop = "C01"
		default:
			continue
		}
		info := c.info(fi)
		ast.Inspect(fi.Decl.Body, func(nd ast.Node) bool {
			be, ok := nd.(*ast.BinaryExpr)
			if !ok || be.Op != token.LAND && be.Op != token.LOR {
				return true
			}
			for _, call := range calls(be.Y) {
				g := c.P.Funcs[c.P.StaticCallee(fi, call)]
				if g == nil || e.sum[g] == nil {
					continue
				}
				var written []ast.Expr
				for _, w := range e.sortedWrites(g) {
					if w.root != "param" {
						continue
					}
					if w.param >= 0 && w.param < len(call.Args) {
						written = append(written, call.Args[w.param])
					} else if w.param == -1 {
						if sel, isSel := core.Unparen(call.Fun).(*ast.SelectorExpr); isSel {
							written = append(written, sel.X)
						}
					}
				}
				if len(written) == 0 {
					continue
				}
				n++
				// a guard on the written argument itself
				guard := false
				for _, w := range written {
					wo := rootIdent(w)
					if u, isAddr := core.Unparen(w).(*ast.UnaryExpr); isAddr && u.Op == token.AND {
						wo = rootIdent(u.X)
					}
					if wo == nil {
						continue
					}
					ast.Inspect(be.X, func(m ast.Node) bool {
						if id, isId := m.(*ast.Ident); isId && info.Uses[id] != nil && info.Uses[id] == info.Uses[wo] {
							guard = true
						}
						return true
					})
				}
				c.S.Decide(guard, prop, "EFFECT-SHORTCIRCUIT", fi.QName()+"/"+g.Name(), c.P.Pos(call.Pos()),
					"the modifying call is guarded by a test of its own argument",
					"the call "+exprStr(call)+" modifies what it is given, and it is the right operand of "+be.Op.String()+" after "+exprStr(be.X)+", which does not concern its argument: once the left operand decides, the call — and the modification — is skipped")
			}
			return true
		})
	}
	for _, prop := range []string{"C19", "C17", "C01"} {
		c.S.Hold(prop, "EFFECT-SHORTCIRCUIT", "operands", "-", itoa(n)+" modifying calls found as right operands of && / ||")
	}
}

// nilAllocRule (C09, NIL-ALLOC): the analyzer's index maps are allocated by one method (the one COV-RESET checks: it
// makes every map member). A Spec built from a composite literal outside that method must have it called before any
// other method is called on it — a hand-picked subset of maps in the literal leaves the others nil, and the analysis
// of a schema that carries the corresponding keyword panics ("assignment to entry in nil map").
func nilAllocRule(c *Ctx) {
	// the allocator: the method of *Spec with the most `recv.<…> = make(map…)` stores
	var alloc *core.FuncInfo
	best := 0
	for _, fi := range c.P.SortedFuncs() {
		sig := fi.Obj.Type().(*types.Signature)
		if fi.Pkg.PkgPath != core.ModPath || sig.Recv() == nil || !core.IsModType(sig.Recv().Type(), "Spec") {
			continue
		}
		k := len(c.freshAssignedFields(fi))
		if k > best {
			best, alloc = k, fi
		}
	}
	if alloc == nil || best < 15 {
		c.S.Undecided("C09", "NIL-ALLOC", "anchor", "-", "no method of Spec allocating the index maps found")
		return
	}
	// methods that start by allocating (reload = reset + initialize)
	allocFirst := map[*core.FuncInfo]bool{alloc: true}
	for changed := true; changed; {
		changed = false
		for _, fi := range c.P.SortedFuncs() {
			if allocFirst[fi] || fi.Decl.Recv == nil || fi.Decl.Body == nil {
				continue
			}
			for _, st := range fi.Decl.Body.List {
				es, ok := st.(*ast.ExprStmt)
				if !ok {
					break
				}
				call, ok := es.X.(*ast.CallExpr)
				if !ok {
					break
				}
				g := c.P.Funcs[c.P.StaticCallee(fi, call)]
				if g != nil && allocFirst[g] {
					allocFirst[fi] = true
					changed = true
					break
				}
				if g != nil && g.Decl.Recv != nil {
					break // another method first
				}
				// a plain function call (a debug trace): look further
			}
		}
	}
	n := 0
	for _, fi := range c.P.SortedFuncs() {
		if fi.Pkg.PkgPath != core.ModPath || fi == alloc {
			continue
		}
		info := c.info(fi)
		pm := c.parents(fi)
		ast.Inspect(fi.Decl.Body, func(nd ast.Node) bool {
			lit, ok := nd.(*ast.CompositeLit)
			if !ok || !core.IsModType(info.TypeOf(lit), "Spec") {
				return true
			}
			// the variable it is stored in
			var vo types.Object
			for cur := ast.Node(lit); cur != nil; cur = pm[cur] {
				if as, isAs := cur.(*ast.AssignStmt); isAs && len(as.Lhs) == 1 {
					vo = core.ObjOf(info, as.Lhs[0])
					break
				}
				if _, isStmt := cur.(ast.Stmt); isStmt {
					break
				}
			}
			n++
			if vo == nil {
				return true // returned or passed on directly: whoever receives it is looked at where it is bound
			}
			// the first method called on it afterwards
			var first *ast.CallExpr
			for _, call := range calls(fi.Decl.Body) {
				if call.Pos() <= lit.End() {
					continue
				}
				sel, isSel := core.Unparen(call.Fun).(*ast.SelectorExpr)
				if !isSel || core.ObjOf(info, sel.X) != vo {
					continue
				}
				if g := c.P.Funcs[c.P.StaticCallee(fi, call)]; g == nil || g.Decl.Recv == nil {
					continue
				}
				if first == nil || call.Pos() < first.Pos() {
					first = call
				}
			}
			ok2 := true
			what := "no method is called on it here"
			if first != nil {
				g := c.P.Funcs[c.P.StaticCallee(fi, first)]
				ok2 = allocFirst[g]
				what = "the first method called on it is " + g.Name()
			}
			c.S.Decide(ok2, "C09", "NIL-ALLOC", fi.QName()+"/"+vo.Name(), c.P.Pos(lit.Pos()),
				"the index maps are allocated ("+alloc.Name()+") before anything is analysed into the new analyzer",
				"an analyzer is built from a literal and "+what+", not "+alloc.Name()+" (which allocates every index map): an index map the literal does not make stays nil, and analysing a schema that carries the corresponding keyword panics")
			return true
		})
	}
	if n < 1 {
		c.S.Undecided("C09", "NIL-ALLOC", "floor", "-", "no analyzer built from a literal found (on the pinned tree: New and the partial analyzer of the import)")
	}
}

// ordCarriedRule (C07, ORD-CARRIED): in the body of a loop over a map, a call hands a collection declared outside
// the loop to a module function that both writes it and returns a non-boolean value: the value depends on what the
// earlier iterations — in map order — put there (a "first free name" picked while gathering). The result must not
// reach the output; sorting afterwards orders values that already carry the choice.
func ordCarriedRule(c *Ctx) {
	e := effects(c)
	n := 0
	for _, fi := range c.P.SortedFuncs() {
		if !strings.HasPrefix(fi.Pkg.PkgPath, core.ModPath) || !c.below(fi, "Flatten") {
			continue
		}
		info := c.info(fi)
		ast.Inspect(fi.Decl.Body, func(nd ast.Node) bool {
			rs, ok := nd.(*ast.RangeStmt)
			if !ok || !core.IsMap(info.TypeOf(rs.X)) {
				return true
			}
			for _, call := range calls(rs.Body) {
				g := c.P.Funcs[c.P.StaticCallee(fi, call)]
				if g == nil || e.sum[g] == nil {
					continue
				}
				sig := g.Obj.Type().(*types.Signature)
				if sig.Results().Len() == 0 {
					continue
				}
				nonBool := false
				for i := 0; i < sig.Results().Len(); i++ {
					t := sig.Results().At(i).Type()
					if !core.IsBool(t) && !core.IsErrorType(t) {
						nonBool = true
					}
				}
				if !nonBool {
					continue
				}
				for _, w := range e.sortedWrites(g) {
					if w.root != "param" || w.param < 0 || w.param >= len(call.Args) || strings.HasPrefix(w.how, "append") {
						continue // appending to a list handed in is the accumulator idiom (sorted afterwards: ORD-SINK)
					}
					ao := core.ObjOf(info, call.Args[w.param])
					// x = f(x, …): the accumulator is threaded through, its order is ORD-SINK's business
					if as, isAs := c.parents(fi)[call].(*ast.AssignStmt); isAs && len(as.Lhs) >= 1 && ao != nil && core.ObjOf(info, as.Lhs[0]) == ao {
						continue
					}
					if ao == nil || ao.Pos() >= rs.Pos() && ao.Pos() <= rs.End() {
						continue // declared inside the loop: not carried over
					}
					t := ao.Type().Underlying()
					_, isMap := t.(*types.Map)
					_, isSlice := t.(*types.Slice)
					_, isPtr := t.(*types.Pointer)
					if !isMap && !isSlice && !isPtr {
						continue
					}
					n++
					c.S.Violate("C07", "ORD-CARRIED", fi.QName()+"/"+g.Name(), c.P.Pos(call.Pos()),
						"inside the loop over the map "+exprStr(rs.X)+", "+g.Name()+" computes a value from "+ao.Name()+", which it also fills: the value depends on the entries the earlier iterations left there, i.e. on the iteration order of the map")
					break
				}
			}
			return true
		})
	}
	c.S.Hold("C07", "ORD-CARRIED", "loops", "-", "no value is computed, inside a loop over a map below Flatten, from a collection that the same call fills")
	_ = n
}

func init() {
	register(Rule{
		Name:  "ENC-ROOTEDCLEAN",
		Props: []string{"C01"},
		Doc:   "a relative reference is not cleaned as if it were rooted",
		Run:   rootedCleanRule,
	})
}

// rootedCleanRule (C01, ENC-ROOTEDCLEAN): path.Clean / filepath.Clean of separator + x treats x as rooted: the
// leading ".." segments of a relative reference are swallowed ("/../types.json" → "/types.json"), so a $ref from an
// auxiliary document to its parent directory is rebased onto a file of the same name next to it. Joining (path.Join,
// filepath.Join) cleans the *joined* path, where the parent segments cancel against the base directory as they should.
func rootedCleanRule(c *Ctx) {
	n := 0
	for _, fi := range c.P.SortedFuncs() {
		if !strings.HasPrefix(fi.Pkg.PkgPath, core.ModPath) {
			continue
		}
		info := c.info(fi)
		for _, call := range calls(fi.Decl.Body) {
			callee := c.P.CalleeAny(fi, call)
			if callee == nil || len(call.Args) != 1 {
				continue
			}
			if fn := callee.FullName(); fn != "path.Clean" && fn != "path/filepath.Clean" {
				continue
			}
			n++
			be, ok := core.Unparen(call.Args[0]).(*ast.BinaryExpr)
			rooted := false
			if ok && be.Op == token.ADD {
				left := core.Unparen(be.X)
				for {
					l2, isBin := left.(*ast.BinaryExpr)
					if !isBin || l2.Op != token.ADD {
						break
					}
					left = core.Unparen(l2.X)
				}
				if s, isC := core.ConstString(info, left); isC && (s == "/" || s == "\\") {
					rooted = true
				}
				if conv, isConv := left.(*ast.CallExpr); isConv && len(conv.Args) == 1 {
					if tv, has := info.Types[conv.Args[0]]; has && tv.Value != nil {
						if ctv, isT := info.Types[conv.Fun]; isT && ctv.IsType() {
							rooted = true // string(filepath.Separator)
						}
					}
				}
				if _, isC := core.ConstString(info, be.Y); isC {
					rooted = false // a constant tail
				}
			}
			c.S.Decide(!rooted, "C01", "ENC-ROOTEDCLEAN", fi.QName()+"/"+exprStr(call.Fun), c.P.Pos(call.Pos()),
				"what is cleaned is not a relative part made to look rooted",
				exprStr(call)+" cleans a relative reference behind a leading separator: its leading '..' segments are dropped, so a reference to the parent directory designates a file next to the referring document")
		}
	}
	c.S.Hold("C01", "ENC-ROOTEDCLEAN", "calls", "-", itoa(n)+" calls of path.Clean / filepath.Clean examined: none cleans a relative part behind a leading separator")
}

func init() {
	register(Rule{
		Name:  "LOOPVAR-CLOSURE",
		Props: []string{"C19", "C17", "C01", "C09"},
		Doc:   "a function literal that runs after the iteration (defer, go) does not read the loop's variables",
		Run:   loopClosureRule,
	})
}

// loopClosureRule (LOOPVAR-CLOSURE): `defer func() { m[k] = v }()` in the body of `for k, v := range m` runs when the
// function returns; under the language version of this module (go.mod: before 1.22) the literals of all iterations
// share one k and one v, so only the last entry is written. A function literal that is deferred or started as a
// goroutine inside a loop must not mention the loop's variables (hand them over as arguments instead). With a
// go.mod at 1.22 or later each iteration has its own variables and the rule has nothing to say.
func loopClosureRule(c *Ctx) {
	perIteration := false
	if pk := c.P.Pkg(""); pk != nil && pk.Module != nil {
		v := pk.Module.GoVersion
		var maj, min int
		if _, err := fmt.Sscanf(v, "%d.%d", &maj, &min); err == nil && (maj > 1 || maj == 1 && min >= 22) {
			perIteration = true
		}
	}
	n := 0
	ordinal := map[*core.FuncInfo]int{}
	for _, fi := range c.P.SortedFuncs() {
		if !strings.HasPrefix(fi.Pkg.PkgPath, core.ModPath) {
			continue
		}
		prop := "C09"
		switch {
		case c.below(fi, "FixEmptyResponseDescriptions"):
			prop = "C19"
		case c.below(fi, "Mixin"):
			prop = "C17"
		case c.below(fi, "Flatten") && !c.onSpec(fi):
			prop = "C01"
		}
		info := c.info(fi)
		pm := c.parents(fi)
		ast.Inspect(fi.Decl.Body, func(nd ast.Node) bool {
			var call *ast.CallExpr
			switch x := nd.(type) {
			case *ast.DeferStmt:
				call = x.Call
			case *ast.GoStmt:
				call = x.Call
			default:
				return true
			}
			lit, ok := core.Unparen(call.Fun).(*ast.FuncLit)
			if !ok {
				return true
			}
			// the loops around the statement and their variables
			vars := map[types.Object]string{}
			for cur := pm[nd]; cur != nil; cur = pm[cur] {
				switch lp := cur.(type) {
				case *ast.RangeStmt:
					if lp.Tok == token.DEFINE {
						for _, e := range []ast.Expr{lp.Key, lp.Value} {
							if e != nil {
								if o := core.ObjOf(info, e); o != nil && o.Name() != "_" {
									vars[o] = o.Name()
								}
							}
						}
					}
				case *ast.ForStmt:
					if as, isAs := lp.Init.(*ast.AssignStmt); isAs && as.Tok == token.DEFINE {
						for _, e := range as.Lhs {
							if o := core.ObjOf(info, e); o != nil {
								vars[o] = o.Name()
							}
						}
					}
				case *ast.FuncLit:
					cur = nil
				}
				if cur == nil {
					break
				}
			}
			if len(vars) == 0 {
				return true
			}
			n++
			ordinal[fi]++
			var used []string
			ast.Inspect(lit.Body, func(m ast.Node) bool {
				if id, isId := m.(*ast.Ident); isId {
					if name, isLoopVar := vars[info.Uses[id]]; isLoopVar {
						used = append(used, name)
					}
				}
				return true
			})
			sort.Strings(used)
			c.S.Decide(len(used) == 0 || perIteration, prop, "LOOPVAR-CLOSURE", fi.QName()+"/literal#"+itoa(ordinal[fi]), c.P.Pos(nd.Pos()),
				"the function literal run after the iteration does not read the loop's variables",
				"a function literal that runs after the iteration (defer/go) reads the loop variable(s) "+strings.Join(used, ", ")+": under this module's language version all iterations share them, so every literal sees the values of the last iteration — only one entry is written back")
			return true
		})
	}
	for _, prop := range []string{"C19", "C17", "C01"} {
		c.S.Hold(prop, "LOOPVAR-CLOSURE", "literals", "-", itoa(n)+" deferred or concurrent function literals inside loops examined")
	}
}
