package rules

import (
	"go/ast"
	"go/token"
	"go/types"
	"sort"
	"strings"

	"verif/sa/internal/core"
)

func init() {
	register(Rule{
		Name:  "PIPE-MODEGUARD",
		Props: []string{"C04"},
		Doc:   "a phase of Flatten that is run from several places is run under the same mode options (Minimal, Expand, …) at each of them",
		Run:   modeGuardRule,
	})
}

// modeGuardRule (C04, PIPE-MODEGUARD): sibling agreement between the call sites of one phase. "Flatten returns nil in
// every mode" needs each phase to run in the modes it was written for and in no other: the naming of inline schemas
// belongs to full flattening only (not Minimal, not Expand). When a phase is called from two places below Flatten — the
// main sequence and the loop that repeats it after a name conflict was resolved — both places must test the same
// option members of FlattenOpts with the same polarity (conditions inherited from the callers included). A site that
// tests fewer options runs the phase in a mode its sibling excludes (F30: the repeat loop tested Minimal only, so
// Expand ran the full-flattening naming on a half-expanded document and failed on the pointers it broke).
//
// Decided: equality of the sets of option literals guarding the direct call sites. Not decided: whether the common
// guard is the right one.
func modeGuardRule(c *Ctx) {
	flatten := c.root("Flatten")
	if flatten == nil {
		c.S.Undecided("C04", "PIPE-MODEGUARD", "anchor", "-", "Flatten not found")
		return
	}
	below := c.P.Reachable(flatten)
	optField := func(fi *core.FuncInfo, e ast.Expr) string {
		sel, ok := core.Unparen(e).(*ast.SelectorExpr)
		if !ok {
			return ""
		}
		fv := core.FieldOf(c.info(fi), sel)
		if fv == nil || !core.IsBool(fv.Type()) || !strings.HasSuffix(core.OwnerStruct(c.P, fv), ".FlattenOpts") {
			return ""
		}
		return fv.Name()
	}
	// literals of a condition: option members with their polarity; a condition that mentions an option member in a
	// shape not followed is kept verbatim (it still has to agree between siblings)
	var lits func(fi *core.FuncInfo, e ast.Expr, neg bool, depth int, out map[string]bool)
	lits = func(fi *core.FuncInfo, e ast.Expr, neg bool, depth int, out map[string]bool) {
		e = core.Unparen(e)
		info := c.info(fi)
		switch x := e.(type) {
		case *ast.UnaryExpr:
			if x.Op == token.NOT {
				lits(fi, x.X, !neg, depth, out)
				return
			}
		case *ast.BinaryExpr:
			if x.Op == token.LAND && !neg || x.Op == token.LOR && neg {
				lits(fi, x.X, neg, depth, out)
				lits(fi, x.Y, neg, depth, out)
				return
			}
		case *ast.Ident:
			if o := core.ObjOf(info, x); o != nil && core.IsBool(o.Type()) && depth < 4 {
				if defs := c.P.Locals(fi).Defs[o]; len(defs) == 1 && defs[0].Kind == core.DefAssign {
					lits(fi, defs[0].Expr, neg, depth+1, out)
					return
				}
			}
		case *ast.CallExpr:
			// opts.isFull(): a single-return boolean method of the options
			if sel, ok := core.Unparen(x.Fun).(*ast.SelectorExpr); ok && len(x.Args) == 0 && depth < 4 {
				if g := c.P.Funcs[c.P.StaticCallee(fi, x)]; g != nil && g.Decl.Recv != nil && g.Decl.Body != nil && len(g.Decl.Body.List) == 1 {
					if t := info.TypeOf(sel.X); t != nil && core.IsModType(t, "FlattenOpts") {
						if ret, isRet := g.Decl.Body.List[0].(*ast.ReturnStmt); isRet && len(ret.Results) == 1 {
							lits(g, ret.Results[0], neg, depth+1, out)
							return
						}
					}
				}
			}
		}
		if f := optField(fi, e); f != "" {
			if neg {
				out["!"+f] = true
			} else {
				out[f] = true
			}
			return
		}
		mentions := false
		ast.Inspect(e, func(n ast.Node) bool {
			if ex, ok := n.(ast.Expr); ok && optField(fi, ex) != "" {
				mentions = true
			}
			return true
		})
		if mentions {
			s := exprStr(e)
			if neg {
				s = "!(" + s + ")"
			}
			out["expr:"+s] = true
		}
	}
	type site struct {
		cs     core.CallSite
		direct bool
	}
	sitesOf := func(f *core.FuncInfo) []site {
		var out []site
		for _, cs := range c.P.CG().In[f.Obj] {
			if cs.Caller == nil || !below[cs.Caller] || cs.Caller == f || cs.Call == nil {
				continue
			}
			direct := c.P.StaticCallee(cs.Caller, cs.Call) == f.Obj
			out = append(out, site{cs, direct})
		}
		sort.Slice(out, func(i, j int) bool { return out[i].cs.Call.Pos() < out[j].cs.Call.Pos() })
		return out
	}
	var guardOf func(s site, depth int, busy map[*core.FuncInfo]bool) (map[string]bool, bool)
	guardOf = func(s site, depth int, busy map[*core.FuncInfo]bool) (map[string]bool, bool) {
		if !s.direct {
			return nil, false // handed over as a function value: the guard is wherever the value is called
		}
		g := map[string]bool{}
		for _, cd := range c.conds(s.cs.Caller, s.cs.Call) {
			if cd.Kind == core.CondBool {
				lits(s.cs.Caller, cd.Expr, cd.Neg, 0, g)
			}
		}
		enc := s.cs.Caller
		if enc == flatten || depth > 5 || busy[enc] {
			return g, true
		}
		busy[enc] = true
		defer delete(busy, enc)
		var inherited map[string]bool
		for _, up := range sitesOf(enc) {
			ug, ok := guardOf(up, depth+1, busy)
			if !ok {
				return nil, false
			}
			if inherited == nil {
				inherited = ug
				continue
			}
			for k := range inherited {
				if !ug[k] {
					delete(inherited, k)
				}
			}
		}
		for k := range inherited {
			g[k] = true
		}
		return g, true
	}
	render := func(g map[string]bool) string {
		if len(g) == 0 {
			return "(unconditional)"
		}
		var ks []string
		for k := range g {
			ks = append(ks, k)
		}
		sort.Strings(ks)
		return strings.Join(ks, " ∧ ")
	}
	nPhases, nGuarded := 0, 0
	for _, f := range core.SortedSet(below) {
		if f == flatten || f.Pkg.PkgPath != core.ModPath {
			continue
		}
		// a phase: takes the options
		sig := f.Obj.Type().(*types.Signature)
		takesOpts := false
		for i := 0; i < sig.Params().Len(); i++ {
			if core.IsModType(sig.Params().At(i).Type(), "FlattenOpts") {
				takesOpts = true
			}
		}
		if !takesOpts {
			continue
		}
		ss := sitesOf(f)
		if len(ss) < 2 {
			continue
		}
		nPhases++
		var guards []map[string]bool
		followed := true
		for _, s := range ss {
			g, ok := guardOf(s, 0, map[*core.FuncInfo]bool{})
			if !ok {
				followed = false
				break
			}
			guards = append(guards, g)
		}
		if !followed {
			c.S.Note("PIPE-MODEGUARD: %s is (also) handed over as a function value; its call sites are not compared", f.QName())
			continue
		}
		any := false
		same := true
		for i, g := range guards {
			if len(g) > 0 {
				any = true
			}
			if i > 0 && render(g) != render(guards[0]) {
				same = false
			}
		}
		if !any {
			continue
		}
		nGuarded++
		var parts []string
		for i, s := range ss {
			parts = append(parts, s.cs.Caller.Name()+" ("+c.P.Pos(s.cs.Call.Pos())+"): "+render(guards[i]))
		}
		c.S.Decide(same, "C04", "PIPE-MODEGUARD", f.QName(), c.P.Pos(ss[0].cs.Call.Pos()),
			"all "+itoa(len(ss))+" call sites run the phase under the same mode options: "+render(guards[0]),
			"the call sites of "+f.Name()+" disagree on the mode options they test — "+strings.Join(parts, "; ")+": one of them runs the phase in a mode the other excludes")
	}
	c.S.Note("PIPE-MODEGUARD: %d phases below Flatten with several call sites, %d of them guarded by mode options", nPhases, nGuarded)
}

func itoa(n int) string {
	if n == 0 {
		return "0"
	}
	s := ""
	for n > 0 {
		s = string(rune('0'+n%10)) + s
		n /= 10
	}
	return s
}
