package rules

import (
	"fmt"
	"go/ast"
	"go/token"
	"go/types"
	"sort"
	"strings"

	"verif/sa/internal/core"
)

// recordRefreshRule (C02/C01, SYNC-RECORD): a record built from the result of a resolution — several of its members
// are derived from one call, e.g. SchemaRef{Ref: r.Ref, Schema: r.Schema, TopLevel: f(r.Ref)} from
// r := replace.DeepestRef(…) — is one observation of the document. When the same function resolves the record again
// (a second call of the same function on a member of the record) because the document has changed in between, every
// member that was derived from the first result must be taken from the second one, unconditionally: a record
// refreshed in part (the $ref but not the schema it designates) describes a state of the document that never
// existed, and the stale part is written back into the document.
func (c *Ctx) recordRefreshRule(reach []*core.FuncInfo) {
	// 1. records built from one resolution, anywhere below Flatten
	type built struct {
		typ    types.Type
		callee types.Object
		fields map[string]bool
	}
	var records []built
	for _, fi := range reach {
		if fi.Pkg.PkgPath != core.ModPath && !strings.HasPrefix(fi.Pkg.PkgPath, core.ModPath+"/") {
			continue
		}
		info := c.info(fi)
		ld := c.P.Locals(fi)
		// the call a local was defined from (single definition)
		defCall := func(o types.Object) *ast.CallExpr {
			defs := ld.Defs[o]
			if len(defs) != 1 || defs[0].Expr == nil {
				return nil
			}
			if defs[0].Kind != core.DefMulti && defs[0].Kind != core.DefAssign {
				return nil
			}
			call, _ := core.Unparen(defs[0].Expr).(*ast.CallExpr)
			return call
		}
		// the resolution calls an expression is derived from, through single-definition locals
		var derived func(e ast.Expr, depth int, out map[*ast.CallExpr]bool)
		derived = func(e ast.Expr, depth int, out map[*ast.CallExpr]bool) {
			if depth > 3 || e == nil {
				return
			}
			ast.Inspect(e, func(n ast.Node) bool {
				id, ok := n.(*ast.Ident)
				if !ok {
					return true
				}
				o := info.Uses[id]
				if _, isVar := o.(*types.Var); !isVar || ld.Params[o] {
					return true
				}
				if call := defCall(o); call != nil {
					if callee := c.P.CalleeAny(fi, call); callee != nil && c.P.Funcs[callee] != nil {
						out[call] = true
						return true
					}
				}
				if defs := ld.Defs[o]; len(defs) == 1 && defs[0].Kind == core.DefAssign {
					derived(defs[0].Expr, depth+1, out)
				}
				return true
			})
		}
		ast.Inspect(fi.Decl.Body, func(n ast.Node) bool {
			lit, ok := n.(*ast.CompositeLit)
			if !ok {
				return true
			}
			t := info.TypeOf(lit)
			if _, isStruct := core.Deref(t).Underlying().(*types.Struct); !isStruct {
				return true
			}
			byCall := map[*ast.CallExpr]map[string]bool{}
			for _, el := range lit.Elts {
				kv, ok := el.(*ast.KeyValueExpr)
				if !ok {
					continue
				}
				name, ok := kv.Key.(*ast.Ident)
				if !ok {
					continue
				}
				from := map[*ast.CallExpr]bool{}
				derived(kv.Value, 0, from)
				for call := range from {
					if byCall[call] == nil {
						byCall[call] = map[string]bool{}
					}
					byCall[call][name.Name] = true
				}
			}
			for call, fs := range byCall {
				if len(fs) >= 2 {
					records = append(records, built{t, c.P.CalleeAny(fi, call), fs})
				}
			}
			return true
		})
	}
	if len(records) == 0 {
		return
	}
	// 2. second resolutions of such a record: r2 := C(…, v.F, …) with v of the record's type
	for _, fi := range reach {
		if fi.Pkg.PkgPath != core.ModPath && !strings.HasPrefix(fi.Pkg.PkgPath, core.ModPath+"/") {
			continue
		}
		info := c.info(fi)
		for _, call := range calls(fi.Decl.Body) {
			callee := c.P.CalleeAny(fi, call)
			if callee == nil {
				continue
			}
			for _, rec := range records {
				if rec.callee != callee {
					continue
				}
				var v types.Object
				for _, a := range call.Args {
					if sel, ok := core.Unparen(a).(*ast.SelectorExpr); ok {
						if o := core.ObjOf(info, sel.X); o != nil && types.Identical(core.Deref(o.Type()), core.Deref(rec.typ)) {
							v = o
						}
					}
				}
				if v == nil {
					continue
				}
				// the result variable of this second call
				var r2 types.Object
				if as, ok := c.parents(fi)[call].(*ast.AssignStmt); ok && len(as.Lhs) >= 1 {
					r2 = core.ObjOf(info, as.Lhs[0])
				}
				if r2 == nil {
					continue
				}
				blk, _ := c.parents(fi).Enclosing(call, func(n ast.Node) bool { _, b := n.(*ast.BlockStmt); return b }).(*ast.BlockStmt)
				if blk == nil {
					continue
				}
				mentions := func(e ast.Expr) bool {
					found := false
					ast.Inspect(e, func(n ast.Node) bool {
						if id, ok := n.(*ast.Ident); ok && info.Uses[id] == r2 {
							found = true
						}
						return true
					})
					return found
				}
				refreshed := map[string]bool{}
				partial := map[string]bool{} // refreshed under a condition only
				for _, st := range blk.List {
					if st.Pos() < call.Pos() {
						continue
					}
					ast.Inspect(st, func(n ast.Node) bool {
						as, ok := n.(*ast.AssignStmt)
						if !ok {
							return true
						}
						for i, l := range as.Lhs {
							if i >= len(as.Rhs) && len(as.Rhs) != 1 {
								continue
							}
							rhs := as.Rhs[0]
							if i < len(as.Rhs) {
								rhs = as.Rhs[i]
							}
							l = core.Unparen(l)
							// v = T{…} rebuilt from the second result
							if core.ObjOf(info, l) == v {
								if lit, isLit := core.Unparen(rhs).(*ast.CompositeLit); isLit {
									for _, el := range lit.Elts {
										if kv, ok := el.(*ast.KeyValueExpr); ok && mentions(kv.Value) {
											if name, ok := kv.Key.(*ast.Ident); ok {
												if as == st {
													refreshed[name.Name] = true
												} else {
													partial[name.Name] = true
												}
											}
										}
									}
								}
								continue
							}
							sel, isSel := l.(*ast.SelectorExpr)
							if !isSel || core.ObjOf(info, sel.X) != v || !mentions(rhs) {
								continue
							}
							if as == st {
								refreshed[sel.Sel.Name] = true
							} else {
								partial[sel.Sel.Name] = true
							}
						}
						return true
					})
				}
				if len(refreshed) == 0 && len(partial) == 0 {
					continue // the second result is not used to refresh the record at all: another construct
				}
				var missing []string
				for f := range rec.fields {
					if !refreshed[f] {
						if partial[f] {
							missing = append(missing, f+" (under a condition only)")
						} else {
							missing = append(missing, f)
						}
					}
				}
				sort.Strings(missing)
				_, tn := core.NamedOf(rec.typ)
				key := fi.QName() + "/" + tn + "<-" + callee.Name()
				var all []string
				for f := range rec.fields {
					all = append(all, f)
				}
				sort.Strings(all)
				for _, pr := range []string{"C02", "C01"} {
					c.S.Decide(len(missing) == 0, pr, "SYNC-RECORD", key, c.P.Pos(call.Pos()),
						"the record resolved a second time takes every member derived from the resolution ("+strings.Join(all, ", ")+") from the new result, unconditionally",
						"the "+tn+" is resolved a second time with "+callee.Name()+" but "+strings.Join(missing, ", ")+" still come(s) from the first resolution: the part of the document it was copied from may have been rewritten in between (a deeper pointer named first), and the stale copy is written back — an anonymous pointer reappears or a $ref is lost")
				}
			}
		}
	}
}

// pointerPlanRule (C04 GUARD-PLANNED, C09 COV-ALLREFS): the pass that names anonymous pointers resolves every $ref of
// the document (replace.DeepestRef on the value of a loop over an index of $refs).
//   - GUARD-PLANNED: a $ref of the form '#/definitions/<name>' is never handed to that resolution: planned as a
//     replacement it would be rewritten under the key it had when the pass started, which an earlier replacement of
//     the same pass may have moved (Flatten then fails on a well-formed document).
//   - COV-ALLREFS: the loop ranges over the index of ALL $refs (the one the exported AllReferences reads), not over
//     the index of one kind: a $ref under the items of a parameter or header is checked nowhere else, and a dangling
//     one would let Flatten report success.
func (c *Ctx) pointerPlanRule(reach []*core.FuncInfo) {
	deepest := c.P.Func("internal/flatten/replace", "DeepestRef")
	if deepest == nil {
		c.S.Undecided("C04", "GUARD-PLANNED", "anchor", "-", "replace.DeepestRef not found")
		return
	}
	allField, _ := getterField(c, "AllReferences")
	// the resolver and its wrappers: module functions that hand one of their own spec.Ref parameters to it
	resolvers := map[*types.Func]bool{deepest.Obj: true}
	for changed := true; changed; {
		changed = false
		for _, g := range c.P.SortedFuncs() {
			if resolvers[g.Obj] {
				continue
			}
			ginfo := c.info(g)
			gsig := g.Obj.Type().(*types.Signature)
			for _, call := range calls(g.Decl.Body) {
				if !resolvers[c.P.StaticCallee(g, call)] {
					continue
				}
				for _, a := range call.Args {
					o := core.ObjOf(ginfo, a)
					for i := 0; o != nil && i < gsig.Params().Len(); i++ {
						if gsig.Params().At(i) == o && core.IsSpecType(o.Type(), "Ref") && !resolvers[g.Obj] {
							resolvers[g.Obj] = true
							changed = true
						}
					}
				}
			}
		}
	}
	// a wrapper that also records the result under its key parameter is a planning step: plan(k, ref)
	wrapperPlans := func(g *core.FuncInfo) bool {
		if g == nil || g.Decl == nil || g.Decl.Body == nil {
			return false
		}
		ginfo := c.info(g)
		found := false
		ast.Inspect(g.Decl.Body, func(nd ast.Node) bool {
			as, ok := nd.(*ast.AssignStmt)
			if !ok || len(as.Lhs) != 1 {
				return true
			}
			ix, ok := core.Unparen(as.Lhs[0]).(*ast.IndexExpr)
			if !ok || !core.IsMap(ginfo.TypeOf(ix.X)) {
				return true
			}
			if o := core.ObjOf(ginfo, ix.Index); o != nil && c.P.Locals(g).Params[o] && core.IsString(o.Type()) {
				found = true
			}
			return true
		})
		return found
	}
	n := 0
	for _, fi := range reach {
		info := c.info(fi)
		if resolvers[fi.Obj] {
			continue
		}
		for _, call := range calls(fi.Decl.Body) {
			if !resolvers[c.P.StaticCallee(fi, call)] {
				continue
			}
			rs, _ := c.parents(fi).Enclosing(call, func(nd ast.Node) bool { _, r := nd.(*ast.RangeStmt); return r }).(*ast.RangeStmt)
			if rs == nil {
				continue
			}
			// the resolved $ref is the loop's value (or the element of the ranged map at the loop's key)
			var refArg ast.Expr
			for _, a := range call.Args {
				if core.IsSpecType(info.TypeOf(a), "Ref") {
					refArg = a
				}
			}
			refObj := core.ObjOf(info, refArg)
			if refArg == nil || refObj == nil {
				continue
			}
			var ranged ast.Expr
			switch {
			case rs.Value != nil && core.ObjOf(info, rs.Value) == refObj:
				ranged = rs.X
			default:
				for _, d := range c.P.Locals(fi).Defs[refObj] {
					if ix, ok := core.Unparen(d.Expr).(*ast.IndexExpr); ok && d.Kind == core.DefAssign {
						ranged = ix.X
					}
				}
			}
			if ranged == nil || !core.IsMap(info.TypeOf(ranged)) {
				continue
			}
			key := fi.QName() + "/" + deepest.Obj.Name()
			// COV-ALLREFS
			isAll := false
			if sel, ok := core.Unparen(ranged).(*ast.SelectorExpr); ok && allField != nil && core.FieldOf(info, sel) == allField {
				isAll = true
			}
			if o := core.ObjOf(info, ranged); o != nil && !isAll {
				for _, d := range c.P.Locals(fi).Defs[o] {
					if sel, ok := core.Unparen(d.Expr).(*ast.SelectorExpr); ok && d.Kind == core.DefAssign && allField != nil && core.FieldOf(info, sel) == allField {
						isAll = true
					}
				}
			}
			c.S.Decide(isAll, "C09", "COV-ALLREFS", key, c.P.Pos(rs.Pos()),
				"the pass that resolves the $refs of the document ranges over the index of all $refs",
				"the pass that checks that every '#/definitions/<name>' exists and names the other $refs ranges over "+exprStr(ranged)+", not over the index of all $refs: a dangling $ref under the items of a parameter or header is never noticed and Flatten reports success")
			// GUARD-PLANNED applies where the result is planned: stored under the loop's key into a local map
			var resObj types.Object
			if as, ok := c.parents(fi)[call].(*ast.AssignStmt); ok && len(as.Lhs) >= 1 {
				resObj = core.ObjOf(info, as.Lhs[0])
			}
			planned := false
			ast.Inspect(rs.Body, func(m ast.Node) bool {
				as, ok := m.(*ast.AssignStmt)
				if !ok || len(as.Lhs) != 1 || len(as.Rhs) != 1 {
					return true
				}
				ix, ok := core.Unparen(as.Lhs[0]).(*ast.IndexExpr)
				if !ok || rs.Key == nil || core.ObjOf(info, ix.Index) == nil || core.ObjOf(info, ix.Index) != core.ObjOf(info, rs.Key) {
					return true
				}
				from := map[types.Object]bool{}
				var walk func(e ast.Expr, depth int)
				walk = func(e ast.Expr, depth int) {
					if e == nil || depth > 3 {
						return
					}
					ast.Inspect(e, func(y ast.Node) bool {
						if id, ok := y.(*ast.Ident); ok {
							if o := info.Uses[id]; o != nil && !from[o] {
								from[o] = true
								if defs := c.P.Locals(fi).Defs[o]; len(defs) == 1 && defs[0].Kind == core.DefAssign {
									walk(defs[0].Expr, depth+1)
								}
							}
						}
						return true
					})
				}
				walk(as.Rhs[0], 0)
				if resObj != nil && from[resObj] {
					planned = true
				}
				return true
			})
			if !planned && wrapperPlans(c.P.Funcs[c.P.StaticCallee(fi, call)]) {
				planned = true
			}
			if !planned {
				continue
			}
			n++
			// GUARD-PLANNED
			guarded := false
			for _, cd := range c.conds(fi, call) {
				if cd.Kind != core.CondBool {
					continue
				}
				mentionsRef := false
				ast.Inspect(cd.Expr, func(m ast.Node) bool {
					if id, ok := m.(*ast.Ident); ok && info.Uses[id] == refObj {
						mentionsRef = true
					}
					return true
				})
				if !mentionsRef {
					continue
				}
				if cd.Neg && c.isTopLevelTest(fi, cd.Expr, 0) {
					guarded = true
				}
				if be, ok := core.Unparen(cd.Expr).(*ast.BinaryExpr); ok && !cd.Neg && be.Op.String() == "!=" {
					flipped := *be
					flipped.Op = token.EQL
					if c.isTopLevelTest(fi, &flipped, 0) {
						guarded = true
					}
				}
			}
			c.S.Decide(guarded, "C04", "GUARD-PLANNED", key, c.P.Pos(call.Pos()),
				"only $refs that are not of the form '#/definitions/<name>' are resolved and planned for replacement",
				"a $ref of the form '#/definitions/<name>' also reaches the resolution and is planned as a replacement: it is rewritten later under the key it had when the pass started, which an earlier replacement may have moved — Flatten fails on a well-formed document")
		}
	}
	if n < 1 {
		c.S.Undecided("C04", "GUARD-PLANNED", "floor", "-", "no loop over an index of $refs resolving its value with replace.DeepestRef found below Flatten")
	}
}

// rerunRule (C02/C05, PIPE-RERUN): the phase that merges generated definitions back tells its caller, through a
// boolean result, that it has introduced an anonymous pointer or an inline complex schema (REF-CANONICAL's transient
// exemption and GUARD-REINLINE rest on that flag). The caller must act on it in every mode: the loop that runs
// pointer naming again continues whenever the flag is raised — its condition is the flag alone (`for flag { … }`), or
// it is a `for { … }` left only under `!flag`. A condition that conjoins the flag with anything else (a mode, a
// counter) drops a requested re-run, and the anonymous pointer survives a successful Flatten.
func (c *Ctx) rerunRule(reach []*core.FuncInfo) {
	deepest := c.P.Func("internal/flatten/replace", "DeepestRef")
	reinline := c.P.Func("internal/flatten/replace", "UpdateRefWithSchema")
	if deepest == nil || reinline == nil {
		return
	}
	n := 0
	for _, fi := range reach {
		info := c.info(fi)
		// calls of a flag-returning phase that reaches the re-inlining rewriter
		for _, call := range calls(fi.Decl.Body) {
			g := c.P.Funcs[c.P.StaticCallee(fi, call)]
			if g == nil {
				continue
			}
			sig := g.Obj.Type().(*types.Signature)
			if sig.Results().Len() != 2 || !core.IsBool(sig.Results().At(0).Type()) || !core.IsErrorType(sig.Results().At(1).Type()) || !c.reachesFunc(g, reinline) {
				continue
			}
			// only the outermost caller: a function that itself returns the flag just passes it on
			if fsig := fi.Obj.Type().(*types.Signature); fsig.Results().Len() == 2 && core.IsBool(fsig.Results().At(0).Type()) {
				continue
			}
			as, ok := c.parents(fi)[call].(*ast.AssignStmt)
			if !ok || len(as.Lhs) < 1 {
				continue
			}
			flag := core.ObjOf(info, as.Lhs[0])
			if flag == nil {
				continue
			}
			// the loop of this function that names pointers again
			var loop *ast.ForStmt
			ast.Inspect(fi.Decl.Body, func(nd ast.Node) bool {
				fs, isFor := nd.(*ast.ForStmt)
				if !isFor {
					return true
				}
				for _, inner := range calls(fs.Body) {
					if h := c.P.Funcs[c.P.StaticCallee(fi, inner)]; h != nil && c.reachesFunc(h, deepest) {
						loop = fs
					}
				}
				return true
			})
			key := fi.QName() + "<-" + g.Obj.Name()
			if n++; loop == nil {
				for _, pr := range []string{"C02", "C05"} {
					c.S.Violate(pr, "PIPE-RERUN", key, c.P.Pos(call.Pos()),
						"the flag returned by "+g.Obj.Name()+" (an anonymous pointer or an inline complex schema was introduced) is not followed by a loop that names pointers again: the pointer survives a successful Flatten")
				}
				return
			}
			ok2, why := false, ""
			switch {
			case loop.Cond != nil:
				cond := core.Unparen(loop.Cond)
				if core.ObjOf(info, cond) == flag {
					ok2 = true
				} else {
					why = "the loop that names pointers again runs under `" + exprStr(loop.Cond) + "`, not under the flag alone: a re-run requested by " + g.Obj.Name() + " is dropped when the rest of the condition is false"
				}
			default:
				// for { … if !flag { leave } … }
				ast.Inspect(loop.Body, func(nd ast.Node) bool {
					ifs, isIf := nd.(*ast.IfStmt)
					if !isIf || !core.BlockLeaves(info, ifs.Body) {
						return true
					}
					if u, isNot := core.Unparen(ifs.Cond).(*ast.UnaryExpr); isNot && u.Op == token.NOT && core.ObjOf(info, u.X) == flag {
						ok2 = true
					}
					return true
				})
				if !ok2 {
					why = "the unconditional loop that names pointers again is not left under `!" + flag.Name() + "` alone"
				}
			}
			for _, pr := range []string{"C02", "C05"} {
				c.S.Decide(ok2, pr, "PIPE-RERUN", key, c.P.Pos(loop.Pos()),
					"pointer naming runs again whenever "+g.Obj.Name()+" reports that it introduced a pointer or an inline schema, in every mode",
					why+": the anonymous pointer it introduced is never named and remains in the output of a successful Flatten")
			}
			return
		}
	}
	if n == 0 {
		c.S.Note("PIPE-RERUN: no caller of a flag-returning re-inlining phase found below Flatten (one on the pinned tree: stripPointersAndOAIGen <- stripOAIGen)")
	}
}

// resolvedVsRaw (C02, REF-EQ-RESOLVED): two `$ref`s are compared as strings only at the same level of resolution. The
// value of a loop over an index of `$ref`s is what the document holds (raw); the Ref member of a resolution result or
// of a planned record is what a chain of pointers finally designates (resolved). Comparing one of each finds the
// direct referers only: a referer that reaches the target through another pointer is missed, and is left pointing at
// an anonymous location.
func (c *Ctx) resolvedVsRaw(reach []*core.FuncInfo) {
	for _, fi := range reach {
		if fi.Pkg.PkgPath != core.ModPath {
			continue
		}
		info := c.info(fi)
		level := func(e ast.Expr) string {
			call, ok := core.Unparen(e).(*ast.CallExpr)
			if !ok || len(call.Args) != 0 {
				return ""
			}
			sel, ok := core.Unparen(call.Fun).(*ast.SelectorExpr)
			if !ok || sel.Sel.Name != "String" || !core.IsSpecType(info.TypeOf(sel.X), "Ref") {
				return ""
			}
			x := core.Unparen(sel.X)
			// raw: the value variable of a range over a map[string]spec.Ref
			if o := core.ObjOf(info, x); o != nil {
				for _, d := range c.P.Locals(fi).Defs[o] {
					if d.Kind == core.DefRangeVal && core.IsMap(info.TypeOf(d.Expr)) {
						return "raw"
					}
				}
			}
			// resolved: the Ref member of a resolution result or of a record of the module (SchemaRef, DeepestRefResult)
			if fs, isSel := x.(*ast.SelectorExpr); isSel && fs.Sel.Name == "Ref" {
				if pk, tn := core.NamedOf(info.TypeOf(fs.X)); strings.HasPrefix(pk, core.ModPath) && (tn == "SchemaRef" || tn == "DeepestRefResult") {
					return "resolved"
				}
			}
			return ""
		}
		k := 0
		ast.Inspect(fi.Decl.Body, func(nd ast.Node) bool {
			be, ok := nd.(*ast.BinaryExpr)
			if !ok || be.Op != token.EQL && be.Op != token.NEQ {
				return true
			}
			lx, ly := level(be.X), level(be.Y)
			if lx == "" || ly == "" {
				return true
			}
			k++
			c.S.Decide(lx == ly, "C02", "REF-EQ-RESOLVED", fmt.Sprintf("%s/cmp#%d", fi.QName(), k), c.P.Pos(be.Pos()),
				"the two $refs compared are at the same level of resolution ("+lx+")",
				"`"+exprStr(be)+"` compares a $ref as the document holds it ("+map[bool]string{true: exprStr(be.X), false: exprStr(be.Y)}[lx == "raw"]+") with a resolved one: a referer that reaches the target through another anonymous pointer is not recognised as a caller, the target is expanded in place as if it had one caller, and the indirect referer keeps its anonymous pointer")
			return true
		})
	}
}
