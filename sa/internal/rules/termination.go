package rules

// termination (E7): recursion descends on a finite structure or is guarded
// by a visited set; the pointer-chasing loop remembers where it has been.

import (
	"fmt"
	"go/ast"
	"go/token"
	"go/types"
	"os"
	"sort"
	"strings"

	"verif/sa/internal/core"
)

func init() {
	register(Rule{
		Name:  "TERM",
		Props: []string{"C20", "C09"},
		Doc:   "every recursive call passes a strict sub-component of the caller's measure or is guarded by a visited set; unbounded loops carry a visited-set or progress argument",
		Run:   termRules,
	})
}

// measure is a candidate termination measure of a function: a parameter
// (index, -1 receiver) optionally followed by one field.
type measure struct {
	param int
	field string // "" or a field name of the parameter's struct type
}

func (m measure) String() string {
	s := fmt.Sprintf("param%d", m.param)
	if m.param == -1 {
		s = "recv"
	}
	if m.field != "" {
		s += "." + m.field
	}
	return s
}

func paramObj(fi *core.FuncInfo, idx int) *types.Var {
	sig := fi.Obj.Type().(*types.Signature)
	if idx == -1 {
		return sig.Recv()
	}
	if idx < sig.Params().Len() {
		return sig.Params().At(idx)
	}
	return nil
}

func candidateMeasures(fi *core.FuncInfo) []measure {
	var out []measure
	sig := fi.Obj.Type().(*types.Signature)
	add := func(idx int, v *types.Var) {
		if v == nil {
			return
		}
		t := v.Type()
		if pointerLike(t) || core.IsString(t) {
			out = append(out, measure{param: idx})
		}
		if st, ok := core.Deref(t).Underlying().(*types.Struct); ok {
			for i := 0; i < st.NumFields(); i++ {
				ft := st.Field(i).Type()
				if pointerLike(ft) || core.IsString(ft) {
					out = append(out, measure{param: idx, field: st.Field(i).Name()})
				}
			}
		}
	}
	if sig.Recv() != nil {
		add(-1, sig.Recv())
	}
	for i := 0; i < sig.Params().Len(); i++ {
		add(i, sig.Params().At(i))
	}
	return out
}

type recEdge struct {
	caller, callee *core.FuncInfo
	call           *ast.CallExpr
}

// actualFor returns the expression supplying the callee's measure at a call site.
func (c *Ctx) actualFor(e recEdge, m measure) ast.Expr {
	info := c.info(e.caller)
	var base ast.Expr
	if m.param == -1 {
		if recv := c.P.MethodValueRecv(e.caller, e.call, e.callee.Obj); recv != nil {
			// called through a method value (a table of steps): the receiver was bound when the value was taken
			base = recv
		} else if sel, ok := core.Unparen(e.call.Fun).(*ast.SelectorExpr); ok {
			base = sel.X
		}
	} else if m.param < len(e.call.Args) {
		base = e.call.Args[m.param]
	}
	if base == nil || m.field == "" {
		return base
	}
	// field of a composite literal (possibly through & or a local defined by one)
	return c.fieldOfLiteral(e.caller, info, base, m.field, 0)
}

func (c *Ctx) fieldOfLiteral(fi *core.FuncInfo, info *types.Info, e ast.Expr, field string, depth int) ast.Expr {
	if depth > 4 {
		return nil
	}
	switch x := core.Unparen(e).(type) {
	case *ast.UnaryExpr:
		return c.fieldOfLiteral(fi, info, x.X, field, depth+1)
	case *ast.CompositeLit:
		for _, el := range x.Elts {
			if kv, ok := el.(*ast.KeyValueExpr); ok {
				if id, ok := kv.Key.(*ast.Ident); ok && id.Name == field {
					return kv.Value
				}
			}
		}
		return nil
	case *ast.Ident:
		o := core.ObjOf(info, x)
		defs := c.P.Locals(fi).Defs[o]
		if len(defs) == 1 && defs[0].Kind == core.DefAssign {
			if lit := c.fieldOfLiteral(fi, info, defs[0].Expr, field, depth+1); lit != nil {
				return lit
			}
		}
		// a path: synthesize X.field
		return &ast.SelectorExpr{X: x, Sel: ast.NewIdent(field)}
	}
	return nil
}

// relation of an actual to the caller's measure: "strict", "equal", "bad".
func (c *Ctx) relation(caller *core.FuncInfo, callerM measure, actual ast.Expr) string {
	if actual == nil {
		return "bad"
	}
	po := paramObj(caller, callerM.param)
	if po == nil {
		return "bad"
	}
	// a component obtained through an accessor kept in a table (`kw.get(schema)`, every accessor of the table
	// returning a member of its argument): a strict sub-component of the argument
	if base, extra := c.throughAccessors(caller, actual); extra > 0 {
		if bp := c.P.PathOf(caller, base, true); bp != nil && bp.Root == po {
			if callerM.field == "" || len(bp.Steps) >= 1 && bp.Steps[0].Name == callerM.field {
				return "strict"
			}
		}
	}
	// synthesized selector expressions have no type info: resolve manually
	var p *core.Path
	if sel, ok := actual.(*ast.SelectorExpr); ok && c.info(caller).Selections[sel] == nil && c.info(caller).Uses[sel.Sel] == nil {
		bp := c.P.PathOf(caller, sel.X, true)
		if bp == nil {
			return "bad"
		}
		q := *bp
		q.Steps = append(append([]core.Step{}, bp.Steps...), core.Step{Name: sel.Sel.Name, Field: dummyField})
		p = &q
	} else {
		p = c.P.PathOf(caller, actual, true)
	}
	if p != nil && p.Root == po {
		want := 0
		if callerM.field != "" {
			want = 1
			if len(p.Steps) < 1 || p.Steps[0].Name != callerM.field {
				return "bad"
			}
		}
		switch {
		case len(p.Steps) > want:
			return "strict"
		case len(p.Steps) == want:
			return "equal"
		}
		return "bad"
	}
	// string descent: "#"+path.Dir(<derived from the measure>)
	if core.IsString(po.Type()) && c.dirDerived(caller, actual, po, 0) {
		return "strict"
	}
	return "bad"
}

var dummyField = types.NewField(0, nil, "_", types.Typ[types.Int], false)

// dirDerived: e is obtained from parameter po by at least one path.Dir step.
func (c *Ctx) dirDerived(fi *core.FuncInfo, e ast.Expr, po *types.Var, depth int) bool {
	if depth > 6 {
		return false
	}
	info := c.info(fi)
	switch x := core.Unparen(e).(type) {
	case *ast.BinaryExpr:
		return c.dirDerived(fi, x.X, po, depth+1) || c.dirDerived(fi, x.Y, po, depth+1)
	case *ast.CallExpr:
		callee := c.P.CalleeAny(fi, x)
		if callee == nil {
			return false
		}
		if callee.FullName() == "path.Dir" && len(x.Args) == 1 {
			return c.derivedFrom(fi, x.Args[0], po, 0)
		}
	case *ast.Ident:
		o := core.ObjOf(info, x)
		for _, d := range c.P.Locals(fi).Defs[o] {
			switch d.Kind {
			case core.DefAssign:
				if c.dirDerived(fi, d.Expr, po, depth+1) {
					return true
				}
			case core.DefMulti:
				// result d.Index of a module call taking the measure
				call, ok := core.Unparen(d.Expr).(*ast.CallExpr)
				if !ok {
					continue
				}
				callee := c.P.StaticCallee(fi, call)
				if callee == nil || c.P.Funcs[callee] == nil {
					continue
				}
				cf := c.P.Funcs[callee]
				for ai, a := range call.Args {
					if !c.derivedFrom(fi, a, po, 0) {
						continue
					}
					cpo := paramObj(cf, ai)
					if cpo == nil {
						continue
					}
					// every return's d.Index-th result must be Dir-derived from that parameter
					all, any := true, false
					ast.Inspect(cf.Decl.Body, func(n ast.Node) bool {
						r, ok := n.(*ast.ReturnStmt)
						if !ok || d.Index >= len(r.Results) {
							return true
						}
						if s, isConst := core.ConstString(c.info(cf), r.Results[d.Index]); isConst && s == "" {
							return true // error exits
						}
						any = true
						if !c.dirDerived(cf, r.Results[d.Index], cpo, depth+1) {
							all = false
						}
						return true
					})
					if all && any {
						return true
					}
				}
			}
		}
	}
	return false
}

// derivedFrom: e is computed from parameter po (through slicing, calls and locals).
func (c *Ctx) derivedFrom(fi *core.FuncInfo, e ast.Expr, po *types.Var, depth int) bool {
	if depth > 6 {
		return false
	}
	info := c.info(fi)
	found := false
	ast.Inspect(e, func(n ast.Node) bool {
		id, ok := n.(*ast.Ident)
		if !ok || found {
			return !found
		}
		o := info.Uses[id]
		if o == po {
			found = true
			return false
		}
		if v, ok := o.(*types.Var); ok && !c.P.Locals(fi).Params[v] {
			for _, d := range c.P.Locals(fi).Defs[v] {
				if d.Expr != nil && d.Pos < e.Pos() && c.derivedFrom(fi, d.Expr, po, depth+1) {
					found = true
				}
			}
		}
		return !found
	})
	return found
}

// mayChangeBetween: between the two positions, the variable the key expression is rooted at is reassigned, written
// through, or handed (itself or its address) to a call — so the expression, evaluated again, may yield another
// value (sch.Ref.String() before and after spec.ExpandSchema(sch, …)).
func (c *Ctx) mayChangeBetween(fi *core.FuncInfo, key ast.Expr, from, to token.Pos) bool {
	info := c.info(fi)
	// x.f.Method() reads x
	k := core.Unparen(key)
	if call, ok := k.(*ast.CallExpr); ok && len(call.Args) == 0 {
		if sel, ok := core.Unparen(call.Fun).(*ast.SelectorExpr); ok {
			k = sel.X
		}
	}
	root := rootIdent(k)
	if root == nil {
		return false
	}
	ro := core.ObjOf(info, root)
	if ro == nil {
		return false
	}
	changed := false
	ast.Inspect(fi.Decl.Body, func(n ast.Node) bool {
		if n == nil || changed {
			return false
		}
		if n.Pos() > to || n.End() < from {
			return true
		}
		switch x := n.(type) {
		case *ast.AssignStmt:
			if x.Pos() <= from || x.Pos() >= to {
				return true
			}
			for _, l := range x.Lhs {
				if id := rootIdent(l); id != nil && core.ObjOf(info, id) == ro && x.Tok != token.DEFINE {
					changed = true
				}
			}
		case *ast.CallExpr:
			if x.Pos() <= from || x.Pos() >= to {
				return true
			}
			for _, a := range x.Args {
				a = core.Unparen(a)
				if u, ok := a.(*ast.UnaryExpr); ok && u.Op == token.AND {
					a = core.Unparen(u.X)
				}
				if id, ok := a.(*ast.Ident); ok && core.ObjOf(info, id) == ro {
					if t := info.TypeOf(id); t != nil && (core.IsPointer(t) || a != core.Unparen(x.Args[0]) || true) {
						// a pointer (or an address) lets the callee write through it; a plain value does not
						if core.IsPointer(t) || isAddrArg(x, id) {
							changed = true
						}
					}
				}
			}
		}
		return true
	})
	return changed
}

func isAddrArg(call *ast.CallExpr, id *ast.Ident) bool {
	for _, a := range call.Args {
		if u, ok := core.Unparen(a).(*ast.UnaryExpr); ok && u.Op == token.AND {
			if x, ok := core.Unparen(u.X).(*ast.Ident); ok && x == id {
				return true
			}
		}
	}
	return false
}

// visitedGuarded: the call is dominated by a negative membership test on a map that the function extends.
func (c *Ctx) visitedGuarded(fi *core.FuncInfo, call *ast.CallExpr) bool {
	info := c.info(fi)
	for _, cd := range c.conds(fi, call) {
		if cd.Kind != core.CondBool || !cd.Neg {
			continue
		}
		var m, key ast.Expr
		if mm, kk, ok := c.commaOkLookup(fi, cd.Expr); ok {
			m, key = mm, kk
		} else if ix, ok := core.Unparen(cd.Expr).(*ast.IndexExpr); ok && core.IsMap(info.TypeOf(ix.X)) {
			m, key = ix.X, ix.Index
		}
		if m == nil {
			// the same through methods of a named set type: `if set.seen(key) { return }` … `next := set.with(key)`
			if c.visitedMethodsGuard(fi, call, cd.Expr) {
				return true
			}
			continue
		}
		// the set (or a copy of it that is handed to the callee) is extended with the same key before the call
		ext := false
		ast.Inspect(fi.Decl.Body, func(n ast.Node) bool {
			as, ok := n.(*ast.AssignStmt)
			if !ok || as.Pos() > call.Pos() {
				return true
			}
			for _, l := range as.Lhs {
				ix, ok := core.Unparen(l).(*ast.IndexExpr)
				if !ok || !core.IsMap(info.TypeOf(ix.X)) || !sameExpr(ix.Index, key) {
					continue
				}
				// same spelling is the same value only if nothing in between can change what the key is read from
				if c.mayChangeBetween(fi, key, cd.Expr.Pos(), as.Pos()) {
					continue
				}
				if sameExpr(ix.X, m) {
					ext = true
					continue
				}
				// a copy passed on in the call
				if xo := core.ObjOf(info, ix.X); xo != nil {
					ast.Inspect(call, func(a ast.Node) bool {
						if id, ok := a.(*ast.Ident); ok && info.Uses[id] == xo {
							ext = true
						}
						return true
					})
				}
			}
			return true
		})
		if ext {
			return true
		}
		// or the callee receives a map computed from the tested key (helper form: visitedWith(key))
		keyObj := core.ObjOf(info, key)
		handed := false
		extends := func(inner *ast.CallExpr) bool {
			if !core.IsMap(info.TypeOf(inner)) {
				return false
			}
			for _, arg := range inner.Args {
				if sameExpr(arg, key) || keyObj != nil && core.ObjOf(info, arg) == keyObj {
					return true
				}
			}
			return false
		}
		ast.Inspect(call, func(a ast.Node) bool {
			switch x := a.(type) {
			case *ast.CallExpr:
				if x != call && extends(x) {
					handed = true
				}
			case *ast.Ident:
				// the extended set first stored in a local: `next := withKey(set, key)` … `rec(…, next)`
				o := core.ObjOf(info, x)
				if o == nil || !core.IsMap(o.Type()) {
					return true
				}
				defs := c.P.Locals(fi).Defs[o]
				if len(defs) != 1 || defs[0].Kind != core.DefAssign {
					return true
				}
				if inner, ok := core.Unparen(defs[0].Expr).(*ast.CallExpr); ok && inner.Pos() > cd.Expr.Pos() && inner.End() < call.Pos() && extends(inner) && !c.mayChangeBetween(fi, key, cd.Expr.Pos(), inner.Pos()) {
					handed = true
				}
			}
			return true
		})
		if handed {
			return true
		}
		// or a bounded depth counter: cond mentions a comparison of an int with a constant — not accepted here
	}
	return false
}

// visitedMethodsGuard: test is `S.m1(key)` with m1 a membership test on its map receiver; before the recursive call
// a method `S.m2(key)` of the same receiver that returns the set extended with its parameter is called, and its
// result (directly or through a local) is handed to the recursive call.
func (c *Ctx) visitedMethodsGuard(fi *core.FuncInfo, call *ast.CallExpr, test ast.Expr) bool {
	info := c.info(fi)
	tc, ok := core.Unparen(test).(*ast.CallExpr)
	if !ok || len(tc.Args) != 1 {
		return false
	}
	tsel, ok := core.Unparen(tc.Fun).(*ast.SelectorExpr)
	if !ok || !core.IsMap(info.TypeOf(tsel.X)) {
		return false
	}
	m1 := c.P.Funcs[c.P.StaticCallee(fi, tc)]
	if m1 == nil || m1.Decl.Recv == nil || len(m1.Decl.Recv.List) != 1 || len(m1.Decl.Recv.List[0].Names) != 1 {
		return false
	}
	// m1 looks its parameter up in its receiver
	m1info := c.info(m1)
	recv1 := m1info.Defs[m1.Decl.Recv.List[0].Names[0]]
	p1 := paramObj(m1, 0)
	isMember := false
	ast.Inspect(m1.Decl.Body, func(n ast.Node) bool {
		if ix, ok := n.(*ast.IndexExpr); ok && core.ObjOf(m1info, ix.X) == recv1 && p1 != nil && core.ObjOf(m1info, ix.Index) == types.Object(p1) {
			isMember = true
		}
		return true
	})
	if !isMember {
		return false
	}
	key := tc.Args[0]
	// the extension: S.m2(key) before the call, stored into the returned map inside m2
	for _, ec := range calls(fi.Decl.Body) {
		if ec.Pos() > call.End() || len(ec.Args) != 1 || !sameExpr(ec.Args[0], key) {
			continue
		}
		esel, ok := core.Unparen(ec.Fun).(*ast.SelectorExpr)
		if !ok || !sameExpr(esel.X, tsel.X) || !core.IsMap(info.TypeOf(ec)) {
			continue
		}
		if c.mayChangeBetween(fi, key, test.Pos(), ec.Pos()) {
			continue
		}
		m2 := c.P.Funcs[c.P.StaticCallee(fi, ec)]
		if m2 == nil {
			continue
		}
		m2info := c.info(m2)
		p2 := paramObj(m2, 0)
		stores := false
		ast.Inspect(m2.Decl.Body, func(n ast.Node) bool {
			as, ok := n.(*ast.AssignStmt)
			if !ok {
				return true
			}
			for _, l := range as.Lhs {
				if ix, ok := core.Unparen(l).(*ast.IndexExpr); ok && core.IsMap(m2info.TypeOf(ix.X)) && p2 != nil && core.ObjOf(m2info, ix.Index) == types.Object(p2) {
					stores = true
				}
			}
			return true
		})
		if !stores {
			continue
		}
		// handed to the recursive call: inline, or through the local it was assigned to
		handed := ec.Pos() >= call.Pos() && ec.End() <= call.End()
		if as, ok := c.parents(fi)[ec].(*ast.AssignStmt); ok && len(as.Lhs) == 1 {
			if lo := core.ObjOf(info, as.Lhs[0]); lo != nil {
				ast.Inspect(call, func(n ast.Node) bool {
					if id, ok := n.(*ast.Ident); ok && info.Uses[id] == lo {
						handed = true
					}
					return true
				})
			}
		}
		if handed {
			return true
		}
	}
	return false
}

func termRules(c *Ctx) {
	sccs := c.P.SCCs()
	nEdges := 0
	for _, scc := range sccs {
		in := map[*core.FuncInfo]bool{}
		for _, f := range scc {
			in[f] = true
		}
		var edges []recEdge
		for _, f := range scc {
			for _, cs := range c.P.CG().Out[f.Obj] {
				if cs.Callee == nil || cs.Call == nil {
					continue
				}
				if g := c.P.Funcs[cs.Callee]; g != nil && in[g] {
					edges = append(edges, recEdge{caller: f, callee: g, call: cs.Call})
				}
			}
		}
		sort.Slice(edges, func(i, j int) bool { return edges[i].call.Pos() < edges[j].call.Pos() })
		// choose the measure assignment with the fewest bad edges
		cands := make([][]measure, len(scc))
		for i, f := range scc {
			cands[i] = candidateMeasures(f)
			if len(cands[i]) == 0 {
				cands[i] = []measure{{param: 0}}
			}
		}
		idx := make([]int, len(scc))
		best := -1
		var bestRel []string
		var bestAssign []measure
		total := 1
		for _, cs := range cands {
			total *= len(cs)
		}
		if total > 200000 {
			total = 200000
		}
		pos := map[*core.FuncInfo]int{}
		for i, f := range scc {
			pos[f] = i
		}
		for n := 0; n < total; n++ {
			assign := make([]measure, len(scc))
			for i := range scc {
				assign[i] = cands[i][idx[i]]
			}
			bad := 0
			rel := make([]string, len(edges))
			for ei, e := range edges {
				if c.visitedGuarded(e.caller, e.call) {
					rel[ei] = "guarded"
					continue
				}
				r := c.relation(e.caller, assign[pos[e.caller]], c.actualFor(e, assign[pos[e.callee]]))
				rel[ei] = r
				if r == "bad" {
					bad++
				}
			}
			// cycles made of "equal" edges only are bad too
			if hasEqualCycle(scc, edges, rel) {
				for ei := range rel {
					if rel[ei] == "equal" {
						rel[ei] = "bad"
						bad++
					}
				}
			}
			if best == -1 || bad < best {
				best, bestRel, bestAssign = bad, rel, assign
			}
			// next combination
			k := 0
			for k < len(idx) {
				idx[k]++
				if idx[k] < len(cands[k]) {
					break
				}
				idx[k] = 0
				k++
			}
			if k == len(idx) || best == 0 {
				break
			}
		}
		var names []string
		for i, f := range scc {
			names = append(names, f.Name()+"["+bestAssign[i].String()+"]")
		}
		if os.Getenv("VERIF_DEBUG") == "term" {
			for ei, e := range edges {
				fmt.Fprintf(os.Stderr, "TERM-DEBUG %s -> %s : %s (caller %s, callee %s)\n", e.caller.Name(), e.callee.Name(), bestRel[ei], bestAssign[pos[e.caller]].String(), bestAssign[pos[e.callee]].String())
			}
		}
		for ei, e := range edges {
			nEdges++
			props := []string{"C09"}
			if c.below(e.caller, "Schema") {
				props = []string{"C20", "C09"}
			}
			key := e.caller.QName() + "->" + e.callee.Name()
			for _, prop := range props {
				switch bestRel[ei] {
				case "strict":
					c.S.Hold(prop, "TERM-REC", key, c.P.Pos(e.call.Pos()), "the recursive call passes a strict sub-component of the caller's measure ("+strings.Join(names, ", ")+"): structural descent on a finite document")
				case "equal":
					c.S.Hold(prop, "TERM-REC", key, c.P.Pos(e.call.Pos()), "the call passes the caller's measure unchanged and every cycle through it contains a strictly descending call")
				case "guarded":
					c.S.Hold(prop, "TERM-REC", key, c.P.Pos(e.call.Pos()), "the recursive call is dominated by a negative membership test on a visited set that the function extends")
				default:
					c.S.Violate(prop, "TERM-REC", key, c.P.Pos(e.call.Pos()),
						fmt.Sprintf("recursive call %s → %s passes %s, which is neither a sub-component of the caller's measure (%s) nor guarded by a visited set or depth bound: the recursion is unbounded on self-referential input",
							e.caller.Name(), e.callee.Name(), exprStr(c.actualForBest(e, bestAssign[pos[e.callee]])), bestAssign[pos[e.caller]].String()))
				}
			}
		}
	}
	if nEdges < 14 {
		c.S.Undecided("C09", "TERM-REC", "floor", "-", fmt.Sprintf("only %d recursive call sites found (confirmed by hand: 17)", nEdges))
	}
	c.visitedThreading(sccs)
	c.loopRules()
	c.importProgress()
}

func (c *Ctx) actualForBest(e recEdge, m measure) ast.Expr {
	a := c.actualFor(e, m)
	if a == nil {
		return ast.NewIdent("<none>")
	}
	return a
}

func hasEqualCycle(scc []*core.FuncInfo, edges []recEdge, rel []string) bool {
	adj := map[*core.FuncInfo][]*core.FuncInfo{}
	for i, e := range edges {
		if rel[i] == "equal" {
			adj[e.caller] = append(adj[e.caller], e.callee)
		}
	}
	state := map[*core.FuncInfo]int{}
	var dfs func(f *core.FuncInfo) bool
	dfs = func(f *core.FuncInfo) bool {
		state[f] = 1
		for _, g := range adj[f] {
			if state[g] == 1 || state[g] == 0 && dfs(g) {
				return true
			}
		}
		state[f] = 2
		return false
	}
	for _, f := range scc {
		if state[f] == 0 && dfs(f) {
			return true
		}
	}
	return false
}

// loopRules: condition-only `for` loops reachable from Flatten/New/Schema.
func (c *Ctx) loopRules() {
	var roots []*core.FuncInfo
	for _, n := range []string{"Flatten", "New", "Schema"} {
		if f := c.root(n); f != nil {
			roots = append(roots, f)
		}
	}
	reach := core.SortedSet(c.P.Reachable(roots...))
	n := 0
	for _, fi := range reach {
		info := c.info(fi)
		ast.Inspect(fi.Decl.Body, func(nd ast.Node) bool {
			fs, ok := nd.(*ast.ForStmt)
			if !ok || fs.Init != nil || fs.Post != nil {
				return true
			}
			n++
			key := fi.QName() + "/for " + condStr(fs)
			// (1) visited-set loop: top-level `if _, seen := M[K]; seen { leave }` and `M[K] = …`
			var vmap, vkey ast.Expr
			test, insert := false, false
			for _, st := range fs.Body.List {
				if ifs, ok := st.(*ast.IfStmt); ok {
					if m, k, isLookup := c.commaOkLookup(fi, ifs.Cond); isLookup && core.BlockLeaves(info, ifs.Body) {
						vmap, vkey, test = m, k, true
					}
				}
				if as, ok := st.(*ast.AssignStmt); ok && test && len(as.Lhs) == 1 {
					if ix, ok := core.Unparen(as.Lhs[0]).(*ast.IndexExpr); ok && sameExpr(ix.X, vmap) && sameExpr(ix.Index, vkey) {
						insert = true
					}
				}
			}
			if test && insert {
				c.S.Hold("C09", "TERM-VISITED", key, c.P.Pos(fs.Pos()), "every iteration tests and extends the visited set "+exprStr(vmap)+" before following the chain: a cyclic chain is reported, not followed forever")
				return true
			}
			// (2) counter loop: the body increments an integer and recomputes the loop variable
			inc := false
			for _, st := range fs.Body.List {
				if id, ok := st.(*ast.IncDecStmt); ok && id.Tok.String() == "++" {
					inc = true
				}
			}
			if inc {
				c.S.Hold("C09", "TERM-COUNTER", key, c.P.Pos(fs.Pos()), "the loop increments a counter that feeds the looked-up key; the map is finite")
				return true
			}
			// a loop that had a visited set structure but lost part of it
			if test != insert {
				c.S.Violate("C09", "TERM-VISITED", key, c.P.Pos(fs.Pos()), "the loop tests a visited set but does not insert the current element (or vice versa) on every iteration: a cyclic chain is followed forever")
				return true
			}
			// (3) fixpoint loops: inventory only
			c.S.Exempt("C09", "TERM-FIXPOINT", key, c.P.Pos(fs.Pos()), "fixpoint loop whose progress depends on runtime data (remote reference graph / definitions removed); not decided statically — see TERM-PROGRESS / ENC-MAPKEY for the removal loop")
			return true
		})
	}
	if n < 4 {
		c.S.Undecided("C09", "TERM-VISITED", "floor", "-", fmt.Sprintf("only %d condition-only loops found (confirmed by hand: 5)", n))
	}
}

func condStr(fs *ast.ForStmt) string {
	if fs.Cond == nil {
		return "{}"
	}
	return exprStr(fs.Cond)
}

// visitedThreading: where a cycle of the call graph is cut by a visited-set test, the set must reach that
// test along every other edge of the cycle: every construction, inside the cycle, of a struct that has a
// field of the set's type copies that field from the constructing function's own carrier (parameter or
// receiver field of the same type). A struct literal that leaves the field out resets the set to nil and the
// guard no longer sees what was visited.
func (c *Ctx) visitedThreading(sccs [][]*core.FuncInfo) {
	for _, scc := range sccs {
		// the carrier type: type of the map tested by a guarded edge
		var carrier types.Type
		var guardFn *core.FuncInfo
		for _, f := range scc {
			info := c.info(f)
			for _, call := range calls(f.Decl.Body) {
				callee := c.P.StaticCallee(f, call)
				if callee == nil {
					continue
				}
				in := false
				for _, g := range scc {
					if g.Obj == callee {
						in = true
					}
				}
				if !in || !c.visitedGuarded(f, call) {
					continue
				}
				for _, cd := range c.conds(f, call) {
					if cd.Kind == core.CondBool && cd.Neg {
						if m, _, ok := c.commaOkLookup(f, cd.Expr); ok {
							carrier = info.TypeOf(m)
							guardFn = f
						}
					}
				}
			}
		}
		if carrier == nil {
			continue
		}
		hasCarrierField := func(t types.Type) (string, bool) {
			st, ok := core.Deref(t).Underlying().(*types.Struct)
			if !ok {
				return "", false
			}
			for i := 0; i < st.NumFields(); i++ {
				if types.Identical(st.Field(i).Type(), carrier) {
					return st.Field(i).Name(), true
				}
			}
			return "", false
		}
		for _, f := range scc {
			info := c.info(f)
			props := []string{"C09"}
			if c.below(f, "Schema") {
				props = []string{"C20", "C09"}
			}
			ast.Inspect(f.Decl.Body, func(nd ast.Node) bool {
				cl, ok := nd.(*ast.CompositeLit)
				if !ok {
					return true
				}
				t := info.TypeOf(cl)
				fname, has := hasCarrierField(t)
				if !has {
					return true
				}
				_, tn := core.NamedOf(t)
				var val ast.Expr
				for _, el := range cl.Elts {
					if kv, ok := el.(*ast.KeyValueExpr); ok {
						if id, ok := kv.Key.(*ast.Ident); ok && id.Name == fname {
							val = kv.Value
						}
					}
				}
				key := f.QName() + "/" + tn + "{" + fname + "}"
				if val == nil {
					for _, prop := range props {
						c.S.Violate(prop, "TERM-THREAD", key, c.P.Pos(cl.Pos()),
							"this "+tn+" is built without its "+fname+" field although the recursion through "+guardFn.Obj.Name()+" relies on that set to stop: the set restarts empty on this edge and a cycle through it is followed until the stack overflows")
					}
					return true
				}
				// the value derives from a carrier of the constructing function (same-typed field of its receiver/parameters)
				// or from a local built from one (the extended copy)
				derived := false
				ast.Inspect(val, func(m ast.Node) bool {
					if e, ok := m.(ast.Expr); ok {
						if tt := info.TypeOf(e); tt != nil && types.Identical(tt, carrier) {
							derived = true
						}
					}
					return true
				})
				for _, prop := range props {
					c.S.Decide(derived, prop, "TERM-THREAD", key, c.P.Pos(cl.Pos()),
						"the visited set is handed on ("+exprStr(val)+")",
						"the "+fname+" field of this "+tn+" is not computed from a visited set ("+exprStr(val)+")")
				}
				return true
			})
		}
	}
}

// importProgress (C09, TERM-IMPORT-PROGRESS): the import of remote references is a fixpoint — the pass reports "not
// complete" as soon as it has met one remote $ref, and its caller runs it again until it reports completion. That
// terminates only if a pass that returns without error has turned every remote $ref it met into a local one. For
// every function the pass calls on such a $ref after having cleared the completion flag: each non-error return is
// preceded, on the way from the function's entry, by an unconditional rewrite of the $ref's holders in the root
// document (a call of a rewriter of the replace package, a loop of such calls over the holders, or a helper that
// does so). A non-error return that skips the rewrite (e.g. "continue on error") leaves the remote $ref in place, the
// pass reports "not complete" forever and Flatten hangs.
func (c *Ctx) importProgress() {
	flat := c.root("Flatten")
	if flat == nil {
		return
	}
	var isRewriteStmt func(fi *core.FuncInfo, st ast.Node, depth int) bool
	isRewriteStmt = func(fi *core.FuncInfo, st ast.Node, depth int) bool {
		info := c.info(fi)
		found := false
		ast.Inspect(st, func(n ast.Node) bool {
			if _, isLit := n.(*ast.FuncLit); isLit {
				return false
			}
			call, ok := n.(*ast.CallExpr)
			if !ok || found {
				return true
			}
			callee := c.P.CalleeAny(fi, call)
			if callee == nil || callee.Pkg() == nil {
				return true
			}
			if strings.HasSuffix(callee.Pkg().Path(), "/internal/flatten/replace") && len(call.Args) > 0 && core.IsSpecType(info.TypeOf(call.Args[0]), "Swagger") &&
				(strings.HasPrefix(callee.Name(), "Update") || strings.HasPrefix(callee.Name(), "Rewrite")) {
				found = true
				return true
			}
			if g := c.P.Funcs[callee]; g != nil && depth < 2 && g.Decl != nil && g.Decl.Body != nil {
				for _, s2 := range g.Decl.Body.List {
					switch cs2 := s2.(type) {
					case *ast.IfStmt:
						if cs2.Init != nil && isRewriteStmt(g, cs2.Init, depth+1) {
							found = true
						}
						continue // the rest is conditional
					case *ast.SwitchStmt, *ast.TypeSwitchStmt:
						continue // conditional
					case *ast.ReturnStmt:
						// return rewrite(…)
						for _, r := range cs2.Results {
							if isRewriteStmt(g, r, depth+1) {
								found = true
							}
						}
						continue
					}
					if isRewriteStmt(g, s2, depth+1) {
						found = true
					}
				}
			}
			return true
		})
		return found
	}
	// the passes of a fixpoint: functions returning (bool, error) that are called inside a `for cond {}` / `for {}` loop
	reach := core.SortedSet(c.P.Reachable(flat))
	isPass := map[*types.Func]bool{}
	for _, fi := range reach {
		ast.Inspect(fi.Decl.Body, func(nd ast.Node) bool {
			fs, ok := nd.(*ast.ForStmt)
			if !ok || fs.Init != nil || fs.Post != nil {
				return true
			}
			for _, call := range calls(fs.Body) {
				if callee := c.P.StaticCallee(fi, call); callee != nil && c.P.Funcs[callee] != nil {
					sig := callee.Type().(*types.Signature)
					if sig.Results().Len() == 2 && core.IsBool(sig.Results().At(0).Type()) && core.IsErrorType(sig.Results().At(1).Type()) {
						isPass[callee] = true
					}
				}
			}
			return true
		})
	}
	// a holder record of one $ref: a struct with a spec.Ref member and a []string member (the keys holding it)
	isRefHolders := func(t types.Type) bool {
		st, ok := core.Deref(t).Underlying().(*types.Struct)
		if !ok {
			return false
		}
		hasRef, hasKeys := false, false
		for i := 0; i < st.NumFields(); i++ {
			ft := st.Field(i).Type()
			if core.IsSpecType(ft, "Ref") && !core.IsPointer(ft) {
				hasRef = true
			}
			if sl, ok := ft.Underlying().(*types.Slice); ok && core.IsString(sl.Elem()) {
				hasKeys = true
			}
		}
		return hasRef && hasKeys
	}
	n := 0
	for _, fi := range reach {
		if !isPass[fi.Obj] {
			continue
		}
		func() {
			for _, call := range calls(fi.Decl.Body) {
				callee := c.P.StaticCallee(fi, call)
				g := c.P.Funcs[callee]
				if callee == nil || g == nil || g.Decl == nil || g.Decl.Body == nil {
					continue
				}
				gsig := callee.Type().(*types.Signature)
				takesElem := false
				for i := 0; i < gsig.Params().Len(); i++ {
					if isRefHolders(gsig.Params().At(i).Type()) {
						takesElem = true
					}
				}
				if !takesElem || gsig.Results().Len() == 0 || !core.IsErrorType(gsig.Results().At(gsig.Results().Len()-1).Type()) {
					continue
				}
				n++
				// the caller keeps the step's first (bool) answer and lowers a flag only under its negation:
				// done, err := step(…); if !done { complete = false }
				doneGuardsFlag := false
				if gsig.Results().Len() == 2 && core.IsBool(gsig.Results().At(0).Type()) {
					if as, isAs := c.parents(fi)[call].(*ast.AssignStmt); isAs && len(as.Lhs) == 2 {
						if do := core.ObjOf(c.info(fi), as.Lhs[0]); do != nil {
							ast.Inspect(fi.Decl.Body, func(m ast.Node) bool {
								ifs, isIf := m.(*ast.IfStmt)
								if !isIf {
									return true
								}
								u, isNot := core.Unparen(ifs.Cond).(*ast.UnaryExpr)
								if !isNot || u.Op != token.NOT || core.ObjOf(c.info(fi), u.X) != do {
									return true
								}
								for _, st := range ifs.Body.List {
									if a2, ok := st.(*ast.AssignStmt); ok && len(a2.Rhs) == 1 {
										if tv, isC := c.info(fi).Types[a2.Rhs[0]]; isC && tv.Value != nil && tv.Value.String() == "false" {
											doneGuardsFlag = true
										}
									}
								}
								return true
							})
						}
					}
				}
				var collectBad func(g *core.FuncInfo, depth int) []string
				collectBad = func(g *core.FuncInfo, depth int) []string {
					ginfo := c.info(g)
					pm := c.parents(g)
					var bad []string
					ast.Inspect(g.Decl.Body, func(m ast.Node) bool {
						if _, isLit := m.(*ast.FuncLit); isLit {
							return false
						}
						ret, ok := m.(*ast.ReturnStmt)
						if !ok || len(ret.Results) == 0 {
							return true
						}
						last := ret.Results[len(ret.Results)-1]
						if !core.IsNilExpr(ginfo, last) {
							// `return step(entry, …)`: the step's own non-error returns are this function's
							if tc, isCall := core.Unparen(last).(*ast.CallExpr); isCall && depth < 3 {
								if h := c.P.Funcs[c.P.StaticCallee(g, tc)]; h != nil && h.Decl != nil && h.Decl.Body != nil {
									hsig := h.Obj.Type().(*types.Signature)
									for i := 0; i < hsig.Params().Len(); i++ {
										if isRefHolders(hsig.Params().At(i).Type()) {
											bad = append(bad, collectBad(h, depth+1)...)
											break
										}
									}
								}
							}
							return true // an error is returned (or a variable that may hold one: treated as error exit)
						}
						// `return true, nil` of a step that answers (done, error): "nothing to import here" — the pass
						// stays complete as far as this entry goes (the caller lowers its flag under !done only)
						okRet := false
						if len(ret.Results) == 2 && depth == 0 && doneGuardsFlag {
							if tv, isC := ginfo.Types[ret.Results[0]]; isC && tv.Value != nil && tv.Value.String() == "true" {
								okRet = true
							}
						}
						var node ast.Node = ret
						for node != nil && !okRet {
							parent := pm[node]
							var list []ast.Stmt
							switch b := parent.(type) {
							case *ast.BlockStmt:
								list = b.List
							case *ast.CaseClause:
								list = b.Body
							}
							for _, st := range list {
								if st.Pos() >= node.Pos() {
									break
								}
								switch cst := st.(type) {
								case *ast.IfStmt:
									// `if err := rewrite(…); err != nil { … }`: the init statement runs unconditionally
									if cst.Init != nil && isRewriteStmt(g, cst.Init, 0) {
										okRet = true
									}
									continue
								case *ast.SwitchStmt, *ast.TypeSwitchStmt:
									continue
								}
								if isRewriteStmt(g, st, 0) {
									okRet = true
								}
							}
							node = parent
						}
						if !okRet {
							bad = append(bad, c.P.Pos(ret.Pos()))
						}
						return true
					})
					return bad
				}
				bad := collectBad(g, 0)
				c.S.Decide(len(bad) == 0, "C09", "TERM-IMPORT-PROGRESS", fi.QName()+"->"+callee.Name(), c.P.Pos(call.Pos()),
					"every non-error return of "+callee.Name()+" comes after an unconditional rewrite of the holders of the remote $ref: a pass that reports 'not complete' has made progress",
					callee.Name()+" can return without error and without having rewritten the holders of the remote $ref (return at "+strings.Join(bad, ", ")+"): the $ref stays remote, every later pass reports 'not complete' again and the import loop never ends")
			}
		}()
	}
	if n < 1 {
		c.S.Undecided("C09", "TERM-IMPORT-PROGRESS", "floor", "-", "no step of a fixpoint pass taking the holders of a remote $ref found (two on the pinned tree)")
	}
}

// throughAccessors unwraps &x, single-definition locals, element selections and calls of table accessors; it returns
// the expression the component was taken from and how many component steps were crossed (0 when no accessor call
// was crossed: the ordinary path resolution applies).
func (c *Ctx) throughAccessors(fi *core.FuncInfo, e ast.Expr) (ast.Expr, int) {
	info := c.info(fi)
	steps, crossed := 0, false
	for i := 0; i < 8; i++ {
		e = core.Unparen(e)
		switch x := e.(type) {
		case *ast.UnaryExpr:
			if x.Op == token.AND {
				e = x.X
				continue
			}
		case *ast.Ident:
			if defs := c.P.Locals(fi).Defs[core.ObjOf(info, x)]; len(defs) == 1 && defs[0].Kind == core.DefAssign {
				e = defs[0].Expr
				continue
			}
		case *ast.IndexExpr:
			e = x.X
			steps++
			continue
		case *ast.CallExpr:
			if len(x.Args) == 1 && c.P.StaticCallee(fi, x) == nil && c.isComponentAccessor(fi, x) {
				e = x.Args[0]
				steps++
				crossed = true
				continue
			}
		}
		break
	}
	if !crossed {
		return nil, 0
	}
	return e, steps
}

// isComponentAccessor: the call goes through member f of an element of a table (a composite literal held by a
// package-level variable that is never assigned, or by a local), and every function literal stored under f in that
// table returns nil or a member (at least one field step) of its own first parameter.
func (c *Ctx) isComponentAccessor(fi *core.FuncInfo, call *ast.CallExpr) bool {
	info := c.info(fi)
	sel, ok := core.Unparen(call.Fun).(*ast.SelectorExpr)
	if !ok {
		return false
	}
	// the element: the value variable of a range over the table
	eo := core.ObjOf(info, sel.X)
	if eo == nil {
		return false
	}
	var table ast.Expr
	for _, d := range c.P.Locals(fi).Defs[eo] {
		if d.Kind == core.DefRangeVal {
			table = d.Expr
		}
	}
	if table == nil {
		return false
	}
	var lit *ast.CompositeLit
	switch t := core.Unparen(table).(type) {
	case *ast.CompositeLit:
		lit = t
	case *ast.Ident:
		to := core.ObjOf(info, t)
		if pv, isVar := to.(*types.Var); isVar && pv.Pkg() != nil && pv.Parent() == pv.Pkg().Scope() {
			for _, f := range fi.Pkg.Syntax {
				for _, dcl := range f.Decls {
					gd, isGen := dcl.(*ast.GenDecl)
					if !isGen || gd.Tok != token.VAR {
						continue
					}
					for _, sp := range gd.Specs {
						vs, isVS := sp.(*ast.ValueSpec)
						if !isVS || len(vs.Values) != len(vs.Names) {
							continue
						}
						for i, nm := range vs.Names {
							if info.Defs[nm] == to {
								lit, _ = core.Unparen(vs.Values[i]).(*ast.CompositeLit)
							}
						}
					}
				}
			}
			// never assigned in the package
			for _, g := range c.P.SortedFuncs() {
				if g.Pkg != fi.Pkg || g.Decl.Body == nil {
					continue
				}
				ast.Inspect(g.Decl.Body, func(n ast.Node) bool {
					if as, isAs := n.(*ast.AssignStmt); isAs {
						for _, l := range as.Lhs {
							if id := rootIdent(l); id != nil && c.info(g).Uses[id] == to {
								lit = nil
							}
						}
					}
					return true
				})
			}
		} else if defs := c.P.Locals(fi).Defs[to]; len(defs) == 1 && defs[0].Kind == core.DefAssign {
			lit, _ = core.Unparen(defs[0].Expr).(*ast.CompositeLit)
		}
	}
	if lit == nil || len(lit.Elts) == 0 {
		return false
	}
	st, isStruct := structOf(sliceElem(info.TypeOf(lit)))
	if !isStruct {
		return false
	}
	fieldIdx := -1
	for i := 0; i < st.NumFields(); i++ {
		if st.Field(i).Name() == sel.Sel.Name {
			fieldIdx = i
		}
	}
	n := 0
	for _, el := range lit.Elts {
		rec, isRec := core.Unparen(el).(*ast.CompositeLit)
		if !isRec {
			return false
		}
		var fv ast.Expr
		for i, fe := range rec.Elts {
			if kv, isKV := fe.(*ast.KeyValueExpr); isKV {
				if id, isId := kv.Key.(*ast.Ident); isId && id.Name == sel.Sel.Name {
					fv = kv.Value
				}
			} else if i == fieldIdx {
				fv = fe
			}
		}
		fl, isLit := core.Unparen(fv).(*ast.FuncLit)
		if fv == nil || !isLit || fl.Type.Params == nil || len(fl.Type.Params.List) != 1 || len(fl.Type.Params.List[0].Names) != 1 {
			return false
		}
		po := info.Defs[fl.Type.Params.List[0].Names[0]]
		okAll := true
		ast.Inspect(fl.Body, func(m ast.Node) bool {
			ret, isRet := m.(*ast.ReturnStmt)
			if !isRet {
				return true
			}
			if len(ret.Results) != 1 {
				okAll = false
				return true
			}
			r := core.Unparen(ret.Results[0])
			if core.IsNilExpr(info, r) {
				return true
			}
			depth := 0
			for {
				if u, isAddr := r.(*ast.UnaryExpr); isAddr && u.Op == token.AND {
					r = core.Unparen(u.X)
					continue
				}
				s2, isSel := r.(*ast.SelectorExpr)
				if !isSel {
					break
				}
				depth++
				r = core.Unparen(s2.X)
			}
			if id, isId := r.(*ast.Ident); !isId || info.Uses[id] != po || depth < 1 {
				okAll = false
			}
			return true
		})
		if !okAll {
			return false
		}
		n++
	}
	return n > 0
}

func sliceElem(t types.Type) types.Type {
	if t == nil {
		return nil
	}
	switch u := t.Underlying().(type) {
	case *types.Slice:
		return u.Elem()
	case *types.Array:
		return u.Elem()
	}
	return nil
}
