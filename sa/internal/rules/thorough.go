package rules

// ThoroughExtras runs the additional self-validation of the thorough tier and
// returns data for the evidence file.
func ThoroughExtras(c *Ctx, prop, verifDir string) map[string]any {
	out := map[string]any{}
	return out
}
