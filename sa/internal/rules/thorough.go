package rules

import "verif/sa/internal/core"

// ThoroughExtras runs the additional self-validation of the thorough tier and
// returns data for the evidence file.
func ThoroughExtras(c *Ctx, prop, verifDir string) map[string]any {
	out := map[string]any{}
	return out
}

// Forget drops the per-program caches (used when many variants are analysed in one process).
func Forget(p *core.Program) {
	cacheMu.Lock()
	delete(effCache, p)
	delete(pmCaches, p)
	delete(reachCaches, p)
	cacheMu.Unlock()
}
