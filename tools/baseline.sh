#!/bin/bash
# Runs the repository's test suite (both modules) and compares with /root/.vp/BASELINE.json stable_pass.
export GOFLAGS=-mod=mod GOPROXY=off GOSUMDB=off
REPO="${1:-/repo}"
OUT=$(mktemp)
( cd "$REPO" && go test -json -vet=off -count=1 -timeout 25m ./... ; cd "$REPO/analysis_test" && go test -json -vet=off -count=1 -timeout 25m ./... ) > "$OUT" 2>/dev/null
python3 - "$OUT" <<'PY'
import json,sys
passed=set()
for l in open(sys.argv[1]):
    try: e=json.loads(l)
    except: continue
    if e.get('Action')=='pass' and e.get('Test'):
        passed.add(e['Package']+'::'+e['Test'])
base=json.load(open('/root/.vp/BASELINE.json'))['stable_pass']
missing=[t for t in base if t not in passed]
print('baseline',len(base),'passed-now',len([t for t in base if t in passed]),'missing',len(missing))
for m in missing[:20]: print('  MISSING',m)
sys.exit(1 if missing else 0)
PY
rc=$?
rm -f "$OUT"
exit $rc
