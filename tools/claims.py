# Claim table: property id -> texts for MANIFEST.json. Edited by hand; gen_manifest.py renders it.
CLAIMS = {}
_UC = "machinery under construction in this session: rules for this property are not registered yet (see DESIGN.md §7 build order)"
NOT_APPLICABLE = {
    "C05": "Expansion is done by spec.ExpandSpec in another module and which $refs survive depends on the runtime cycle structure of the bundle; no structural clause of this repository's code is both necessary for the statement and statically checkable (DESIGN.md §6)",
    "C08": "idempotence is a statement about the values produced by a first run; no structural clause of flatten.go is necessary for it and checkable without evaluating Flatten (DESIGN.md §6)",
}
for _p in ["C01","C02","C03","C04","C06","C07","C09","C10","C11","C12","C13","C14","C15","C16","C17","C18","C19","C20"]:
    if _p not in CLAIMS:
        NOT_APPLICABLE.setdefault(_p, _UC)
