# Claim table: property id -> texts for MANIFEST.json. Edited by hand; gen_manifest.py renders it.
_T = "static analysis of /repo's type-checked source (go/packages+go/types+go/ast): "
_NOTE = "Trusted base: Go type checker, go/packages loader; the semantics of go-openapi/spec struct tags and JSONLookup methods, jsonpointer.Escape and path.Join as read from their sources; the rule tables in /verif/sa/internal/rules. The rules decide the listed structural clauses for ALL inputs; they do not execute the code and do not establish the behavioural clauses listed under not_decided in the evidence."
CLAIMS = {
 "C11": {"text": "Decides, for every position of the document model (enumerated from go/types of go-openapi/spec, not from fixtures) and every schema-bearing keyword of spec.SchemaProps, that the analyzer's index-building code registers a $ref found there under the JSON pointer of its holder, in the index of its kind and in the all-view, guarded only by the $ref being non-empty. Obtained by abstract evaluation of analysis.New over symbolic documents (all branches, loops once with symbolic keys, calls inlined, recursion to depth 2). This is a necessary-and-nearly-sufficient structural argument for completeness/soundness of the reference index; it does not execute anything.",
         "note": _NOTE + " Not decided: multiplicity under key collisions; shared parameters/responses that are themselves $refs (exempt, outside the quantifier).",
         "technique": _T + "abstract interpretation of the index-building code over document positions and key token lists; coverage against reference sets read from go/types"},
 "C12": {"text": "Decides that every schema registration (definitions, nested keywords, parameter and response schemas at every model position) is keyed by exactly the JSON pointer of the schema it stores (constant segments equal the json tags jsonpointer will look up, every map key is pointer-escaped, every index is the loop's own index), that SchemaRef.Ref is created from that same key, that TopLevel is true exactly for entries of #/definitions, and that the allOf view holds exactly the schemas guarded by len(AllOf)>0. Abstract evaluation, all names at once.",
         "note": _NOTE + " Not decided: behaviour of net/url on the fragment (trusted to round-trip every rune but '%').",
         "technique": _T + "abstract interpretation of key construction vs. JSON pointer derived from struct tags; exhaustiveness over spec.SchemaProps fields"},
 "C13": {"text": "Decides that for each owner kind (parameter, header, items, schema) at each model position (shared/path-level/operation parameters, default/status-code/shared response headers, nested items, schemas at any depth) pattern and enum are registered in the matching category index and the all-view under the owner's JSON pointer, guarded exactly by non-emptiness, and that each exported getter reads the index whose registrations have its kind.",
         "note": _NOTE,
         "technique": _T + "abstract interpretation of the index-building code; sibling agreement across the ten owner sites; getter/category agreement"},
 "C14": {"text": "Decides the structural clauses of the operation lookups: all seven *spec.Operation fields of PathItemProps are indexed, each under the upper-cased json tag of its field and the path item's own key, unconditionally for non-nil operations; lookups normalise the method with strings.ToUpper; required consumes/produces/security are fed from the document and from every method's operation; the nil-vs-empty discipline of the precedence rules (security: nil test; consumes/produces: length test).",
         "note": _NOTE + " Not decided: the values of the union/precedence tables on concrete lists.",
         "technique": _T + "abstract interpretation of index construction; exhaustiveness over PathItemProps; guard-shape rules on the precedence functions"},
}
_UC = "machinery under construction in this session: rules for this property are not registered yet (see DESIGN.md §7 build order)"
NOT_APPLICABLE = {
    "C05": "Expansion is done by spec.ExpandSpec in another module and which $refs survive depends on the runtime cycle structure of the bundle; no structural clause of this repository's code is both necessary for the statement and statically checkable (DESIGN.md §6)",
    "C08": "idempotence is a statement about the values produced by a first run; no structural clause of flatten.go is necessary for it and checkable without evaluating Flatten (DESIGN.md §6)",
}
for _p in ["C01","C02","C03","C04","C06","C07","C09","C10","C11","C12","C13","C14","C15","C16","C17","C18","C19","C20"]:
    if _p not in CLAIMS:
        NOT_APPLICABLE.setdefault(_p, _UC)
