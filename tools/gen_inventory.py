#!/usr/bin/env python3
# Regenerates the "Inventory on the pinned tree" table of DESIGN.md §4.1 from /verif/evidence/*.json.
import json,re,glob
rows=[]
for f in sorted(glob.glob('/verif/evidence/C*.json')):
    d=json.load(open(f)); c=d['coverage']
    vc=c.get('verdict_counts',{})
    m=re.search(r'distinct rule\+construct keys; (.*)$', c.get('rule',''))
    rl=m.group(1).replace(', ',' ') if m else ' '.join(c.get('rules',[]))
    rows.append('| %s | %d | %d / %d / %d | %s |'%(d['property_id'],c['obligations'],vc.get('holds',0),vc.get('exempt',0),c.get('known_findings',0),rl))
s=open('/verif/DESIGN.md').read()
m=re.search(r'(\| prop \| obligations \| holds / exempt / known \| rules \|\n\|---\|---\|---\|---\|\n)((?:\| C\d+ .*\n)+)', s)
assert m and len(rows)==19, (bool(m), len(rows))
open('/verif/DESIGN.md','w').write(s[:m.start(2)]+'\n'.join(rows)+'\n'+s[m.end(2):])
print('inventory:', len(rows), 'rows')
