#!/usr/bin/env python3
"""Regenerates /verif/MANIFEST.json from the claim table below (single source of truth)."""
import json, os, sys
HERE = os.path.dirname(os.path.dirname(os.path.abspath(__file__)))
sys.path.insert(0, os.path.join(HERE, "tools"))
from claims import CLAIMS, NOT_APPLICABLE

env = "GOFLAGS=-mod=mod GOPROXY=off GOSUMDB=off GOTOOLCHAIN=local GOWORK=off"
manifest = {
    "version": 1,
    "setup_cmd": f"cd /verif/sa && {env} go build -o /verif/bin/verifsa ./cmd/verifsa",
    "hooks": {
        "guard": "verif",
        "enable": "none needed: the checks are static analyses of /repo's source; no instrumentation is compiled in",
        "baseline_off_cmd": "cd /repo && GOFLAGS=-mod=mod go test -vet=off -count=1 ./... && cd analysis_test && GOFLAGS=-mod=mod go test -vet=off -count=1 ./...",
        "source_commits": [],
        "add_only": True,
    },
    "engines": [
        {
            "name": "verifsa",
            "path": "/verif/sa",
            "serves_properties": sorted(CLAIMS.keys()),
            "kind_free_text": "repository-specific static analyser (go/packages + go/types + go/ast + go/cfg): coverage/exhaustiveness, nil-guard dataflow, write-effect summaries, document/index typestate, string-encoding discipline, termination, error flow, guard dominance, lost updates, phase ordering",
        }
    ],
    "checks": [],
    "notes": "All checks decide structural clauses of the properties from /repo's current source without executing it. See DESIGN.md §4 for what each property's rules decide and what they do not. known_findings.json lists triaged genuine defects (known) and repaired ones (fixed).",
    "not_applicable": [{"property_id": k, "reason": v} for k, v in sorted(NOT_APPLICABLE.items())],
}
for pid in sorted(CLAIMS):
    c = CLAIMS[pid]
    manifest["checks"].append({
        "property_id": pid,
        "quick_cmd": f"./check.sh {pid} quick",
        "thorough_cmd": f"./check.sh {pid} thorough",
        "evidence_file": f"/verif/evidence/{pid}.json",
        "replay_cmd_template": f"./check.sh {pid} quick  # replay file {{path}} names the rule, construct and position",
        "engine": "verifsa",
        "level_claimed": {"category": "other", "text": c["text"], "design_ref": c.get("design_ref", "DESIGN.md §4 " + pid)},
        "level_note": c["note"],
        "technique": c["technique"],
    })
with open(os.path.join(HERE, "MANIFEST.json"), "w") as f:
    json.dump(manifest, f, indent=1)
    f.write("\n")
print("wrote MANIFEST.json:", len(manifest["checks"]), "checks,", len(manifest["not_applicable"]), "not applicable")
