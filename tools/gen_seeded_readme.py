#!/usr/bin/env python3
"""Regenerates /verif/seeded/README.md from the meta.json files and a fresh `verifsa seeded` replay."""
import json, os, re, subprocess, sys
root = '/verif/seeded'
out = subprocess.run(['/verif/bin/verifsa', 'seeded'], capture_output=True, text=True, cwd='/verif').stdout
now = {}
for l in out.splitlines():
    m = re.match(r'SEEDED (\S+) (\{.*\})$', l)
    if m:
        now[m.group(1)] = json.loads(m.group(2))
stale = set(re.findall(r'seeded/(\S+): stale', out))
rows = []
def short(rules):
    names = []
    for p, rs in sorted(rules.items()):
        for r in rs:
            n = r.split()[-1] if ' ' in r else r
            n = n.split('/')[0]
            if n.startswith('VIOLATED') or n.startswith('UNDECIDED'):
                continue
            t = f'{p}:{n}'
            if t not in names:
                names.append(t)
    return ', '.join(names[:6]) + (' …' if len(names) > 6 else '')
def first(meta):
    cr = meta.get('checks_reporting') or {}
    names = []
    for p, rs in sorted(cr.items()):
        for r in rs:
            parts = r.split()
            n = parts[2].split('/')[0] if len(parts) >= 3 else r
            t = f'{p}:{n}'
            if t not in names:
                names.append(t)
    return ', '.join(names[:4]) + (' …' if len(names) > 4 else '') if names else '—'
def esc(s):
    return str(s).replace('|', '\\|').replace('\n', ' ')
for d in sorted(os.listdir(root)):
    mp = os.path.join(root, d, 'meta.json')
    if not os.path.isfile(mp):
        continue
    meta = json.load(open(mp))
    n = now.get(d)
    if d in stale:
        cur = 'stale (the lines it edits were changed by a later fix)'
    elif meta.get('neutralised'):
        cur = 'neutralised: ' + esc(meta['neutralised'])[:200]
    elif n is None:
        cur = '?'
    elif not n:
        cur = '**not reported**' + (': ' + esc(meta['not_reported_reason'])[:300] if meta.get('not_reported_reason') else '')
    else:
        cur = short(n)
    rows.append(f"| {d} | {meta.get('property','')} | {esc(meta.get('summary',''))[:260]} | {esc(meta.get('needs',''))[:200]} | {first(meta)} | {cur} |")
rep = sum(1 for d in now if now[d])
hdr = f"""# Independently seeded breaking changes

Each directory holds `patch.diff` (a change to go-openapi/analysis that breaks the property while compiling and passing the 222-test suite), a demonstration test that fails with the change and passes without it, `meta.json` (what it needs, what was run to confirm it) and `overlay.json` (the changed files in full plus the sha256 of their base versions, replayed through go/packages Overlay by `verifsa seeded` and by every thorough check; skipped as *stale* when a base file has changed since).
The changes were written by sub-agents that saw only the property text and a scratch worktree — nothing from /verif. "first round" = reported by the checks as they were when the change was collected; "now" = replayed against the current rules (this file is generated: `python3 tools/gen_seeded_readme.py`).

Reported now: {rep} of {len(now)} replayable changes.

| seed | property | change | needs | first round | now (property:rule) |
|---|---|---|---|---|---|
"""
open(os.path.join(root, 'README.md'), 'w').write(hdr + '\n'.join(rows) + '\n')
print('wrote README:', len(rows), 'rows; reported now', rep, 'of', len(now))
