#!/bin/bash
# usage: keep_seed.sh <agent seed dir> <name>
# Verifies the seed (verify_seed.sh), runs all quick checks against it (try_seed.sh), and if verified copies it
# to /verif/seeded/<name>/ with meta.json extended by what was confirmed and which checks reported.
set -u
SD="$1"; NAME="$2"
if [ -n "${VERIFIED_FILE:-}" ] && [ -f "$VERIFIED_FILE" ]; then V=$(cat "$VERIFIED_FILE"); grep -q "VERIFY-RC=0" "$VERIFIED_FILE"; vrc=$?; else V=$(/verif/tools/verify_seed.sh "$SD" 2>&1); vrc=$?; fi
echo "$V"
if [ $vrc -ne 0 ]; then echo "NOT KEPT ($NAME): verification failed"; exit 1; fi
T=$(/verif/tools/try_seed.sh "$SD/patch.diff" 2>&1)
echo "$T" | cut -c1-220
mkdir -p /verif/seeded/$NAME
cp "$SD/patch.diff" /verif/seeded/$NAME/
cp "$SD"/*_test.go /verif/seeded/$NAME/ 2>/dev/null
VF=$(mktemp); TF=$(mktemp); printf '%s' "$V" > $VF; printf '%s' "$T" > $TF
python3 - "$SD/meta.json" /verif/seeded/$NAME/meta.json $VF $TF <<'PY'
import json,sys,re
m=json.load(open(sys.argv[1]))
v=open(sys.argv[3]).read()
t=open(sys.argv[4]).read()
m['verified_by_me']=[l.strip() for l in v.splitlines() if l.strip()]
caught={}
cur=None
for l in t.splitlines():
    mm=re.match(r'\[(C\d+) exit=(\d+)\]',l)
    if mm: cur=mm.group(1); caught.setdefault(cur,[]); continue
    if cur and ('VIOLATED' in l or 'UNDECIDED' in l or 'CHECK-ERROR' in l):
        parts=l.split()
        caught[cur].append(' '.join(parts[:3]))
m['checks_reporting']=caught
m['what_i_ran']='tools/verify_seed.sh (scratch worktree: git apply, go build, tools/baseline.sh = 222-test suite, demo with/without the change) and tools/try_seed.sh (git -C /repo apply; every claimed quick check; git -C /repo checkout -- .)'
json.dump(m,open(sys.argv[2],'w'),indent=1)
print('KEPT', sys.argv[2], 'caught by', {k:len(v) for k,v in caught.items()})
PY
rm -f $VF $TF
