#!/bin/bash
# usage: make_benign_overlay.sh <benign dir with patch.diff>
# Applies the patch in a scratch worktree of /repo and stores the full contents of the changed files
# (plus the sha256 of their base versions) as overlay.json, to be replayed through go/packages Overlay.
set -u
D="$(cd "$1" && pwd)"
W=$(mktemp -d /tmp/bov.XXXX)
git -C /repo worktree add -q --detach "$W/wt" HEAD || exit 2
cd "$W/wt"
EXCL=""; [ -f "$D/exclude.txt" ] && EXCL=$(sed "s/^/--exclude=/" "$D/exclude.txt" | tr "\n" " ")
if ! git apply $EXCL "$D/patch.diff"; then echo "patch does not apply: $D"; cd /; git -C /repo worktree remove --force "$W/wt"; rm -rf "$W"; exit 1; fi
python3 - "$D" <<'PY'
import json,subprocess,sys,hashlib,os
d=sys.argv[1]
files=subprocess.check_output(['git','status','--porcelain'],text=True).split('\n')
out={'files':{},'base_sha256':{}}
for l in files:
    if not l.strip(): continue
    st,path=l[:2],l[3:].strip()
    if not path.endswith('.go') or path.endswith('_test.go'): continue
    out['files'][path]=open(path).read()
    try:
        base=subprocess.check_output(['git','show','HEAD:'+path])
        out['base_sha256'][path]=hashlib.sha256(base).hexdigest()
    except subprocess.CalledProcessError:
        out['base_sha256'][path]=''
m=json.load(open(os.path.join(d,'meta.json')))
out['summary']=m.get('summary','')
json.dump(out,open(os.path.join(d,'overlay.json'),'w'),indent=0)
print(os.path.basename(d), list(out['files'].keys()))
PY
cd /; git -C /repo worktree remove --force "$W/wt"; rm -rf "$W"
