#!/bin/bash
# Runs the witness inputs of DESIGN §0.1 against a repository tree (default /repo). Not a check.
REPO="${1:-/repo}"; shift
export GOFLAGS=-mod=mod GOPROXY=off GOSUMDB=off GOTOOLCHAIN=local
D=$(mktemp -d /tmp/witness.XXXX)
cp /verif/witness/witness_test.go "$D/"
sed "s#=> /repo#=> $REPO#" /verif/witness/go.mod.txt > "$D/go.mod"
cp "$REPO/go.sum" "$D/go.sum"
( cd "$D" && go test -count=1 -timeout 120s "$@" . 2>&1 | grep -E "^(--- |ok|FAIL|PASS|\s+witness_test.go)" )
rm -rf "$D"
