#!/bin/bash
# usage: try_seed.sh <patch.diff> [property ids...]   (default: all claimed properties)
# Applies the patch to /repo, runs the quick checks, prints which properties report, undoes the patch.
set -u
P="$(cd "$(dirname "$1")" && pwd)/$(basename "$1")"; shift
cd /verif
PROPS="$*"
[ -z "$PROPS" ] && PROPS=$(python3 -c "import json;print(' '.join(c['property_id'] for c in json.load(open('/verif/MANIFEST.json'))['checks']))")
git -C /repo apply "$P" || { echo "patch does not apply"; exit 2; }
for p in $PROPS; do
  out=$(./bin/verifsa check -p $p -no-evidence 2>&1); rc=$?
  if [ $rc -ne 0 ]; then echo "[$p exit=$rc]"; echo "$out" | grep -E "VIOLATED|UNDECIDED|CHECK-ERROR" | cut -c1-260 | head -4; fi
done
git -C /repo checkout -- . ; git -C /repo status --short | head -3
