#!/bin/bash
# usage: verify_seed.sh <seed dir containing patch.diff, meta.json, demo test>
# Confirms in a scratch worktree: the change compiles, the existing suite still passes with it,
# the demonstration fails with the change and passes without. Prints one line per step.
set -u
SD="$(cd "$1" && pwd)"
export GOFLAGS=-mod=mod GOPROXY=off GOSUMDB=off GOTOOLCHAIN=local
W=$(mktemp -d /tmp/vseed.XXXX)
git -C /repo worktree add -q --detach "$W/wt" HEAD || exit 2
cd "$W/wt"
DEMO_DIR=$(python3 -c "import json;print(json.load(open('$SD/meta.json')).get('demo_dir','.'))")
DEMO_CMD=$(python3 -c "import json;print(json.load(open('$SD/meta.json')).get('demo_cmd','go test -run Seed .'))")
DEMO_FILE=$(ls "$SD"/*_test.go 2>/dev/null | head -1)
res() { echo "  $1: $2"; }
if ! git apply "$SD/patch.diff" 2>/dev/null; then res apply FAILED; cd /; git -C /repo worktree remove --force "$W/wt"; rm -rf "$W"; exit 1; fi
res apply ok
if go build ./... 2>/dev/null; then res build ok; else res build FAILED; fi
if /verif/tools/baseline.sh "$W/wt" >/tmp/vseed.base.$$ 2>&1; then res suite "ok ($(head -1 /tmp/vseed.base.$$))"; else res suite "FAILED $(head -3 /tmp/vseed.base.$$ | tr '\n' ' ')"; fi
rm -f /tmp/vseed.base.$$
mkdir -p "$DEMO_DIR"; cp "$DEMO_FILE" "$DEMO_DIR/"
( cd "$W/wt" && eval "$DEMO_CMD" ) >/tmp/vseed.d1.$$ 2>&1; rc1=$?
git apply -R "$SD/patch.diff"
( cd "$W/wt" && eval "$DEMO_CMD" ) >/tmp/vseed.d2.$$ 2>&1; rc2=$?
res demo_with_change "exit=$rc1 (expected non-zero)"
res demo_without_change "exit=$rc2 (expected 0)"
[ $rc2 -ne 0 ] && tail -5 /tmp/vseed.d2.$$ | cut -c1-200
rm -f /tmp/vseed.d1.$$ /tmp/vseed.d2.$$
cd /; git -C /repo worktree remove --force "$W/wt"; rm -rf "$W"
[ $rc1 -ne 0 ] && [ $rc2 -eq 0 ]
