// Package witness holds one concrete failing input per genuine defect found
// by the static rules (DESIGN.md §0.1). It is NOT part of any check: the
// checks are static. It exists to show each finding against the real code
// (run with tools/run_witness.sh before and after the corresponding fix).
package witness

import (
	"encoding/json"
	"os"
	"path/filepath"
	"testing"
	"time"

	"github.com/go-openapi/analysis"
	"github.com/go-openapi/spec"
)

func load(t *testing.T, doc string) *spec.Swagger {
	t.Helper()
	var sw spec.Swagger
	if err := json.Unmarshal([]byte(doc), &sw); err != nil {
		t.Fatalf("cannot load: %v", err)
	}
	return &sw
}

func noPanic(t *testing.T, name string, f func()) {
	t.Helper()
	defer func() {
		if r := recover(); r != nil {
			t.Errorf("%s panicked: %v", name, r)
		}
	}()
	f()
}

// F1 (C13): enum of a header of a default response is not registered.
func TestF1_DefaultResponseHeaderEnum(t *testing.T) {
	sw := load(t, `{"swagger":"2.0","paths":{"/a":{"get":{"responses":{"default":{"description":"d","headers":{"X":{"type":"string","enum":["a","b"]}}}}}}}}`)
	an := analysis.New(sw)
	if _, ok := an.HeaderEnums()["#/paths/~1a/get/responses/default/headers/X"]; !ok {
		t.Errorf("HeaderEnums misses the default response header enum: %v", an.HeaderEnums())
	}
	if _, ok := an.AllEnums()["#/paths/~1a/get/responses/default/headers/X"]; !ok {
		t.Errorf("AllEnums misses the default response header enum")
	}
}

// F2 (C15): ParamsFor for a method that the path does not define.
func TestF2_ParamsForMissingMethod(t *testing.T) {
	sw := load(t, `{"swagger":"2.0","paths":{"/a":{"get":{"responses":{"200":{"description":"ok"}}}}}}`)
	an := analysis.New(sw)
	noPanic(t, "ParamsFor(POST,/a)", func() {
		if got := an.ParamsFor("POST", "/a"); len(got) != 0 {
			t.Errorf("expected empty result, got %v", got)
		}
	})
}

// F3 (C15): lookups on a document without paths.
func TestF3_NoPaths(t *testing.T) {
	sw := load(t, `{"swagger":"2.0","info":{"title":"t","version":"1"}}`)
	sw.Paths = nil
	an := analysis.New(sw)
	noPanic(t, "ParamsFor on doc without paths", func() { _ = an.ParamsFor("GET", "/a") })
	noPanic(t, "ParametersFor on doc without paths", func() { _ = an.ParametersFor("op") })
}

// F4 (C17): primary has externalDocs, mixin has none.
func TestF4_MixinExternalDocs(t *testing.T) {
	primary := load(t, `{"swagger":"2.0","externalDocs":{"url":"http://x"}}`)
	mixin := load(t, `{"swagger":"2.0"}`)
	noPanic(t, "Mixin", func() { analysis.Mixin(primary, mixin) })
}

// F5 (C18): colliding operation ids under OPTIONS stay duplicated.
func TestF5_MixinOptionsIDs(t *testing.T) {
	primary := load(t, `{"swagger":"2.0","paths":{"/a":{"options":{"operationId":"dup","responses":{"200":{"description":"ok"}}}}}}`)
	mixin := load(t, `{"swagger":"2.0","paths":{"/b":{"options":{"operationId":"dup","responses":{"200":{"description":"ok"}}}}}}`)
	analysis.Mixin(primary, mixin)
	a, b := primary.Paths.Paths["/a"].Options.ID, primary.Paths.Paths["/b"].Options.ID
	if a == b {
		t.Errorf("operation ids under OPTIONS collide after Mixin: %q == %q", a, b)
	}
}

// F6 (C18): an operation without id is renamed "Mixin0".
func TestF6_MixinEmptyID(t *testing.T) {
	primary := load(t, `{"swagger":"2.0","paths":{"/a":{"get":{"responses":{"200":{"description":"ok"}}}}}}`)
	mixin := load(t, `{"swagger":"2.0","paths":{"/b":{"get":{"responses":{"200":{"description":"ok"}}}}}}`)
	analysis.Mixin(primary, mixin)
	if id := primary.Paths.Paths["/b"].Get.ID; id != "" {
		t.Errorf("operation without id got id %q", id)
	}
}

// F7 (C19): operation without responses.
func TestF7_FixEmptyNoResponses(t *testing.T) {
	sw := load(t, `{"swagger":"2.0","paths":{"/a":{"get":{"operationId":"x"}}}}`)
	noPanic(t, "FixEmptyResponseDescriptions", func() { analysis.FixEmptyResponseDescriptions(sw) })
}

// F9a (C06): a used definition whose name needs URL escaping is removed.
func TestF9a_RemoveUnusedEscapedName(t *testing.T) {
	sw := load(t, `{"swagger":"2.0","paths":{"/a":{"get":{"responses":{"200":{"description":"ok","schema":{"$ref":"#/definitions/my def"}}}}}},"definitions":{"my def":{"type":"object","properties":{"a":{"type":"string"}}}}}`)
	an := analysis.New(sw)
	if err := analysis.Flatten(analysis.FlattenOpts{Spec: an, BasePath: "/tmp/x.json", Minimal: true, RemoveUnused: true}); err != nil {
		t.Fatalf("flatten: %v", err)
	}
	if _, ok := sw.Definitions["my def"]; !ok {
		t.Errorf("used definition %q was removed; definitions now: %v", "my def", keys(sw.Definitions))
	}
}

// F9b (C06/C09): an unused definition named "a/b" makes removeUnused loop forever.
func TestF9b_RemoveUnusedSlashName(t *testing.T) {
	sw := load(t, `{"swagger":"2.0","paths":{"/a":{"get":{"responses":{"200":{"description":"ok"}}}}},"definitions":{"a/b":{"type":"string"}}}`)
	an := analysis.New(sw)
	done := make(chan error, 1)
	go func() {
		done <- analysis.Flatten(analysis.FlattenOpts{Spec: an, BasePath: "/tmp/x.json", Minimal: true, RemoveUnused: true})
	}()
	select {
	case err := <-done:
		if err != nil {
			t.Fatalf("flatten: %v", err)
		}
		if _, ok := sw.Definitions["a/b"]; ok {
			t.Errorf("unused definition a/b not removed")
		}
	case <-time.After(5 * time.Second):
		t.Errorf("Flatten with RemoveUnused does not terminate on an unused definition named a/b")
	}
}

// F10 (C01/C04/C09): property "x/y" holding a remote $ref: the import never completes.
func TestF10_EscapedEntryKey(t *testing.T) {
	dir := t.TempDir()
	aux := `{"definitions":{"thing":{"type":"object","properties":{"id":{"type":"integer"}}}}}`
	if err := os.WriteFile(filepath.Join(dir, "aux.json"), []byte(aux), 0o600); err != nil {
		t.Fatal(err)
	}
	root := `{"swagger":"2.0","paths":{"/a":{"get":{"responses":{"200":{"description":"ok","schema":{"$ref":"#/definitions/holder"}}}}}},"definitions":{"holder":{"type":"object","properties":{"x/y":{"$ref":"aux.json#/definitions/thing"}}}}}`
	rootPath := filepath.Join(dir, "root.json")
	if err := os.WriteFile(rootPath, []byte(root), 0o600); err != nil {
		t.Fatal(err)
	}
	sw := load(t, root)
	an := analysis.New(sw)
	done := make(chan error, 1)
	go func() {
		done <- analysis.Flatten(analysis.FlattenOpts{Spec: an, BasePath: rootPath, Minimal: true})
	}()
	select {
	case err := <-done:
		if err != nil {
			t.Fatalf("flatten: %v", err)
		}
		p := sw.Definitions["holder"].Properties
		if _, bogus := p["x~1y"]; bogus {
			t.Errorf("a bogus property x~1y was created: %v", keysS(p))
		}
		xy := p["x/y"]
		if r := xy.Ref.String(); r != "#/definitions/thing" {
			t.Errorf("property x/y not rewritten: %q", r)
		}
	case <-time.After(5 * time.Second):
		t.Errorf("Flatten does not terminate when a property named x/y holds a remote $ref")
	}
}

// F12 (C03): uniqueness of generated names is case-insensitive for the base name but not for the OAIGen suffix.
func TestF12_UniqifyCase(t *testing.T) {
	root := `{"swagger":"2.0","paths":{"/a":{"get":{"responses":{"200":{"description":"ok","schema":{"$ref":"#/definitions/pet"}}}}}},
	"definitions":{"pet":{"type":"object","properties":{"owner":{"type":"object","properties":{"n":{"type":"string"}}}}},
	"PetOwner":{"type":"string"},"petOwnerOAIGen":{"type":"string"},"PETOWNEROAIGEN1":{"type":"string"}}}`
	sw := load(t, root)
	an := analysis.New(sw)
	if err := analysis.Flatten(analysis.FlattenOpts{Spec: an, BasePath: "/tmp/x.json"}); err != nil {
		t.Fatalf("flatten: %v", err)
	}
	seen := map[string]string{}
	for k := range sw.Definitions {
		l := lower(k)
		if prev, ok := seen[l]; ok {
			t.Errorf("definitions %q and %q are equal up to case", prev, k)
		}
		seen[l] = k
	}
}

// F13 (C09): $ref to a keyword the target does not have: typed nil dereference in DeepestRef.
func TestF13_TypedNilPointer(t *testing.T) {
	for _, kw := range []string{"additionalProperties", "not", "items"} {
		root := `{"swagger":"2.0","paths":{"/a":{"get":{"responses":{"200":{"description":"ok","schema":{"$ref":"#/definitions/A/` + kw + `"}}}}}},"definitions":{"A":{"type":"object"}}}`
		sw := load(t, root)
		an := analysis.New(sw)
		noPanic(t, "Flatten with $ref to absent "+kw, func() {
			_ = analysis.Flatten(analysis.FlattenOpts{Spec: an, BasePath: "/tmp/x.json", Minimal: true})
		})
	}
}

// F15 (C13): header names are spliced unescaped into keys.
func TestF15_HeaderNameEscaping(t *testing.T) {
	sw := load(t, `{"swagger":"2.0","paths":{"/a":{"get":{"responses":{"200":{"description":"ok","headers":{"a~1b":{"type":"string","pattern":"p"},"a/b":{"type":"string","pattern":"q"}}}}}}}}`)
	an := analysis.New(sw)
	hp := an.HeaderPatterns()
	// the JSON pointer of header "a/b" is …/headers/a~1b and of header "a~1b" is …/headers/a~01b
	if got := hp["#/paths/~1a/get/responses/200/headers/a~1b"]; got != "q" {
		t.Errorf("pattern under the pointer of header a/b is %q, want q (all: %v)", got, hp)
	}
	if got := hp["#/paths/~1a/get/responses/200/headers/a~01b"]; got != "p" {
		t.Errorf("pattern under the pointer of header a~1b is %q, want p", got)
	}
}

func keys(m spec.Definitions) []string {
	var out []string
	for k := range m {
		out = append(out, k)
	}
	return out
}

func keysS(m spec.SchemaProperties) []string {
	var out []string
	for k := range m {
		out = append(out, k)
	}
	return out
}

func lower(s string) string {
	b := []byte(s)
	for i, c := range b {
		if c >= 'A' && c <= 'Z' {
			b[i] = c + 32
		}
	}
	return string(b)
}

// F8 (C20/C09): a schema that is an array (or map) of itself overflows the stack in Schema().
func TestF8_SelfContainingArray(t *testing.T) {
	for name, def := range map[string]string{
		"array": `{"type":"array","items":{"$ref":"#/definitions/A"}}`,
		"map":   `{"type":"object","additionalProperties":{"$ref":"#/definitions/A"}}`,
	} {
		sw := load(t, `{"swagger":"2.0","paths":{},"definitions":{"A":`+def+`}}`)
		a := sw.Definitions["A"]
		done := make(chan struct{})
		go func() {
			defer close(done)
			asch, err := analysis.Schema(analysis.SchemaOpts{Schema: &a, Root: sw, BasePath: "/tmp/x.json"})
			if err != nil {
				t.Errorf("%s: %v", name, err)
				return
			}
			if asch.IsSimpleSchema != (asch.IsKnownType || asch.IsSimpleArray || asch.IsSimpleMap) {
				t.Errorf("%s: incoherent flags %+v", name, asch)
			}
			if name == "array" && !asch.IsArray || name == "map" && !asch.IsMap {
				t.Errorf("%s: wrong classification %+v", name, asch)
			}
		}()
		select {
		case <-done:
		case <-time.After(10 * time.Second):
			t.Fatalf("%s: Schema() does not terminate", name)
		}
		// a $ref to it classifies like it
		ref := spec.RefSchema("#/definitions/A")
		r1, err := analysis.Schema(analysis.SchemaOpts{Schema: ref, Root: sw, BasePath: "/tmp/x.json"})
		if err != nil {
			t.Fatalf("%s: %v", name, err)
		}
		r2, _ := analysis.Schema(analysis.SchemaOpts{Schema: &a, Root: sw, BasePath: "/tmp/x.json"})
		if r1.IsArray != r2.IsArray || r1.IsMap != r2.IsMap || r1.IsSimpleSchema != r2.IsSimpleSchema || r1.IsSimpleArray != r2.IsSimpleArray || r1.IsSimpleMap != r2.IsSimpleMap {
			t.Errorf("%s: $ref classifies differently: %+v vs %+v", name, r1, r2)
		}
	}
}

// F11 (C04): KeepNames with a definition named "a/b" holding an inline object: Flatten fails on a well-formed bundle.
func TestF11_KeepNamesSlash(t *testing.T) {
	root := `{"swagger":"2.0","paths":{"/a":{"get":{"responses":{"200":{"description":"ok","schema":{"$ref":"#/definitions/a~1b"}}}}}},
	"definitions":{"a/b":{"type":"object","properties":{"inner":{"type":"object","properties":{"n":{"type":"string"}}}}}}}`
	sw := load(t, root)
	an := analysis.New(sw)
	if err := analysis.Flatten(analysis.FlattenOpts{Spec: an, BasePath: "/tmp/x.json", KeepNames: true}); err != nil {
		t.Errorf("flatten with KeepNames fails on a well-formed single-document bundle: %v", err)
	}
}

// F14 (C09): a definition named "100%zz" makes analysis.New panic.
func TestF14_PercentName(t *testing.T) {
	sw := load(t, `{"swagger":"2.0","paths":{},"definitions":{"100%zz":{"type":"string"}}}`)
	noPanic(t, "New with definition 100%zz", func() { analysis.New(sw) })
}

// F14b (C09): a path template with an invalid escape makes full Flatten panic (operations index).
func TestF14b_PercentPath(t *testing.T) {
	sw := load(t, `{"swagger":"2.0","paths":{"/a%zz":{"get":{"operationId":"x","responses":{"200":{"description":"ok","schema":{"type":"object","properties":{"n":{"type":"string"}}}}}}}}}`)
	noPanic(t, "New+Flatten with path /a%zz", func() {
		an := analysis.New(sw)
		_ = analysis.Flatten(analysis.FlattenOpts{Spec: an, BasePath: "/tmp/x.json"})
	})
}

// F16 (C01/C02): an imported schema whose inner $ref targets a definition with '#' in its name:
// normalize.RebaseRef splits the reference on every '#' and keeps only the piece before the second one.
func TestF16_HashInImportedRef(t *testing.T) {
	dir := t.TempDir()
	aux := `{"definitions":{"holder":{"type":"object","properties":{"p":{"$ref":"#/definitions/a%23b"}}},"a#b":{"type":"object","properties":{"id":{"type":"integer"}}}}}`
	if err := os.WriteFile(filepath.Join(dir, "aux.json"), []byte(aux), 0o600); err != nil {
		t.Fatal(err)
	}
	root := `{"swagger":"2.0","paths":{"/a":{"get":{"responses":{"200":{"description":"ok","schema":{"$ref":"aux.json#/definitions/holder"}}}}}}}`
	rootPath := filepath.Join(dir, "root.json")
	if err := os.WriteFile(rootPath, []byte(root), 0o600); err != nil {
		t.Fatal(err)
	}
	sw := load(t, root)
	an := analysis.New(sw)
	if err := analysis.Flatten(analysis.FlattenOpts{Spec: an, BasePath: rootPath, Minimal: true}); err != nil {
		t.Fatalf("flatten: %v", err)
	}
	h, ok := sw.Definitions["holder"]
	if !ok {
		t.Fatalf("holder not imported: %v", keys(sw.Definitions))
	}
	p := h.Properties["p"]
	target := p.Ref.String()
	// the property must still designate the imported definition a#b (under whatever name it was given)
	found := false
	for name, d := range sw.Definitions {
		if _, has := d.Properties["id"]; has && (target == "#/definitions/"+name || target == "#/definitions/a%23b") {
			found = true
		}
	}
	if !found {
		t.Errorf("property p of the imported holder now refers to %q; definitions: %v", target, keys(sw.Definitions))
	}
}

// Observation (C09, not decided by the static rules): a dangling local $ref to a missing top-level definition.
func TestObs_DanglingLocalRef(t *testing.T) {
	sw := load(t, `{"swagger":"2.0","paths":{"/a":{"get":{"responses":{"200":{"description":"ok","schema":{"$ref":"#/definitions/missing"}}}}}},"definitions":{"A":{"type":"string"}}}`)
	an := analysis.New(sw)
	for _, o := range []analysis.FlattenOpts{{Minimal: true}, {}, {Expand: true}} {
		o.Spec = analysis.New(load(t, `{"swagger":"2.0","paths":{"/a":{"get":{"responses":{"200":{"description":"ok","schema":{"$ref":"#/definitions/missing"}}}}}},"definitions":{"A":{"type":"string"}}}`))
		o.BasePath = "/tmp/x.json"
		err := analysis.Flatten(o)
		t.Logf("Minimal=%v Expand=%v -> err=%v", o.Minimal, o.Expand, err)
		if err == nil {
			t.Errorf("Flatten reports success although #/definitions/missing cannot be resolved (Minimal=%v Expand=%v)", o.Minimal, o.Expand)
		}
	}
	_ = an
}

// F18 candidate (C07): operations.OpRefs.Less compares the mangled Key only; two operations whose
// "method path" mangle to the same Go name tie, and sort.Sort leaves them in map order.
func TestF18_MangledKeyTie(t *testing.T) {
	doc := `{"swagger":"2.0","info":{"title":"t","version":"1"},"paths":{
	 "/a-b":{"get":{"parameters":[{"name":"body","in":"body","schema":{"type":"object","properties":{"x":{"type":"object","properties":{"p":{"type":"string"}}}}}}],"responses":{"200":{"description":"ok"}}}},
	 "/a_b":{"get":{"parameters":[{"name":"body","in":"body","schema":{"type":"object","properties":{"y":{"type":"object","properties":{"q":{"type":"integer"}}}}}}],"responses":{"200":{"description":"ok"}}}}}}`
	seen := map[string]int{}
	for i := 0; i < 60; i++ {
		sw := load(t, doc)
		if err := analysis.Flatten(analysis.FlattenOpts{Spec: analysis.New(sw), BasePath: "/tmp/x.json", Minimal: false}); err != nil {
			t.Fatalf("flatten: %v", err)
		}
		b, _ := json.Marshal(sw)
		seen[string(b)]++
		for p, pi := range sw.Paths.Paths {
			if sch := pi.Get.Parameters[0].Schema; sch.Ref.String() == "" {
				t.Fatalf("the body of GET %s is still inline after a full flatten (C03)", p)
			}
		}
	}
	if len(seen) != 1 {
		t.Errorf("Flatten produced %d distinct outputs over 60 runs of the same input", len(seen))
		for k := range seen {
			t.Logf("%.400s", k)
		}
	}
}

// F19 candidate (C09): a $ref to a response position of an operation, shared by two callers, reaches
// SplitKey.BuildName with a start index beyond the key's length.
func TestF19_PointerToOperationResponse(t *testing.T) {
	for _, target := range []string{"#/paths/~1pets/get/responses/200", "#/paths/~1pets/get/responses", "#/paths/~1pets/get/parameters/0"} {
		doc := `{"swagger":"2.0","info":{"title":"t","version":"1"},"paths":{"/pets":{"get":{
		 "parameters":[{"name":"body","in":"body","schema":{"type":"object","properties":{"a":{"type":"string"}}}}],
		 "responses":{"200":{"description":"ok","schema":{"type":"object","properties":{"b":{"type":"string"}}}}}}}},
		 "definitions":{"x":{"type":"object","properties":{"p":{"$ref":"` + target + `"}}},"y":{"type":"object","properties":{"q":{"$ref":"` + target + `"}}}}}`
		for _, minimal := range []bool{true, false} {
			sw := load(t, doc)
			noPanic(t, target, func() {
				_ = analysis.Flatten(analysis.FlattenOpts{Spec: analysis.New(sw), BasePath: "/tmp/x.json", Minimal: minimal})
			})
		}
	}
}

// F22 candidate (C03): the inline complex schema of a path-level body parameter of a path item that declares
// no operation gets no name (names are derived from the operations of the path) and stays inline after a full flatten.
func TestF22_PathLevelParamWithoutOperation(t *testing.T) {
	doc := `{"swagger":"2.0","info":{"title":"t","version":"1"},"paths":{
	 "/a":{"parameters":[{"name":"body","in":"body","schema":{"type":"object","properties":{"x":{"type":"string"}}}}]},
	 "/b":{"get":{"responses":{"200":{"description":"ok"}}}}}}`
	sw := load(t, doc)
	if err := analysis.Flatten(analysis.FlattenOpts{Spec: analysis.New(sw), BasePath: "/tmp/x.json", Minimal: false}); err != nil {
		t.Fatalf("flatten: %v", err)
	}
	if sch := sw.Paths.Paths["/a"].Parameters[0].Schema; sch.Ref.String() == "" {
		b, _ := json.Marshal(sw)
		t.Errorf("the object schema of the path-level parameter is still inline after a full flatten: %.300s", b)
	}
}

// F24 (C01): with an empty BasePath (a document held in memory) normalizeRef rebuilt every local $ref from its last
// token: the anonymous pointer '#/definitions/a/properties/b' was re-pointed to the unrelated definition 'b'.
func TestF24_EmptyBasePathRetargetsPointer(t *testing.T) {
	doc := `{"swagger":"2.0","info":{"title":"x","version":"1"},
	  "paths":{"/a":{"get":{"responses":{"200":{"description":"ok","schema":{"$ref":"#/definitions/a/properties/b"}}}}}},
	  "definitions":{
	    "a":{"type":"object","properties":{"b":{"type":"object","properties":{"x":{"type":"string"}}}}},
	    "b":{"type":"integer"}}}`
	sw := load(t, doc)
	if err := analysis.Flatten(analysis.FlattenOpts{Spec: analysis.New(sw), BasePath: "", Minimal: true}); err != nil {
		t.Fatalf("flatten: %v", err)
	}
	if ref := sw.Paths.Paths["/a"].Get.Responses.StatusCodeResponses[200].Schema.Ref.String(); ref == "#/definitions/b" {
		t.Errorf("the response (an object with a string property) now refers to the integer definition %q", ref)
	}
}

// F25 (C04): a full flatten of a complex inline schema under "not" failed with "unhandled parent schema rewrite",
// whatever holds the parent schema (a definition, a property, items).
func TestF25_ComplexSchemaUnderNot(t *testing.T) {
	for _, doc := range []string{
		`{"swagger":"2.0","info":{"title":"x","version":"1"},"paths":{},
	  "definitions":{"a":{"type":"object","not":{"type":"object","properties":{"x":{"type":"string"}}}}}}`,
		`{"swagger":"2.0","info":{"title":"x","version":"1"},"paths":{},
	  "definitions":{"a":{"type":"object","properties":{"p":{"not":{"type":"object","properties":{"x":{"type":"string"}}}}}}}}`,
		`{"swagger":"2.0","info":{"title":"x","version":"1"},"paths":{},
	  "definitions":{"a":{"type":"array","items":{"not":{"type":"object","properties":{"x":{"type":"string"}}}}}}}`,
		`{"swagger":"2.0","info":{"title":"x","version":"1"},"paths":{},
	  "definitions":{"a":{"type":"object","additionalProperties":{"not":{"type":"object","properties":{"x":{"type":"string"}}}}}}}`,
	} {
		sw := load(t, doc)
		if err := analysis.Flatten(analysis.FlattenOpts{Spec: analysis.New(sw), BasePath: "", Minimal: false}); err != nil {
			t.Errorf("full flatten of a well-formed single document failed: %v", err)
		}
	}
}

// F26 (C01): a definition of the user's whose name contains "OAIGen" and which is a $ref to a definition of another
// document was taken for a generated definition, merged into its referers and deleted.
func TestF26_UserDefinitionNamedLikeGenerated(t *testing.T) {
	dir := t.TempDir()
	root := `{"swagger":"2.0","info":{"title":"t","version":"1"},
 "paths":{"/a":{"get":{"operationId":"getA","responses":{"200":{"description":"ok","schema":{"$ref":"#/definitions/myOAIGenThing"}}}}}},
 "definitions":{"myOAIGenThing":{"$ref":"sub/aux.json#/definitions/thing"}}}`
	if err := os.MkdirAll(filepath.Join(dir, "sub"), 0o755); err != nil {
		t.Fatal(err)
	}
	if err := os.WriteFile(filepath.Join(dir, "sub", "aux.json"), []byte(`{"definitions":{"thing":{"type":"object","properties":{"n":{"type":"string"}}}}}`), 0o600); err != nil {
		t.Fatal(err)
	}
	for _, minimal := range []bool{true, false} {
		sw := load(t, root)
		if err := analysis.Flatten(analysis.FlattenOpts{Spec: analysis.New(sw), BasePath: filepath.Join(dir, "root.json"), Minimal: minimal}); err != nil {
			t.Fatalf("flatten: %v", err)
		}
		if _, ok := sw.Definitions["myOAIGenThing"]; !ok {
			t.Errorf("minimal=%v: the pre-existing definition myOAIGenThing has disappeared (RemoveUnused is off)", minimal)
		}
	}
}

// F27 (C20): an empty tuple ({"type":"array","items":[]}) classified differently directly and through a $ref — the
// flags tested lists of the schema against nil, which the JSON round trip of the $ref expansion does not preserve.
func TestF27_EmptyTupleThroughRef(t *testing.T) {
	sw := load(t, `{"swagger":"2.0","info":{"title":"t","version":"1"},"paths":{},
 "definitions":{"e":{"type":"array","items":[]}}}`)
	target := sw.Definitions["e"]
	d, err := analysis.Schema(analysis.SchemaOpts{Schema: &target, Root: sw})
	if err != nil {
		t.Fatal(err)
	}
	r, err := analysis.Schema(analysis.SchemaOpts{Schema: spec.RefSchema("#/definitions/e"), Root: sw})
	if err != nil {
		t.Fatal(err)
	}
	if d.IsArray != r.IsArray || d.IsSimpleArray != r.IsSimpleArray || d.IsSimpleSchema != r.IsSimpleSchema || d.IsTuple != r.IsTuple {
		t.Errorf("a $ref classifies differently from its target: direct array=%v simple=%v, via $ref array=%v simple=%v", d.IsArray, d.IsSimpleSchema, r.IsArray, r.IsSimpleSchema)
	}
}

// F28 (C15): a $ref to a shared parameter that is itself a $ref came back as a nameless placeholder, without the
// callback being called.
func TestF28_ChainedParameterRef(t *testing.T) {
	sw := load(t, `{"swagger":"2.0","info":{"title":"t","version":"1"},
 "paths":{"/a":{"get":{"operationId":"getA","parameters":[{"$ref":"#/parameters/a"}],"responses":{"200":{"description":""}}}}},
 "parameters":{"a":{"$ref":"#/parameters/b"},"b":{"name":"b","in":"query","type":"string"}}}`)
	a := analysis.New(sw)
	calls := 0
	for k, p := range a.SafeParamsFor("get", "/a", func(spec.Parameter, error) bool { calls++; return true }) {
		if p.Ref.String() != "" || p.Name == "" {
			t.Errorf("unresolved placeholder under key %q ($ref %q), callback calls: %d", k, p.Ref.String(), calls)
		}
	}
	if calls == 0 {
		t.Errorf("the callback was not told about the parameter that cannot be resolved to a parameter object")
	}
}

// F29 candidate (C15, known finding): parameters are merged under in#GoName(name): distinct names that mangle to the
// same Go identifier override each other.
func TestF29_OverrideKeyConflatesNames(t *testing.T) {
	sw := load(t, `{"swagger":"2.0","info":{"title":"t","version":"1"},
 "paths":{"/a":{
    "parameters":[{"name":"foo-bar","in":"query","type":"string"}],
    "get":{"operationId":"getA","parameters":[
      {"name":"foo_bar","in":"query","type":"string"},
      {"name":"foo bar","in":"query","type":"string"}
    ],"responses":{"200":{"description":""}}}}}}`)
	if got := len(analysis.New(sw).ParamsFor("get", "/a")); got != 3 {
		t.Errorf("ParamsFor reports %d parameters for three declarations with three different names in one location", got)
	}
}

// F30 (C04): in Expand mode the loop of stripPointersAndOAIGen repeated the full-flattening naming of inline schemas
// (it tested Minimal only, step 5 of Flatten tests Minimal and Expand). A cyclic bundle with one $ref-free colliding
// import referenced twice made Flatten fail on a JSON pointer into a schema that the naming had moved.
func TestF30_ExpandDoesNotNameInlineSchemas(t *testing.T) {
	const root = `{
 "swagger": "2.0", "info": {"title": "t", "version": "1"},
 "paths": {"/a": {"get": {"operationId": "getA", "responses": {
   "200": {"description": "ok", "schema": {"$ref": "sub/aux.json#/definitions/holder"}}
 }}}},
 "definitions": {"thing": {"type": "object", "properties": {"r": {"type": "string"}}}}
}`
	const aux = `{"definitions": {
 "holder": {"type": "object", "properties": {
    "self": {"$ref": "#/definitions/holder"},
    "a": {"type": "object", "properties": {"x": {"$ref": "#/definitions/thing"}}},
    "b": {"type": "object", "properties": {"y": {"$ref": "#/definitions/thing"}}}
 }},
 "thing": {"type": "string"}
}}`
	for _, o := range []analysis.FlattenOpts{{Minimal: true}, {}, {Expand: true}} {
		dir := t.TempDir()
		if err := os.MkdirAll(filepath.Join(dir, "sub"), 0o755); err != nil {
			t.Fatal(err)
		}
		rootPath := filepath.Join(dir, "root.json")
		_ = os.WriteFile(rootPath, []byte(root), 0o600)
		_ = os.WriteFile(filepath.Join(dir, "sub", "aux.json"), []byte(aux), 0o600)
		sw := load(t, root)
		o.Spec, o.BasePath = analysis.New(sw), rootPath
		if err := analysis.Flatten(o); err != nil {
			t.Errorf("Minimal=%t Expand=%t: Flatten fails on a well-formed bundle: %v", o.Minimal, o.Expand, err)
			continue
		}
		if o.Expand {
			for name, d := range sw.Definitions {
				if _, generated := d.Extensions["x-go-gen-location"]; generated {
					t.Errorf("Expand: the inline schema %q was moved to a new definition, as in full flattening", name)
				}
			}
		}
	}
}
